---- MODULE MCTimeGrid ----
(* constant wrappers for TimeGrid: ticks are HALF units; durations 1..12 units, dt in
   {1/2, 1, 3/2, 2, 3, 5, 7, 13} units (DESIGN 3.5), evaluation sets = subsets (<= 2 points) of a
   7-point set containing 0, the end, a grid multiple, off-grid points and the point next to the end *)
EXTENDS TimeGrid
Pool(d, s) == {0, 1, s, 2 * s + 1, d \div 2, d - 1, d} \cap (0..d)
EvSets(d, s) == {E \in SUBSET Pool(d, s) : Cardinality(E) <= 2}
ScnFor(Ds, Dts) == UNION {{[D |-> p[1], dt |-> p[2], ev |-> E] : E \in EvSets(p[1], p[2])} : p \in Ds \X Dts}
cDtAll == {1, 2, 3, 4, 6, 10, 14, 26}
cScnFull  == ScnFor({2 * u : u \in 1..12}, cDtAll)
cScnSmall == ScnFor({2 * u : u \in 1..6}, cDtAll)
cScnTiny  == ScnFor({2 * u : u \in 1..4}, {1, 2, 3, 4, 6, 10})
cExact == {0}
cFloat == {0 - 1, 0, 1}
====
