---- MODULE Observables ----
(***************************************************************************************************
C13 / C15 -- what a backend REPORTS for a built-in observable, and the sampling contract.

Part 1 (C13).  A cell is (backend, observable, representation of the state handed to the callbacks,
  norm class of the state the backend holds, canonical / not, dark-atom padding).
  MECHANISM   Patched(backend, obs)     monkeypatch_observables of MPSConfig / SVConfig (which isinstance
                                        tests, in which order, `choose` on the state type);
              Accepts(impl, kind)       which state classes an implementation can be called with;
              AtCallback(backend, ...)  what the backend does to its state before calling the callbacks
                                        (MPSBackendImpl.fill_results: (1/norm) * state, then padding;
                                         SVBackendImpl._apply_observables: the state as it is);
              Homog(impl)               how the implementation scales when the state is scaled.
  REQUIREMENT Reported = Definition on the NORMALISED state, in its physical range; the dispatch is
              total on every cell a backend can meet.
  Values are symbolic: a reported value is <<definition id, scale class>> with scale class
  "one" (value on the normalised state) or "s" (multiplied by a power of the norm / trace).

Part 2 (C15).  MPS.sample's batching loop and apply_measurement_errors as actions on counters:
  count conservation, string length, position / letter law, which rate flips which letter, and the
  guard deciding whether the readout channel is applied.
***************************************************************************************************)
EXTENDS Integers, Sequences, FiniteSets, TLC

CONSTANTS MaxShots,     \* sampling: every shot number 1..MaxShots
          BatchSize,    \* 32 in the code
          MaxAtoms,     \* order law on every basis index of 1..MaxAtoms atoms
          Variant,      \* "code" | "sv_normalises" (candidate repair) | "fill_unnormalised" | "fp_fn_swapped" | "reverse_sites"
          LogCells

Backends == {"mps", "sv"}
Obs == {"occupation", "correlation_matrix", "energy", "energy_second_moment", "energy_variance",
        "fidelity", "expectation", "entanglement_entropy", "bitstrings"}
Kinds == {"StateVector", "DensityMatrix", "MPS"}
NormClasses == {"unit", "scaled"}

---------------------------------------------------------------------------------------------------
(* MECHANISM: dispatch *)

\* MPSConfig.monkeypatch_observables: if / elif chain on the observable class
PatchedMPS(o) ==
  CASE o = "occupation" -> "qubit_occupation_mps_impl"
    [] o = "energy_variance" -> "energy_variance_mps_impl"
    [] o = "energy_second_moment" -> "energy_second_moment_mps_impl"
    [] o = "correlation_matrix" -> "correlation_matrix_mps_impl"
    [] o = "energy" -> "energy_mps_impl"
    [] OTHER -> "pulser_default"

\* SVConfig.monkeypatch_observables: three independent `if`s, the last with an `elif`; every patched
\* implementation is choose(state_vector_version, density_matrix_version)
PatchedSV(o) ==
  LET a1 == IF o = "occupation" THEN "choose_occupation" ELSE "pulser_default"
      a2 == IF o = "correlation_matrix" THEN "choose_correlation" ELSE a1
      a3 == IF o = "energy_variance" THEN "choose_variance"
            ELSE IF o = "energy_second_moment" THEN "choose_second_moment" ELSE a2
  IN a3

Patched(b, o) == IF b = "mps" THEN PatchedMPS(o) ELSE PatchedSV(o)

\* which state classes an implementation can be called with (everything else raises)
Accepts(impl, o, kind) ==
  CASE impl \in {"qubit_occupation_mps_impl", "energy_variance_mps_impl", "energy_second_moment_mps_impl",
                 "correlation_matrix_mps_impl", "energy_mps_impl"} -> kind = "MPS"
    [] impl \in {"choose_occupation", "choose_correlation", "choose_variance", "choose_second_moment"} ->
         kind \in {"StateVector", "DensityMatrix"}        \* choose(): TypeError otherwise
    [] OTHER ->   \* pulser's own apply: state.sample / target.overlap(state) / operator.expect(state) / hamiltonian.expect(state)
         IF o = "entanglement_entropy" THEN kind = "MPS"  \* emu_mps.EntanglementEntropy: NotImplementedError otherwise
         ELSE IF o = "expectation" THEN kind # "DensityMatrix"   \* DenseOperator.expect asserts a StateVector
         ELSE TRUE

\* representations a backend hands to its callbacks
Meets(b) == IF b = "mps" THEN {"MPS"} ELSE {"StateVector", "DensityMatrix"}
\* observables a backend claims to support for a representation (documented refusals excluded:
\* EntanglementEntropy is an emu-mps observable; DenseOperator.expect documents "state: a StateVector instance")
Supported(b, kind) == IF b = "mps" THEN Obs
                      ELSE Obs \ ({"entanglement_entropy"} \cup (IF kind = "DensityMatrix" THEN {"expectation"} ELSE {}))

---------------------------------------------------------------------------------------------------
(* MECHANISM: what reaches the callbacks *)

\* norm class of the state object passed to observable.__call__
AtCallback(b, normHeld) ==
  IF b = "mps"
  THEN IF Variant = "fill_unnormalised" THEN normHeld ELSE "unit"   \* fill_results: normalized_state = 1/norm * state
  ELSE IF Variant = "sv_normalises" THEN "unit" ELSE normHeld        \* _apply_observables passes self.state

\* no built-in implementation divides by the norm / trace itself: a scaled state scales the value
\* (bitstrings: torch.multinomial normalises the weights, sampling is scale invariant)
ScaleInvariant(o) == o = "bitstrings"

Reported(b, o, normHeld) ==
  <<o, IF AtCallback(b, normHeld) = "unit" \/ ScaleInvariant(o) THEN "one" ELSE "s">>

\* MPS padded with dark atoms: extended_mps_factors / extended_mpo_factors insert |g> sites and
\* identity MPO factors of physical dimension 2 (dimension 3 is property C25's finding, excluded here)
PaddingKeepsDefinition(dim) == dim = 2

---------------------------------------------------------------------------------------------------
(* REQUIREMENT (C13) *)
Cells == {c \in [b : Backends, o : Obs, kind : Kinds, norm : NormClasses, canonical : BOOLEAN, dark : BOOLEAN] :
            /\ c.kind \in Meets(c.b) /\ c.o \in Supported(c.b, c.kind)
            /\ (c.dark => c.b = "mps")                 \* emu-sv keeps dark atoms in the register (no padding)
            /\ (~c.canonical => c.kind = "MPS")}

\* the cell under consideration is a variable so that TLC reports every refuted cell (run with -continue)
VARIABLE cell
DispatchTotal == Accepts(Patched(cell.b, cell.o), cell.o, cell.kind)
ReportedIsDefinition == Reported(cell.b, cell.o, cell.norm) = <<cell.o, "one">>
\* physical ranges follow from the definition on a normalised state; a scaled value can leave them
RangeOf(o) == CASE o \in {"occupation", "correlation_matrix", "fidelity"} -> "[0,1]"
                [] o = "energy_variance" -> ">=0"
                [] o = "entanglement_entropy" -> "[0,log d^k]"
                [] OTHER -> "any"
InRange == RangeOf(cell.o) # "any" => Reported(cell.b, cell.o, cell.norm)[2] = "one"

CellVerdict(c) == <<"CELL", c.b, c.o, c.kind, c.norm, IF c.canonical THEN "canonical" ELSE "noncanonical",
                    IF c.dark THEN "dark" ELSE "nodark", Patched(c.b, c.o),
                    IF Accepts(Patched(c.b, c.o), c.o, c.kind) THEN "accepts" ELSE "raises",
                    Reported(c.b, c.o, c.norm)[2]>>
ASSUME LogCells => \A c \in Cells : PrintT(CellVerdict(c))

---------------------------------------------------------------------------------------------------
(* Part 2 -- sampling (C15) *)

\* order / letter law.  A basis state of n qudits is a tuple of levels (0 = g, 1 = r, 2 = x), qudit 1 first.
\* StateVector / DensityMatrix: index = sum level[q] * 2^(n-q); bitstring = format(index, "0nb").
RECURSIVE IndexOf(_, _)
IndexOf(lv, q) == IF q = 0 THEN 0 ELSE lv[q] * 2 ^ (Len(lv) - q) + IndexOf(lv, q - 1)
BinaryDigit(idx, n, p) == (idx \div 2 ^ (n - p)) % 2            \* p-th character of format(idx, "0nb")
SVString(lv) == [p \in 1..Len(lv) |-> BinaryDigit(IndexOf(lv, Len(lv)), Len(lv), p)]
\* MPS.sample: batch_outcomes[:, qubit] = outcome of site qubit; "1" if x == 1 else "0"
MPSString(lv) ==
  [p \in 1..Len(lv) |-> LET q == IF Variant = "reverse_sites" THEN Len(lv) + 1 - p ELSE p
                        IN IF lv[q] = 1 THEN 1 ELSE 0]
\* requirement: character p reads qudit p, and reads 1 exactly for the excited level
Wanted(lv) == [p \in 1..Len(lv) |-> IF lv[p] = 1 THEN 1 ELSE 0]
Tuples(S, n) == [1..n -> S]
OrderLaw == \A n \in 1..MaxAtoms :
               /\ \A lv \in Tuples({0, 1}, n) : SVString(lv) = Wanted(lv) /\ MPSString(lv) = Wanted(lv)
               /\ \A lv \in Tuples({0, 1, 2}, n) : MPSString(lv) = Wanted(lv)

\* readout channel of one character: readout_with_error(c, p_false_pos, p_false_neg) with r < rate
\* the environment decides whether r < p_false_pos / r < p_false_neg
Flip(ch, belowFP, belowFN) ==
  IF Variant = "fp_fn_swapped"
  THEN IF ch = 0 /\ belowFN THEN 1 ELSE IF ch = 1 /\ belowFP THEN 0 ELSE ch
  ELSE IF ch = 0 /\ belowFP THEN 1 ELSE IF ch = 1 /\ belowFN THEN 0 ELSE ch
\* requirement: a 0 can only become 1 through the false-positive rate, a 1 only 0 through the false-negative rate
FlipLaw == \A ch \in {0, 1}, fp \in BOOLEAN, fn \in BOOLEAN :
              /\ (ch = 0 => Flip(ch, fp, fn) = (IF fp THEN 1 ELSE 0))
              /\ (ch = 1 => Flip(ch, fp, fn) = (IF fn THEN 0 ELSE 1))

\* guard of MPS.sample:  `if p_false_neg > 0 or p_false_pos > 0 and self.dim == 2` ... `if p_false_pos > 0 and self.dim > 2: raise`
\* guard of StateVector / DensityMatrix.sample: `if p_false_neg > 0 or p_false_pos > 0`
ChannelMPS(dim, fpPos, fnPos) ==
  LET applied == fnPos \/ (fpPos /\ dim = 2)
      raised == fpPos /\ dim > 2
  IN IF raised THEN "raises" ELSE IF applied THEN "applied" ELSE "skipped"
ChannelSV(fpPos, fnPos) == IF fnPos \/ fpPos THEN "applied" ELSE "skipped"
\* requirement: the channel is applied whenever a rate is positive; qutrit false positives are a documented refusal
GuardLaw == \A dim \in {2, 3}, fp \in BOOLEAN, fn \in BOOLEAN :
               /\ ChannelSV(fp, fn) = (IF fp \/ fn THEN "applied" ELSE "skipped")
               /\ ChannelMPS(dim, fp, fn) = (IF fp /\ dim = 3 THEN "raises" ELSE IF fp \/ fn THEN "applied" ELSE "skipped")

ASSUME OrderLaw
ASSUME FlipLaw
ASSUME GuardLaw

\* batching loop of MPS.sample + per-shot loop of apply_measurement_errors as a state machine
VARIABLES shots, done, sampled, pc, moved, out
svars == <<shots, done, sampled, pc, moved, out, cell>>

AnyCell == CHOOSE c \in Cells : TRUE
SInit == /\ shots \in 1..MaxShots /\ done = 0 /\ sampled = 0 /\ pc = "sample" /\ moved = 0 /\ out = 0 /\ cell = AnyCell
\* the table of Part 1: one initial state per cell, no steps
CInit == /\ cell \in Cells /\ shots = 1 /\ done = 1 /\ sampled = 1 /\ pc = "done" /\ moved = 1 /\ out = 1
CSpec == CInit /\ [][UNCHANGED svars]_svars

\* one iteration of `while shots_done < num_shots`: batch_size = min(max_batch_size, num_shots - shots_done)
Batch == /\ pc = "sample" /\ done < shots
         /\ LET bs == IF BatchSize < shots - done THEN BatchSize ELSE shots - done
            IN /\ done' = done + bs
               /\ sampled' = sampled + bs              \* bitstrings.update: one string per row of batch_outcomes
         /\ UNCHANGED <<shots, pc, moved, out, cell>>
LoopExit == /\ pc = "sample" /\ done >= shots /\ pc' = "readout" /\ UNCHANGED <<shots, done, sampled, moved, out, cell>>
\* apply_measurement_errors: for bitstring, count: for _ in range(count): result[flipped] += 1
MoveOne == /\ pc = "readout" /\ moved < sampled
           /\ moved' = moved + 1 /\ out' = out + 1
           /\ UNCHANGED <<shots, done, sampled, pc, cell>>
Finish == /\ pc = "readout" /\ moved = sampled /\ pc' = "done" /\ UNCHANGED <<shots, done, sampled, moved, out, cell>>
SNext == Batch \/ LoopExit \/ MoveOne \/ Finish
SSpec == SInit /\ [][SNext]_svars /\ WF_svars(SNext)

\* requirement: exactly the requested total, before and after the readout channel
CountConserved == /\ (pc # "sample" => sampled = shots)
                  /\ (pc = "done" => out = shots)
NeverOvershoots == done <= shots /\ sampled <= shots /\ out <= sampled
SamplingTerminates == <>(pc = "done")
====
