---- MODULE NoiseChannels ----
(* C24 -- noise-model channels act on the intended atomic levels.

   An operator on one atom is a function  Lv \X Lv -> Gaussian integers,  op[a,b] = coefficient of the
   elementary transition |a><b| between NAMED levels.  Index matrices (what the code and the user
   write) are turned into named operators through a level order:
       Pulser order     (r, g[, x])   /  (u, d[, x])                 (pulser EIGENSTATES, STATES_RANK)
       emulator order   (zero, one[, x]):  (g, r[, x])  /  (u, d[, x])
                        index 1 (0-based) is the level reported as "1" (Pulser infer_one_state: r / d)

   MECHANISM   = emu_base/jump_lindblad_operators.py:get_lindblad_operators, one action per branch;
                 the code writes EMULATOR indices directly, and for eff_noise in the 'ising' case
                 flips the leading 2x2 block of the user's matrix.
   REQUIREMENT = Pulser's definition of the channel on named levels
                 (HamiltonianData._build_local_collapse_operators): relaxation sqrt(G)|g><r|,
                 dephasing sqrt(2G)|s><s| for s in eigenbasis \cap {r, d}, depolarizing the three
                 Paulis on the first two eigenstates with sqrt(G/4), eff_noise sqrt(rate) * user
                 matrix read in Pulser order.
   Two operator lists are THE SAME CHANNEL iff their dissipators agree on every matrix unit
   (representation independent).  Rates are chosen as squares (relaxation s^2, dephasing 2k^2,
   depolarizing 4k^2, eff_noise s^2) so every square root is an exact integer.                    *)
EXTENDS Integers, Sequences, FiniteSets, TLC

CONSTANTS Amps,          \* amplitude parameters s / k (positive integers)
          PairWeights    \* Gaussian weights w for polarisation pairs  E_ij + w E_kl

\* ------------------------------------------------------------------ Gaussian integers
GZ == <<0, 0>>
G(n) == <<n, 0>>
GAdd(a, b) == <<a[1] + b[1], a[2] + b[2]>>
GSub(a, b) == <<a[1] - b[1], a[2] - b[2]>>
GMul(a, b) == <<a[1] * b[1] - a[2] * b[2], a[1] * b[2] + a[2] * b[1]>>
GConj(a) == <<a[1], 0 - a[2]>>
GNeg(a) == <<0 - a[1], 0 - a[2]>>
GI == <<0, 1>>
ISqrt(n) == CHOOSE k \in 0..n : k * k = n

\* ------------------------------------------------------------------ levels
Bases == {"ising", "XY"}
Dims == {2, 3}
POrder(b, d) == IF b = "ising" THEN (IF d = 2 THEN <<"r", "g">> ELSE <<"r", "g", "x">>)
                ELSE (IF d = 2 THEN <<"u", "d">> ELSE <<"u", "d", "x">>)
OneState(b) == IF b = "ising" THEN "r" ELSE "d"
ZeroState(b) == IF b = "ising" THEN "g" ELSE "u"
EOrder(b, d) == IF d = 2 THEN <<ZeroState(b), OneState(b)>> ELSE <<ZeroState(b), OneState(b), "x">>
Lv(b, d) == {POrder(b, d)[i] : i \in 1..d}
Pos(order, a) == CHOOSE i \in 1..Len(order) : order[i] = a

\* index matrix (1-based) read in a level order  ->  named operator
Named(M, order) == [a \in {order[i] : i \in 1..Len(order)}, c \in {order[i] : i \in 1..Len(order)}
                        |-> M[Pos(order, a), Pos(order, c)]]
ZeroM(d) == [i \in 1..d, j \in 1..d |-> GZ]
Put(M, i, j, v) == [M EXCEPT ![i, j] = v]
ScaleM(s, M, d) == [i \in 1..d, j \in 1..d |-> GMul(G(s), M[i, j])]

\* ------------------------------------------------------------------ dissipator (times 2, to stay integral)
RECURSIVE GSumOver(_, _)
GSumOver(f, S) == IF S = {} THEN GZ ELSE LET x == CHOOSE y \in S : TRUE IN GAdd(f[x], GSumOver(f, S \ {x}))
LdL(op, L, a, c) == GSumOver([k \in L |-> GMul(GConj(op[k, a]), op[k, c])], L)
TwoD1(op, L, m, n, p, q) ==
    GSub(GSub(GMul(G(2), GMul(op[m, p], GConj(op[n, q]))),
              IF n = q THEN LdL(op, L, m, p) ELSE GZ),
         IF m = p THEN LdL(op, L, q, n) ELSE GZ)
RECURSIVE TwoD(_, _, _, _, _, _)
TwoD(ops, L, m, n, p, q) == IF ops = <<>> THEN GZ
                            ELSE GAdd(TwoD1(Head(ops), L, m, n, p, q), TwoD(Tail(ops), L, m, n, p, q))
SameChannel(A, B, L) == \A m \in L, n \in L, p \in L, q \in L : TwoD(A, L, m, n, p, q) = TwoD(B, L, m, n, p, q)

\* ------------------------------------------------------------------ user matrices for eff_noise
\* spec of a user matrix in PULSER index order: sequence of <<i, j, w>>  (sum of w * E_ij)
UserM(spec, d) == [i \in 1..d, j \in 1..d |->
                     GSumOver([k \in 1..Len(spec) |-> IF spec[k][1] = i /\ spec[k][2] = j THEN spec[k][3] ELSE GZ], 1..Len(spec))]
Units(d) == {<< <<i, j, G(1)>> >> : i \in 1..d, j \in 1..d}
Pairs(d) == {<< <<i, j, G(1)>>, <<k, l, w>> >> : i \in 1..d, j \in 1..d, k \in 1..d, l \in 1..d, w \in PairWeights}
UserSpecs(d) == Units(d) \cup {s \in Pairs(d) : s[1][1] * d + s[1][2] < s[2][1] * d + s[2][2]}

\* ------------------------------------------------------------------ cases
\* Pulser admits relaxation only for 'ising'; leakage (dim 3) always comes with eff_noise, other
\* channels may be present next to it.
Cases ==
    [basis : {"ising"}, dim : Dims, noise : {"relaxation"}, s : Amps, user : {<<>>}]
    \cup [basis : Bases, dim : Dims, noise : {"dephasing", "depolarizing"}, s : Amps, user : {<<>>}]
    \cup UNION {[basis : Bases, dim : {d}, noise : {"eff_noise"}, s : Amps, user : UserSpecs(d)] : d \in Dims}

\* ------------------------------------------------------------------ REQUIREMENT: Pulser's definition
PulserOps(c) ==
    LET L == Lv(c.basis, c.dim)
        po == POrder(c.basis, c.dim)
        b == po[1]
        a == po[2]
        E(x, y, v) == [m \in L, n \in L |-> IF m = x /\ n = y THEN v ELSE GZ]
        Plus(f, g) == [m \in L, n \in L |-> GAdd(f[m, n], g[m, n])]
    IN CASE c.noise = "relaxation" -> << E("g", "r", G(ISqrt(c.s * c.s))) >>            \* rate s^2, sqrt(rate)|g><r|
         [] c.noise = "dephasing" ->                                                       \* rate 2 s^2, sqrt(2 rate) |t><t|, t in {d, r}
              LET t == IF c.basis = "ising" THEN "r" ELSE "d" IN << E(t, t, G(ISqrt(2 * (2 * c.s * c.s)))) >>
         [] c.noise = "depolarizing" ->                                                    \* rate 4 s^2, sqrt(rate / 4)
              LET k == G(ISqrt((4 * c.s * c.s) \div 4)) IN
              << Plus(E(a, b, k), E(b, a, k)),
                 Plus(E(a, b, GMul(GI, k)), E(b, a, GNeg(GMul(GI, k)))),
                 Plus(E(b, b, k), E(a, a, GNeg(k))) >>
         [] c.noise = "eff_noise" -> << Named(ScaleM(ISqrt(c.s * c.s), UserM(c.user, c.dim), c.dim), po) >>

\* ------------------------------------------------------------------ MECHANISM: get_lindblad_operators
VARIABLES case, phase, code
vars == <<case, phase, code>>

Init == case \in Cases /\ phase = "chosen" /\ code = <<>>

EO == EOrder(case.basis, case.dim)

MapRelaxation ==          \* relaxation[0, 1] = sqrt(rate)
    /\ phase = "chosen" /\ case.noise = "relaxation"
    /\ code' = << Named(Put(ZeroM(case.dim), 1, 2, G(ISqrt(case.s * case.s))), EO) >>
    /\ phase' = "mapped" /\ UNCHANGED case

\* DephKind = "sigmaz"    : c = sqrt(rate / 2);  [0,0] = c, [1,1] = -c          (the code as found)
\*          = "projector" : [1,1] = sqrt(2 rate)   (Pulser's own form, written on the emulator's "one" index)
\*          = "sigmaz2_projector3" : the first for two levels, the second when the leakage level exists
CONSTANT DephKind
MapDephasing ==
    /\ phase = "chosen" /\ case.noise = "dephasing"
    /\ LET k == G(ISqrt((2 * case.s * case.s) \div 2))
           k2 == G(ISqrt(2 * (2 * case.s * case.s)))
       IN code' = IF DephKind = "sigmaz" \/ (DephKind = "sigmaz2_projector3" /\ case.dim = 2)
                  THEN << Named(Put(Put(ZeroM(case.dim), 1, 1, k), 2, 2, GNeg(k)), EO) >>
                  ELSE << Named(Put(ZeroM(case.dim), 2, 2, k2), EO) >>
    /\ phase' = "mapped" /\ UNCHANGED case

MapDepolarizing ==        \* c = sqrt(rate / 4);  x, y, z on indices 0, 1
    /\ phase = "chosen" /\ case.noise = "depolarizing"
    /\ LET k == G(ISqrt((4 * case.s * case.s) \div 4))
           Z == ZeroM(case.dim)
       IN code' = << Named(Put(Put(Z, 1, 2, k), 2, 1, k), EO),
                     Named(Put(Put(Z, 1, 2, GNeg(GMul(GI, k))), 2, 1, GMul(GI, k)), EO),
                     Named(Put(Put(Z, 1, 1, k), 2, 2, GNeg(k)), EO) >>
    /\ phase' = "mapped" /\ UNCHANGED case

\* CodeFlip is the transformation the code applies to the scaled user matrix for 'ising'.
\* "block2" = tensor[:2,:2] = flip(tensor[:2,:2], (0,1))   (the code as found)
\* "perm"   = full index permutation [1,0,2]                (the intended relabelling)
CONSTANT FlipKind
Flip(M, d) ==
    IF FlipKind = "block2"
    THEN [i \in 1..d, j \in 1..d |-> IF i <= 2 /\ j <= 2 THEN M[3 - i, 3 - j] ELSE M[i, j]]
    ELSE LET P(i) == IF i <= 2 THEN 3 - i ELSE i IN [i \in 1..d, j \in 1..d |-> M[P(i), P(j)]]

MapEffNoiseXY ==          \* "lindblad operators with XY pulser basis are fine": sqrt(rate) * op, unchanged
    /\ phase = "chosen" /\ case.noise = "eff_noise" /\ case.basis = "XY"
    /\ code' = << Named(ScaleM(ISqrt(case.s * case.s), UserM(case.user, case.dim), case.dim), EO) >>
    /\ phase' = "mapped" /\ UNCHANGED case

MapEffNoiseIsing ==       \* sqrt(rate) * op, then the flip
    /\ phase = "chosen" /\ case.noise = "eff_noise" /\ case.basis = "ising"
    /\ code' = << Named(Flip(ScaleM(ISqrt(case.s * case.s), UserM(case.user, case.dim), case.dim), case.dim), EO) >>
    /\ phase' = "mapped" /\ UNCHANGED case

Next == MapRelaxation \/ MapDephasing \/ MapDepolarizing \/ MapEffNoiseXY \/ MapEffNoiseIsing
Spec == Init /\ [][Next]_vars

\* ------------------------------------------------------------------ properties
Holds(c, ops) == SameChannel(ops, PulserOps(c), Lv(c.basis, c.dim))
IntendedLevels == phase = "mapped" => Holds(case, code)
\* special readings of the statement, kept separate so a counter-example names the clause
RelaxationIsRtoG == (phase = "mapped" /\ case.noise = "relaxation") =>
                       \A a \in Lv(case.basis, case.dim), b \in Lv(case.basis, case.dim) :
                          (code[1][a, b] # GZ) <=> (a = "g" /\ b = "r")
RateAsSqrt == (phase = "mapped" /\ case.noise = "relaxation") => code[1]["g", "r"] = G(case.s)
TwoLevelIntended == (phase = "mapped" /\ case.dim = 2) => Holds(case, code)

\* every case with the code's operators (emulator INDEX matrices are recovered by the harness from
\* the real code; here the verdict of the model is logged for the binding)
LogMap == (phase' = "mapped") => PrintT(<<"CASE", case', code', Holds(case', code')>>)
====
