* part 1 (C13): run with -continue; Variant "code" is refuted on the unnormalised emu-sv cells, "sv_normalises" is not
SPECIFICATION CSpec
CONSTANTS
  MaxShots = 70
  BatchSize = 32
  MaxAtoms = 4
  Variant = "code"
  LogCells = TRUE
INVARIANT DispatchTotal
INVARIANT ReportedIsDefinition
INVARIANT InRange
