---- MODULE MCQubitOrder ----
(* constant wrappers for QubitOrder: the revisions of the mechanism (see QubitOrderFn, Variant) *)
EXTENDS QubitOrder
\* cV<siteOrder><padDim><small><allTags>      cV0000 = the code as found, cV1111 = every index space repaired
cV0000 == [siteOrder |-> FALSE, padDim |-> FALSE, small |-> FALSE, allTags |-> FALSE]
cV0001 == [siteOrder |-> FALSE, padDim |-> FALSE, small |-> FALSE, allTags |-> TRUE]
cV0010 == [siteOrder |-> FALSE, padDim |-> FALSE, small |-> TRUE, allTags |-> FALSE]
cV0011 == [siteOrder |-> FALSE, padDim |-> FALSE, small |-> TRUE, allTags |-> TRUE]
cV0100 == [siteOrder |-> FALSE, padDim |-> TRUE, small |-> FALSE, allTags |-> FALSE]
cV0101 == [siteOrder |-> FALSE, padDim |-> TRUE, small |-> FALSE, allTags |-> TRUE]
cV0110 == [siteOrder |-> FALSE, padDim |-> TRUE, small |-> TRUE, allTags |-> FALSE]
cV0111 == [siteOrder |-> FALSE, padDim |-> TRUE, small |-> TRUE, allTags |-> TRUE]
cV1000 == [siteOrder |-> TRUE, padDim |-> FALSE, small |-> FALSE, allTags |-> FALSE]
cV1001 == [siteOrder |-> TRUE, padDim |-> FALSE, small |-> FALSE, allTags |-> TRUE]
cV1010 == [siteOrder |-> TRUE, padDim |-> FALSE, small |-> TRUE, allTags |-> FALSE]
cV1011 == [siteOrder |-> TRUE, padDim |-> FALSE, small |-> TRUE, allTags |-> TRUE]
cV1100 == [siteOrder |-> TRUE, padDim |-> TRUE, small |-> FALSE, allTags |-> FALSE]
cV1101 == [siteOrder |-> TRUE, padDim |-> TRUE, small |-> FALSE, allTags |-> TRUE]
cV1110 == [siteOrder |-> TRUE, padDim |-> TRUE, small |-> TRUE, allTags |-> FALSE]
cV1111 == [siteOrder |-> TRUE, padDim |-> TRUE, small |-> TRUE, allTags |-> TRUE]
cMpsOnly == {"mps"}
cSvOnly  == {"sv"}
cBoth    == {"mps", "sv"}
cTagsBase == {"base"}
cTagsAll  == {"base", "suffix", "both"}
====
