---- MODULE MCQubitOrder ----
(* constant wrappers for QubitOrder: the revisions of the mechanism (see QubitOrderFn, Variant) *)
EXTENDS QubitOrder
\* cV<siteOrder><padDim><small>
cV000 == [siteOrder |-> FALSE, padDim |-> FALSE, small |-> FALSE]     \* the code as found
cV001 == [siteOrder |-> FALSE, padDim |-> FALSE, small |-> TRUE]
cV010 == [siteOrder |-> FALSE, padDim |-> TRUE,  small |-> FALSE]
cV011 == [siteOrder |-> FALSE, padDim |-> TRUE,  small |-> TRUE]
cV100 == [siteOrder |-> TRUE,  padDim |-> FALSE, small |-> FALSE]
cV101 == [siteOrder |-> TRUE,  padDim |-> FALSE, small |-> TRUE]
cV110 == [siteOrder |-> TRUE,  padDim |-> TRUE,  small |-> FALSE]
cV111 == [siteOrder |-> TRUE,  padDim |-> TRUE,  small |-> TRUE]      \* every index space repaired
cMpsOnly == {"mps"}
cSvOnly  == {"sv"}
cBoth    == {"mps", "sv"}
====
