SPECIFICATION Spec
CONSTANT Strict = FALSE
INVARIANT Rejected
INVARIANT Accepted
CHECK_DEADLOCK FALSE
