---- MODULE ConserveTrace ----
(* C28.  Noiseless runs of either backend: norm at every evaluation time, and conservation of the
   reported energy / energy second moment across every window in which the Hamiltonian does not change.
   The window structure is decided HERE from the per-step events (values received by the stepper / written
   into the MPO, compared by the harness with the previous step's: `same`), not by the harness:
     step(k, same)          step k evolved; same = its drive row and interaction matrix equal those of step k-1
     eval(k, normOK, hasE, eqE, hasE2, eqE2)
                            observables evaluated at target time k (energy there is taken with the Hamiltonian of
                            step k-1, or of step 0 at k = 0); eqE / eqE2: equal to the value at the PREVIOUS
                            evaluation time within the budget
   Requirement: normOK always; if no Hamiltonian change happened on the steps between the Hamiltonians used by
   two consecutive evaluations, eqE and eqE2 must hold.                                                        *)
EXTENDS Integers, Sequences, TLC, Json, IOUtils
Traces == JsonDeserialize(IOEnv.TRACE_FILE)
VARIABLES tid, l, bad, k, unbroken, seenEval, windows
vars == <<tid, l, bad, k, unbroken, seenEval, windows>>
Ev == Traces[tid].events
Init == /\ tid \in 1..Len(Traces) /\ l = 1 /\ bad = "none" /\ k = 0 /\ unbroken = TRUE /\ seenEval = FALSE /\ windows = 0
Fail(c) == bad' = c /\ UNCHANGED <<k, unbroken, seenEval, windows>>
Step ==
  /\ bad = "none" /\ l <= Len(Ev)
  /\ LET e == Ev[l] IN
     CASE e.ev = "step" ->
            IF e.k # k THEN Fail("steps-out-of-order")
            ELSE /\ k' = k + 1 /\ bad' = bad /\ UNCHANGED <<seenEval, windows>>
                 \* the Hamiltonian used by an evaluation at time j is that of step j-1 (step 0 for j = 0): a change AT step
                 \* e.k matters for evaluations at times > e.k; step 0 never breaks (there is nothing before it)
                 /\ unbroken' = (unbroken /\ (e.same \/ e.k = 0))
       [] e.ev = "eval" ->
            IF ~e.normOK THEN Fail("state-not-normalised")
            ELSE IF seenEval /\ unbroken /\ e.hasE /\ ~e.eqE THEN Fail("energy-not-conserved-in-constant-window")
            ELSE IF seenEval /\ unbroken /\ e.hasE2 /\ ~e.eqE2 THEN Fail("energy-second-moment-not-conserved-in-constant-window")
            ELSE /\ seenEval' = TRUE /\ unbroken' = TRUE /\ bad' = bad /\ UNCHANGED k
                 /\ windows' = windows + (IF seenEval /\ unbroken /\ e.hasE THEN 1 ELSE 0)
       [] OTHER -> Fail("unknown-event")
  /\ l' = l + 1 /\ UNCHANGED tid
Spec == Init /\ [][Step]_vars
Rejected == (bad # "none") => PrintT(<<"REJECT", Traces[tid].id, l - 1, bad>>)
Accepted == (bad = "none" /\ l = Len(Ev) + 1) => PrintT(<<"ACCEPT", Traces[tid].id, windows>>)
====
