---- MODULE MPOPathBag ----
(* C05, requirement level.  A matrix-product operator read as a weighted finite automaton over the
   sites: the factor of site s (0-based; F[s+1] here) is a set of edges

        [l |-> left bond index, r |-> right bond index, op, u, m, g]

   meaning "block (l, :, :, r) of the factor is  m * (product of the U_ij listed in u) * op".
   op ranges over the alphabet  I  N  SX  SY  (local identity, |r><r|, S^x, S^y on the two lowest
   levels) and  T  (the whole single-site term of that site: drive + detuning + noise, written by
   update_H; g is the generation of the drive values it carries, 0 on every other edge).  Anything
   else met in a real factor is handed over as an opaque op "X..." which is in no expected term.
   The operator the MPO contracts to is the BAG of root-to-sink path products.

   Requirement (PathBagOK): that bag is exactly
        { T_s : every site s }                                   (once update_H has run; generation gen)
     (+) { U_ij * N_i N_j : {i,j} interacting }                   Rydberg
     (+) { 2 U_ij * SX_i SX_j , 2 U_ij * SY_i SY_j : ... }       XY  ( = U_ij (|ud><du| + h.c.) )
   each term exactly once and nothing else, symbolically in the U_ij (so for all values and signs).
   Because the U_ij are kept symbolic and distinct, two different terms can never cancel or merge:
   equality of bags is equality of operators for generic values.                                  *)
EXTENDS Integers, Sequences, FiniteSets, TLC

Edge(l, r, op, u, m, g) == [l |-> l, r |-> r, op |-> op, u |-> u, m |-> m, g |-> g]

\* all edge sequences that start in `root` on the left bond of site 0; part: set of <<channel, path>>
RECURSIVE Ext(_, _, _, _)
Ext(F, n, NS, part) ==
  IF n = NS THEN part
  ELSE Ext(F, n + 1, NS,
           UNION {{<<e.r, Append(p[2], e)>> : e \in {f \in F[n + 1] : f.l = p[1]}} : p \in part})

Paths(F, NS, root, sink) == {p[2] : p \in {q \in Ext(F, 0, NS, {<<root, <<>>>>}) : q[1] = sink}}

RECURSIVE CatU(_, _)
CatU(path, k) == IF k > Len(path) THEN <<>> ELSE path[k].u \o CatU(path, k + 1)
RECURSIVE ProdM(_, _)
ProdM(path, k) == IF k > Len(path) THEN 1 ELSE path[k].m * ProdM(path, k + 1)

TermOf(path) == [ops |-> [k \in 1..Len(path) |-> path[k].op],
                 u   |-> CatU(path, 1),
                 m   |-> ProdM(path, 1),
                 g   |-> [k \in 1..Len(path) |-> path[k].g]]

NoGen(NS) == [s \in 1..NS |-> 0]

\* single-site terms: T on site k (1-based position), identity elsewhere, drive generation gen
TTerms(NS, gen) ==
  IF gen = 0 THEN {}
  ELSE {[ops |-> [s \in 1..NS |-> IF s = k THEN "T" ELSE "I"], u |-> <<>>, m |-> 1,
         g |-> [s \in 1..NS |-> IF s = k THEN gen ELSE 0]] : k \in 1..NS}

Two(NS, p, o, mult) ==
  [ops |-> [s \in 1..NS |-> IF s = p[1] + 1 \/ s = p[2] + 1 THEN o ELSE "I"], u |-> <<p>>, m |-> mult, g |-> NoGen(NS)]

\* interaction terms; E is a set of pairs <<i, j>> with i < j (0-based sites)
ITerms(NS, E, kind) ==
  IF kind = "rydberg" THEN {Two(NS, p, "N", 1) : p \in E}
  ELSE {Two(NS, p, "SX", 2) : p \in E} \cup {Two(NS, p, "SY", 2) : p \in E}

Expected(NS, E, kind, gen) == TTerms(NS, gen) \cup ITerms(NS, E, kind)

Count(P, t) == Cardinality({p \in P : TermOf(p) = t})

\* the requirement as stated
PathBagOKDef(P, NS, E, kind, gen) ==
  /\ \A t \in Expected(NS, E, kind, gen) : Count(P, t) = 1        \* each term exactly once
  /\ \A p \in P : TermOf(p) \in Expected(NS, E, kind, gen)         \* and nothing else

\* the same, in the form TLC evaluates quickly: TermOf is a bijection from the paths onto Expected
\* (into + injective + equal cardinalities).  MPOAutomaton!FormsAgree checks the equivalence on every
\* automaton of the small configurations.
PathBagOKOn(P, NS, E, kind, gen) ==
  LET ex == Expected(NS, E, kind, gen)
      tm == {TermOf(p) : p \in P}
  IN /\ tm \subseteq ex
     /\ Cardinality(tm) = Cardinality(P)
     /\ Cardinality(P) = Cardinality(ex)

PathBagOK(F, NS, root, sink, E, kind, gen) == PathBagOKOn(Paths(F, NS, root, sink), NS, E, kind, gen)

\* diagnosis (used on recorded automata): which clause fails, with one witness
Missing(P, NS, E, kind, gen) == {t \in Expected(NS, E, kind, gen) : Count(P, t) = 0}
Dupl(P, NS, E, kind, gen)    == {t \in Expected(NS, E, kind, gen) : Count(P, t) > 1}
Stray(P, NS, E, kind, gen)   == {TermOf(p) : p \in {q \in P : TermOf(q) \notin Expected(NS, E, kind, gen)}}
====
