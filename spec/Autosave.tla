---- MODULE Autosave ----
(* C27.  save_simulation as a sequence of FILE-SYSTEM OPERATIONS RECORDED FROM THE REAL CODE
   (binding C: the protocol is data, so reordering the operations in the code changes what TLC
   checks) acting on a POSIX-like file model, with a crash possible between any two operations and
   in the middle of a write.

   Saves == <<save_1, save_2, ...>>, save_k == <<[op, src, dst], ...>> with
     op = "create"  open dst for writing (truncate): dst becomes PARTIAL
          "finish"  the write of dst is complete and closed: dst = COMPLETE(k)
          "rename"  atomic rename / replace src -> dst
          "remove"  unlink dst
   File names are arbitrary strings; only Base (the advertised autosave name) is special.          *)
EXTENDS Integers, Sequences, FiniteSets, TLC, Json, IOUtils
Input == JsonDeserialize(IOEnv.PROTO_FILE)
Saves == Input.saves
Base == Input.base
Names == {Base} \cup UNION { UNION {{Saves[k][i].src, Saves[k][i].dst} : i \in 1..Len(Saves[k])} : k \in 1..Len(Saves)}

Absent == [k |-> "absent", v |-> 0]
Partial == [k |-> "partial", v |-> 0]
Complete(v) == [k |-> "complete", v |-> v]

VARIABLES fs, saveNo, pc, crashed, firstDone
vars == <<fs, saveNo, pc, crashed, firstDone>>

Init == /\ fs = [n \in Names |-> Absent] /\ saveNo = 0 /\ pc = 0 /\ crashed = FALSE /\ firstDone = FALSE

Apply(o) ==
  CASE o.op = "create" -> [fs EXCEPT ![o.dst] = Partial]
    [] o.op = "finish" -> [fs EXCEPT ![o.dst] = Complete(saveNo)]
    [] o.op = "rename" -> IF fs[o.src].k = "absent" THEN fs
                          ELSE [fs EXCEPT ![o.dst] = fs[o.src], ![o.src] = Absent]
    [] o.op = "remove" -> [fs EXCEPT ![o.dst] = Absent]
    [] OTHER -> fs

StartSave == /\ ~crashed /\ pc = 0 /\ saveNo < Len(Saves)
             /\ saveNo' = saveNo + 1 /\ pc' = 1 /\ UNCHANGED <<fs, crashed, firstDone>>
StepOp == /\ ~crashed /\ pc >= 1 /\ pc <= Len(Saves[saveNo])
          /\ fs' = Apply(Saves[saveNo][pc]) /\ pc' = pc + 1 /\ UNCHANGED <<saveNo, crashed, firstDone>>
EndSave == /\ ~crashed /\ pc >= 1 /\ pc = Len(Saves[saveNo]) + 1
           /\ pc' = 0 /\ firstDone' = TRUE /\ UNCHANGED <<fs, saveNo, crashed>>
\* a crash freezes the file system in its current state (pc = index of the NEXT operation not executed)
Crash == /\ ~crashed /\ crashed' = TRUE /\ UNCHANGED <<fs, saveNo, pc, firstDone>>
Next == StartSave \/ StepOp \/ EndSave \/ Crash
Spec == Init /\ [][Next]_vars

\* ------------------------------------------------------------------ requirement (C27)
Loadable == fs[Base].k = "complete" /\ fs[Base].v \in {saveNo - 1, saveNo} /\ fs[Base].v >= 1
AdvertisedLoadable == (firstDone /\ crashed) => Loadable
\* a completed save must advertise the NEW snapshot
SaveAdvertisesNew == (firstDone /\ pc = 0 /\ ~crashed) => (fs[Base].k = "complete" /\ fs[Base].v = saveNo)
\* prediction table for the fault-injection binding: one line per crash point
CrashTable == crashed => PrintT(<<"CRASH", saveNo, pc, firstDone, fs[Base].k, fs[Base].v, Loadable>>)
====
