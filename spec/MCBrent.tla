---- MODULE MCBrent ----
EXTENDS Brent
cZero == R(0)
cOne == R(1)
cFour == R(4)
cEight == R(8)
cSixteen == R(16)
cQuarter == Q(1,4)
cMilli == Q(1,1000)
cEighth == Q(1,8)
cOrds6 == {R(1), R(2), R(3), R(0-1), R(0-2), R(0-3)}
cOrdsP2 == {R(1), R(2), R(4), R(0-1), R(0-2), R(0-4)}
cHalf == Q(1,2)
cOrds8 == cOrds6 \cup {Q(1,1000), Q(0-1,1000)}
cOrdsWide == {R(1), R(5), R(40), R(0-1), R(0-5), R(0-40)}
====
