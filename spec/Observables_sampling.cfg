* part 2 (C15): batching / readout loop for every shot number 1..70 + OrderLaw / FlipLaw / GuardLaw assumptions
SPECIFICATION SSpec
CONSTANTS
  MaxShots = 70
  BatchSize = 32
  MaxAtoms = 4
  Variant = "code"
  LogCells = FALSE
INVARIANT CountConserved
INVARIANT NeverOvershoots
PROPERTY SamplingTerminates
