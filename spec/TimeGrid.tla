---- MODULE TimeGrid ----
(* C21 -- the simulation time grid (emu_base/pulser_adapter.py: _get_target_times,
   _unique_observable_times).

   Times are integer TICKS (a common denominator of duration, dt and the requested evaluation
   times; the driver chooses how many ns one tick is).  A floating-point value is a pair
        <<q, r>>    q : the exact (rational) value in ticks
                    r : a rounding residue in "ulps", r \in Resid
   ordered lexicographically.  Two values with the same q are THE SAME POINT OF TIME for every user
   (they differ by ~1e-14 ns) but are DIFFERENT floats: a Python `set` keeps both, `sorted` puts them
   next to each other.  Resid = {0} is exact arithmetic; Resid = {-1,0,1} is IEEE arithmetic with the
   environment (adversary) choosing at most MaxRound operations whose result is not the exact one.

   MECHANISM   (a) Variant = "code"   : transcription of _get_target_times as it is written
                   (relative grid i*dt/duration, union with 1.0 and the observable times, multiply
                    back by the duration, set, sorted) -- one action per statement;
               (b) Variant = "merged" : the same construction in absolute time followed by
                    "points closer than the time tolerance are one point, 0 and duration exact".
   REQUIREMENT what the statement of C21 demands of the list, whatever produced it
               (StrictlyIncreasing, StartsAt0, EndsAtD, ContainsMultiples, ContainsEvalTimes).
   The requirement operators (TimeGridReq.tla) take the list as an argument so that the driver can
   hand the list recorded from the real code to TLC (TimeGridData.tla, binding C).                                  *)
EXTENDS TimeGridReq, TLC

CONSTANTS Scenarios,   \* set of [D |-> ticks, dt |-> ticks, ev |-> set of ticks in 0..D  (= e * D)]
          Resid,       \* {0} or {-1, 0, 1}
          MaxRound,    \* 0, 1 or 2 : number of inexact floating-point results per construction
          Variant,     \* "code" | "merged"
          LogResult    \* TRUE: print <<"G", scenario, plan, targets>> for every finished construction

VARIABLES sc, plan, pc, acc, targets
vars == <<sc, plan, pc, acc, targets>>

-----------------------------------------------------------------------------------------------
(* values and order *)
LtV(a, b) == a[1] < b[1] \/ (a[1] = b[1] /\ a[2] < b[2])
MinV(S) == CHOOSE x \in S : \A y \in S : x = y \/ LtV(x, y)
RECURSIVE SortVals(_)
SortVals(S) == IF S = {} THEN <<>> ELSE LET m == MinV(S) IN <<m>> \o SortVals(S \ {m})

-----------------------------------------------------------------------------------------------
(* REQUIREMENT (C21): TimeGridReq.tla, instantiated for scenario s *)
Multiples(s)          == {i * s.dt : i \in 0..(s.D \div s.dt)}
EndsAtD(T, s)         == EndsAt(T, s.D)                                        \* exactly: the code asserts == max_duration
ContainsMultiples(T, s) == ContainsPoints(T, Multiples(s))
ContainsEvalTimes(T, s) == ContainsPoints(T, s.ev)
InsideSequence(T, s)  == Inside(T, s.D)
Requirement(T, s) == /\ StrictlyIncreasing(T) /\ StartsAt0(T) /\ EndsAtD(T, s)
                     /\ ContainsMultiples(T, s) /\ ContainsEvalTimes(T, s) /\ InsideSequence(T, s)
(* the intended grid as a set of points (used for drift reporting, not for verdicts) *)
IntendedPoints(s) == Multiples(s) \cup {s.D} \cup s.ev

-----------------------------------------------------------------------------------------------
(* rounding plans: which floating-point results are inexact, and in which direction *)
NZ == Resid \ {0}
ExactSteps(s) == s.D \div s.dt
Points(s) == IntendedPoints(s)
Sites(s) ==
     {[st |-> "floor", q |-> 0, r0 |-> 0, r |-> r] : r \in {x \in NZ : x < 0 /\ s.D % s.dt = 0}}      \* floor(D/dt) lands just below the integer
  \cup {[st |-> "rel", q |-> i * s.dt, r0 |-> 0, r |-> r] : i \in 1..ExactSteps(s), r \in NZ}           \* i*dt/duration  (or i*dt)
  \cup {[st |-> "abs", q |-> q, r0 |-> r0, r |-> r] : q \in Points(s) \ {0}, r0 \in Resid, r \in Resid} \* t*duration
Key(x) == <<x.st, x.q, x.r0>>
Plans(s) == {{}}
      \cup (IF MaxRound >= 1 THEN {{x} : x \in {y \in Sites(s) : y.r # y.r0}} ELSE {})
      \cup (IF MaxRound >= 2 THEN {{x, y} : x \in {z \in Sites(s) : z.r # z.r0}, y \in {z \in Sites(s) : z.r # z.r0}} ELSE {})
WellFormed(p) == \A x \in p, y \in p : Key(x) = Key(y) => x = y
HasSite(p, st, q, r0) == \E x \in p : x.st = st /\ x.q = q /\ x.r0 = r0
SiteR(p, st, q, r0)   == (CHOOSE x \in p : x.st = st /\ x.q = q /\ x.r0 = r0).r

-----------------------------------------------------------------------------------------------
(* MECHANISM (a): _get_target_times as written *)
NSteps(s, p) == ExactSteps(s) + (IF HasSite(p, "floor", 0, 0) THEN SiteR(p, "floor", 0, 0) ELSE 0)   \* n_steps = math.floor(duration / dt)
RelOf(s, p, i) == <<i * s.dt, IF i # 0 /\ HasSite(p, "rel", i * s.dt, 0) THEN SiteR(p, "rel", i * s.dt, 0) ELSE 0>>
GridRel(s, p) == {RelOf(s, p, i) : i \in 0..NSteps(s, p)}                  \* {i * float(dt) / duration for i in range(n_steps + 1)}
One(s) == <<s.D, 0>>                                                        \* 1.0
ObsRel(s) == {<<e, 0>> : e \in s.ev}                                        \* _unique_observable_times: the user's floats themselves
ScaleOf(s, p, v) == IF v = <<0, 0>> \/ v = One(s) THEN v                    \* 0.0 * d and 1.0 * d are exact
                    ELSE IF HasSite(p, "abs", v[1], v[2]) THEN <<v[1], SiteR(p, "abs", v[1], v[2])>>
                    ELSE v                                                  \* t * duration

CodeGrid    == pc = "grid"  /\ acc' = GridRel(sc, plan)                 /\ pc' = "one"   /\ UNCHANGED <<sc, plan, targets>>
CodeAddOne  == pc = "one"   /\ acc' = acc \cup {One(sc)}                /\ pc' = "obs"   /\ UNCHANGED <<sc, plan, targets>>
CodeAddObs  == pc = "obs"   /\ acc' = acc \cup ObsRel(sc)               /\ pc' = "scale" /\ UNCHANGED <<sc, plan, targets>>
CodeScale   == pc = "scale" /\ acc' = {ScaleOf(sc, plan, v) : v \in acc} /\ pc' = "sort" /\ UNCHANGED <<sc, plan, targets>>
CodeSort    == pc = "sort"  /\ targets' = SortVals(acc)                 /\ pc' = "done"  /\ UNCHANGED <<sc, plan, acc>>
CodeNext == CodeGrid \/ CodeAddOne \/ CodeAddObs \/ CodeScale \/ CodeSort

-----------------------------------------------------------------------------------------------
(* MECHANISM (b): absolute-time construction, then merge points closer than the tolerance.
   A rounding residue is far below the tolerance, two different tick values are far above it:
   "closer than the tolerance"  <=>  same q.                                                      *)
AbsGrid(s, p) == {RelOf(s, p, i) : i \in 0..NSteps(s, p)}                  \* {i * float(dt) for i in range(n_steps + 1)}
AbsObs(s, p)  == {ScaleOf(s, p, <<e, 0>>) : e \in s.ev}                    \* {t * duration for t in observable times}
RECURSIVE MergeFrom(_, _, _)
MergeFrom(T, k, out) ==                                                     \* for t in sorted(times): keep t iff t - last > tol and duration - t > tol
   IF k > Len(T) THEN out
   ELSE LET t == T[k] last == out[Len(out)] IN
        IF t[1] > last[1] /\ t[1] < sc.D THEN MergeFrom(T, k + 1, Append(out, t)) ELSE MergeFrom(T, k + 1, out)
MergedGrid   == pc = "grid"  /\ acc' = AbsGrid(sc, plan)               /\ pc' = "obs"   /\ UNCHANGED <<sc, plan, targets>>
MergedAddObs == pc = "obs"   /\ acc' = acc \cup AbsObs(sc, plan)       /\ pc' = "sort"  /\ UNCHANGED <<sc, plan, targets>>
MergedSort   == pc = "sort"  /\ targets' = SortVals(acc)               /\ pc' = "merge" /\ UNCHANGED <<sc, plan, acc>>
MergedMerge  == pc = "merge" /\ targets' = Append(MergeFrom(targets, 1, << <<0, 0>> >>), <<sc.D, 0>>)
                             /\ pc' = "done" /\ UNCHANGED <<sc, plan, acc>>
MergedNext == MergedGrid \/ MergedAddObs \/ MergedSort \/ MergedMerge

-----------------------------------------------------------------------------------------------
NoScenario == [D |-> 0, dt |-> 1, ev |-> {}]
Init == sc = NoScenario /\ plan = {} /\ pc = "pick" /\ acc = {} /\ targets = <<>>
Pick == /\ pc = "pick"                 \* the environment chooses the inputs and the roundings
        /\ sc' \in Scenarios
        /\ plan' \in {p \in Plans(sc') : WellFormed(p)}
        /\ pc' = "grid" /\ UNCHANGED <<acc, targets>>
Next == Pick \/ (IF Variant = "code" THEN CodeNext ELSE MergedNext)
Spec == Init /\ [][Next]_vars

Done == pc = "done"
InvStrictlyIncreasing == Done => StrictlyIncreasing(targets)
InvStartsAt0          == Done => StartsAt0(targets)
InvEndsAtD            == Done => EndsAtD(targets, sc)
InvContainsMultiples  == Done => ContainsMultiples(targets, sc)
InvContainsEvalTimes  == Done => ContainsEvalTimes(targets, sc)
InvInsideSequence     == Done => InsideSequence(targets, sc)
(* drift indicator only: nothing but the intended points *)
OnlyIntended          == Done => PointsOf(targets) = IntendedPoints(sc)
Log == (Done /\ LogResult) => PrintT(<<"G", sc.D, sc.dt, sc.ev, plan, targets>>)
====
