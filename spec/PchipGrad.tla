---- MODULE PchipGrad ----
(* C30, finiteness part.  Abstract-domain reading of the forward AND reverse (autograd) pass of the
   slope computation of emu_base/math/pchip_torch.py -- the only place of the interpolation where a
   division by a data-dependent quantity occurs.  Every arithmetic node is one instruction of a
   straight-line program; the interpreter below executes one instruction per step over the domain
        NEG  ZERO  POS  (finite)     PINF  NINF  NAN
   choosing nondeterministically among the abstract results an IEEE operation can have (e.g.
   POS + NEG \in {NEG, ZERO, POS}).  The chosen value is stored, so the reverse pass sees the same
   forward values (no loss of correlation between a node and its reuse).

   MECHANISM   Prog("interior-code")    : _weighted_harmonic_mean + mask_same_sign + torch.where, and the
                                          reverse pass torch.autograd derives for it
                                          (div:  g_self = g / other ;  g_other = -g * ((self / other) / other),
                                           where: g_a = where(m, g, 0), g_b = where(m, 0, g))
               Prog("interior-guarded") : the same with the secants of the unselected branch replaced by 1
                                          before dividing (candidate repair)
               Prog("end")              : _endpoint_slope + _limit_endpoint (sign tests by products), forward and reverse
               Prog("end-standard")     : the same with the standard method's sign comparisons
   REQUIREMENT GradFinite : with finite inputs and a finite upstream gradient, every gradient that
               reaches an input (the secants, hence the samples y) is finite;
               ForwardFinite : the selected output is finite.
   Assumption of the abstraction: finite non-zero magnitudes are moderate (products / quotients of
   finite non-zero values neither overflow nor underflow). *)
EXTENDS Integers, Sequences, FiniteSets, TLC
CONSTANTS Which,     \* "interior-code" | "interior-guarded" | "end" | "end-standard"
          LogCases
VARIABLES env, ip, inputs
vars == <<env, ip, inputs>>

Fin == {"NEG", "ZERO", "POS"}
Inf == {"PINF", "NINF"}
AV == Fin \cup Inf \cup {"NAN"}

SignOf(a) == IF a \in {"POS", "PINF"} THEN 1 ELSE IF a \in {"NEG", "NINF"} THEN -1 ELSE 0
FinOfSign(s) == IF s > 0 THEN "POS" ELSE IF s < 0 THEN "NEG" ELSE "ZERO"
InfOfSign(s) == IF s > 0 THEN "PINF" ELSE "NINF"

\* ---- abstract IEEE operations: each returns the SET of possible abstract results
NegA(a) == {IF a = "NAN" THEN "NAN" ELSE IF a = "ZERO" THEN "ZERO"
            ELSE IF a \in Inf THEN InfOfSign(-SignOf(a)) ELSE FinOfSign(-SignOf(a))}
AbsA(a) == {IF a = "NAN" THEN "NAN" ELSE IF a = "ZERO" THEN "ZERO" ELSE IF a \in Inf THEN "PINF" ELSE "POS"}
MulA(a, b) ==
   IF a = "NAN" \/ b = "NAN" THEN {"NAN"}
   ELSE IF (a = "ZERO" /\ b \in Inf) \/ (b = "ZERO" /\ a \in Inf) THEN {"NAN"}          \* 0 * inf
   ELSE IF a = "ZERO" \/ b = "ZERO" THEN {"ZERO"}
   ELSE IF a \in Inf \/ b \in Inf THEN {InfOfSign(SignOf(a) * SignOf(b))}
   ELSE {FinOfSign(SignOf(a) * SignOf(b))}
AddA(a, b) ==
   IF a = "NAN" \/ b = "NAN" THEN {"NAN"}
   ELSE IF a \in Inf /\ b \in Inf THEN (IF a = b THEN {a} ELSE {"NAN"})                   \* inf - inf
   ELSE IF a \in Inf THEN {a} ELSE IF b \in Inf THEN {b}
   ELSE IF a = "ZERO" THEN {b} ELSE IF b = "ZERO" THEN {a}
   ELSE IF a = b THEN {a} ELSE {"NEG", "ZERO", "POS"}                                     \* cancellation possible
DivA(a, b) ==
   IF a = "NAN" \/ b = "NAN" THEN {"NAN"}
   ELSE IF b = "ZERO" THEN (IF a = "ZERO" THEN {"NAN"}                                   \* 0 / 0
                            ELSE IF a \in Inf THEN {"PINF", "NINF"}
                            ELSE {"PINF", "NINF"})                                        \* x / (+-0)
   ELSE IF b \in Inf THEN (IF a \in Inf THEN {"NAN"} ELSE {"ZERO"})
   ELSE IF a = "ZERO" THEN {"ZERO"}
   ELSE IF a \in Inf THEN {InfOfSign(SignOf(a) * SignOf(b))}
   ELSE {FinOfSign(SignOf(a) * SignOf(b))}
Gt0A(a) == {IF a \in {"POS", "PINF"} THEN "T" ELSE "F"}                                   \* NaN > 0 is False
Lt0A(a) == {IF a \in {"NEG", "NINF"} THEN "T" ELSE "F"}
GtA(a, b) ==                                                                               \* a > b
   IF a = "NAN" \/ b = "NAN" THEN {"F"}
   ELSE IF a = b /\ a \in Fin /\ a # "ZERO" THEN {"T", "F"}
   ELSE IF a = b THEN {"F"}
   ELSE IF a = "PINF" \/ b = "NINF" THEN {"T"} ELSE IF a = "NINF" \/ b = "PINF" THEN {"F"}
   ELSE {IF SignOf(a) > SignOf(b) THEN "T" ELSE "F"}
SgnNeA(a, b) == {IF a = "NAN" \/ b = "NAN" \/ SignOf(a) # SignOf(b) THEN "T" ELSE "F"}         \* torch.sign(a) != torch.sign(b)
AndA(a, b) == {IF a = "T" /\ b = "T" THEN "T" ELSE "F"}
WhereA(m, a, b) == {IF m = "T" THEN a ELSE b}

Apply(op, a, b, c) ==
   CASE op = "neg" -> NegA(a)   [] op = "abs" -> AbsA(a)
     [] op = "mul" -> MulA(a, b) [] op = "add" -> AddA(a, b) [] op = "div" -> DivA(a, b)
     [] op = "gt0" -> Gt0A(a)   [] op = "lt0" -> Lt0A(a)   [] op = "gt" -> GtA(a, b)
     [] op = "and" -> AndA(a, b) [] op = "sgnne" -> SgnNeA(a, b) [] op = "where" -> WhereA(a, b, c)

\* ---- the programs: <<destination, operation, operand, operand, operand>>  ("_" = unused)
\* forward of _weighted_harmonic_mean(delta_l, delta_r, h_l, h_r) and of the interior part of _pchip_derivatives
FwdInteriorCode == <<
   <<"A", "div", "wl", "dl", "_">>,            \* w_l / delta_l
   <<"B", "div", "wr", "dr", "_">>,            \* w_r / delta_r
   <<"S", "add", "A", "B", "_">>,
   <<"dh", "div", "W", "S", "_">>,             \* (w_l + w_r) / (...)
   <<"p", "mul", "dl", "dr", "_">>,
   <<"m", "gt0", "p", "_", "_">>,              \* mask_same_sign
   <<"out", "where", "m", "dh", "zero">> >>
\* reverse pass generated by torch.autograd for the nodes above (upstream gradient g on `out`)
BwdInteriorCode == <<
   <<"g_dh", "where", "m", "g", "zero">>,
   <<"q1", "div", "W", "S", "_">>, <<"q2", "div", "q1", "S", "_">>,
   <<"t1", "mul", "g_dh", "q2", "_">>, <<"g_S", "neg", "t1", "_", "_">>,        \* d(W/S)/dS
   <<"g_W", "div", "g_dh", "S", "_">>,
   <<"r1", "div", "wl", "dl", "_">>, <<"r2", "div", "r1", "dl", "_">>,
   <<"t2", "mul", "g_S", "r2", "_">>, <<"g_dl", "neg", "t2", "_", "_">>,        \* d(w_l/delta_l)/d delta_l
   <<"g_wl", "div", "g_S", "dl", "_">>,
   <<"s1", "div", "wr", "dr", "_">>, <<"s2", "div", "s1", "dr", "_">>,
   <<"t3", "mul", "g_S", "s2", "_">>, <<"g_dr", "neg", "t3", "_", "_">>,
   <<"g_wr", "div", "g_S", "dr", "_">> >>
\* candidate repair: divide by a harmless 1 in the branch torch.where does not select
FwdInteriorGuarded == <<
   <<"p", "mul", "dl", "dr", "_">>,
   <<"m", "gt0", "p", "_", "_">>,
   <<"sdl", "where", "m", "dl", "one">>,
   <<"sdr", "where", "m", "dr", "one">>,
   <<"A", "div", "wl", "sdl", "_">>,
   <<"B", "div", "wr", "sdr", "_">>,
   <<"S", "add", "A", "B", "_">>,
   <<"dh", "div", "W", "S", "_">>,
   <<"out", "where", "m", "dh", "zero">> >>
BwdInteriorGuarded == <<
   <<"g_dh", "where", "m", "g", "zero">>,
   <<"q1", "div", "W", "S", "_">>, <<"q2", "div", "q1", "S", "_">>,
   <<"t1", "mul", "g_dh", "q2", "_">>, <<"g_S", "neg", "t1", "_", "_">>,
   <<"g_W", "div", "g_dh", "S", "_">>,
   <<"r1", "div", "wl", "sdl", "_">>, <<"r2", "div", "r1", "sdl", "_">>,
   <<"t2", "mul", "g_S", "r2", "_">>, <<"g_sdl", "neg", "t2", "_", "_">>,
   <<"g_wl", "div", "g_S", "sdl", "_">>,
   <<"s1", "div", "wr", "sdr", "_">>, <<"s2", "div", "s1", "sdr", "_">>,
   <<"t3", "mul", "g_S", "s2", "_">>, <<"g_sdr", "neg", "t3", "_", "_">>,
   <<"g_wr", "div", "g_S", "sdr", "_">>,
   <<"g_dl", "where", "m", "g_sdl", "zero">>,
   <<"g_dr", "where", "m", "g_sdr", "zero">> >>
\* _endpoint_slope + _limit_endpoint (dl = end secant s_l, dr = its neighbour s_r; w1 = 2 h_l + h_r, hl, hs = h_l + h_r > 0)
FwdEnd == <<
   <<"a1", "mul", "wl", "dl", "_">>, <<"a2", "mul", "wr", "dr", "_">>, <<"a3", "neg", "a2", "_", "_">>,
   <<"a4", "add", "a1", "a3", "_">>, <<"d0", "div", "a4", "W", "_">>,             \* (w1 s_l - h_l s_r) / (h_l + h_r)
   <<"b1", "mul", "d0", "dl", "_">>, <<"m1", "lt0", "b1", "_", "_">>,             \* d_end * s_l < 0
   <<"d1", "where", "m1", "zero", "d0">>,
   <<"b2", "mul", "dl", "dr", "_">>, <<"m2a", "lt0", "b2", "_", "_">>,            \* s_l * s_r < 0
   <<"c1", "abs", "d1", "_", "_">>, <<"c2", "abs", "dl", "_", "_">>, <<"c3", "mul", "three", "c2", "_">>,
   <<"m2b", "gt", "c1", "c3", "_">>, <<"m2", "and", "m2a", "m2b", "_">>,
   <<"e1", "mul", "three", "dl", "_">>,
   <<"out", "where", "m2", "e1", "d1">> >>
\* the same with the sign tests of the standard method: sign(d_end) # sign(s_l) ; sign(s_l) # sign(s_r)
FwdEndStd == <<
   <<"a1", "mul", "wl", "dl", "_">>, <<"a2", "mul", "wr", "dr", "_">>, <<"a3", "neg", "a2", "_", "_">>,
   <<"a4", "add", "a1", "a3", "_">>, <<"d0", "div", "a4", "W", "_">>,
   <<"m1", "sgnne", "d0", "dl", "_">>,
   <<"d1", "where", "m1", "zero", "d0">>,
   <<"m2a", "sgnne", "dl", "dr", "_">>,
   <<"c1", "abs", "d1", "_", "_">>, <<"c2", "abs", "dl", "_", "_">>, <<"c3", "mul", "three", "c2", "_">>,
   <<"m2b", "gt", "c1", "c3", "_">>, <<"m2", "and", "m2a", "m2b", "_">>,
   <<"e1", "mul", "three", "dl", "_">>,
   <<"out", "where", "m2", "e1", "d1">> >>
BwdEnd == <<
   <<"g_e1", "where", "m2", "g", "zero">>, <<"g_d1", "where", "m2", "zero", "g">>,
   <<"g_dl_a", "mul", "g_e1", "three", "_">>,
   <<"g_d0", "where", "m1", "zero", "g_d1">>,
   <<"g_a4", "div", "g_d0", "W", "_">>,
   <<"g_dl_b", "mul", "g_a4", "wl", "_">>,
   <<"g_a2", "neg", "g_a4", "_", "_">>, <<"g_dr", "mul", "g_a2", "wr", "_">>,
   <<"g_dl", "add", "g_dl_a", "g_dl_b", "_">> >>

Prog == IF Which = "interior-code" THEN FwdInteriorCode \o BwdInteriorCode
        ELSE IF Which = "interior-guarded" THEN FwdInteriorGuarded \o BwdInteriorGuarded
        ELSE IF Which = "end" THEN FwdEnd \o BwdEnd
        ELSE FwdEndStd \o BwdEnd
FwdLen == IF Which = "interior-code" THEN Len(FwdInteriorCode)
          ELSE IF Which = "interior-guarded" THEN Len(FwdInteriorGuarded)
          ELSE IF Which = "end" THEN Len(FwdEnd) ELSE Len(FwdEndStd)

Names == {"dl", "dr", "g", "wl", "wr", "W", "zero", "one", "three", "_"} \cup {Prog[k][1] : k \in 1..Len(Prog)}

Init == /\ \E a \in Fin, b \in Fin, gg \in Fin :
             /\ inputs = <<a, b, gg>>
             /\ env = [n \in Names |->
                         IF n = "dl" THEN a ELSE IF n = "dr" THEN b ELSE IF n = "g" THEN gg
                         ELSE IF n \in {"wl", "wr", "W", "one", "three"} THEN "POS"
                         ELSE IF n = "zero" THEN "ZERO" ELSE "_"]
        /\ ip = 1
\* one instruction = one arithmetic node of the forward / reverse pass
Step == /\ ip <= Len(Prog)
        /\ LET ins == Prog[ip] IN
           \E r \in Apply(ins[2], env[ins[3]], env[ins[4]], env[ins[5]]) :
              env' = [env EXCEPT ![ins[1]] = r]
        /\ ip' = ip + 1 /\ UNCHANGED inputs
Next == Step
Spec == Init /\ [][Next]_vars

Done == ip = Len(Prog) + 1
\* ---- requirement (finiteness clause of C30)
ForwardFinite == ip > FwdLen => env["out"] \in Fin
GradFinite == Done => (env["g_dl"] \in Fin /\ env["g_dr"] \in Fin)
\* gradients with respect to the widths (knot positions); not an input the property quantifies over -- reported only
GradFiniteWidths == (Done /\ Which \in {"interior-code", "interior-guarded"}) => (env["g_wl"] \in Fin /\ env["g_wr"] \in Fin /\ env["g_W"] \in Fin)

LogStep == (LogCases /\ ip' = Len(Prog) + 1) =>
              PrintT(<<"G", Which, inputs, env'["out"], env'["g_dl"], env'["g_dr"]>>)
====
