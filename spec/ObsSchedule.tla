---- MODULE ObsSchedule ----
(* C14 -- observables are recorded exactly at their requested times.

   Times are integer ticks of a QUARTER NANOSECOND (so Pulser's second tolerance 0.5/total_duration,
   i.e. half a nanosecond, is TolP = 2 ticks); a float is <<q, r>> as in TimeGrid.tla (q the point,
   r a rounding residue far below every tolerance).

   MECHANISM  one run of a backend (emu-sv: _run / step / _apply_observables; emu-mps: init /
              timestep_complete / fill_results; DMRG the same): observables are applied at target
              time 0 and after every step; per observable
                 PreFilter  = backend's _is_evaluation_time, tolerance 1e-10 (= same point)
                              Variant "code" : own times OR the config's default times
                              Variant "fixed": own times if the observable has any, else the default times
                 PulserCall = pulser Observable.__call__: own times (default times iff own is None)
                              with tolerance 0.5/total_duration
                 Store      = Results._store: raises when the time is already stored / not increasing
              The target times are those of TimeGrid (multiples of dt, the end, every requested time);
              NearDup = TRUE additionally lets one point that TimeGrid.tla shows can be duplicated
              under rounding (a requested time on a multiple of dt, or the end when dt divides the
              duration) appear twice.
   REQUIREMENT (statement of C14)  for every observable: recorded points = requested points, each
              once, in increasing order, and the run does not fail.                                  *)
EXTENDS Integers, Sequences, FiniteSets, TLC

CONSTANTS Scenarios,  \* set of [D, dt, obs: <<[has: BOOLEAN, own: set of ticks], ...>>, dflt: set of ticks]
          TolP,       \* Pulser's tolerance in ticks
          Variant,    \* "code" | "fixed"
          NearDup,    \* BOOLEAN
          LogResult

VARIABLES sc, dup, tt, pc, k, rec, raised     \* tt: the target times of this run (fixed at Init)
vars == <<sc, dup, tt, pc, k, rec, raised>>

Abs(x) == IF x < 0 THEN -x ELSE x
Obs(s) == 1..Len(s.obs)
Requested(s, o) == IF s.obs[o].has THEN s.obs[o].own ELSE s.dflt           \* REQUIREMENT: what the user asked for

(* target times (TimeGrid, exact) *)
Multiples(s) == {i * s.dt : i \in 0..(s.D \div s.dt)}
ObsTimes(s)  == UNION {Requested(s, o) : o \in Obs(s)}                       \* _unique_observable_times
Points(s)    == Multiples(s) \cup {s.D} \cup ObsTimes(s)
DupCandidates(s) == (Multiples(s) \cap ObsTimes(s)) \cup (IF s.D % s.dt = 0 THEN {s.D} ELSE {})
LtV(a, b) == a[1] < b[1] \/ (a[1] = b[1] /\ a[2] < b[2])
MinV(S) == CHOOSE x \in S : \A y \in S : x = y \/ LtV(x, y)
RECURSIVE SortVals(_)
SortVals(S) == IF S = {} THEN <<>> ELSE LET m == MinV(S) IN <<m>> \o SortVals(S \ {m})
Targets(s, d) == SortVals({<<p, 0>> : p \in Points(s)} \cup (IF d >= 0 THEN {<<d, 1>>} ELSE {}))

-----------------------------------------------------------------------------------------------
(* MECHANISM *)
Same(e, t) == e = t[1]                                                        \* |e - t| <= 1e-10
PreFilter(s, o, t) ==
   IF Variant = "code"
   THEN (s.obs[o].has /\ \E e \in s.obs[o].own : Same(e, t)) \/ (\E e \in s.dflt : Same(e, t))
   ELSE IF s.obs[o].has THEN \E e \in s.obs[o].own : Same(e, t) ELSE \E e \in s.dflt : Same(e, t)
PulserCall(s, o, t) ==
   IF s.obs[o].has THEN \E e \in s.obs[o].own : Abs(e - t[1]) <= TolP
   ELSE \E e \in s.dflt : Abs(e - t[1]) <= TolP
Fires(s, o, t) == PreFilter(s, o, t) /\ PulserCall(s, o, t)
StoreOK(r, t) == (\A i \in 1..Len(r) : r[i] # t) /\ (r = <<>> \/ LtV(r[Len(r)], t))   \* Results._store_raw
(* apply all observables at time t: the first failing store aborts the run *)
ApplyAll(s, r, t) == [o \in Obs(s) |-> IF Fires(s, o, t) /\ StoreOK(r[o], t) THEN Append(r[o], t) ELSE r[o]]
Fails(s, r, t)    == \E o \in Obs(s) : Fires(s, o, t) /\ ~StoreOK(r[o], t)

NoScenario == [D |-> 0, dt |-> 1, obs |-> <<>>, dflt |-> {}]
Init == sc = NoScenario /\ dup = -1 /\ tt = <<>> /\ pc = "pick" /\ k = 0 /\ raised = FALSE /\ rec = <<>>
Pick ==                             \* the environment chooses the inputs (one TLC initial state: initial states are slow)
   /\ pc = "pick"
   /\ sc' \in Scenarios
   /\ dup' \in (IF NearDup THEN DupCandidates(sc') ELSE {}) \cup {-1}
   /\ tt' = Targets(sc', dup')
   /\ rec' = [o \in Obs(sc') |-> <<>>]
   /\ pc' = "init" /\ UNCHANGED <<k, raised>>
T == tt
ApplyAtZero ==                      \* _apply_observables(0) / fill_results() in init()
   /\ pc = "init"
   /\ raised' = Fails(sc, rec, T[1])
   /\ rec' = ApplyAll(sc, rec, T[1])
   /\ k' = 1 /\ pc' = IF Fails(sc, rec, T[1]) THEN "done" ELSE "run"
   /\ UNCHANGED <<sc, dup, tt>>
Step ==                             \* evolve to the next target time, then apply the observables there
   /\ pc = "run" /\ k < Len(T)
   /\ raised' = Fails(sc, rec, T[k + 1])
   /\ rec' = ApplyAll(sc, rec, T[k + 1])
   /\ k' = k + 1 /\ pc' = IF Fails(sc, rec, T[k + 1]) THEN "done" ELSE "run"
   /\ UNCHANGED <<sc, dup, tt>>
Finish == pc = "run" /\ k = Len(T) /\ pc' = "done" /\ UNCHANGED <<sc, dup, tt, k, rec, raised>>
Next == Pick \/ ApplyAtZero \/ Step \/ Finish
Spec == Init /\ [][Next]_vars

-----------------------------------------------------------------------------------------------
(* REQUIREMENT *)
Done == pc = "done"
RecPoints(o) == {rec[o][i][1] : i \in 1..Len(rec[o])}
NoUnrequested == Done => \A o \in Obs(sc) : RecPoints(o) \subseteq Requested(sc, o)
NoneMissing   == (Done /\ ~raised) => \A o \in Obs(sc) : Requested(sc, o) \subseteq RecPoints(o)
OnceEach      == Done => \A o \in Obs(sc) : \A i, j \in 1..Len(rec[o]) : i # j => rec[o][i][1] # rec[o][j][1]
Increasing    == Done => \A o \in Obs(sc) : \A i \in 1..(Len(rec[o]) - 1) : rec[o][i][1] < rec[o][i + 1][1]
NoRaise       == ~raised
Log == (Done /\ LogResult) =>
          PrintT(<<"S", sc.D, sc.dt, sc.obs, sc.dflt, dup, [o \in Obs(sc) |-> [i \in 1..Len(rec[o]) |-> rec[o][i][1]]], raised>>)
====
