---- MODULE MPSRun ----
(* The emu-mps run loop as a state machine (MPSBackend._run / MPSBackendImpl.progress and friends):
     TDVP   progress() = one two-site update of the second-order sweep (left-to-right, then right-to-left),
            bath stacks, orthogonality centre, sweep_complete -> timestep_complete -> fill_results
     DMRG   progress() = one two-site minimisation; sweeps repeat until |dE| < tol (environment decides)
            or MaxSweeps is exceeded (raise)
     autosave after every progress() (environment decides whether the interval has elapsed), crash,
     MPSBackend.resume, and the post-processing on both return paths (inverse permutation of the
     results, removal of the autosave file).
   MECHANISM: the actions.  REQUIREMENT: the properties at the bottom (C02 sweep structure, C09, C21
   one step per interval, C26 resume refines run, C14 fill per completed step).
   Time credit is counted in HALF steps: an interval is fully evolved when every bond received +2 and
   every interior site received -2 (second-order symmetric TDVP).                                   *)
EXTENDS Integers, Sequences, FiniteSets, TLC
CONSTANTS N,            \* number of (well prepared) sites, >= 1
          K,            \* number of time steps
          Mode,         \* "tdvp" | "dmrg"
          Reorder,      \* BOOLEAN: optimize_qubit_ordering with a non-identity permutation
          MaxSweeps,    \* DMRG
          ResumePermutes, \* BOOLEAN: does the resume path apply the inverse permutation (mechanism switch)
          AllowCrash,   \* BOOLEAN
          UpdateAfterRebuild, \* BOOLEAN: timestep_complete rewrites the drive terms AFTER a possible make_H rebuild (code: TRUE)
          Dark,         \* number of badly prepared (dark) atoms of the register; the MPS / MPO have N sites, the register N + Dark atoms
          TablesOnResume \* how the resumed object gets its per-site drive tables: "pickled" (code: they travel in the snapshot),
                        \* "rebuilt" (from the adapter's data, dark columns removed again), "rebuilt-unfiltered" (seeded variant:
                        \* rebuilt as in __init__ but without init_dark_qubits)
Sites == 0..(N - 1)
Bonds == 0..(N - 2)
LR == "LR"
RL == "RL"
VARIABLES ts, sw, dir, center, nL, nR,       \* control state of the impl object
          pair, single,                        \* time credit (half steps) received in the current step
          fills,                               \* number of fill_results calls so far (t=0 included)
          sweeps, conv,                        \* DMRG: sweeps done in this step, converged flag (environment)
          driveSet,                            \* the MPO's single-atom (drive) slots hold the row of the current step
          disk,                                \* last autosave: a snapshot of the control state (valid iff fileExists)
          phase,                               \* "run" | "crashed" | "resumed" | "post" | "returned" | "raised"
          order,                               \* index space of the per-atom results: "site" | "register"
          fileExists, path,
          cols                                 \* number of columns of the drive tables (omega, delta, phi) the impl object holds
ctl == <<ts, sw, dir, center, nL, nR, pair, single, fills, sweeps, conv, driveSet, cols>>
vars == <<ts, sw, dir, center, nL, nR, pair, single, fills, sweeps, conv, driveSet, disk, phase, order, fileExists, path, cols>>

Zero(S) == [x \in S |-> 0]
Snapshot == [ts |-> ts, sw |-> sw, dir |-> dir, center |-> center, nL |-> nL, nR |-> nR,
             pair |-> pair, single |-> single, fills |-> fills, sweeps |-> sweeps, conv |-> conv, driveSet |-> driveSet]
Finished == ts >= K

Init == /\ ts = 0 /\ sw = 0 /\ dir = LR /\ center = 0 /\ nL = 1 /\ nR = (IF N >= 2 THEN N - 1 ELSE 1)
        /\ pair = Zero(Bonds) /\ single = Zero(Sites) /\ fills = 1 /\ sweeps = 0 /\ conv = FALSE /\ driveSet = TRUE
        /\ disk = [ts |-> 0, sw |-> 0, dir |-> LR, center |-> 0, nL |-> 1, nR |-> (IF N >= 2 THEN N - 1 ELSE 1), pair |-> Zero(Bonds),
                   single |-> Zero(Sites), fills |-> 1, sweeps |-> 0, conv |-> FALSE, driveSet |-> TRUE]
        /\ phase = "run" /\ order = (IF Reorder THEN "site" ELSE "register")
        /\ fileExists = FALSE /\ path = "run"
        /\ cols = N                              \* __init__: columns permuted into site order, then init_dark_qubits removes the dark ones

\* ---- timestep_complete: fill, ts += 1, fresh baths (init_baths)
\* the environment decides whether the interaction matrix changed (SLM mask end): then make_H rebuilds the MPO with EMPTY
\* drive slots, and update_H must run after the rebuild
StepDone == /\ fills' = fills + 1 /\ ts' = ts + 1
            /\ nL' = 1 /\ nR' = (IF N >= 2 THEN N - 1 ELSE 1)
            /\ pair' = Zero(Bonds) /\ single' = Zero(Sites)
            /\ \E changed \in BOOLEAN : driveSet' = (UpdateAfterRebuild \/ ~changed)

\* ---- TDVP progress() ----------------------------------------------------------------------
TdvpCorner ==   \* 1 or 2 sites: a single full-step evolution per progress()
   /\ N <= 2 /\ dir = LR /\ sw = 0
   /\ IF N = 1 THEN center = 0 /\ single' = [single EXCEPT ![0] = @ + 2] /\ UNCHANGED <<pair, center>>
      ELSE center \in {0, 1} /\ center' = 0 /\ UNCHANGED single /\ pair' = [pair EXCEPT ![0] = @ + 2]
   /\ fills' = fills + 1 /\ ts' = ts + 1 /\ UNCHANGED <<sw, dir, nL, nR, sweeps, conv>>
   /\ \E changed \in BOOLEAN : driveSet' = (UpdateAfterRebuild \/ ~changed)
   \* (credits are reset by the next step in the corner case: tracked through CornerShape)
TdvpLR ==
   /\ N >= 3 /\ dir = LR
   /\ IF sw < N - 2
      THEN /\ center \in {sw, sw + 1}
           /\ pair' = [pair EXCEPT ![sw] = @ + 1]                \* _evolve(sw, sw+1, dt/2, orth_center_right=True)
           /\ single' = [single EXCEPT ![sw + 1] = @ - 1]        \* _evolve(sw+1, -dt/2)
           /\ center' = sw + 1 /\ nL' = nL + 1 /\ nR' = nR - 1 /\ sw' = sw + 1 /\ UNCHANGED dir
      ELSE /\ center \in {sw, sw + 1}
           /\ pair' = [pair EXCEPT ![sw] = @ + 2]                \* rightmost pair: full step, centre left
           /\ center' = sw /\ dir' = RL /\ UNCHANGED <<single, nL, nR, sw>>
   /\ UNCHANGED <<ts, fills, sweeps, conv, driveSet>>
TdvpRL ==
   /\ N >= 3 /\ dir = RL /\ sw > 0
   /\ center = sw
   /\ LET s1 == [single EXCEPT ![sw] = @ - 1]                    \* _evolve(sw, -dt/2)
          p1 == [pair EXCEPT ![sw - 1] = @ + 1]                  \* _evolve(sw-1, sw, dt/2, orth_center_right=False)
      IN
      IF sw - 1 = 0
      THEN /\ center' = 0 /\ sw' = 0 /\ dir' = LR
           /\ Assert(\A b \in Bonds : p1[b] = 2, "sweep shape: every bond evolved by one full step")
           /\ Assert(\A q \in Sites : s1[q] = (IF q = 0 \/ q = N - 1 THEN 0 ELSE 0 - 2), "sweep shape: interior sites evolved back by one full step")
           /\ StepDone
      ELSE /\ pair' = p1 /\ single' = s1 /\ center' = sw - 1 /\ sw' = sw - 1 /\ nL' = nL - 1 /\ nR' = nR + 1
           /\ UNCHANGED <<dir, ts, fills, driveSet>>
   /\ UNCHANGED <<sweeps, conv>>
\* ---- DMRG progress() ----------------------------------------------------------------------
DmrgLR ==
   /\ dir = LR /\ N >= 2
   /\ center' = sw + 1
   /\ IF sw < N - 2 THEN nL' = nL + 1 /\ nR' = nR - 1 /\ sw' = sw + 1 ELSE UNCHANGED <<nL, nR, sw>>
   /\ dir' = (IF sw' = N - 2 THEN RL ELSE LR)
   /\ UNCHANGED <<ts, pair, single, fills, sweeps, conv, driveSet>>
DmrgRL ==
   /\ dir = RL /\ N >= 2
   /\ IF sw > 0 THEN nL' = nL - 1 /\ nR' = nR + 1 /\ sw' = sw - 1 ELSE UNCHANGED <<nL, nR, sw>>
   /\ IF sw' = 0
      THEN /\ center' = 0 /\ dir' = LR
           /\ \E c \in BOOLEAN :                                  \* environment: |E - E_prev| < tol ?
                IF c /\ sweeps >= 1                               \* previous_energy is None in the first sweep
                THEN /\ fills' = fills + 1 /\ ts' = ts + 1 /\ sweeps' = 0 /\ conv' = TRUE
                     /\ nL' = 1 /\ nR' = N - 1 /\ UNCHANGED <<pair, single>>
                     /\ \E changed \in BOOLEAN : driveSet' = (UpdateAfterRebuild \/ ~changed)
                ELSE /\ sweeps' = sweeps + 1 /\ conv' = FALSE /\ UNCHANGED <<ts, fills, pair, single, driveSet>>
      ELSE center' = sw' /\ UNCHANGED <<dir, ts, fills, sweeps, conv, pair, single, driveSet>>
DmrgRaise == /\ Mode = "dmrg" /\ phase \in {"run", "resumed"} /\ ~Finished /\ sweeps >= MaxSweeps
             /\ phase' = "raised" /\ UNCHANGED <<ctl, disk, order, fileExists, path>>

Progress ==
   /\ phase \in {"run", "resumed"} /\ ~Finished
   /\ IF Mode = "tdvp" THEN TdvpCorner \/ TdvpLR \/ TdvpRL
      ELSE sweeps < MaxSweeps /\ (DmrgLR \/ DmrgRL)
   \* save_simulation() at the end of progress(): the environment decides whether the interval elapsed
   /\ \/ (disk' = [ts |-> ts', sw |-> sw', dir |-> dir', center |-> center', nL |-> nL', nR |-> nR', pair |-> pair',
                    single |-> single', fills |-> fills', sweeps |-> sweeps', conv |-> conv', driveSet |-> driveSet'] /\ fileExists' = TRUE)
      \/ UNCHANGED <<disk, fileExists>>
   /\ UNCHANGED <<phase, order, path, cols>>

Crash == /\ AllowCrash /\ phase = "run" /\ fileExists /\ phase' = "crashed"
         /\ UNCHANGED <<ctl, disk, order, fileExists, path>>
Resume == /\ phase = "crashed" /\ phase' = "resumed" /\ path' = "resume"
          /\ ts' = disk.ts /\ sw' = disk.sw /\ dir' = disk.dir /\ center' = disk.center /\ nL' = disk.nL /\ nR' = disk.nR
          /\ pair' = disk.pair /\ single' = disk.single /\ fills' = disk.fills /\ sweeps' = disk.sweeps /\ conv' = disk.conv /\ driveSet' = disk.driveSet
          /\ cols' = (IF TablesOnResume = "rebuilt-unfiltered" THEN N + Dark ELSE N)
          /\ UNCHANGED <<disk, order, fileExists>>
\* MPSBackend._run: loop finished -> remove the autosave file; then the caller's post-processing
RunLoopDone == /\ phase \in {"run", "resumed"} /\ Finished /\ phase' = "post" /\ fileExists' = FALSE
               /\ UNCHANGED <<ctl, disk, order, path>>
PostProcess == /\ phase = "post" /\ phase' = "returned"
               /\ order' = IF path = "run" \/ ResumePermutes THEN "register" ELSE order
               /\ UNCHANGED <<ctl, disk, fileExists, path>>
Next == Progress \/ Crash \/ Resume \/ RunLoopDone \/ PostProcess \/ DmrgRaise
Spec == Init /\ [][Next]_vars /\ WF_vars(Progress) /\ WF_vars(Resume) /\ WF_vars(RunLoopDone) /\ WF_vars(PostProcess) /\ WF_vars(DmrgRaise)

\* ------------------------------------------------------------------ requirement
BathShape == (N >= 3 /\ phase \in {"run", "resumed"} /\ ~Finished) => (nL = sw + 1 /\ nR = N - 1 - sw)
CentreFollowsSweep == (N >= 3 /\ ~Finished) => center \in {sw, sw + 1}
\* C02: no evolution with an MPO whose drive terms were never written (update_H after every make_H rebuild)
DriveWritten == (phase \in {"run", "resumed"} /\ ~Finished) => driveSet
\* C26 / C25: the object that continues the run indexes its drive tables by site: one column per site, also after a resume
TablesMatchSites == (phase \in {"run", "resumed"}) => cols = N
OneFillPerStep == fills = ts + 1                                      \* C14 / C21: one fill per completed step (+ t = 0)
StepsInOrder == [][ts' = ts \/ ts' = ts + 1 \/ phase = "crashed"]_vars
ResumeRestores == [][phase = "crashed" => (ts' = disk.ts /\ fills' = disk.fills)]_vars
\* C26: whatever the crash point, the returned results list atoms in register order, all steps done, file removed
ReturnedComplete == phase = "returned" => (ts = K /\ fills = K + 1 /\ ~fileExists)
ReturnedInRegisterOrder == phase = "returned" => order = "register"
Terminates == <>(phase \in {"returned", "raised"})
====
