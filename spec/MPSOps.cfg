\* exhaustive: every history of <= 4 operations on 2..4 sites, 2 Python names (the driver C10 / C11 writes the same text)
SPECIFICATION Spec
CONSTANTS
  MinN = 2
  MaxN = 4
  NSlots = 2
  MaxDepth = 4
  Variant = "code"
  LogTransitions = FALSE
INVARIANT Canonical
INVARIANT NormIsCentreNorm
INVARIANT CapRespected
INVARIANT SplitAtCentre
INVARIANT Frame
INVARIANT GaugeFrame
INVARIANT ShareSane
