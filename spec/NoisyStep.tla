---- MODULE NoisyStep ----
(* C18.  The quantum-jump stepping machine of NoisyMPSBackendImpl (progress -> _evolve ->
   sweep_complete -> [root search | jump | timestep_complete -> fill_results]) against an
   ADVERSARIAL environment that chooses the squared-norm gap (norm^2 - threshold) after every
   evolution.  MECHANISM: one action per sweep_complete branch, root finder = BrentFn (the
   transcription of BrentsRootFinder, epsilon = 1, tolerance = 1 as in the solver).
   REQUIREMENT: the properties at the bottom.
   Environment assumptions made explicit (without them the statement is false of ANY
   implementation): at most MaxJumps threshold crossings per time step; the gap is never exactly 0. *)
EXTENDS BrentFn, TLC, Sequences, FiniteSets
CONSTANTS K,          \* number of time steps
          L,          \* step length: target times T(k) = k * L
          Gaps,       \* set of non-zero rationals: possible values of norm^2 - threshold after an evolution
          PosGaps,    \* possible gaps right after a threshold is drawn (all positive)
          MaxJumps,   \* environment assumption
          Due,        \* subset of 0..K: indices of target times at which some observable is due
          LogTransitions
NONE == [a |-> R(0), b |-> R(0), fa |-> R(0), fb |-> R(0), c |-> R(0), d |-> R(0), fc |-> R(0), bis |-> FALSE, nxt |-> R(0), eps |-> R(0)]
NoJump == [t |-> R(0), a |-> R(0), b |-> R(0), fa |-> R(0), fb |-> R(0), ts |-> 0, fresh |-> FALSE]
T(k) == R(k * L)
VARIABLES ts, cur, tgt, rf, gap, jumps, lastFill, nFill, lastJump
vars == <<ts, cur, tgt, rf, gap, jumps, lastFill, nFill, lastJump>>
Finished == ts = K

Init == /\ ts = 0 /\ cur = T(0) /\ tgt = T(1) /\ rf = NONE /\ jumps = 0
        /\ gap \in PosGaps                                  \* init(): set_jump_threshold(1.0)
        /\ lastFill = (IF 0 \in Due THEN 0 ELSE 0 - 1)       \* init(): fill_results() at t = 0
        /\ nFill = (IF 0 \in Due THEN 1 ELSE 0)
        /\ lastJump = NoJump

\* MPSBackendImpl.timestep_complete (noisy override: update_H_no_noise; fill_results; ts += 1; new target)
TimestepComplete ==
   /\ lastFill' = IF (ts + 1) \in Due THEN ts + 1 ELSE lastFill
   /\ nFill' = IF (ts + 1) \in Due THEN nFill + 1 ELSE nFill
   /\ ts' = ts + 1
   /\ tgt' = IF ts + 1 < K THEN T(ts + 2) ELSE tgt
   /\ jumps' = 0

\* one progress(): evolve cur -> tgt (the environment picks the resulting gap g), then sweep_complete
NoSearchNoCross(g) ==
   /\ rf = NONE /\ Sgn(g) >= 0
   /\ cur' = tgt /\ gap' = g /\ TimestepComplete /\ UNCHANGED <<rf, lastJump>>
SearchStart(g) ==
   /\ rf = NONE /\ Sgn(g) < 0 /\ jumps < MaxJumps
   /\ Assert(BrentNewOK(cur, tgt, gap, g), "BrentsRootFinder precondition (the code asserts it)")
   /\ LET r1 == BrentAsk(BrentNew(cur, tgt, gap, g, R(1))) IN rf' = r1 /\ tgt' = r1.nxt
   /\ cur' = tgt /\ gap' = g /\ UNCHANGED <<ts, jumps, lastFill, nFill, lastJump>>
SearchStep(g) ==
   /\ rf # NONE
   /\ LET r1 == BrentTell(rf, g) IN
      /\ ~BrentConv(r1, R(1))
      /\ LET r2 == BrentAsk(r1) IN rf' = r2 /\ tgt' = r2.nxt
   /\ cur' = tgt /\ gap' = g /\ UNCHANGED <<ts, jumps, lastFill, nFill, lastJump>>
Jump(g) ==
   /\ rf # NONE
   /\ LET r1 == BrentTell(rf, g) IN
      /\ BrentConv(r1, R(1))
      /\ lastJump' = [t |-> tgt, a |-> r1.a, b |-> r1.b, fa |-> r1.fa, fb |-> r1.fb, ts |-> ts, fresh |-> TRUE]
   /\ \E g2 \in PosGaps : gap' = g2                        \* do_random_quantum_jump: set_jump_threshold(norm^2)
   /\ cur' = tgt /\ rf' = NONE /\ tgt' = T(ts + 1) /\ jumps' = jumps + 1 /\ UNCHANGED <<ts, lastFill, nFill>>
Progress == ~Finished /\ \E g \in Gaps : NoSearchNoCross(g) \/ SearchStart(g) \/ SearchStep(g) \/ Jump(g)
Next == Progress
Spec == Init /\ [][Next]_vars /\ WF_vars(Progress)

\* ------------------------------------------------------------------ requirement (C18)
StepsInOrderOnce == [][ts' = ts \/ (ts' = ts + 1 /\ rf = NONE /\ cur' = T(ts + 1))]_vars
FillOnceInOrder  == [][(nFill' = nFill /\ lastFill' = lastFill)
                       \/ (nFill' = nFill + 1 /\ lastFill' = ts + 1 /\ lastFill' \in Due /\ ts' = ts + 1)]_vars
AllDueFilled == Finished => nFill = Cardinality(Due)
JumpInside == lastJump.fresh =>
                 LET j == lastJump IN
                 /\ Le(T(j.ts), j.t) /\ Le(j.t, T(j.ts + 1))                 \* inside the current step
                 /\ Lt(RAbs(Sub(j.a, j.b)), R(1))                            \* within the 1 ns root tolerance ...
                 /\ Sgn(j.fa) * Sgn(j.fb) < 0                                \* ... of a threshold crossing
                 /\ (j.t = j.a \/ j.t = j.b)
TimeInStep == ~Finished => (Le(T(ts), cur) /\ Le(cur, T(ts + 1)) /\ Le(T(ts), tgt) /\ Le(tgt, T(ts + 1)))
TargetRestored == (rf = NONE /\ ~Finished) => tgt = T(ts + 1)
Termination == <>Finished

LogStep == LogTransitions => PrintT(<<"T", vars, vars'>>)
====
