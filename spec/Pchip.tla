---- MODULE Pchip ----
(* C20.  emu_base/math/pchip_torch.py in exact rationals.

   MECHANISM  = PchipFn.tla (transcription of the code, one operator per code-level step),
                driven here with one action per stage of PCHIP1D.__init__.
   REQUIREMENT = what the property statement demands, written WITHOUT reference to the mechanism's
                formulas: data reproduced at the knots, C1, monotone and bounded on every interval,
                equal to the STANDARD PCHIP interpolant (Fritsch-Carlson interior slopes, three-point
                end slopes with Moler's sign/cap limiter; Hermite BASIS form; end cubics extended
                outside the knot range).

   Variant = "code"     : the limiter as the code writes it   (d_end * s_l < 0 ; s_l * s_r < 0)
   Variant = "standard" : the limiter of the standard method  (sign(d) # sign(s_l) ; sign(s_l) # sign(s_r))
   TLC checks  mechanism(Variant) |= requirement  for EVERY data set over the constants. *)
EXTENDS PchipFn, TLC
CONSTANTS Hs,        \* set of interval widths (positive rationals)
          Ys,        \* set of data values (rationals)
          Y1s,       \* set of values of the FIRST datum (a subset of Ys; {0} uses translation invariance)
          Ns,        \* set of knot counts (each >= 2)
          Variant,   \* "code" | "standard"
          LogCases   \* BOOLEAN: print every data set with the mechanism's slopes (replay binding)
VARIABLES pc, h, x, y, delta, d, co
vars == <<pc, h, x, y, delta, d, co>>

N == Len(y)

\* ------------------------------------------------------------------------------- behaviour
Init == /\ pc = "data"
        /\ \E n \in Ns : /\ h \in [1..(n-1) -> Hs]
                         /\ y \in {f \in [1..n -> Ys] : f[1] \in Y1s}
                         /\ x = [j \in 1..n |-> XAt(h, j)]
        /\ delta = <<>> /\ d = <<>> /\ co = <<>>
Secants == /\ pc = "data"
           /\ delta' = [i \in 1..(N-1) |-> Div(Sub(y[i+1], y[i]), h[i])]
           /\ pc' = "secants" /\ UNCHANGED <<h, x, y, d, co>>
Slopes == /\ pc = "secants"
          /\ d' = Derivs(Variant, h, delta)
          /\ pc' = "slopes" /\ UNCHANGED <<h, x, y, delta, co>>
Polys == /\ pc = "slopes"
         /\ co' = Coeffs(y, h, delta, d)
         /\ pc' = "ready" /\ UNCHANGED <<h, x, y, delta, d>>
Next == Secants \/ Slopes \/ Polys
Spec == Init /\ [][Next]_vars

\* ------------------------------------------------------------------------------- requirement (C20)
Ready == pc = "ready"
\* (1) the interpolant reproduces the data at the knots (through the interval lookup)
KnotsExact == Ready => \A j \in 1..N : Eval(x, co, x[j]) = y[j]
\* (2) continuously differentiable: value and first derivative of neighbouring cubics agree at interior knots
C1 == Ready => \A j \in 2..(N-1) :
          /\ EvalOn(co, j-1, h[j-1]) = EvalOn(co, j, R(0))
          /\ DerOn(co, j-1, h[j-1]) = DerOn(co, j, R(0))
\* (3) monotone on each interval: P' keeps the sign of the secant on [0, h]  (exact: end values and vertex)
MonotoneOn(i) ==
   LET c == co[i]
       s == Sgn(delta[i])
       a == Mul(R(s), Mul(Three, c[4]))
       b == Mul(R(s), Mul(Two, c[3]))
       g == Mul(R(s), c[2])
       AtT(t) == Add(Add(Mul(a, Mul(t, t)), Mul(b, t)), g)
       tv == Div(Neg(b), Mul(Two, a))
   IN IF s = 0 THEN c[2] = R(0) /\ c[3] = R(0) /\ c[4] = R(0)
      ELSE /\ Le(R(0), g) /\ Le(R(0), AtT(h[i]))
           /\ (Sgn(a) > 0 /\ Lt(R(0), tv) /\ Lt(tv, h[i])) => Le(R(0), Sub(g, Div(Mul(b, b), Mul(R(4), a))))   \* value at the vertex
Monotone == Ready => \A i \in 1..(N-1) : MonotoneOn(i)
\* (4) stays between the two end values on each interval (sampled at quarters; implied by (3), stated on its own)
Between(v, a, b) == Le(RMin(a, b), v) /\ Le(v, RMax(a, b))
Bounded == Ready => \A i \in 1..(N-1) : \A k \in 1..3 :
              Between(EvalOn(co, i, Mul(h[i], Q(k, 4))), y[i], y[i+1])
\* (5) equals the standard PCHIP interpolant, inside and outside the knot range
StdD == Derivs("standard", h, delta)
StdEval(sd, q) == StdEvalFn(x, h, y, sd, q)
Queries ==
   {x[j] : j \in 1..N}
   \cup {Add(x[i], Mul(h[i], Q(1,2))) : i \in 1..(N-1)}
   \cup {Add(x[1], Mul(h[1], Q(1,4))), Add(x[N-1], Mul(h[N-1], Q(3,4)))}
   \cup {Sub(x[1], Q(1,2))}
   \cup {Add(x[N], o) : o \in {Q(1,2), R(2)}}
EqualsStandard == Ready => LET sd == StdD IN \A q \in Queries : Eval(x, co, q) = StdEval(sd, q)
SlopesStandard == pc \in {"slopes", "ready"} => d = StdD
\* lemma (Fritsch-Carlson sufficient region): alpha = d_i/delta_i, beta = d_{i+1}/delta_i in [0,3]; flat => zero slopes
FCRegion == pc \in {"slopes", "ready"} => \A i \in 1..(N-1) :
   IF Sgn(delta[i]) = 0 THEN d[i] = R(0) /\ d[i+1] = R(0)
   ELSE /\ Le(R(0), Div(d[i], delta[i])) /\ Le(Div(d[i], delta[i]), Three)
        /\ Le(R(0), Div(d[i+1], delta[i])) /\ Le(Div(d[i+1], delta[i]), Three)

LogStep == (LogCases /\ pc' = "ready") => PrintT(<<"D", h, y, d>>)
====
