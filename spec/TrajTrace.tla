---- MODULE TrajTrace ----
(* C17.  One trace per noisy scenario: the trajectories simulated by the real emu-mps jump solver and the
   comparison of their average with the Lindblad master-equation reference.
     case(n)                        n trajectories requested
     traj(i, finished, inRange, normalised)   trajectory i ran to the end; every reported occupation / correlation in
                                    its physical range; observables were computed on a normalised state
     agg(count, k, meanOK)          average over `count` trajectories at evaluation time k within
                                    z * s / sqrt(count) + systematic(dt) of the master-equation value
   Requirement: exactly n trajectories, each finished / inRange / normalised; every aggregate atom holds.        *)
EXTENDS Integers, Sequences, TLC, Json, IOUtils
Traces == JsonDeserialize(IOEnv.TRACE_FILE)
VARIABLES tid, l, bad, n, seen, aggs
vars == <<tid, l, bad, n, seen, aggs>>
Ev == Traces[tid].events
Init == tid \in 1..Len(Traces) /\ l = 1 /\ bad = "none" /\ n = 0 /\ seen = 0 /\ aggs = 0
Fail(c) == bad' = c /\ UNCHANGED <<n, seen, aggs>>
Step ==
  /\ bad = "none" /\ l <= Len(Ev)
  /\ LET e == Ev[l] IN
     CASE e.ev = "case" -> n' = e.n /\ bad' = bad /\ UNCHANGED <<seen, aggs>>
       [] e.ev = "traj" ->
            IF e.i # seen + 1 THEN Fail("trajectories-not-consecutive")
            ELSE IF ~e.finished THEN Fail("trajectory-did-not-finish")
            ELSE IF ~e.normalised THEN Fail("trajectory-observables-on-unnormalised-state")
            ELSE IF ~e.inRange THEN Fail("trajectory-value-outside-physical-range")
            ELSE seen' = seen + 1 /\ bad' = bad /\ UNCHANGED <<n, aggs>>
       [] e.ev = "agg" ->
            IF e.count # n \/ seen # n THEN Fail("aggregate-over-wrong-number-of-trajectories")
            ELSE IF ~e.meanOK THEN Fail("trajectory-average-differs-from-master-equation-beyond-sampling-error")
            ELSE aggs' = aggs + 1 /\ bad' = bad /\ UNCHANGED <<n, seen>>
       [] OTHER -> Fail("unknown-event")
  /\ l' = l + 1 /\ UNCHANGED tid
Spec == Init /\ [][Step]_vars
Rejected == (bad # "none") => PrintT(<<"REJECT", Traces[tid].id, l - 1, bad>>)
Accepted == (bad = "none" /\ l = Len(Ev) + 1) => IF aggs > 0 /\ seen = n THEN PrintT(<<"ACCEPT", Traces[tid].id>>) ELSE PrintT(<<"REJECT", Traces[tid].id, l, "no-aggregate">>)
====
