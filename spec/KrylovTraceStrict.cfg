SPECIFICATION Spec
CONSTANT Strict = TRUE
INVARIANT Rejected
INVARIANT Accepted
CHECK_DEADLOCK FALSE
