---- MODULE BandwidthObs ----
(* C32 binding (C): what the REAL minimize_bandwidth returned for recorded symmetric matrices is handed
   to TLC, which evaluates the contract of Perm.tla on it.
     kind = "int":   r.A is an integer matrix, TLC multiplies |A[i][j]| * |i - j| itself
     kind = "rank":  float matrices; the harness supplies r.V[i][j] = index of |A[i][j]| among the distinct
                     absolute values and r.R[v][d] = rank of fl(|value v| * d) among all such products
                     (order-exact projection: a <= b  iff  rank a <= rank b), TLC takes the maxima.
   With r.cands (recorded through a harness-side wrapper of minimize_bandwidth_impl, integer matrices)
   the bookkeeping of BandwidthOpt.tla is checked too: identity start first, every candidate an honest
   (permutation, bandwidth) pair, the result the first candidate of minimal bandwidth.
   One line per record:  <<"B", id, contract verdict, mechanism verdict>>                          *)
EXTENDS Perm, Sequences, Json, IOUtils
VARIABLE bi
Recs == JsonDeserialize(IOEnv.OBS_FILE)
Fn0(q)  == [i \in Idx(Len(q)) |-> q[i + 1]]
Fn0m(m) == [i \in Idx(Len(m)) |-> Fn0(m[i + 1])]
IsPermSeq(q, n) == /\ Len(q) = n
                   /\ (\A h \in 1..n : q[h] \in Idx(n))
                   /\ (\A i, j \in 1..n : q[i] = q[j] => i = j)
RankBW(V, R) == SetMax({R[V[i][j] + 1][IAbsP(j - i) + 1] : i \in DOMAIN V, j \in DOMAIN V})
BWOf(r, M) == IF r.kind = "int" THEN Bandwidth(M) ELSE RankBW(M, r.R)
Mat(r) == Fn0m(IF r.kind = "int" THEN r.A ELSE r.V)
ContractVerdict(r) ==
  IF ~IsPermSeq(r.p, r.n) THEN "not-a-permutation-of-all-atoms"
  ELSE IF BWOf(r, PermuteMatrix(Mat(r), Fn0(r.p))) > BWOf(r, Mat(r)) THEN "bandwidth-increased"
  ELSE "ok"
MechVerdict(r) ==
  IF Len(r.cands) = 0 THEN "not-recorded"
  ELSE IF r.cands[1].start # [i \in 1..r.n |-> i - 1] THEN "identity-start-is-not-first"
  ELSE IF \E i \in 1..Len(r.cands) : ~IsPermSeq(r.cands[i].perm, r.n) THEN "candidate-not-a-permutation"
  ELSE IF \E i \in 1..Len(r.cands) : Bandwidth(PermuteMatrix(Mat(r), Fn0(r.cands[i].perm))) # r.cands[i].bw
       THEN "candidate-bandwidth-dishonest"
  ELSE IF \E i \in 1..Len(r.cands) : r.cands[i].bw > Bandwidth(PermuteMatrix(Mat(r), Fn0(r.cands[i].start)))
       THEN "candidate-worse-than-its-start"
  ELSE LET best == CHOOSE i \in 1..Len(r.cands) : /\ \A j \in 1..Len(r.cands) : r.cands[i].bw <= r.cands[j].bw
                                                   /\ \A h \in 1..(i - 1) : r.cands[h].bw > r.cands[i].bw
       IN IF r.cands[best].perm # r.p THEN "result-is-not-the-first-best-candidate" ELSE "ok"
Init == bi \in 1..Len(Recs)
Spec == Init /\ [][UNCHANGED bi]_bi
Printed == PrintT(<<"B", Recs[bi].id, ContractVerdict(Recs[bi]), MechVerdict(Recs[bi])>>)
====
