---- MODULE PermObs ----
(* C32 binding (C) for the helpers: what the REAL eye_permutation / permute_list / permute_tuple /
   permute_string / permute_tensor / inv_permutation returned (identity-tagged inputs, see
   Perm!HelperOutputs) is handed to TLC, which evaluates the laws of Perm.tla on it.
   One line per record:  <<"P", id, first broken law or "ok">>                                     *)
EXTENDS Perm, Sequences, Json, IOUtils
VARIABLE pi
Recs == JsonDeserialize(IOEnv.OBS_FILE)
Fn0(q)  == [i \in Idx(Len(q)) |-> q[i + 1]]
Fn0m(m) == [i \in Idx(Len(m)) |-> Fn0(m[i + 1])]
Out(r) == [ n |-> r.n, p |-> Fn0(r.p), inv |-> Fn0(r.inv), list |-> Fn0(r.list), tuple |-> Fn0(r.tuple),
            string |-> Fn0(r.string), vector |-> Fn0(r.vector), matrix |-> Fn0m(r.matrix),
            back_list |-> Fn0(r.back_list), back_tuple |-> Fn0(r.back_tuple), back_string |-> Fn0(r.back_string),
            back_vector |-> Fn0(r.back_vector), back_matrix |-> Fn0m(r.back_matrix),
            fwd_after_inv |-> Fn0(r.fwd_after_inv), inv_inv |-> Fn0(r.inv_inv) ]
WellFormed(r) == /\ Len(r.inv) = r.n /\ Len(r.list) = r.n /\ Len(r.tuple) = r.n /\ Len(r.string) = r.n /\ Len(r.vector) = r.n
                 /\ Len(r.matrix) = r.n /\ Len(r.back_list) = r.n /\ Len(r.back_matrix) = r.n /\ Len(r.inv_inv) = r.n
                 /\ \A i \in 1..r.n : r.inv[i] \in Idx(r.n) /\ r.list[i] \in Idx(r.n)
Init == pi \in 1..Len(Recs)
Spec == Init /\ [][UNCHANGED pi]_pi
Printed == LET r == Recs[pi] IN
           PrintT(<<"P", r.id, IF ~WellFormed(r) THEN "helper-output-malformed"
                               ELSE IF r.eye # [i \in 1..r.n |-> i - 1] THEN "eye-permutation-is-not-the-identity"
                               ELSE FirstBrokenLaw(Out(r))>>)
====
