---- MODULE MetaTrace ----
(* C29.  Metamorphic relation between two real runs: original sequence s and transformed sequence tau(s),
   tau in {translate, rotate, reflect, phase_offset, phase_negate, roundtrip}.  Every transformation leaves
   the physics unchanged, so the two result sets must have the same schedule and equal values.
   Events of a pair:  rel(tau)  sched(tag, same)  val(tag, k, eq)  dist(tag, k, same)  end
   `eq` / `same` are atoms computed by the harness on the two real Results (budgets as C01 / C02).  TLC checks
   that every tag present in one run is present in the other with the same times and that every value atom holds. *)
EXTENDS Integers, Sequences, TLC, Json, IOUtils
Traces == JsonDeserialize(IOEnv.TRACE_FILE)
Taus == {"translate", "rotate", "reflect", "phase_offset", "phase_negate", "roundtrip"}
VARIABLES tid, l, bad, tau, nvals, ended
vars == <<tid, l, bad, tau, nvals, ended>>
Ev == Traces[tid].events
Init == tid \in 1..Len(Traces) /\ l = 1 /\ bad = "none" /\ tau = "none" /\ nvals = 0 /\ ended = FALSE
Fail(c) == bad' = c /\ UNCHANGED <<tau, nvals, ended>>
Step ==
  /\ bad = "none" /\ l <= Len(Ev)
  /\ LET e == Ev[l] IN
     CASE e.ev = "rel" -> IF e.tau \in Taus THEN tau' = e.tau /\ bad' = bad /\ UNCHANGED <<nvals, ended>> ELSE Fail("unknown-transformation")
       [] e.ev = "sched" -> IF e.same THEN bad' = bad /\ UNCHANGED <<tau, nvals, ended>> ELSE Fail("result-schedule-changed-by-physically-neutral-transformation")
       [] e.ev = "val" -> IF e.eq THEN nvals' = nvals + 1 /\ bad' = bad /\ UNCHANGED <<tau, ended>> ELSE Fail("value-changed-by-physically-neutral-transformation")
       [] e.ev = "dist" -> IF e.same THEN nvals' = nvals + 1 /\ bad' = bad /\ UNCHANGED <<tau, ended>> ELSE Fail("bitstring-distribution-changed-by-physically-neutral-transformation")
       [] e.ev = "end" -> IF tau = "none" THEN Fail("no-relation-declared")
                          ELSE IF nvals = 0 THEN Fail("nothing-compared")
                          ELSE ended' = TRUE /\ bad' = bad /\ UNCHANGED <<tau, nvals>>
       [] OTHER -> Fail("unknown-event")
  /\ l' = l + 1 /\ UNCHANGED tid
Spec == Init /\ [][Step]_vars
Rejected == (bad # "none") => PrintT(<<"REJECT", Traces[tid].id, l - 1, bad>>)
Accepted == (bad = "none" /\ l = Len(Ev) + 1) => IF ended THEN PrintT(<<"ACCEPT", Traces[tid].id>>) ELSE PrintT(<<"REJECT", Traces[tid].id, l, "pair-not-closed">>)
====
