---- MODULE Krylov ----
(* C07 / C08.  The Krylov kernels against an ENVIRONMENT that decides every floating-point test
   (happy breakdown / convergence / neither at every iteration; the order of the Ritz residuals).
   Mechanism: KrylovFn (transcription of the code).  Requirement: the invariants below, written with
   the requirement operators of KrylovFn that KrylovTrace.tla evaluates on recorded executions.

   Numeric assumptions (the ONLY link between the floating-point tests and the numeric atoms; they
   are what the harness checks on the real code against the dense reference):
     A-EST   krylov_exp_impl: the vector assembled at a happy breakdown, or when the Expokit estimate
             recomputed with the true |op(q_{j+1})| confirms the cheap one, is accurate (10 tol |v| +
             rounding).  Nothing is assumed about the cheap estimate alone, nor about the vector
             assembled after the loop is exhausted.
     A-ORTH  ground-state search: the Lanczos basis is orthonormal, hence a Ritz value is the Rayleigh
             quotient of its own (normalised) Ritz vector and beta_j |y_j| is its true residual norm.
   TLC explores every control path for max_krylov_dim <= MaxDimBound and max_restarts <= MaxRestartsBound
   and every order pattern of the residuals over Levels+1 levels.                                    *)
EXTENDS KrylovFn, TLC
CONSTANTS Fn,                \* "exp" | "min"
          MaxDimBound,       \* max_krylov_dim ranges over 1..MaxDimBound
          MaxRestartsBound,  \* max_restarts ranges over 0..MaxRestartsBound   ("min" only)
          Levels,            \* residual levels 0..Levels
          TolLevel           \* resid < residual_tolerance  <=>  level < TolLevel
VARIABLES s,                 \* the mechanism record
          acc                \* "exp": is the vector the code would assemble NOW accurate (environment, under A-EST)
vars == <<s, acc>>

Init == /\ acc = FALSE
        /\ \E m \in 1..MaxDimBound :
             IF Fn = "exp" THEN s = ExpNew(m)
             ELSE \E R \in 0..MaxRestartsBound : s = MinNew(m, R)

(* ---------------- exponential ---------------- *)
\* A-EST: exact at a happy breakdown; reliable when the estimate with the TRUE norm confirms.  The cheap
\* estimate alone (errSmall without confirmation) promises nothing.
AEst(n2Small, errSmall, confirmed, accNow) == (n2Small \/ (errSmall /\ confirmed)) => accNow
ExpBreakdownStep ==                                          \* n2 < norm_tolerance (tested first)
  /\ Fn = "exp" /\ ExpCanIterate(s)
  /\ \E e \in BOOLEAN, c \in BOOLEAN, a \in BOOLEAN :
        AEst(TRUE, e, c, a) /\ acc' = a /\ s' = ExpIterate(s, TRUE, e, c)
ExpConvergeStep ==                                           \* cheap estimate small, confirmed
  /\ Fn = "exp" /\ ExpCanIterate(s)
  /\ \E a \in BOOLEAN : AEst(FALSE, TRUE, TRUE, a) /\ acc' = a /\ s' = ExpIterate(s, FALSE, TRUE, TRUE)
ExpFalseAlarmStep ==                                         \* cheap estimate small, NOT confirmed: product reused
  /\ Fn = "exp" /\ ExpCanIterate(s)
  /\ \E a \in BOOLEAN : AEst(FALSE, TRUE, FALSE, a) /\ acc' = a /\ s' = ExpIterate(s, FALSE, TRUE, FALSE)
ExpContinueStep ==                                           \* neither: the candidate vector may be anything
  /\ Fn = "exp" /\ ExpCanIterate(s)
  /\ \E a \in BOOLEAN : AEst(FALSE, FALSE, FALSE, a) /\ acc' = a /\ s' = ExpIterate(s, FALSE, FALSE, FALSE)
\* result assembled from the LAST expd: the same vector the last iteration would have returned
ExpExhaustStep   == Fn = "exp" /\ ExpCanExhaust(s) /\ s' = ExpExhaust(s) /\ UNCHANGED acc
ExpWrapStep      == Fn = "exp" /\ s.pc = "impl_ret" /\ s' = ExpWrap(s) /\ UNCHANGED acc

(* ---------------- ground-state search ---------------- *)
MinBreakdownStep ==                                          \* betas[j] < norm_tolerance, any residual level
  /\ Fn = "min" /\ MinCanIterate(s)
  /\ \E lvl \in 0..Levels : s' = MinIterate(s, lvl, TRUE, TolLevel)
  /\ UNCHANGED acc
MinIterStep ==                                               \* converges (level < TolLevel) or continues
  /\ Fn = "min" /\ MinCanIterate(s)
  /\ \E lvl \in 0..Levels : s' = MinIterate(s, lvl, FALSE, TolLevel)
  /\ UNCHANGED acc
MinExhaustStep   == Fn = "min" /\ MinCanExhaust(s) /\ s' = MinCycleExhaust(s) /\ UNCHANGED acc
MinAfterCycleStep == Fn = "min" /\ s.pc = "cycle_ret" /\ s' = MinAfterCycle(s) /\ UNCHANGED acc
MinWrapStep      == Fn = "min" /\ s.pc = "impl_ret" /\ s' = MinWrap(s) /\ UNCHANGED acc

Next == \/ ExpBreakdownStep \/ ExpConvergeStep \/ ExpFalseAlarmStep \/ ExpContinueStep \/ ExpExhaustStep \/ ExpWrapStep
        \/ MinBreakdownStep \/ MinIterStep \/ MinExhaustStep \/ MinAfterCycleStep \/ MinWrapStep
Spec == Init /\ [][Next]_vars /\ WF_vars(Next)

Returned == s.pc \in {"impl_ret", "done"}                     \* the impl has produced its result record

(* ---------------- requirement C07 ---------------- *)
ExpHonest ==
  (Fn = "exp" /\ Returned) =>
     /\ ExpReqItersBounded(s.iters, s.maxDim)
     /\ ExpReqOpsBounded(s.ops, s.maxDim)
     /\ ExpReqConvAccurate(s.conv, acc)
     /\ (s.bd => s.conv)                                      \* the constructor's own assertion
ExpPublic ==
  (Fn = "exp" /\ s.pc = "done") =>
     /\ ExpReqRaiseIff(s.outcome, s.conv)
     /\ ExpReqReturnedConv(s.outcome, s.conv)
     /\ ExpReqReturnedAccurate(s.outcome, acc)
\* control facts the binding relies on (mechanism level): exits and their iteration counts
ExpShape ==
  (Fn = "exp" /\ Returned) =>
     /\ s.kind = "exhausted" => (~s.conv /\ s.iters = s.maxDim /\ s.ops \in {s.maxDim, s.maxDim + 1})
     /\ s.kind \in {"breakdown", "converged"} => (s.conv /\ s.iters = s.j + 1 /\ s.iters >= 1)
     /\ s.kind = "breakdown" => s.ops = s.iters            \* a false alarm costs nothing: its product is reused
     /\ s.kind = "converged" => s.ops = s.iters + 1        \* exactly one confirming application

(* ---------------- requirement C08 (atoms of the returned pair under A-ORTH) ---------------- *)
AtomRayleigh    == s.bestIt > 0 /\ s.enIt = s.bestIt          \* energy and vector come from the SAME Ritz pair
AtomVariational == TRUE                                       \* any Ritz value / +inf is >= lambda_min
AtomResidOK     == s.best < TolLevel                          \* residual of the returned vector below tol
MinSound ==
  (Fn = "min" /\ Returned) =>
     /\ MinReqRayleigh(AtomRayleigh)
     /\ MinReqVariational(AtomVariational)
     /\ MinReqResidual(s.conv, s.bd, AtomResidOK)
     /\ MinReqRestartsBounded(s.restarts, s.maxR)
     /\ MinReqItersBounded(s.total, s.restarts, s.maxDim)
     /\ (s.bd => s.conv)
MinPublic ==
  (Fn = "min" /\ s.pc = "done") => ((s.outcome = "raised") <=> (~s.conv /\ ~s.bd))
MinShape ==
  (Fn = "min" /\ Returned) =>
     /\ s.total >= 1 /\ s.restarts = s.r
     /\ s.kind = "exhausted" => (s.r = s.maxR /\ ~s.conv /\ ~s.bd /\ s.total = s.maxDim * (s.maxR + 1))
     /\ s.kind \in {"breakdown", "converged"} => (s.conv /\ s.total = s.r * s.maxDim + s.j + 1)

Terminates == <>(s.pc = "done")

\* every terminal state = one control path; printed for the spec -> code binding (always TRUE)
PathLog ==
  s.pc = "done" =>
    IF Fn = "exp" THEN PrintT(<<"P", "exp", s.maxDim, 0, s.kind, s.ops - s.iters, s.iters, s.conv, s.bd, s.outcome>>)
    ELSE PrintT(<<"P", "min", s.maxDim, s.maxR, s.kind, s.r, s.total, s.conv, s.bd, s.outcome>>)
====
