---- MODULE SVRunTrace ----
(* Binding (B) for emu-sv: hook traces of real SVBackend runs validated against the requirement side
   of SVRun.tla.  Numeric comparisons with the independent dense reference enter as boolean atoms.
   Events:
     new(K)
     obs(k, due, stored, stateOK, obsOK, physOK)   observables evaluated at target time k; due = some observable
                                           requested this time; stored = something was actually stored;
                                           stateOK/obsOK: state / every stored value equals the reference
                                           within the budget; physOK: density matrix Hermitian, trace one, PSD
     step(rowIdx, dtIdx, matOK, kind)      values RECEIVED by the stepper: index of the data row they equal
                                           (-1: none), index of the interval whose length dt equals, matrix valid
     evolve(k, qIn)                        bookkeeping event of _evolve_step: step index, query time inside [T_k, T_k+1]
     ret(K, refOK)                         run returned; refOK: agreement with the continuous-time reference          *)
EXTENDS Integers, Sequences, TLC, Json, IOUtils
Traces == JsonDeserialize(IOEnv.TRACE_FILE)
VARIABLES tid, l, bad, K, k, phase, lastRow, lastDt, returned
vars == <<tid, l, bad, K, k, phase, lastRow, lastDt, returned>>
Ev == Traces[tid].events
Init == /\ tid \in 1..Len(Traces) /\ l = 1 /\ bad = "none" /\ K = 0 /\ k = 0 /\ phase = "new"
        /\ lastRow = 0 - 2 /\ lastDt = 0 - 2 /\ returned = FALSE
Rest == <<K, k, phase, lastRow, lastDt, returned>>
Fail(c) == bad' = c /\ UNCHANGED Rest
Ok == bad' = bad
Step ==
  /\ bad = "none" /\ l <= Len(Ev)
  /\ LET e == Ev[l] IN
     CASE e.ev = "new" ->
            IF phase # "new" THEN Fail("new-twice")
            ELSE K' = e.K /\ phase' = "obs0" /\ Ok /\ UNCHANGED <<k, lastRow, lastDt, returned>>
       [] e.ev = "obs" ->
            IF ~(phase \in {"obs0", "obs"}) THEN Fail("observables-out-of-order")
            ELSE IF phase = "obs0" /\ e.k # 0 THEN Fail("first-observable-call-not-at-time-0")
            ELSE IF phase = "obs" /\ e.k # k + 1 THEN Fail("observables-not-after-the-step-just-evolved")
            ELSE IF e.due # e.stored THEN Fail("recorded-iff-due-violated")
            ELSE IF ~e.stateOK THEN Fail("state-differs-from-exact-evolution")
            ELSE IF ~e.obsOK THEN Fail("observable-differs-from-reference")
            ELSE IF ~e.physOK THEN Fail("state-not-physical")
            ELSE /\ k' = e.k /\ phase' = (IF e.k = K THEN "end" ELSE "step") /\ Ok
                 /\ UNCHANGED <<K, lastRow, lastDt, returned>>
       [] e.ev = "step" ->
            IF phase # "step" THEN Fail("stepper-called-out-of-order")
            ELSE IF e.rowIdx # k THEN Fail("stepper-received-the-wrong-drive-row")
            ELSE IF e.dtIdx # k THEN Fail("stepper-received-the-wrong-duration")
            ELSE IF ~e.matOK THEN Fail("stepper-received-a-wrong-interaction-matrix")
            ELSE /\ lastRow' = e.rowIdx /\ lastDt' = e.dtIdx /\ phase' = "evolved" /\ Ok
                 /\ UNCHANGED <<K, k, returned>>
       [] e.ev = "evolve" ->
            IF phase # "evolved" THEN Fail("evolve-bookkeeping-out-of-order")
            ELSE IF e.k # k THEN Fail("steps-not-taken-once-in-order")
            ELSE IF ~e.qIn THEN Fail("interaction-queried-outside-the-step")
            ELSE phase' = "obs" /\ Ok /\ UNCHANGED <<K, k, lastRow, lastDt, returned>>
       [] e.ev = "ret" ->
            IF phase # "end" THEN Fail("returned-before-the-last-step")
            ELSE IF ~e.refOK THEN Fail("disagrees-with-continuous-time-reference-beyond-discretisation-error")
            ELSE returned' = TRUE /\ Ok /\ UNCHANGED <<K, k, phase, lastRow, lastDt>>
       [] OTHER -> Fail("unknown-event")
  /\ l' = l + 1 /\ UNCHANGED tid
Spec == Init /\ [][Step]_vars
Rejected == (bad # "none") => PrintT(<<"REJECT", Traces[tid].id, l - 1, bad>>)
Accepted == (bad = "none" /\ l = Len(Ev) + 1) =>
               IF returned \/ Traces[tid].partial THEN PrintT(<<"ACCEPT", Traces[tid].id>>)
               ELSE PrintT(<<"REJECT", Traces[tid].id, l, "trace-ends-before-results-were-returned">>)
====
