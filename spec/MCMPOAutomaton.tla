---- MODULE MCMPOAutomaton ----
EXTENDS MPOAutomaton
RECURSIVE PairSeq(_, _, _)
PairSeq(n, i, j) == IF i >= n - 1 THEN <<>>
                    ELSE IF j >= n THEN PairSeq(n, i + 1, i + 2)
                    ELSE <<<<i, j>>>> \o PairSeq(n, i, j + 1)
cAll == PairSeq(NS, 0, 1)                                       \* every pair free: all 2^(N(N-1)/2) patterns
cNone == {}
\* N = 7 slices (2^21 patterns are out of reach): the right half's keep-loop needs >= 2 sites right of
\* a right factor, which first happens at N = 7 (right_factor(4) sees sites 5, 6)
cTouchRight == SelectSeq(PairSeq(NS, 0, 1), LAMBDA p : p[2] >= NS - 3)     \* pairs touching the last three sites
cTouchLeft  == SelectSeq(PairSeq(NS, 0, 1), LAMBDA p : p[1] <= 2)          \* pairs touching the first three sites
cChain == {<<i, i + 1>> : i \in 0..NS-2}
====
