---- MODULE Gauss ----
(* (TLCEval forces TLC to build a matrix once instead of re-evaluating a lazy function at every use.)
   Gaussian integers <<re, im>> and small dense matrices over them (functions 0..d-1 -> 0..d-1 -> G).
   Used by SVOperator / SVObjects: all parameters are units (0, 1, i, -1, -i), so every entry of the
   operators in question is an exact Gaussian integer (after the documented scaling by 2).          *)
EXTENDS Integers, Sequences, FiniteSets, TLC
G(a, b) == <<a, b>>
GZero == <<0, 0>>
GOne == <<1, 0>>
GI == <<0, 1>>
GAdd(x, y) == <<x[1] + y[1], x[2] + y[2]>>
GSub(x, y) == <<x[1] - y[1], x[2] - y[2]>>
GNeg(x) == <<0 - x[1], 0 - x[2]>>
GMul(x, y) == <<x[1] * y[1] - x[2] * y[2], x[1] * y[2] + x[2] * y[1]>>
GConj(x) == <<x[1], 0 - x[2]>>
GScale(k, x) == <<k * x[1], k * x[2]>>
\* e^{i q pi/2}, q in 0..3
GPhase(q) == CASE q = 0 -> <<1, 0>> [] q = 1 -> <<0, 1>> [] q = 2 -> <<0 - 1, 0>> [] q = 3 -> <<0, 0 - 1>>
CosQ(q) == GPhase(q)[1]
SinQ(q) == GPhase(q)[2]

RECURSIVE GSumTo(_, _)            \* sum of f[0..n]
GSumTo(f, n) == IF n < 0 THEN GZero ELSE GAdd(f[n], GSumTo(f, n - 1))
RECURSIVE GSumSeq(_, _)           \* sum of a sequence of Gaussian integers
GSumSeq(s, n) == IF n = 0 THEN GZero ELSE GAdd(s[n], GSumSeq(s, n - 1))
RECURSIVE Pow2(_)
Pow2(n) == IF n = 0 THEN 1 ELSE 2 * Pow2(n - 1)

\* d x d matrices
MZero(d) == TLCEval([r \in 0..d-1 |-> [c \in 0..d-1 |-> GZero]])
MId(d) == TLCEval([r \in 0..d-1 |-> [c \in 0..d-1 |-> IF r = c THEN GOne ELSE GZero]])
MUnit(d, a, b) == TLCEval([r \in 0..d-1 |-> [c \in 0..d-1 |-> IF r = a /\ c = b THEN GOne ELSE GZero]])
MAdd(d, A, B) == TLCEval([r \in 0..d-1 |-> [c \in 0..d-1 |-> GAdd(A[r][c], B[r][c])]])
MSub(d, A, B) == TLCEval([r \in 0..d-1 |-> [c \in 0..d-1 |-> GSub(A[r][c], B[r][c])]])
MScale(d, z, A) == TLCEval([r \in 0..d-1 |-> [c \in 0..d-1 |-> GMul(z, A[r][c])]])
MDag(d, A) == TLCEval([r \in 0..d-1 |-> [c \in 0..d-1 |-> GConj(A[c][r])]])
MMul(d, A, B) == TLCEval([r \in 0..d-1 |-> [c \in 0..d-1 |-> GSumTo([k \in 0..d-1 |-> GMul(A[r][k], B[k][c])], d - 1)]])
MTrace(d, A) == GSumTo([k \in 0..d-1 |-> A[k][k]], d - 1)
RECURSIVE MSumSeq(_, _, _)        \* sum of a sequence of matrices
MSumSeq(d, s, n) == IF n = 0 THEN MZero(d) ELSE MAdd(d, s[n], MSumSeq(d, s, n - 1))
\* non-zero entries, as a set of <<row, col, re, im>> (what the harness compares with the real tensors)
Entries(d, A) == {<<r, c, A[r][c][1], A[r][c][2]>> : r \in 0..d-1, c \in 0..d-1} \ {<<r, c, 0, 0>> : r \in 0..d-1, c \in 0..d-1}
====
