---- MODULE QubitOrderFn ----
(* C03 / C25 (and the site-coherence part of C02).  MECHANISM: every place where emu-mps / emu-sv
   move a per-atom datum from one index space to another, one operator per code-level step, in the
   order the code performs them.  Atoms are LABELS (0..n-1).  Every per-atom datum carries the label
   of the atom it belongs to, so "the code used the drive of the wrong atom" is a visible fact.

   Scenario  sc = [backend, n, rho, optp, reorder, spe, dark, given, dim, tagmode]
     rho[k]   label of the atom at REGISTER index k  (register order = insertion order = qubit_ids)
     optp     what optimat.minimize_bandwidth returns (any permutation: the optimiser is free)
     reorder  config.optimize_qubit_ordering        spe   state_prep_error > 0
     dark     set of labels Pulser marked as badly prepared (bad_atoms[k] = rho[k] \in dark)
     given    config.initial_state is given (its amplitude strings are in register order)
     dim      levels per atom (3 = with leakage)
     tagmode  under which tags the per-atom observables store their results: "base" (occupation,
              correlation_matrix, bitstrings), "suffix" (Occupation(tag_suffix="x") -> occupation_x, ...),
              "both" (two instances of each observable: base tag and suffixed tag)

   Variant  V = [siteOrder, padDim, small, allTags]   which revision of the code is transcribed:
     siteOrder  FALSE: `self.omega = pulser_data.omega` and the bad-atom mask stay in REGISTER order
                       (as found)            TRUE: drive columns and mask are permuted into site order
     padDim     FALSE: extended_mps_factors / extended_mpo_factors hard-code physical dimension 2
                       (as found)            TRUE: they follow the dimension of the state
     small      FALSE: MPS.make refuses <= 1 site, so <= 1 well prepared atom raises (as found)
                TRUE:  with fewer than two well prepared atoms every atom stays in the chain and the
                       badly prepared ones are switched off (no drive, no interaction), as emu-sv does

     allTags    FALSE: permute_results looks the results up by the EXACT tags "bitstrings" / "occupation" /
                       "correlation_matrix", so results stored under a suffixed tag stay in site order
                       (as found)            TRUE: every result whose observable has one of these BASE tags
                       is brought back to register order

   Mechanism state  s  (index |-> label maps, all 0-based functions):
     qperm, atomOrder, drive (columns of self.omega/delta/phi), hasFilter, wp (well_prepared_qubits_filter),
     off (atoms switched off instead of removed), qc (self.qubit_count), init (letters of the MPS sites), imat (tagged matrix), ham (per site:
     <<drive label, interaction row label, interaction column label, initial letter label>>),
     ext (state handed to the observables), occ / bits / corr (results stored under the base tags),
     occX / bitsX / corrX (results stored under the suffixed tags), outcome.                        *)
EXTENDS Perm, Sequences

CONSTANT V

OFF    == -2        \* a datum that was zeroed (emu-sv) -- belongs to no atom any more
GROUND == -3        \* default initial letter "g" (carries no label: identical on every atom)
PAD    == <<-1, -1, -1, -1>>      \* a |g> factor inserted by extended_mps_factors

CountTrue(m)        == Cardinality({k \in DOMAIN m : m[k]})
TrueBefore(m, k)    == Cardinality({l \in DOMAIN m : l < k /\ m[l]})
NthTrue(m, i)       == CHOOSE k \in DOMAIN m : m[k] /\ TrueBefore(m, k) = i
\* tensor[:, mask] / tensor[mask]  (boolean-mask selection keeps order)
Select(f, m)        == [i \in Idx(CountTrue(m)) |-> f[NthTrue(m, i)]]
SelectMatrix(a, m)  == [i \in Idx(CountTrue(m)) |-> [j \in Idx(CountTrue(m)) |-> a[NthTrue(m, i)][NthTrue(m, j)]]]
TaggedMatrix(t)     == [i \in DOMAIN t |-> [j \in DOMAIN t |-> <<t[i], t[j]>>]]
PairMatrix(e)       == [i \in DOMAIN e |-> [j \in DOMAIN e |-> <<e[i], e[j]>>]]
Bad(sc)             == [k \in Idx(sc.n) |-> sc.spe /\ sc.rho[k] \in sc.dark]     \* pulser_data.bad_atoms

Blank == [ qperm |-> <<>>, atomOrder |-> <<>>, drive |-> <<>>, hasFilter |-> FALSE, wp |-> <<>>, off |-> <<>>, qc |-> 0,
           init |-> <<>>, imat |-> <<>>, ham |-> <<>>, ext |-> <<>>, occ |-> <<>>, bits |-> <<>>, corr |-> <<>>,
           occX |-> <<>>, bitsX |-> <<>>, corrX |-> <<>>, outcome |-> "running" ]
HasBase(sc)     == sc.tagmode \in {"base", "both"}
HasSuffixed(sc) == sc.tagmode \in {"suffix", "both"}

\* ============================================================================ emu-mps
\* MPSBackendImpl.__init__
MpsCtor(sc) ==
  LET qp == IF sc.reorder THEN sc.optp ELSE EyePermutation(sc.n)
  IN [Blank EXCEPT
        !.qc = sc.n,
        !.qperm = qp,
        \* self.omega = pulser_data.omega  (columns in register order)   [siteOrder: omega[:, perm]]
        !.drive = IF V.siteOrder THEN PermuteVector(sc.rho, qp) ELSE sc.rho,
        \* Results(atom_order = permute_tuple(qubit_ids, perm))
        !.atomOrder = PermuteTuple(sc.rho, qp)]

\* MPSBackendImpl.init_dark_qubits
MpsInitDarkQubits(sc, s) ==
  IF ~sc.spe THEN [s EXCEPT !.hasFilter = FALSE]
  ELSE LET bad == IF V.siteOrder THEN PermuteTuple(Bad(sc), s.qperm) ELSE Bad(sc)
           wp  == [k \in Idx(sc.n) |-> ~bad[k]]
       IN IF V.small /\ CountTrue(wp) < 2
          THEN [s EXCEPT !.hasFilter = FALSE, !.off = bad,      \* too few atoms for an MPS: switch off, keep
                         !.drive = [k \in Idx(sc.n) |-> IF bad[k] THEN OFF ELSE s.drive[k]]]
          ELSE [s EXCEPT !.hasFilter = TRUE, !.wp = wp,
                         !.qc = CountTrue(wp),               \* self.qubit_count = sum(filter)
                         !.drive = Select(s.drive, wp)]      \* self.omega[:, filter] (delta, phi alike)

\* MPSBackendImpl.init_initial_state
MpsInitInitialState(sc, s) ==
  IF ~sc.given
  THEN IF s.qc <= 1 /\ ~V.small
       THEN [s EXCEPT !.outcome = "raise:fewer-than-two-well-prepared-atoms"]     \* MPS.make(num_sites <= 1)
       ELSE [s EXCEPT !.init = [k \in Idx(s.qc) |-> GROUND]]
  ELSE IF s.hasFilter
       THEN [s EXCEPT !.outcome = "refuse:initial-state-with-state-prep-error"]   \* NotImplementedError
       ELSE [s EXCEPT !.init = IF s.qperm # EyePermutation(sc.n)
                                THEN PermuteString(sc.rho, s.qperm)               \* every amplitude string
                                ELSE sc.rho]

\* MPSBackendImpl._get_interaction_matrix : permute, THEN filter
MpsGetInteractionMatrix(sc, s) ==
  LET m0 == TaggedMatrix(sc.rho)                                                  \* pulser_data.interaction_matrix(t)
      m1 == IF s.qperm # EyePermutation(sc.n) THEN PermuteMatrix(m0, s.qperm) ELSE m0
      m2 == IF s.hasFilter THEN SelectMatrix(m1, s.wp) ELSE m1                    \* m[filter, :][:, filter]
      m3 == IF s.off # <<>>
            THEN [i \in Idx(sc.n) |-> [j \in Idx(sc.n) |-> IF s.off[i] \/ s.off[j] THEN <<OFF, OFF>> ELSE m2[i][j]]]
            ELSE m2
  IN [s EXCEPT !.imat = m3]

\* make_H(current_interaction_matrix) + update_H(omega[ts, :], delta[ts, :], phi[ts, :]) :
\* site k of the MPO gets interaction row / column k and drive column k; the state's site k is letter k
MpsUpdateH(sc, s) ==
  IF Size(s.drive) # Size(s.imat) \/ Size(s.init) # Size(s.imat)
  THEN [s EXCEPT !.outcome = "raise:shape-mismatch"]
  ELSE [s EXCEPT !.ham = [k \in Idx(Size(s.imat)) |-> <<s.drive[k], s.imat[k][k][1], s.imat[k][k][2], s.init[k]>>]]

\* fill_results : without filter the state itself; with filter extended_mps_factors / extended_mpo_factors
\* walk `where = well_prepared_qubits_filter` and take the factors in order, padding |g> elsewhere
MpsFillResults(sc, s) ==
  IF ~s.hasFilter THEN [s EXCEPT !.ext = s.ham]
  ELSE IF sc.dim # 2 /\ ~V.padDim /\ CountTrue(s.wp) < sc.n
       THEN [s EXCEPT !.outcome = "raise:padding-hard-codes-dimension-2"]
       ELSE [s EXCEPT !.ext = [j \in Idx(sc.n) |-> IF s.wp[j] THEN s.ham[TrueBefore(s.wp, j)] ELSE PAD]]

\* MPSBackendImpl.permute_results(results, permute = config.optimize_qubit_ordering):
\*   permute_bitstrings / permute_occupations_and_correlations find the results to bring back by the tags
\*   "bitstrings" / "occupation" / "correlation_matrix"   [allTags: by the base tag of every observable]
MpsPermuteResults(sc, s) ==
  LET inv   == InvPermutation(s.qperm)
      back  == sc.reorder                        \* results stored under the exact tags
      backX == sc.reorder /\ V.allTags           \* results stored under suffixed tags
  IN [s EXCEPT
        !.bits  = IF ~HasBase(sc) THEN <<>> ELSE IF back THEN PermuteString(s.ext, inv) ELSE s.ext,
        !.occ   = IF ~HasBase(sc) THEN <<>> ELSE IF back THEN PermuteVector(s.ext, inv) ELSE s.ext,
        !.corr  = IF ~HasBase(sc) THEN <<>> ELSE IF back THEN PermuteMatrix(PairMatrix(s.ext), inv) ELSE PairMatrix(s.ext),
        !.bitsX = IF ~HasSuffixed(sc) THEN <<>> ELSE IF backX THEN PermuteString(s.ext, inv) ELSE s.ext,
        !.occX  = IF ~HasSuffixed(sc) THEN <<>> ELSE IF backX THEN PermuteVector(s.ext, inv) ELSE s.ext,
        !.corrX = IF ~HasSuffixed(sc) THEN <<>> ELSE IF backX THEN PermuteMatrix(PairMatrix(s.ext), inv) ELSE PairMatrix(s.ext),
        !.atomOrder = IF sc.reorder THEN PermuteList(s.atomOrder, inv) ELSE s.atomOrder,   \* permute_atom_order
        !.outcome = "ok"]

\* ============================================================================ emu-sv
\* SVBackendImpl.__init__ : no reordering; all atoms stay in the state
SvCtor(sc) ==
  [Blank EXCEPT !.qc = sc.n, !.qperm = EyePermutation(sc.n), !.drive = sc.rho, !.atomOrder = sc.rho,
                !.imat = TaggedMatrix(sc.rho),
                !.init = IF sc.given THEN sc.rho ELSE [k \in Idx(sc.n) |-> GROUND]]
\* SVBackendImpl.init_dark_qubits : zero the drive columns and the interaction rows / columns of bad atoms
SvInitDarkQubits(sc, s) ==
  IF sc.given /\ sc.spe THEN [s EXCEPT !.outcome = "refuse:initial-state-with-state-prep-error"]
  ELSE IF ~sc.spe THEN s
  ELSE LET bad == Bad(sc) IN
       [s EXCEPT !.hasFilter = TRUE, !.wp = [k \in Idx(sc.n) |-> ~bad[k]],
                 !.drive = [k \in Idx(sc.n) |-> IF bad[k] THEN OFF ELSE s.drive[k]],
                 !.imat  = [i \in Idx(sc.n) |-> [j \in Idx(sc.n) |->
                              IF bad[i] \/ bad[j] THEN <<OFF, OFF>> ELSE s.imat[i][j]]]]
SvRun(sc, s) ==
  LET ham == [k \in Idx(sc.n) |-> <<s.drive[k], s.imat[k][k][1], s.imat[k][k][2], s.init[k]>>]
  IN [s EXCEPT !.ham = ham, !.ext = ham, !.outcome = "ok",
               !.occ  = IF HasBase(sc) THEN ham ELSE <<>>, !.bits = IF HasBase(sc) THEN ham ELSE <<>>,
               !.corr = IF HasBase(sc) THEN PairMatrix(ham) ELSE <<>>,
               !.occX = IF HasSuffixed(sc) THEN ham ELSE <<>>, !.bitsX = IF HasSuffixed(sc) THEN ham ELSE <<>>,
               !.corrX = IF HasSuffixed(sc) THEN PairMatrix(ham) ELSE <<>>]

\* ============================================================================ the whole run as a function
Stopped(s) == s.outcome # "running"
\* (nullary LET definitions: TLC evaluates each step once)
RunAll(sc) ==
  IF sc.backend = "mps"
  THEN LET s0 == MpsCtor(sc)
           s1 == IF Stopped(s0) THEN s0 ELSE MpsInitDarkQubits(sc, s0)
           s2 == IF Stopped(s1) THEN s1 ELSE MpsInitInitialState(sc, s1)
           s3 == IF Stopped(s2) THEN s2 ELSE MpsGetInteractionMatrix(sc, s2)
           s4 == IF Stopped(s3) THEN s3 ELSE MpsUpdateH(sc, s3)
           s5 == IF Stopped(s4) THEN s4 ELSE MpsFillResults(sc, s4)
       IN IF Stopped(s5) THEN s5 ELSE MpsPermuteResults(sc, s5)
  ELSE LET g0 == SvCtor(sc)
           g1 == IF Stopped(g0) THEN g0 ELSE SvInitDarkQubits(sc, g0)
       IN IF Stopped(g1) THEN g1 ELSE SvRun(sc, g1)
====
