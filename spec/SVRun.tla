---- MODULE SVRun ----
(* emu-sv run loop (SVBackendImpl._run / step / _evolve_step / _apply_observables), unitary and
   Lindblad steppers alike:  ApplyObs(0); for k in 0..K-1: Evolve(k); ApplyObs(k+1); Stats(k+1).
   MECHANISM: the actions; which row, which dt, which interaction-matrix query time each step uses.
   REQUIREMENT (C01 / C16 structure, C14 and C21 on the sv side): every interval is evolved exactly once,
   in order, with ITS row and ITS duration and an interaction matrix valid inside the interval;
   observables are evaluated exactly after the steps whose end time is due, and at time 0.           *)
EXTENDS Integers, FiniteSets, TLC
CONSTANTS K,            \* number of steps
          Due,          \* subset of 0..K : indices of target times at which at least one observable is due
          RowOffset,    \* mechanism parameter: step k uses row k + RowOffset   (code: 0)
          QueryAt       \* mechanism parameter: "start" | "mid" | "end" of the step (code: "start")
VARIABLES k, pc, usedRow, usedDt, usedQ, evolved, recorded
vars == <<k, pc, usedRow, usedDt, usedQ, evolved, recorded>>
Init == /\ k = 0 /\ pc = "obs0" /\ usedRow = 0 - 1 /\ usedDt = 0 - 1 /\ usedQ = "none"
        /\ evolved = {} /\ recorded = {}
ApplyObs0 == /\ pc = "obs0" /\ recorded' = (IF 0 \in Due THEN {0} ELSE {}) /\ pc' = "evolve"
             /\ UNCHANGED <<k, usedRow, usedDt, usedQ, evolved>>
Evolve == /\ pc = "evolve" /\ k < K
          /\ usedRow' = k + RowOffset /\ usedDt' = k /\ usedQ' = QueryAt
          /\ evolved' = evolved \cup {k} /\ pc' = "obs" /\ UNCHANGED <<k, recorded>>
ApplyObs == /\ pc = "obs" /\ recorded' = (IF (k + 1) \in Due THEN recorded \cup {k + 1} ELSE recorded)
            /\ k' = k + 1 /\ pc' = (IF k + 1 = K THEN "done" ELSE "evolve")
            /\ UNCHANGED <<usedRow, usedDt, usedQ, evolved>>
Next == ApplyObs0 \/ Evolve \/ ApplyObs
Spec == Init /\ [][Next]_vars /\ WF_vars(Next)
\* ------------------------------------------------------------------ requirement
RowMatchesStep == pc = "obs" => (usedRow = k /\ usedDt = k)
QueryInsideStep == pc = "obs" => usedQ \in {"start", "mid", "end"}
EachStepOnceInOrder == [][evolved' = evolved \/ (evolved' = evolved \cup {k} /\ k \notin evolved /\ \A j \in 0..(k - 1) : j \in evolved)]_vars
RecordedOnlyWhenDue == recorded \subseteq Due
AllDueRecorded == pc = "done" => (recorded = Due /\ evolved = 0..(K - 1))
Terminates == <>(pc = "done")
====
