---- MODULE MPORecorded ----
(* C05 binding (C): automata RECORDED from the real make_H / update_H (every block of every factor
   projected onto the alphabet of MPOPathBag by the harness) are judged by the same requirement the
   mechanism model is checked against.  Channels are the real bond indices; root and sink are index 0
   of the outer (dimension-1) bonds.  Layout-agnostic: nothing of MPOAutomaton's mechanism is used.
   One verdict line per record.                                                                   *)
EXTENDS MPOPathBag, Json, IOUtils
Recs == JsonDeserialize(IOEnv.TRACE_FILE)
VARIABLE tid
ToSet(sq) == {sq[q] : q \in 1..Len(sq)}
Init == tid \in 1..Len(Recs)
Next == UNCHANGED tid
Spec == Init /\ [][Next]_tid
R == Recs[tid]
FF == [s \in 1..R.ns |-> ToSet(R.F[s])]
EE == ToSet(R.E)
P == Paths(FF, R.ns, 0, 0)
Verdict ==
  IF PathBagOKOn(P, R.ns, EE, R.kind, R.gen) THEN PrintT(<<"OK", R.id, Cardinality(P)>>)
  ELSE LET mi == Missing(P, R.ns, EE, R.kind, R.gen)
           du == Dupl(P, R.ns, EE, R.kind, R.gen)
           st == Stray(P, R.ns, EE, R.kind, R.gen)
       IN PrintT(<<"BAD", R.id,
                   IF mi # {} THEN "missing-term" ELSE IF du # {} THEN "duplicated-term" ELSE "stray-term",
                   IF mi # {} THEN CHOOSE t \in mi : TRUE ELSE IF du # {} THEN CHOOSE t \in du : TRUE ELSE CHOOSE t \in st : TRUE>>)
====
