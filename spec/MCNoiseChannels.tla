---- MODULE MCNoiseChannels ----
EXTENDS NoiseChannels
(* Named mechanism variants (FlipKind, DephKind) used by harness/drivers/C24.py; the driver identifies
   which one the tree under check follows (operator entries + verdict equal on every case):
     block2flip_dephasing_repaired  ("block2", "sigmaz2_projector3")  eff_noise: leading 2x2 block flip (as found),
                                                                       dephasing: sqrt(2G)|one><one| when the leakage
                                                                       level exists (repaired by 1efe2df).  TLC predicts
                                                                       exactly the eff_noise / ising / dim 3 cases as failing.
     fully_repaired                 ("perm",   "sigmaz2_projector3")  no failing case
     as_found_round0                ("block2", "sigmaz")              eff_noise:ising:dim3 + dephasing:{ising,XY}:dim3 fail
     perm_sigmaz, block2_projector, intended_pulser_form ("perm", "projector")                                      *)
cAmps1 == {1}
cAmps2 == {1, 2}
cAmps3 == {1, 2, 3}
cWeightsQ == {<<1, 0>>}
cWeights == {<<1, 0>>, <<0, 1>>}
====
