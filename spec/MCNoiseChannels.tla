---- MODULE MCNoiseChannels ----
EXTENDS NoiseChannels
cAmps1 == {1}
cAmps2 == {1, 2}
cAmps3 == {1, 2, 3}
cWeightsQ == {<<1, 0>>}
cWeights == {<<1, 0>>, <<0, 1>>}
====
