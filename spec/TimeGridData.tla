---- MODULE TimeGridData ----
(* C21 binding (C): target-time lists RECORDED FROM THE REAL CODE (SequenceData.target_times /
   _get_target_times for enumerated duration, dt, evaluation set, modulation) are handed to TLC as data
   and the requirement of TimeGridReq.tla is evaluated on them; so are the solver steps actually
   taken by the backends (hook events) and the trajectories actually run.
   The driver projects floats to point numbers q (points further apart than 1e-6 ns get different
   numbers, in order; floats closer than that get the SAME number -- a list containing both is not
   strictly increasing).  One verdict line per case:  <<"V", id, {failing clauses}>>.
   Case = [id, d, T: list of q, M: multiples of dt (q), E: requested evaluation times (q),
           steps: list of <<qa, qb>> (or <<>> with hasSteps = FALSE), reps, runs]                *)
EXTENDS TimeGridReq, TLC, Json, IOUtils
Cases == JsonDeserialize(IOEnv.TRACE_FILE)
VARIABLES cid
Init == cid \in 1..Len(Cases)
Next == UNCHANGED cid
Spec == Init /\ [][Next]_cid
SeqToSet(s) == {s[k] : k \in 1..Len(s)}
AsVals(s) == [k \in 1..Len(s) |-> <<s[k], 0>>]
Failing(c) ==
  LET T == AsVals(c.T) IN
     (IF StrictlyIncreasing(T) THEN {} ELSE {"StrictlyIncreasing"})
  \cup (IF StartsAt0(T) THEN {} ELSE {"StartsAt0"})
  \cup (IF EndsAt(T, c.d) THEN {} ELSE {"EndsAtD"})
  \cup (IF ContainsPoints(T, SeqToSet(c.M)) THEN {} ELSE {"ContainsMultiples"})
  \cup (IF ContainsPoints(T, SeqToSet(c.E)) THEN {} ELSE {"ContainsEvalTimes"})
  \cup (IF Inside(T, c.d) THEN {} ELSE {"InsideSequence"})
  \cup (IF c.hasSteps /\ ~OneStepPerInterval(T, c.steps) THEN {"OneStepPerInterval"} ELSE {})
  \cup (IF c.hasRuns /\ ~RunsAsRequested(c.reps, c.runs) THEN {"RunsAsRequested"} ELSE {})
Verdict == PrintT(<<"V", Cases[cid].id, Failing(Cases[cid])>>)
====
