---- MODULE KrylovFn ----
(* MECHANISM of C07 / C08: the control flow of
     emu_base/math/krylov_exp.py        krylov_exp_impl, krylov_exp
     emu_base/math/krylov_energy_min.py _lowest_eigenvector_krylov_method,
                                        krylov_energy_minimization_impl, krylov_energy_minimization
   transcribed statement by statement as pure functions on a record.  Every floating-point TEST of
   the code (n2 < norm_tolerance, err < exp_tolerance, resid < best_resid, betas[j] < norm_tolerance,
   resid < residual_tolerance) is an ARGUMENT: the environment (Krylov.tla) or a recorded execution
   (KrylovTrace.tla) supplies its outcome.  Residual norms enter by their order only (small integer
   levels; INF = the initial float("inf")).

   Mut names a seeded departure of the mechanism ("none" = the code as it is).  The mutants are the
   specification's own self-test: TLC must refute the requirement for each of them (Krylov.tla). *)
EXTENDS Integers
CONSTANT Mut

INF == 99

(* ------------------------------------------------------------------ krylov_exp_impl ---------- *)
\* have: the product op(q_j) for the NEXT iteration is already there (w_next); ops: operator applications so far
ExpNew(maxDim) ==
  [fn |-> "exp", pc |-> "loop", maxDim |-> maxDim, j |-> 0, have |-> FALSE, ops |-> 0,
   conv |-> FALSE, bd |-> FALSE, iters |-> 0, kind |-> "none", outcome |-> "none"]

\* for j in range(max_krylov_dim):  w = op(lanczos_vectors[-1]) if w_next is None else w_next ; w_next = None
ExpCanIterate(s) == s.pc = "loop" /\ s.j < s.maxDim
ExpFetch(s) == [s EXCEPT !.ops = s.ops + (IF s.have THEN 0 ELSE 1), !.have = FALSE]
\* if n2 < norm_tolerance: return KrylovExpResult(converged=True, happy_breakdown=True, iteration_count=j+1)
ExpBreakdown(s) ==
  [s EXCEPT !.pc = "impl_ret", !.conv = (Mut # "exp-breakdown-reports-unconverged"), !.bd = TRUE,
            !.iters = s.j + 1, !.kind = "breakdown"]
\* if err < exp_tolerance (cheap estimate): w_next = op(lanczos_vectors[-1]); estimate recomputed with |w_next|
ExpConfirm(s) == [s EXCEPT !.ops = s.ops + 1, !.have = TRUE]
\* if err < exp_tolerance (confirmed): return KrylovExpResult(converged=True, happy_breakdown=False, iteration_count=j+1)
ExpConverge(s) ==
  [s EXCEPT !.pc = "impl_ret", !.conv = TRUE, !.bd = FALSE, !.iters = s.j + 1, !.kind = "converged"]
\* next iteration of the for loop
ExpContinue(s) == [s EXCEPT !.j = s.j + 1]
\* one iteration: the order of the tests.  errSmall = cheap estimate below tolerance, confirmed = still below
\* (within CONFIRMED_ESTIMATE_SLACK) once the true |op(q_{j+1})| is known
ExpIterate(s, n2Small, errSmall, confirmed) ==
  LET s0 == ExpFetch(s) IN
  IF n2Small THEN ExpBreakdown(s0)
  ELSE IF errSmall /\ Mut = "exp-no-confirmation" THEN ExpConverge(s0)
  ELSE IF errSmall THEN (IF confirmed THEN ExpConverge(ExpConfirm(s0)) ELSE ExpContinue(ExpConfirm(s0)))
  ELSE ExpContinue(s0)
\* loop exhausted: return KrylovExpResult(converged=False, happy_breakdown=False, iteration_count=max_krylov_dim)
ExpCanExhaust(s) == s.pc = "loop" /\ s.j = s.maxDim
ExpExhaust(s) ==
  [s EXCEPT !.pc = "impl_ret", !.conv = (Mut = "exp-exhaustion-reports-converged"), !.bd = FALSE,
            !.iters = s.maxDim, !.kind = "exhausted"]
\* krylov_exp:  if not krylov_result.converged: raise RecursionError(...) ; return krylov_result.result
ExpWrap(s) ==
  [s EXCEPT !.pc = "done",
            !.outcome = IF s.conv \/ Mut = "exp-wrapper-never-raises" THEN "returned" ELSE "raised"]

(* ------------------------------------------------------------------ ground-state search ------ *)
\* krylov_energy_minimization_impl: result = KrylovEnergyResult(ground_state=psi, energy=inf, ...); r = 0
\*   best / bestIt / enIt: residual level, iteration id of best_state, iteration id of best_energy
\*   (iteration id 0 = "not from an iteration": q_0 resp. float("inf"))
MinNew(maxDim, maxR) ==
  [fn |-> "min", pc |-> "cycle", maxDim |-> maxDim, maxR |-> maxR, r |-> 0, j |-> 0, n |-> 0,
   best |-> INF, bestIt |-> 0, enIt |-> 0, total |-> 0, restarts |-> 0,
   conv |-> FALSE, bd |-> FALSE, kind |-> "none", outcome |-> "none"]

ItId(s) == s.r * s.maxDim + s.j + 1          \* identifies the current Lanczos iteration globally

\* for j in range(max_krylov_dim): n_iteration += 1; w = _next_lanczos_iteration(...)   (one op call)
MinCanIterate(s) == s.pc = "cycle" /\ s.j < s.maxDim
MinIterate(s, lvl, betaSmall, tolLevel) ==
  LET \* if resid < best_resid: best_state, best_energy = ritz_vec, ritz_value ; best_resid = resid
      better == IF Mut = "min-keeps-worst-residual" THEN (s.best = INF \/ lvl > s.best) ELSE lvl < s.best
      s1 == [s EXCEPT !.n = s.n + 1,
                      !.best = IF better THEN lvl ELSE s.best,
                      !.bestIt = IF better THEN ItId(s) ELSE s.bestIt,
                      !.enIt = IF Mut = "min-energy-of-latest-iteration" THEN ItId(s)
                               ELSE IF better THEN ItId(s) ELSE s.enIt]
  IN \* if betas[j] < norm_tolerance: converged, happy_breakdown = True, True ; break
     IF betaSmall THEN [s1 EXCEPT !.pc = "cycle_ret", !.conv = TRUE, !.bd = TRUE, !.kind = "breakdown"]
     \* if resid.item() < residual_tolerance: converged = True ; break
     ELSE IF lvl < tolLevel THEN [s1 EXCEPT !.pc = "cycle_ret", !.conv = TRUE, !.kind = "converged"]
     \* lanczos_vectors.append(w / betas[j])
     ELSE [s1 EXCEPT !.j = s.j + 1]
\* for loop of _lowest_eigenvector_krylov_method exhausted: return with converged = happy_breakdown = False
MinCanExhaust(s) == s.pc = "cycle" /\ s.j = s.maxDim
MinCycleExhaust(s) ==
  [s EXCEPT !.pc = "cycle_ret", !.kind = "exhausted", !.conv = (Mut = "min-exhaustion-reports-converged")]
\* krylov_energy_minimization_impl, after a cycle returned:
\*   total_iters += result.iteration_count ; result = replace(result, restart_count=r, iteration_count=total_iters)
\*   if result.happy_breakdown or result.converged: break          (else next r, v_init = result.ground_state)
MinAfterCycle(s) ==
  LET t == [s EXCEPT !.total = s.total + s.n, !.restarts = s.r] IN
  IF s.bd \/ s.conv \/ s.r = s.maxR
  THEN [t EXCEPT !.pc = "impl_ret"]
  ELSE \* new cycle: q_0 = best state of the previous cycle, best_energy = best_resid = inf
       [t EXCEPT !.pc = "cycle", !.r = s.r + 1, !.j = 0, !.n = 0, !.best = INF, !.bestIt = 0, !.enIt = 0,
                 !.kind = "none"]
\* krylov_energy_minimization: if not result.converged and not result.happy_breakdown: raise RecursionError
MinWrap(s) ==
  [s EXCEPT !.pc = "done", !.outcome = IF ~s.conv /\ ~s.bd THEN "raised" ELSE "returned"]

(* ------------------------------------------------------------------ REQUIREMENT ---------------
   Stated on what a caller observes: the result record (conv, bd, iters, restarts), the outcome of
   the public entry point, and NUMERIC ATOMS of the returned vector / energy.  In Krylov.tla the
   atoms are the environment's, tied to the floating-point tests only by the stated numeric
   assumptions; on recorded executions (KrylovTrace.tla) they are computed by the independent dense
   reference.  The same operators are used in both places.                                      *)
\* C07
ExpReqItersBounded(iters, maxDim)   == iters <= maxDim
ExpReqOpsBounded(ops, maxDim)       == ops <= maxDim + 1          \* at most one application beyond the allowed dimension
ExpReqConvAccurate(conv, accurate)  == conv => accurate           \* reports convergence => |result - exp(A)v| <= 10 tol |v| (+ rounding)
ExpReqRaiseIff(outcome, conv)       == (outcome = "raised") <=> ~conv
ExpReqReturnedConv(outcome, conv)   == (outcome = "returned") => conv
ExpReqReturnedAccurate(outcome, accurate) == (outcome = "returned") => accurate
\* C08
MinReqUnit(unit)                    == unit                        \* |psi| = 1
MinReqRayleigh(rayleigh)            == rayleigh                    \* E = <psi|H|psi>
MinReqVariational(variational)      == variational                 \* E >= lambda_min - rounding
MinReqResidual(conv, bd, residOK)   == (conv /\ ~bd) => residOK    \* |H psi - E psi| < tol
MinReqRestartsBounded(restarts, maxR) == restarts <= maxR
MinReqItersBounded(total, restarts, maxDim) == total <= maxDim * (restarts + 1)
====
