SPECIFICATION Spec
INVARIANT Rejected
INVARIANT Accepted
CHECK_DEADLOCK FALSE
