---- MODULE KrylovTrace ----
(* C07 / C08 binding (B): executions of the REAL krylov_exp_impl / krylov_exp /
   krylov_energy_minimization_impl / krylov_energy_minimization (driven by the harness with a
   recording `op`, or observed in situ inside emu-sv / emu-mps runs through the kry_exit / kmin_exit
   hook events) are validated against
     (1) the REQUIREMENT operators of KrylovFn (clauses "req:..."), evaluated on logged values and on
         numeric atoms the harness computed with the independent dense reference;
     (2) the MECHANISM functions of KrylovFn: the logged control path (one `op` event per operator
         application, the result record, the outcome of the public entry point) must be a behaviour
         of the model (clauses "mech:...").  Only checked when Strict; a mismatch is model drift,
         not a violation.
   Events (one trace = one call, or one in-situ run):
     call(fn, api, maxdim, maxr)          fn "exp"|"min", api "impl"|"public"
     op                                   the operator was applied (one Lanczos / Arnoldi iteration)
     exit(converged, breakdown, iters, restarts)      the result record of the *_impl function
     result(atoms) | return(atoms)        impl result / vector returned by the public entry point
     raise(exc)
     insitu ; xexit(fn, maxdim, maxr, iters, converged, breakdown, restarts)* ; run(outcome, exc)
   atoms: accurate | unit, rayleigh, variational, residOK  (booleans)                              *)
EXTENDS Integers, Sequences, TLC, Json, IOUtils
CONSTANT Strict
Mut == "none"
INSTANCE KrylovFn
Traces == JsonDeserialize(IOEnv.TRACE_FILE)
VARIABLES tid, l, bad, st, prev, nops, ph, cf, pend, ex, drifted, nonconv
vars == <<tid, l, bad, st, prev, nops, ph, cf, pend, ex, drifted, nonconv>>
Ev == Traces[tid].events
NoCf == [fn |-> "none", api |-> "none", maxdim |-> 0, maxr |-> 0]
NoEx == [converged |-> FALSE, breakdown |-> FALSE, iters |-> 0, restarts |-> 0]
Init == /\ tid \in 1..Len(Traces) /\ l = 1 /\ bad = "none" /\ st = [pc |-> "none"] /\ prev = [pc |-> "none"] /\ nops = 0 /\ ph = "new"
        /\ cf = NoCf /\ pend = FALSE /\ ex = NoEx /\ drifted = FALSE /\ nonconv = FALSE

Fail(c) == /\ bad' = c /\ UNCHANGED <<st, prev, nops, ph, cf, pend, ex, drifted, nonconv>>
\* mechanism mismatch: rejection when Strict, otherwise stop replaying the mechanism and go on
Drift(c, nph, nex) ==
  IF Strict THEN Fail(c)
  ELSE /\ drifted' = TRUE /\ ph' = nph /\ ex' = nex /\ bad' = bad /\ UNCHANGED <<st, prev, nops, cf, pend, nonconv>>

\* the pending iteration turned out to be neither exit: next iteration (minimiser: possibly next cycle)
ContExp(s) == ExpIterate(s, FALSE, FALSE, FALSE)
ContMin(s) == LET c == MinIterate(s, 1, FALSE, 1) IN
              IF MinCanExhaust(c) THEN MinAfterCycle(MinCycleExhaust(c)) ELSE c
Cont(s) == IF cf.fn = "exp" THEN ContExp(s) ELSE ContMin(s)
CanIter(s) == IF cf.fn = "exp" THEN ExpCanIterate(s) ELSE MinCanIterate(s)
\* The operator applications are logged one by one, but not what they were for.  The replay reads every
\* application as the start of an iteration (a false alarm followed by the reuse of its product has the same
\* count); at the result record the LAST application is either the start of the final iteration (Close) or
\* the confirming application of the iteration before it (CloseConfirm, from the state `prev` before that one).
Close(s, e) ==
  IF cf.fn = "exp" THEN
       IF e.breakdown THEN ExpIterate(s, TRUE, FALSE, FALSE)
       ELSE IF e.converged THEN s                                   \* impossible without a confirming application
       ELSE LET c == ContExp(s) IN IF ExpCanExhaust(c) THEN ExpExhaust(c) ELSE c
  ELSE IF e.breakdown THEN MinAfterCycle(MinIterate(s, 0, TRUE, 1))
       ELSE IF e.converged THEN MinAfterCycle(MinIterate(s, 0, FALSE, 1))
       ELSE ContMin(s)
CloseConfirm(p, e) ==
  IF cf.fn # "exp" \/ p.pc # "loop" THEN p
  ELSE IF e.converged /\ ~e.breakdown THEN ExpIterate(p, FALSE, TRUE, TRUE)
  ELSE IF ~e.converged THEN LET c == ExpIterate(p, FALSE, TRUE, FALSE) IN IF ExpCanExhaust(c) THEN ExpExhaust(c) ELSE c
  ELSE p
Matches(s, e) ==
  /\ s.pc = "impl_ret" /\ s.conv = e.converged /\ s.bd = e.breakdown
  /\ IF cf.fn = "exp" THEN (s.iters = e.iters /\ s.ops = nops) ELSE (s.total = e.iters /\ s.restarts = e.restarts)
Wrap(s) == IF cf.fn = "exp" THEN ExpWrap(s) ELSE MinWrap(s)
ExRec(e) == [converged |-> e.converged, breakdown |-> e.breakdown, iters |-> e.iters, restarts |-> e.restarts]

\* requirement on the numeric atoms of a result / returned vector, given the result record ex
AtomClause(e) ==
  IF cf.fn = "exp" THEN
       IF ~ExpReqConvAccurate(ex.converged, e.accurate) THEN "req:converged=>accurate" ELSE "ok"
  ELSE IF ~MinReqUnit(e.unit) THEN "req:unit-vector"
       ELSE IF ~MinReqRayleigh(e.rayleigh) THEN "req:energy=rayleigh-quotient"
       ELSE IF ~MinReqVariational(e.variational) THEN "req:energy>=lowest-eigenvalue"
       ELSE IF ~MinReqResidual(ex.converged, ex.breakdown, e.residOK) THEN "req:converged-without-breakdown=>residual<tol"
       ELSE "ok"

Step ==
  /\ bad = "none" /\ l <= Len(Ev)
  /\ LET e == Ev[l] IN
     CASE e.ev = "call" ->
            IF ph # "new" THEN Fail("call-twice")
            ELSE IF ~(e.maxdim >= 1 /\ e.maxr >= 0) THEN Fail("harness:max_krylov_dim>=1")
            ELSE /\ cf' = [fn |-> e.fn, api |-> e.api, maxdim |-> e.maxdim, maxr |-> e.maxr]
                 /\ st' = IF e.fn = "exp" THEN ExpNew(e.maxdim) ELSE MinNew(e.maxdim, e.maxr)
                 /\ prev' = [pc |-> "none"] /\ nops' = 0
                 /\ ph' = "run" /\ bad' = bad /\ UNCHANGED <<pend, ex, drifted, nonconv>>
       [] e.ev = "op" ->
            IF ph # "run" THEN Fail("mech:op-applied-after-the-result-record")
            ELSE IF drifted THEN /\ bad' = bad /\ UNCHANGED <<st, prev, nops, ph, cf, pend, ex, drifted, nonconv>>
            ELSE LET s1 == IF pend THEN Cont(st) ELSE st IN
                 IF ~CanIter(s1) /\ ~(cf.fn = "exp" /\ pend /\ ExpCanExhaust(s1))
                 THEN Drift("mech:more-operator-applications-than-the-loops-allow", ph, ex)
                 ELSE /\ st' = s1 /\ prev' = st /\ nops' = nops + 1 /\ pend' = TRUE /\ bad' = bad
                      /\ UNCHANGED <<ph, cf, ex, drifted, nonconv>>
       [] e.ev = "exit" ->
            IF ph # "run" THEN Fail("exit-out-of-order")
            ELSE IF cf.fn = "exp" /\ ~ExpReqItersBounded(e.iters, cf.maxdim) THEN Fail("req:iterations<=max_krylov_dim")
            ELSE IF cf.fn = "min" /\ ~MinReqRestartsBounded(e.restarts, cf.maxr) THEN Fail("req:restarts<=max_restarts")
            ELSE IF cf.fn = "min" /\ ~MinReqItersBounded(e.iters, e.restarts, cf.maxdim) THEN Fail("req:iterations<=max_krylov_dim*(restarts+1)")
            ELSE IF drifted THEN /\ ex' = ExRec(e) /\ ph' = "exited" /\ bad' = bad /\ UNCHANGED <<st, prev, nops, cf, pend, drifted, nonconv>>
            ELSE IF ~pend THEN Drift("mech:result-record-without-any-operator-application", "exited", ExRec(e))
            ELSE LET s1 == IF CanIter(st) THEN Close(st, e) ELSE st
                     s2 == CloseConfirm(prev, e)
                     sm == IF Matches(s1, e) THEN s1 ELSE s2 IN
                 IF ~Matches(sm, e) THEN Drift("mech:result-record-differs-from-the-model-for-this-path", "exited", ExRec(e))
                 ELSE /\ st' = sm /\ ex' = ExRec(e) /\ ph' = "exited" /\ pend' = FALSE /\ bad' = bad
                      /\ UNCHANGED <<prev, nops, cf, drifted, nonconv>>
       [] e.ev = "result" ->
            IF ph # "exited" \/ cf.api # "impl" THEN Fail("result-out-of-order")
            ELSE IF AtomClause(e) # "ok" THEN Fail(AtomClause(e))
            ELSE /\ ph' = "done" /\ bad' = bad /\ UNCHANGED <<st, prev, nops, cf, pend, ex, drifted, nonconv>>
       [] e.ev = "return" ->
            IF ph # "exited" \/ cf.api # "public" THEN Fail("return-out-of-order")
            ELSE IF cf.fn = "exp" /\ ~ExpReqRaiseIff("returned", ex.converged) THEN Fail("req:not-converged=>raises")
            ELSE IF AtomClause(e) # "ok" THEN Fail(AtomClause(e))
            ELSE IF cf.fn = "exp" /\ ~ExpReqReturnedAccurate("returned", e.accurate) THEN Fail("req:returned=>accurate")
            ELSE IF ~drifted /\ Wrap(st).outcome # "returned" THEN Drift("mech:wrapper-returned-where-the-model-raises", "done", ex)
            ELSE /\ ph' = "done" /\ bad' = bad /\ UNCHANGED <<st, prev, nops, cf, pend, ex, drifted, nonconv>>
       [] e.ev = "raise" ->
            IF ph = "run" /\ cf.api = "impl" THEN Fail("req:impl-raised-instead-of-returning")
            ELSE IF ph = "run" THEN Fail("req:raised-before-the-result-record")
            ELSE IF ph # "exited" \/ cf.api # "public" THEN Fail("raise-out-of-order")
            ELSE IF e.exc # "RecursionError" THEN Fail("req:unexpected-exception-type")
            ELSE IF cf.fn = "exp" /\ ~ExpReqRaiseIff("raised", ex.converged) THEN Fail("req:raised-although-converged")
            ELSE IF ~drifted /\ Wrap(st).outcome # "raised" THEN Drift("mech:wrapper-raised-where-the-model-returns", "done", ex)
            ELSE /\ ph' = "done" /\ bad' = bad /\ UNCHANGED <<st, prev, nops, cf, pend, ex, drifted, nonconv>>
       [] e.ev = "insitu" ->
            IF ph # "new" THEN Fail("insitu-twice")
            ELSE /\ ph' = "insitu" /\ bad' = bad /\ UNCHANGED <<st, prev, nops, cf, pend, ex, drifted, nonconv>>
       [] e.ev = "xexit" ->
            IF ph # "insitu" THEN Fail("xexit-out-of-order")
            ELSE IF nonconv THEN Fail("req:run-continued-after-a-non-converged-exponential")
            ELSE IF e.fn = "exp" /\ e.maxdim > 0 /\ ~ExpReqItersBounded(e.iters, e.maxdim) THEN Fail("req:iterations<=max_krylov_dim")
            ELSE IF e.fn = "min" /\ ~MinReqRestartsBounded(e.restarts, e.maxr) THEN Fail("req:restarts<=max_restarts")
            ELSE IF e.fn = "min" /\ e.maxdim > 0 /\ ~MinReqItersBounded(e.iters, e.restarts, e.maxdim) THEN Fail("req:iterations<=max_krylov_dim*(restarts+1)")
            ELSE IF Strict /\ e.breakdown /\ ~e.converged THEN Fail("mech:breakdown=>converged")
            ELSE /\ nonconv' = (e.fn = "exp" /\ ~e.converged) /\ bad' = bad
                 /\ UNCHANGED <<st, prev, nops, ph, cf, pend, ex, drifted>>
       [] e.ev = "run" ->
            IF ph # "insitu" THEN Fail("run-out-of-order")
            ELSE IF e.outcome = "returned" /\ nonconv THEN Fail("req:not-converged=>raises")
            ELSE IF e.outcome = "raised" /\ e.exc = "RecursionError" /\ e.fn = "exp" /\ ~nonconv THEN Fail("req:raised-although-converged")
            ELSE /\ ph' = "done" /\ bad' = bad /\ UNCHANGED <<st, prev, nops, cf, pend, ex, drifted, nonconv>>
       [] OTHER -> Fail("unknown-event")
  /\ l' = l + 1 /\ UNCHANGED tid
Next == Step
Spec == Init /\ [][Next]_vars
Rejected == (bad # "none") => PrintT(<<"REJECT", Traces[tid].id, l - 1, bad>>)
Accepted == (bad = "none" /\ l = Len(Ev) + 1) =>
               IF ph = "done" THEN PrintT(<<"ACCEPT", Traces[tid].id>>)
               ELSE PrintT(<<"REJECT", Traces[tid].id, l, "trace-ends-before-the-outcome">>)
====
