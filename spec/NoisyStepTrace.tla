---- MODULE NoisyStepTrace ----
(* C18 binding (B): hook traces of real noisy emu-mps runs -- both ordinary runs and runs in which the
   harness replaces the evolution kernel by a TLC-chosen squared-norm sequence -- validated against the
   REQUIREMENT of NoisyStep.tla.  Times are rank-transformed by the harness (order-exact); gaps enter
   by sign; |a-b| < 1 (the 1 ns root tolerance) is an atom computed on the raw floats.
   Events:
     init(K, T)                         T: ranks of the target times T[1..K+1]
     h(noisy)                           the single-atom terms of the MPO were rewritten with / without the noise term
     fill(t, ts)                        fill_results ran at time t (observables due or not)
     thr(sgap)                          a jump threshold was drawn; sign of norm^2 - threshold
     sweep(branch, prev, cur, tgt, sprev, sgap, ts, a, b, sa, sb, widthOK)
     jumpop(t, ts)                      a jump operator was applied at time t
     done(ts, cur, tgt, finished)       timestep_complete finished; ts is the NEW step index          *)
EXTENDS Integers, Sequences, TLC, Json, IOUtils
Traces == JsonDeserialize(IOEnv.TRACE_FILE)
VARIABLES tid, l, bad, K, T, ts, searching, hNoisy, lo, hi, lastFillTs, pendingJump, inited, stepFilled
vars == <<tid, l, bad, K, T, ts, searching, hNoisy, lo, hi, lastFillTs, pendingJump, inited, stepFilled>>
Ev == Traces[tid].events
Init == /\ tid \in 1..Len(Traces) /\ l = 1 /\ bad = "none" /\ K = 0 /\ T = <<>> /\ ts = 0 /\ searching = FALSE
        /\ hNoisy = FALSE /\ lo = 0 /\ hi = 0 /\ lastFillTs = 0 - 1 /\ pendingJump = FALSE /\ inited = FALSE /\ stepFilled = FALSE
Keep == UNCHANGED <<K, T, ts, searching, hNoisy, lo, hi, lastFillTs, pendingJump, inited, stepFilled>>
Fail(c) == bad' = c /\ Keep
Min(x, y) == IF x <= y THEN x ELSE y
Max(x, y) == IF x <= y THEN y ELSE x
StepLo == T[ts + 1]          \* T is 1-based: T[k+1] = target time k
StepHi == T[ts + 2]
Step ==
  /\ bad = "none" /\ l <= Len(Ev)
  /\ LET e == Ev[l] IN
     CASE e.ev = "init" ->
            /\ K' = e.K /\ T' = e.T /\ bad' = bad
            /\ UNCHANGED <<ts, searching, hNoisy, lo, hi, lastFillTs, pendingJump, inited, stepFilled>>
       [] e.ev = "h" ->
            /\ hNoisy' = e.noisy /\ bad' = bad
            /\ UNCHANGED <<K, T, ts, searching, lo, hi, lastFillTs, pendingJump, inited, stepFilled>>
       [] e.ev = "fill" ->
            IF hNoisy THEN Fail("observables-evaluated-with-the-noisy-hamiltonian")
            ELSE IF searching THEN Fail("fill-during-jump-search")
            ELSE IF ~inited /\ ~(e.t = T[1] /\ lastFillTs = 0 - 1) THEN Fail("initial-fill-not-at-time-0-once")
            ELSE IF inited /\ ~(ts < K /\ e.t = StepHi) THEN Fail("fill-not-at-the-end-of-the-current-step")
            ELSE IF inited /\ stepFilled THEN Fail("fill-twice-in-one-step")
            ELSE /\ lastFillTs' = (IF inited THEN ts + 1 ELSE 0) /\ stepFilled' = inited /\ bad' = bad
                 /\ UNCHANGED <<K, T, ts, searching, hNoisy, lo, hi, pendingJump, inited>>
       [] e.ev = "thr" ->
            IF ~(e.sgap > 0) THEN Fail("threshold-not-below-squared-norm")
            ELSE /\ inited' = TRUE /\ bad' = bad
                 /\ UNCHANGED <<K, T, ts, searching, hNoisy, lo, hi, lastFillTs, pendingJump, stepFilled>>
       [] e.ev = "sweep" ->
            IF ~inited \/ ts >= K THEN Fail("sweep-outside-run")
            ELSE IF ~hNoisy THEN Fail("evolution-without-noise-term")
            ELSE IF e.ts # ts THEN Fail("step-index-mismatch")
            ELSE IF ~(StepLo <= e.cur /\ e.cur <= StepHi) THEN Fail("time-left-the-current-step")
            ELSE IF e.branch = "complete" THEN
                   IF searching THEN Fail("step-completed-during-search")
                   ELSE IF e.sgap < 0 THEN Fail("threshold-crossing-ignored")
                   ELSE IF e.cur # StepHi THEN Fail("step-completed-before-its-end")
                   ELSE bad' = bad /\ Keep
            ELSE IF e.branch = "search_start" THEN
                   IF searching THEN Fail("search-restarted")
                   ELSE IF ~(e.sgap < 0 /\ e.sprev > 0) THEN Fail("search-without-sign-change")
                   ELSE IF ~(StepLo <= e.prev /\ e.prev <= e.cur) THEN Fail("search-bracket-outside-step")
                   ELSE IF ~(e.prev <= e.tgt /\ e.tgt <= e.cur) THEN Fail("query-outside-bracket")
                   ELSE /\ searching' = TRUE /\ lo' = e.prev /\ hi' = e.cur /\ bad' = bad
                        /\ UNCHANGED <<K, T, ts, hNoisy, lastFillTs, pendingJump, inited, stepFilled>>
            ELSE IF e.branch = "search_step" THEN
                   IF ~searching THEN Fail("search-step-without-search")
                   ELSE IF ~(lo <= Min(e.a, e.b) /\ Max(e.a, e.b) <= hi) THEN Fail("bracket-not-nested")
                   ELSE IF ~(Min(e.a, e.b) <= e.tgt /\ e.tgt <= Max(e.a, e.b)) THEN Fail("query-outside-bracket")
                   ELSE IF ~(e.sa * e.sb < 0) THEN Fail("bracket-lost-sign-change")
                   ELSE /\ lo' = Min(e.a, e.b) /\ hi' = Max(e.a, e.b) /\ bad' = bad
                        /\ UNCHANGED <<K, T, ts, searching, hNoisy, lastFillTs, pendingJump, inited, stepFilled>>
            ELSE IF e.branch = "jump" THEN
                   IF ~searching THEN Fail("jump-without-search")
                   ELSE IF ~pendingJump THEN Fail("jump-branch-without-jump-operator")
                   ELSE IF ~e.widthOK THEN Fail("jump-before-root-tolerance-reached")
                   ELSE IF ~(e.sa * e.sb < 0) THEN Fail("jump-not-at-a-threshold-crossing")
                   ELSE IF ~(lo <= Min(e.a, e.b) /\ Max(e.a, e.b) <= hi) THEN Fail("bracket-not-nested")
                   ELSE IF ~(e.cur = e.a \/ e.cur = e.b) THEN Fail("jump-time-not-an-end-of-the-bracket")
                   ELSE IF e.tgt # StepHi THEN Fail("target-not-restored-after-jump")
                   ELSE /\ searching' = FALSE /\ pendingJump' = FALSE /\ bad' = bad
                        /\ UNCHANGED <<K, T, ts, hNoisy, lo, hi, lastFillTs, inited, stepFilled>>
            ELSE Fail("unknown-branch")
       [] e.ev = "jumpop" ->
            IF ~searching THEN Fail("jump-operator-outside-search")
            ELSE IF e.ts # ts THEN Fail("jump-in-wrong-step")
            ELSE IF ~(StepLo <= e.t /\ e.t <= StepHi) THEN Fail("jump-outside-current-step")
            ELSE IF pendingJump THEN Fail("two-jumps-without-threshold")
            ELSE /\ pendingJump' = TRUE /\ bad' = bad
                 /\ UNCHANGED <<K, T, ts, searching, hNoisy, lo, hi, lastFillTs, inited, stepFilled>>
       [] e.ev = "done" ->
            IF searching THEN Fail("step-completed-during-search")
            ELSE IF e.ts # ts + 1 THEN Fail("steps-not-completed-in-order-once")
            ELSE IF ~stepFilled THEN Fail("step-completed-without-fill")
            ELSE IF e.cur # StepHi THEN Fail("step-completed-before-its-end")
            ELSE IF e.ts < K /\ e.tgt # T[e.ts + 2] THEN Fail("next-target-wrong")
            ELSE IF e.finished # (e.ts = K) THEN Fail("finished-flag-wrong")
            ELSE /\ ts' = e.ts /\ stepFilled' = FALSE /\ bad' = bad
                 /\ UNCHANGED <<K, T, searching, hNoisy, lo, hi, lastFillTs, pendingJump, inited>>
       [] OTHER -> Fail("unknown-event")
  /\ l' = l + 1 /\ UNCHANGED tid
Spec == Init /\ [][Step]_vars
Rejected == (bad # "none") => PrintT(<<"REJECT", Traces[tid].id, l - 1, bad>>)
Accepted == (bad = "none" /\ l = Len(Ev) + 1) =>
               IF (ts = K /\ inited /\ ~searching) \/ Traces[tid].partial THEN PrintT(<<"ACCEPT", Traces[tid].id>>)
               ELSE PrintT(<<"REJECT", Traces[tid].id, l, "run-ended-before-all-steps-completed">>)
====
