---- MODULE SVOperator ----
(* C06.  emu-sv's matrix-free operators.
   MECHANISM (transcribed statement by statement, with the code's own view()/index arithmetic on flat
   indices):
     RydbergHamiltonian._create_diagonal, __mul__, _apply_sigma_operators_real / _complex
       (chosen by `self.complex = phis.any()`),
     RydbergLindbladian._create_diagonal, _local_terms_hamiltonian, apply_local_op_to_density_matrix,
       apply_density_matrix_to_local_op_T, h_eff, __matmul__.
   REQUIREMENT (written on BIT STRINGS, never on flat indices):
     H   = sum_q Omega_q/2 (e^{-i phi_q}|g><r|_q + e^{+i phi_q}|r><g|_q) - sum_q delta_q n_q + sum_{i<j} U_ij n_i n_j
     i*L(rho) = [H, rho] + i sum_{q,L} ( L_q rho L_q^+ - 1/2 {L_q^+ L_q, rho} )       (what __matmul__ documents)
     with basis index  idx(b) = sum_q b_q 2^(N-1-q)  (g = 0, r = 1, qubit 0 most significant).
   All parameters are units: om_q = Omega_q/2 in {0,1}, phi_q = ph_q*pi/2, delta_q, U_ij in {0,1}, jump
   operators 2x2 Gaussian-integer matrices; everything is exact Gaussian-integer arithmetic (the Lindblad
   side is scaled by 2 to absorb the 1/2).  Both operators are real-linear in (Omega e^{i phi}, delta, U)
   and in the argument, and sesquilinear in each jump operator, PER CODE PATH, so unit probes that reach
   both paths determine them.  The harness replays every probe TLC enumerates into the real classes
   and compares with the requirement's entries printed here.                                         *)
EXTENDS Gauss, TLC
CONSTANTS NQ,           \* number of qubits
          MaxSupport,   \* at most this many of om, de, uu are 1
          MaxPhased,    \* at most this many qubits have a non-zero phase
          JumpLists,    \* set of sequences of jump operators <<l00, l01, l10, l11>> (Gaussian integers); {<<>>} for none
          DoHam, DoLind \* which operator is probed
VARIABLES par, op, arg, out
vars == <<par, op, arg, out>>

D == Pow2(NQ)
Idx == 0..D-1
Q == 0..NQ-1
PairsQ == {<<i, j>> \in Q \X Q : i < j}
om == par.om   ph == par.ph   de == par.de   uu == par.uu   jl == par.jl
UU(i, j) == uu[<<i, j>>]

\* ------------------------------------------------------------------------------ requirement (bit strings)
Basis == [Q -> {0, 1}]
RECURSIVE IndexFrom(_, _)
IndexFrom(bs, q) == IF q = NQ THEN 0 ELSE bs[q] * Pow2(NQ - 1 - q) + IndexFrom(bs, q + 1)
IndexOf(bs) == IndexFrom(bs, 0)
BitsOf(i) == CHOOSE bs \in Basis : IndexOf(bs) = i
IndexBijection == /\ \A i \in Idx : \E bs \in Basis : IndexOf(bs) = i
                  /\ \A b1, b2 \in Basis : IndexOf(b1) = IndexOf(b2) => b1 = b2
                  /\ \A bs \in Basis : IndexOf(bs) \in Idx
ASSUME IndexBijection

RECURSIVE SumQ(_, _)     \* sum over q of an integer-valued function on Q
SumQ(f, q) == IF q = NQ THEN 0 ELSE f[q] + SumQ(f, q + 1)
RECURSIVE SumP(_, _)     \* sum over a set of pairs
SumP(f, S) == IF S = {} THEN 0 ELSE LET p == CHOOSE x \in S : TRUE IN f[p] + SumP(f, S \ {p})

ReqEntry(b1, b2) ==
  LET diff == {q \in Q : b1[q] # b2[q]} IN
  IF diff = {} THEN G(SumP([p \in PairsQ |-> uu[p] * b1[p[1]] * b1[p[2]]], PairsQ) - SumQ([q \in Q |-> de[q] * b1[q]], 0), 0)
  ELSE IF Cardinality(diff) = 1
       THEN LET q == CHOOSE x \in diff : TRUE IN
            IF b1[q] = 1 THEN GScale(om[q], GPhase(ph[q]))            \* <..r..|H|..g..> = Omega/2 e^{+i phi}
                         ELSE GScale(om[q], GConj(GPhase(ph[q])))     \* <..g..|H|..r..> = Omega/2 e^{-i phi}
       ELSE GZero
ReqH == TLCEval([r \in Idx |-> [c \in Idx |-> ReqEntry(BitsOf(r), BitsOf(c))]])

JM(j) == TLCEval([r \in 0..1 |-> [c \in 0..1 |-> j[2 * r + c + 1]]])
\* a single-qubit operator on qubit q, by bit strings
EmbEntry(L, q, b1, b2) == IF \A x \in Q : x # q => b1[x] = b2[x] THEN L[b1[q]][b2[q]] ELSE GZero
Emb(L, q) == TLCEval([r \in Idx |-> [c \in Idx |-> EmbEntry(L, q, BitsOf(r), BitsOf(c))]])
\* all collapse operators: every jump operator on every qubit
AllJumps == [k \in 1..(NQ * Len(jl)) |-> Emb(JM(jl[((k - 1) % Len(jl)) + 1]), (k - 1) \div Len(jl))]
\* 2 * i * Lindblad(rho)  =  2 [H, rho] + sum ( 2i L rho L^+ - i L^+ L rho - i rho L^+ L )
ReqLind2(rho) ==
  LET H == ReqH
      comm == MScale(D, G(2, 0), MSub(D, MMul(D, H, rho), MMul(D, rho, H)))
      diss == [k \in 1..Len(AllJumps) |->
                 LET L == AllJumps[k]  Ld == MDag(D, L)  LdL == MMul(D, Ld, L) IN
                 MSub(D, MScale(D, G(0, 2), MMul(D, L, MMul(D, rho, Ld))),
                         MScale(D, GI, MAdd(D, MMul(D, LdL, rho), MMul(D, rho, LdL))))]
  IN MAdd(D, comm, MSumSeq(D, diss, Len(diss)))

\* real basis of the Hermitian matrices: k <-> (a, b);  a=b: E_aa ; a<b: E_ab + E_ba ; a>b: i E_ab - i E_ba
HermBasis(k) ==
  LET a == k \div D  b == k % D IN
  IF a = b THEN MUnit(D, a, a)
  ELSE IF a < b THEN MAdd(D, MUnit(D, a, b), MUnit(D, b, a))
  ELSE MSub(D, MScale(D, GI, MUnit(D, a, b)), MScale(D, GI, MUnit(D, b, a)))

\* ------------------------------------------------------------------------------ mechanism: views
\* tensor.view(A, 2, C) of a flat tensor: flat = a*2*C + b*C + c
VA(flat, C) == flat \div (2 * C)
VB(flat, C) == (flat \div C) % 2
VC(flat, C) == flat % C
Comp(a, b, c, C) == a * 2 * C + b * C + c
CQ(q) == Pow2(NQ - q - 1)                 \* shape_n = (2**n, 2, 2**(nqubits-n-1))

\* _create_diagonal: for i: diag.view(2**i, 2, -1)[:, 1, :] -= delta_i (Hamiltonian only);
\*   for j > i: i_fixed.view(2**i, 2**(j-i-1), 2, -1)[:, :, 1, :] += U_ij     (i_fixed = the b=1 slice)
DiagAt(idx, withDelta) ==
  SumQ([i \in Q |->
         IF VB(idx, CQ(i)) = 1
         THEN (IF withDelta THEN 0 - de[i] ELSE 0)
              + SumQ([j \in Q |-> IF j > i
                                  THEN LET s == VA(idx, CQ(i)) * CQ(i) + VC(idx, CQ(i))     \* position inside the slice
                                           R == Pow2(NQ - j - 1)
                                       IN IF (s \div R) % 2 = 1 THEN UU(i, j) ELSE 0
                                  ELSE 0], 0)
         ELSE 0], 0)

IsComplex == \E q \in Q : ph[q] # 0            \* self.complex = self.phis.any()

\* result.index_add_(1, inds=[1,0], vec, alpha=omega_n):  result[a, inds[k], c] += omega_n * vec[a, k, c]
RECURSIVE SigmaReal(_, _, _)
SigmaReal(res, vec, q) ==
  IF q = NQ THEN res
  ELSE SigmaReal(TLCEval([i \in Idx |-> GAdd(res[i], GScale(om[q], vec[Comp(VA(i, CQ(q)), 1 - VB(i, CQ(q)), VC(i, CQ(q)), CQ(q))]))]), vec, q + 1)
\* c = omega e^{i phi};  result[a, inds[0]=1, c] += c * vec[a, 0, c];  result[a, inds[1]=0, c] += conj(c) * vec[a, 1, c]
RECURSIVE SigmaComplex(_, _, _)
SigmaComplex(res, vec, q) ==
  IF q = NQ THEN res
  ELSE LET cw == GScale(om[q], GPhase(ph[q])) IN
       SigmaComplex(TLCEval([i \in Idx |->
                       LET a == VA(i, CQ(q))  b == VB(i, CQ(q))  c == VC(i, CQ(q)) IN
                       IF b = 1 THEN GAdd(res[i], GMul(cw, vec[Comp(a, 0, c, CQ(q))]))
                                ELSE GAdd(res[i], GMul(GConj(cw), vec[Comp(a, 1, c, CQ(q))]))]), vec, q + 1)
DiagTimes(vec) == TLCEval([i \in Idx |-> GScale(DiagAt(i, TRUE), vec[i])])           \* result = self.diag * vec
MulReal(vec) == SigmaReal(DiagTimes(vec), vec, 0)
MulComplex(vec) == SigmaComplex(DiagTimes(vec), vec, 0)
Mul(vec) == IF IsComplex THEN MulComplex(vec) ELSE MulReal(vec)               \* __mul__
EVec(c) == TLCEval([i \in Idx |-> IF i = c THEN GOne ELSE GZero])

\* ------------------------------------------------------------------------------ mechanism: Lindbladian (x 2)
SX2 == [r \in 0..1 |-> [c \in 0..1 |-> IF r # c THEN GOne ELSE GZero]]
SY2 == [r \in 0..1 |-> [c \in 0..1 |-> IF r = 0 /\ c = 1 THEN G(0, 0 - 1) ELSE IF r = 1 /\ c = 0 THEN G(0, 1) ELSE GZero]]
NOP == [r \in 0..1 |-> [c \in 0..1 |-> IF r = 1 /\ c = 1 THEN GOne ELSE GZero]]
\* 2 * compute_noise_from_lindbladians = -i sum L^+ L
NoiseTwice == LET t == [k \in 1..Len(jl) |-> MMul(2, MDag(2, JM(jl[k])), JM(jl[k]))] IN MScale(2, G(0, 0 - 1), MSumSeq(2, t, Len(t)))
\* 2 * _local_terms_hamiltonian(qubit, lindblad_ops)
LocalTwice(q) ==
  LET drive == IF ~IsComplex THEN MScale(2, G(2 * om[q], 0), SX2)
               ELSE MScale(2, G(2 * om[q], 0), MAdd(2, MScale(2, G(CosQ(ph[q]), 0), SX2), MScale(2, G(SinQ(ph[q]), 0), SY2)))
  IN MAdd(2, MSub(2, drive, MScale(2, G(2 * de[q], 0), NOP)), NoiseTwice)

Flat(r, c) == r * D + c
\* apply_local_op_to_density_matrix:  rho.view(2**q, 2, -1);  local_op @ rho
ApplyLeft(lop, rho, q) ==
  LET C == (D * D) \div Pow2(q + 1) IN
  TLCEval([r \in Idx |-> [c \in Idx |->
     LET f == Flat(r, c)  a == VA(f, C)  b == VB(f, C)  cc == VC(f, C) IN
     GSumTo([k \in 0..1 |-> LET g == Comp(a, k, cc, C) IN GMul(lop[b][k], rho[g \div D][g % D])], 1)]])
\* apply_density_matrix_to_local_op_T:  rho.view(2**(q + nqubits), 2, -1);  local_op.conj() @ rho
ApplyRightConj(lop, rho, q) ==
  LET C == (D * D) \div Pow2(q + NQ + 1) IN
  TLCEval([r \in Idx |-> [c \in Idx |->
     LET f == Flat(r, c)  a == VA(f, C)  b == VB(f, C)  cc == VC(f, C) IN
     GSumTo([k \in 0..1 |-> LET g == Comp(a, k, cc, C) IN GMul(GConj(lop[b][k]), rho[g \div D][g % D])], 1)]])
\* 2 * h_eff(rho, sum_lindblad_local)
HeffTwice(rho) ==
  LET loc == [k \in 1..NQ |-> ApplyLeft(LocalTwice(k - 1), rho, k - 1)]
      inter == TLCEval([r \in Idx |-> [c \in Idx |-> GScale(2 * DiagAt(r, FALSE), rho[r][c])]])      \* self.diag.view(-1, 1) * rho
  IN MAdd(D, MSumSeq(D, loc, NQ), inter)
\* 2 * __matmul__(rho) = Heff - Heff^+ + 2i sum_{qubit} sum_{L} (L rho) L^+
MatmulTwice(rho) ==
  LET h == HeffTwice(rho)
      jumps == [k \in 1..(NQ * Len(jl)) |->
                  LET q == (k - 1) \div Len(jl)  L == JM(jl[((k - 1) % Len(jl)) + 1]) IN
                  ApplyRightConj(L, ApplyLeft(L, rho, q), q)]
  IN MAdd(D, MSub(D, h, MDag(D, h)), MScale(D, G(0, 2), MSumSeq(D, jumps, Len(jumps))))

\* ------------------------------------------------------------------------------ behaviour
Count1(f, S) == Cardinality({x \in S : f[x] # 0})
Params == {p \in [om : [Q -> {0, 1}], ph : [Q -> 0..3], de : [Q -> {0, 1}], uu : [PairsQ -> {0, 1}], jl : JumpLists] :
             /\ Count1(p.om, Q) + Count1(p.de, Q) + Count1(p.uu, PairsQ) <= MaxSupport
             /\ Count1(p.ph, Q) <= MaxPhased}
Init == par \in Params /\ op = "none" /\ arg = 0 /\ out = <<>>
\* H * e_c for every basis vector
MulBasis == /\ DoHam /\ op = "none" /\ par.jl = <<>>
            /\ \E c \in Idx : arg' = c /\ out' = Mul(EVec(c))
            /\ op' = "ham" /\ UNCHANGED par
\* L @ rho for every element of the real basis of Hermitian matrices
MatmulBasis == /\ DoLind /\ op = "none"
               /\ \E k \in 0..(D * D - 1) : arg' = k /\ out' = MatmulTwice(HermBasis(k))
               /\ op' = "lind" /\ UNCHANGED par
Next == MulBasis \/ MatmulBasis
Spec == Init /\ [][Next]_vars

\* ------------------------------------------------------------------------------ what TLC checks
HamOK == op = "ham" => \A r \in Idx : out[r] = ReqH[r][arg]                       \* mechanism |= requirement
ReqHermitian == op = "none" => \A r, c \in Idx : ReqH[r][c] = GConj(ReqH[c][r])
PathsAgree == (op = "ham" /\ ~IsComplex) => MulComplex(EVec(arg)) = MulReal(EVec(arg))   \* fast path = general path at phi = 0
LindOK == op = "lind" => out = ReqLind2(HermBasis(arg))                             \* mechanism |= requirement
TracePreserved == op = "lind" => MTrace(D, out) = GZero
HermPreserved == op = "lind" => MDag(D, out) = MScale(D, G(0 - 1, 0), out)         \* out = 2i X with X Hermitian

\* binding (ACTION_CONSTRAINT): every probe with the entries of the result.  The mechanism's `out` is printed;
\* HamOK / LindOK (checked in the same run) make it the requirement's value, and the driver uses the log
\* only when they hold.
S0(f) == [k \in 1..NQ |-> f[k - 1]]
ParOut(p) == <<S0(p.om), S0(p.ph), S0(p.de), {q \in PairsQ : p.uu[q] = 1}, p.jl>>
LogProbe ==
  /\ (op' = "ham") => PrintT(<<"HAM", ParOut(par), arg', {<<r, out'[r][1], out'[r][2]>> : r \in {x \in Idx : out'[x] # GZero}}>>)
  /\ (op' = "lind") => PrintT(<<"LIND", ParOut(par), arg', Entries(D, out')>>)
====
