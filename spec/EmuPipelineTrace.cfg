SPECIFICATION Spec
INVARIANT Rejected
INVARIANT Accepted
