SPECIFICATION Spec
INVARIANT CrashTable
INVARIANT SaveAdvertisesNew
