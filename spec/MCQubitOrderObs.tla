---- MODULE MCQubitOrderObs ----
(* C03 / C25 binding (C): records PROJECTED FROM REAL RUNS (harness/drivers/_qorder.py: which label
   the drive row written to each site, the interaction row used at each site, and each position of
   each stored result belong to -- decided from values at the point of use and from the dense
   per-label reference) are handed to TLC, which evaluates the REQUIREMENT of QubitOrder.tla on them.
   One verdict line per record:  <<"O", id, full verdict (site level + results), result-level verdict>> *)
EXTENDS MCQubitOrder
VARIABLE oi
ObsRecords == JsonDeserialize(IOEnv.OBS_FILE)
Fn0m(m) == [i \in Idx(Len(m)) |-> Fn0(m[i + 1])]
ObsScen(r) == [ backend |-> r.sc.backend, n |-> r.sc.n, rho |-> Fn0(r.sc.rho), optp |-> Fn0(r.sc.optp),
                reorder |-> r.sc.reorder, spe |-> r.sc.spe, dark |-> {a \in Idx(r.sc.n) : r.sc.dark[a + 1]},
                given |-> r.sc.given, dim |-> r.sc.dim, tagmode |-> r.sc.tagmode ]
ObsState(r) == [Blank EXCEPT !.outcome = r.obs.outcome, !.atomOrder = Fn0(r.obs.atomOrder), !.ham = Fn0(r.obs.ham),
                             !.imat = Fn0m(r.obs.imat), !.occ = Fn0(r.obs.occ), !.bits = Fn0(r.obs.bits),
                             !.corr = Fn0m(r.obs.corr), !.occX = Fn0(r.obs.occX), !.bitsX = Fn0(r.obs.bitsX),
                             !.corrX = Fn0m(r.obs.corrX)]

\* the part of the requirement that is about REPORTED VALUES only (what the property statements name)
GroupVerdict(c, r) ==
  IF ~(\A j \in Idx(c.n) : Reports(c, r.occ[j], c.rho[j])) THEN "occupations-not-in-register-order"
  ELSE IF ~(\A i, j \in Idx(c.n) : Reports(c, r.corr[i][j][1], c.rho[i]) /\ Reports(c, r.corr[i][j][2], c.rho[j]))
       THEN "correlations-not-in-register-order"
  ELSE IF ~(\A j \in Idx(c.n) : Reports(c, r.bits[j], c.rho[j])) THEN "bitstring-positions-not-in-register-order"
  ELSE "ok"
ResultVerdict(c, t, numeric) ==
  IF ~RunsForEveryMask(c, t) THEN t.outcome
  ELSE IF t.atomOrder # c.rho THEN "atom-order-not-register-order"
  ELSE IF HasBase(c) /\ GroupVerdict(c, Res(t, "base")) # "ok" THEN GroupVerdict(c, Res(t, "base"))
  ELSE IF HasSuffixed(c) /\ GroupVerdict(c, Res(t, "x")) # "ok" THEN "suffixed-" \o GroupVerdict(c, Res(t, "x"))
  ELSE numeric

ObsInit == oi \in 1..Len(ObsRecords) /\ sc = <<>> /\ s = <<>> /\ pc = "obs"
ObsSpec == ObsInit /\ [][UNCHANGED <<oi, sc, s, pc>>]_<<oi, sc, s, pc>>
ObsVerdictPrinted ==
  LET r == ObsRecords[oi]
      c == ObsScen(r)
      t == ObsState(r)
  IN PrintT(<<"O", r.id, Verdict(c, t), ResultVerdict(c, t, r.obs.numeric)>>)
====
