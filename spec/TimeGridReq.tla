---- MODULE TimeGridReq ----
(* C21 REQUIREMENT -- what the statement demands of a list of target times, whatever produced it.
   A time is a pair <<q, r>>: q identifies the POINT of time (exact value in ticks in the model;
   rank of the point among all points that differ by more than 1e-6 ns for lists recorded from the
   real code), r a sub-resolution residue (rounding "ulps"; always 0 for recorded lists, where two
   floats closer than the resolution simply get the same q).  Lists with two entries for one point
   are NOT strictly increasing: that is the near-duplicate failure.                               *)
EXTENDS Integers, Sequences, FiniteSets
StrictlyIncreasing(T) == \A k \in 1..(Len(T) - 1) : T[k][1] < T[k + 1][1]
StartsAt0(T)          == Len(T) >= 1 /\ T[1] = <<0, 0>>
EndsAt(T, d)          == Len(T) >= 1 /\ T[Len(T)] = <<d, 0>>
PointsOf(T)           == {T[k][1] : k \in 1..Len(T)}
ContainsPoints(T, P)  == P \subseteq PointsOf(T)
Inside(T, d)          == \A k \in 1..Len(T) : 0 <= T[k][1] /\ T[k][1] <= d
(* one solver step per interval: the steps actually taken (start, end) are the intervals of the list, in order *)
OneStepPerInterval(T, steps) == /\ Len(steps) = Len(T) - 1
                                /\ \A k \in 1..Len(steps) : steps[k][1] = T[k][1] /\ steps[k][2] = T[k + 1][1]
(* every noise trajectory is simulated as often as Pulser requests: reps[j] requested, runs[j] performed *)
RunsAsRequested(reps, runs) == Len(reps) = Len(runs) /\ \A j \in 1..Len(reps) : reps[j] = runs[j]
====
