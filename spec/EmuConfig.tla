---- MODULE EmuConfig ----
(* C33 -- configuration safeguards are always applied.

   MECHANISM   = emu_mps/mps_config.py:MPSConfig.__init__ (autosave assertion, tolerance floor,
                 check_permutable_observables whitelist) followed by
                 emu_mps/mps_backend_impl.py:create_impl / DMRGBackendImpl.__init__ (solver gate),
                 one action each.
   REQUIREMENT = the four documented safeguards, stated without reference to the whitelist:
                 EffectiveTolAtLeastMin, ShortAutosaveRejected, NonPermutableSwitchesReorderOff,
                 DMRGRefusesNoise.
   Numbers: precision = 10^-p, extra_krylov_tolerance = 10^-e (the floor is 10^-12; the code replaces
   e by 12 - p when p + e > 12); autosave_dt in tenths of a second, Inf for "never".               *)
EXTENDS Integers, FiniteSets, TLC

CONSTANTS PExps, EExps,        \* exponent sets
          AutosaveDts, Inf,    \* tenths of seconds; Inf is a number larger than all
          ObsSets,             \* set of sets of observable tags
          FloorCmp,            \* "lt12" = floor applied when product < 1e-12 (as found); "le13" = seeded defect
          Whitelist,           \* the permutable-observable whitelist of the code
          DMRGFirst,           \* FALSE = create_impl as found in round 0 (Lindblad operators win over the solver)
          Srcs,                \* where the noise model comes from: "config" (config.noise_model) or "device"
                               \*   (prefer_device_noise_model=True, the device's default_noise_model)
          GateReads            \* which noise model the DMRG refusal reads: "config" = mps_config.noise_model only
                               \*   (DMRGBackendImpl.__init__ as found), "effective" = the model PulserData uses

NoiseClasses == {"none", "lindblad", "stochastic", "spam_meas", "lindblad+stochastic"}
Solvers == {"tdvp", "dmrg"}
HasLindblad(nc) == nc \in {"lindblad", "lindblad+stochastic"}
HasNoise(nc) == nc # "none"

\* the observables whose recorded value depends on the order of the qubits in the chain and that
\* permute_results does not (cannot) restore: the state itself, anything computed from a user-supplied
\* state / operator in the original order, bond-cut quantities, and observables the package does not know
NonPermutable == {"state", "fidelity", "expectation", "entanglement_entropy", "custom"}
AllTags == {"bitstrings", "occupation", "correlation_matrix", "energy", "energy_variance", "energy_second_moment"} \cup NonPermutable

\* cfg.noise is the class of the EFFECTIVE noise model (the one PulserData simulates: the device's when
\* cfg.src = "device", the config's otherwise).  With src = "device" the config's own noise_model is empty.
Cfgs == [p : PExps, e : EExps, dt : AutosaveDts, obs : ObsSets, reorder : BOOLEAN, solver : Solvers, noise : NoiseClasses, src : Srcs]
ConfigNoise(c) == IF c.src = "config" THEN c.noise ELSE "none"          \* what mps_config.noise_model holds
GateNoise(c) == IF GateReads = "config" THEN ConfigNoise(c) ELSE c.noise

VARIABLES pc, cfg, eff, out
vars == <<pc, cfg, eff, out>>
\* eff: the attributes after construction  [e, reorder]

Init == cfg \in Cfgs /\ pc = "new" /\ eff = [e |-> 0, reorder |-> FALSE] /\ out = "pending"

FloorApplies(c) == IF FloorCmp = "lt12" THEN c.p + c.e > 12 ELSE c.p + c.e > 13

Construct ==    \* MPSConfig.__init__
    /\ pc = "new"
    /\ IF ~(cfg.dt > 100)                                             \* assert self.autosave_dt > MIN_AUTOSAVE_DT
       THEN pc' = "done" /\ out' = "rejected:autosave" /\ UNCHANGED <<cfg, eff>>
       ELSE /\ eff' = [e |-> IF FloorApplies(cfg) THEN 12 - cfg.p ELSE cfg.e,               \* MIN_KRYLOV_TOL / precision
                       reorder |-> cfg.reorder /\ (cfg.obs \subseteq Whitelist)]           \* &= check_permutable_observables()
            /\ pc' = "constructed" /\ UNCHANGED <<cfg, out>>

CreateImpl ==   \* MPSBackend.run -> PulserData (effective noise -> lindblad_ops) -> create_impl(data, config)
    /\ pc = "constructed"
    /\ LET gate == cfg.solver = "dmrg" /\ HasNoise(GateNoise(cfg)) IN
       out' = IF DMRGFirst /\ cfg.solver = "dmrg"                                  \* solver tested first: DMRGBackendImpl(...)
              THEN (IF gate THEN "rejected:dmrg+noise" ELSE "impl:dmrg")             \*   whatever data.lindblad_ops holds
              ELSE IF HasLindblad(cfg.noise) THEN "impl:noisy-tdvp"                  \* data.lindblad_ops non-empty
              ELSE IF gate THEN "rejected:dmrg+noise"
              ELSE IF cfg.solver = "dmrg" THEN "impl:dmrg" ELSE "impl:tdvp"
    /\ pc' = "done" /\ UNCHANGED <<cfg, eff>>

Next == Construct \/ CreateImpl
Spec == Init /\ [][Next]_vars

\* ------------------------------------------------------------------ requirement
Constructed == pc \in {"constructed", "done"} /\ out # "rejected:autosave"
EffectiveTolAtLeastMin == Constructed => cfg.p + eff.e <= 12                       \* precision * extra' >= 1e-12
TolUntouchedWhenFine == (Constructed /\ cfg.p + cfg.e <= 12) => eff.e = cfg.e     \* not part of the statement; logged only
ShortAutosaveRejected == (pc # "new" /\ cfg.dt <= 100) => out = "rejected:autosave"
NonPermutableSwitchesReorderOff == (Constructed /\ cfg.obs \cap NonPermutable # {}) => ~eff.reorder
ReorderNeverSwitchedOn == Constructed => (eff.reorder => cfg.reorder)
DMRGRefusesNoise == (pc = "done" /\ out # "rejected:autosave" /\ cfg.solver = "dmrg" /\ HasNoise(cfg.noise)) => out = "rejected:dmrg+noise"
CfgOK == /\ EffectiveTolAtLeastMin /\ ShortAutosaveRejected /\ NonPermutableSwitchesReorderOff
         /\ ReorderNeverSwitchedOn /\ DMRGRefusesNoise
LogCfg == (pc' = "done") => PrintT(<<"CFG", cfg', eff', out',
                                     (cfg'.dt <= 100 => out' = "rejected:autosave")
                                     /\ (out' # "rejected:autosave" =>
                                           /\ cfg'.p + eff'.e <= 12
                                           /\ (cfg'.obs \cap NonPermutable # {} => ~eff'.reorder)
                                           /\ (eff'.reorder => cfg'.reorder)
                                           /\ ((cfg'.solver = "dmrg" /\ HasNoise(cfg'.noise)) => out' = "rejected:dmrg+noise"))>>)
====
