---- MODULE QubitOrder ----
(* C03 / C25.  State machine over the mechanism operators of QubitOrderFn (one action per code-level
   step, in the order MPSBackend._run_from_sequence_data / SVBackendImpl perform them) and, separately,
   the REQUIREMENT the two properties state:

     C03  LabelCoherent, ResultsInRegisterOrder (atom_order = register order and position p reports
          atom rho[p] for occupations, correlations and bitstring positions), RelabelEquivariance
          (a second register order rho' = rho o pi -- and ANY other optimiser output -- permutes
          every per-atom result by pi), ReorderingInvisible (optimiser output never matters)
     C25  DarkStayGround, DarkDoNotInteract, OthersAsReducedRegister, RunsForEveryMask

   Scenarios are either enumerated exhaustively (all n <= MaxN, all register orders, all optimiser
   outputs, all dark masks, ...) or read from a file (the replay sample for larger n).  With Log = TRUE
   every finished scenario is printed with what the mechanism predicts the code uses at each site and
   reports at each position: the script and the oracle of the spec -> code replay.                 *)
EXTENDS QubitOrderFn, TLC, Json, IOUtils

CONSTANTS MaxN,        \* enumerate registers of 2..MaxN atoms
          MaxNDim3,    \* ... with the leakage level only up to this size
          MaxNPair,    \* RelabelEquivariance as an explicit two-run property up to this size
          Backends,    \* subset of {"mps", "sv"}
          TagModes,    \* subset of {"base", "suffix", "both"}: tags of the per-atom observables (emu-mps, reordering on)
          Focus,       \* "all" | "spe" (only runs with state-preparation errors) | "nospe"
          FromFile,    \* BOOLEAN: scenarios from IOEnv.SCEN_FILE instead of the enumeration
          Log          \* BOOLEAN: print every finished scenario

VARIABLES sc, s, pc
vars == <<sc, s, pc>>

PermsTable == [m \in 0..MaxN |-> Perms(m)]      \* constant: evaluated once
PermsOf(m) == PermsTable[m]
Fn0(q) == [i \in Idx(Len(q)) |-> q[i + 1]]              \* JSON array -> 0-based function
AsSeq(f) == [i \in 1..Size(f) |-> f[i - 1]]
FileScenarios ==
  LET raw == JsonDeserialize(IOEnv.SCEN_FILE) IN
  { [ backend |-> raw[i].backend, n |-> raw[i].n, rho |-> Fn0(raw[i].rho), optp |-> Fn0(raw[i].optp),
      reorder |-> raw[i].reorder, spe |-> raw[i].spe,
      dark |-> {a \in Idx(raw[i].n) : raw[i].dark[a + 1]},
      given |-> raw[i].given, dim |-> raw[i].dim, tagmode |-> raw[i].tagmode ] : i \in 1..Len(raw) }

EnumInit ==
  \E b \in Backends, n \in 2..MaxN :
  \E r \in PermsOf(n), ro \in BOOLEAN, sp \in BOOLEAN, g \in BOOLEAN, dm \in {2, 3} :
  \E p \in (IF ro /\ b = "mps" THEN PermsOf(n) ELSE {EyePermutation(n)}) :
  \E d \in (IF sp THEN SUBSET Idx(n) ELSE {{}}) :
  \E tm \in (IF ro /\ b = "mps" THEN TagModes ELSE {"base"}) :
     /\ ~(g /\ sp)                              \* both backends refuse initial state + SPAM (not a run)
     /\ (b = "sv" => ~ro)
     /\ (Focus = "spe" => sp) /\ (Focus = "nospe" => ~sp)
     /\ (dm = 3 => (n <= MaxNDim3 /\ sp /\ b = "mps"))   \* the level count only matters for the padding (emu-mps)
     /\ sc = [backend |-> b, n |-> n, rho |-> r, optp |-> p, reorder |-> ro, spe |-> sp, dark |-> d,
              given |-> g, dim |-> dm, tagmode |-> tm]

Init == /\ (IF FromFile THEN sc \in FileScenarios ELSE EnumInit)
        /\ s = Blank /\ pc = "new"

Go(next) == pc' = IF Stopped(s') THEN "stopped" ELSE next
\* ---------------------------------------------------------------- emu-mps
MpsNew               == pc = "new" /\ sc.backend = "mps" /\ s' = MpsCtor(sc) /\ Go("init_dark_qubits") /\ UNCHANGED sc
InitDarkQubits       == pc = "init_dark_qubits" /\ s' = MpsInitDarkQubits(sc, s) /\ Go("init_initial_state") /\ UNCHANGED sc
InitInitialState     == pc = "init_initial_state" /\ s' = MpsInitInitialState(sc, s) /\ Go("get_interaction_matrix") /\ UNCHANGED sc
GetInteractionMatrix == pc = "get_interaction_matrix" /\ s' = MpsGetInteractionMatrix(sc, s) /\ Go("update_H") /\ UNCHANGED sc
UpdateH              == pc = "update_H" /\ s' = MpsUpdateH(sc, s) /\ Go("fill_results") /\ UNCHANGED sc
FillResults          == pc = "fill_results" /\ s' = MpsFillResults(sc, s) /\ Go("permute_results") /\ UNCHANGED sc
PermuteResults       == pc = "permute_results" /\ s' = MpsPermuteResults(sc, s) /\ pc' = "done" /\ UNCHANGED sc
\* ---------------------------------------------------------------- emu-sv
SvNew                == pc = "new" /\ sc.backend = "sv" /\ s' = SvCtor(sc) /\ Go("sv_init_dark_qubits") /\ UNCHANGED sc
SvInitDark           == pc = "sv_init_dark_qubits" /\ s' = SvInitDarkQubits(sc, s) /\ Go("sv_run") /\ UNCHANGED sc
SvRunAll             == pc = "sv_run" /\ s' = SvRun(sc, s) /\ pc' = "done" /\ UNCHANGED sc

Next == \/ MpsNew \/ InitDarkQubits \/ InitInitialState \/ GetInteractionMatrix \/ UpdateH \/ FillResults
        \/ PermuteResults \/ SvNew \/ SvInitDark \/ SvRunAll
Spec == Init /\ [][Next]_vars

Finished == pc \in {"done", "stopped"}

\* ================================================================= REQUIREMENT
DarkSet(c)  == IF c.spe THEN c.dark ELSE {}
GoodSet(c)  == Idx(c.n) \ DarkSet(c)
\* what "atom a, simulated as itself" looks like: its own drive, its own interaction row and column,
\* its own initial letter
Site(c, a)  == <<a, a, a, IF c.given THEN a ELSE GROUND>>
\* what "absent" looks like: a padded |g> factor, or an atom left in |g> with drive and interactions off
IsAbsent(e) == e = PAD \/ e = <<OFF, OFF, OFF, GROUND>>
Reports(c, e, a) == IF a \in DarkSet(c) THEN IsAbsent(e) ELSE e = Site(c, a)

RunsForEveryMask(c, t)  == t.outcome = "ok"
\* every datum the Hamiltonian / state uses at a site belongs to ONE atom, and each atom has one site
LabelCoherent(c, t) ==
  /\ \A k \in DOMAIN t.ham : IsAbsent(t.ham[k]) \/ \E a \in Idx(c.n) : t.ham[k] = Site(c, a)
  /\ \A k, l \in DOMAIN t.ham : (k # l /\ ~IsAbsent(t.ham[k])) => t.ham[k] # t.ham[l]
\* interaction entries join the atoms of the two sites they sit between, never a dark atom
DarkDoNotInteract(c, t) ==
  \A k, l \in DOMAIN t.imat :
     \/ t.imat[k][l] = <<OFF, OFF>>
     \/ /\ t.imat[k][l][1] \in GoodSet(c) /\ t.imat[k][l][2] \in GoodSet(c)
        /\ t.imat[k][l] = <<t.imat[k][k][1], t.imat[l][l][1]>>
\* the stored per-atom results, per tag group ("base": occupation / bitstrings / correlation_matrix,
\* "x": the same observables with a tag suffix)
Groups(c) == (IF HasBase(c) THEN {"base"} ELSE {}) \cup (IF HasSuffixed(c) THEN {"x"} ELSE {})
Res(t, g) == IF g = "base" THEN [occ |-> t.occ, bits |-> t.bits, corr |-> t.corr]
                           ELSE [occ |-> t.occX, bits |-> t.bitsX, corr |-> t.corrX]
\* dark atoms are driven by nothing and are reported in |g>
DarkStayGround(c, t) ==
  /\ \A k \in DOMAIN t.ham : ~IsAbsent(t.ham[k]) => (t.ham[k][1] \in GoodSet(c) /\ t.ham[k][4] \in GoodSet(c) \cup {GROUND})
  /\ \A g \in Groups(c) : \A j \in Idx(c.n) : c.rho[j] \in DarkSet(c) => IsAbsent(Res(t, g).occ[j])
\* the simulated system is exactly the register without the dark atoms
OthersAsReducedRegister(c, t) ==
  {t.ham[k] : k \in {l \in DOMAIN t.ham : ~IsAbsent(t.ham[l])}} = {Site(c, a) : a \in GoodSet(c)}
GroupInRegisterOrder(c, r) ==
  /\ \A j \in Idx(c.n) : /\ Reports(c, r.occ[j], c.rho[j])
                         /\ Reports(c, r.bits[j], c.rho[j])
  /\ \A i, j \in Idx(c.n) : /\ Reports(c, r.corr[i][j][1], c.rho[i])
                            /\ Reports(c, r.corr[i][j][2], c.rho[j])
\* EVERY stored per-atom result, whatever its tag, lists the atoms in register order
ResultsInRegisterOrder(c, t) ==
  /\ t.atomOrder = c.rho
  /\ \A g \in Groups(c) : GroupInRegisterOrder(c, Res(t, g))

Verdict(c, t) ==
  IF ~RunsForEveryMask(c, t) THEN t.outcome
  ELSE IF ~LabelCoherent(c, t) THEN "site-data-of-different-atoms"
  ELSE IF ~DarkDoNotInteract(c, t) THEN "dark-atom-interacts"
  ELSE IF ~DarkStayGround(c, t) THEN "dark-atom-driven-or-not-ground"
  ELSE IF ~OthersAsReducedRegister(c, t) THEN "not-the-reduced-register"
  ELSE IF t.atomOrder # c.rho THEN "atom-order-not-register-order"
  ELSE IF HasBase(c) /\ ~GroupInRegisterOrder(c, Res(t, "base")) THEN "results-not-in-register-order"
  ELSE IF HasSuffixed(c) /\ ~GroupInRegisterOrder(c, Res(t, "x")) THEN "suffixed-results-not-in-register-order"
  ELSE "ok"

\* two-run form: the same atoms inserted in another order (rho' = rho o pi), the optimiser free to
\* answer anything (p2), reordering switched either way: position j of the second run must report
\* what position pi[j] of the first reports -- for every kind of per-atom result
Relabelled(c, pi, p2, ro2) == [c EXCEPT !.rho = Compose(c.rho, pi), !.reorder = ro2,
                                        !.optp = IF ro2 THEN p2 ELSE EyePermutation(c.n)]
Equivariant(c, t, pi, p2, ro2) ==
  LET t2 == RunAll(Relabelled(c, pi, p2, ro2)) IN
  /\ t2.outcome = t.outcome
  /\ t.outcome = "ok" =>
       /\ \A j \in Idx(c.n) : t2.atomOrder[j] = t.atomOrder[pi[j]]
       /\ \A g \in Groups(c) :
            /\ \A j \in Idx(c.n) : /\ Res(t2, g).occ[j] = Res(t, g).occ[pi[j]]
                                   /\ Res(t2, g).bits[j] = Res(t, g).bits[pi[j]]
            /\ \A i, j \in Idx(c.n) : Res(t2, g).corr[i][j] = Res(t, g).corr[pi[i]][pi[j]]
PairCheck(c, t) ==
  \A pi \in PermsOf(c.n) : \A ro2 \in (IF c.backend = "mps" THEN BOOLEAN ELSE {FALSE}) :
  \A p2 \in (IF ro2 THEN PermsOf(c.n) ELSE {EyePermutation(c.n)}) : Equivariant(c, t, pi, p2, ro2)

\* ---- as invariants (used for the variant of the mechanism that is meant to satisfy them)
InvRuns            == Finished => RunsForEveryMask(sc, s)
InvLabelCoherent   == pc = "done" => LabelCoherent(sc, s)
InvDarkDoNotInteract == pc = "done" => DarkDoNotInteract(sc, s)
InvDarkStayGround  == pc = "done" => DarkStayGround(sc, s)
InvReducedRegister == pc = "done" => OthersAsReducedRegister(sc, s)
InvResultsInRegisterOrder == pc = "done" => ResultsInRegisterOrder(sc, s)
InvRelabelEquivariance == (pc = "done" /\ sc.n <= MaxNPair) => PairCheck(sc, s)
\* the step-by-step machine and the function RunAll are the same mechanism
InvRunAllAgrees    == Finished => s = RunAll(sc)
\* coherence is already there when the Hamiltonian is filled (before results exist)
InvCoherentAtUpdateH == pc = "fill_results" => LabelCoherent(sc, s)

\* ---- log: scenario, prediction, verdict
DarkBits(c) == [a \in 1..c.n |-> (a - 1) \in DarkSet(c)]
LogFinished == (Log /\ Finished) =>
  PrintT(<<"S", sc.backend, sc.n, AsSeq(sc.rho), AsSeq(sc.optp), sc.reorder, sc.spe, DarkBits(sc), sc.given, sc.dim, sc.tagmode,
           s.outcome, AsSeq(s.qperm), AsSeq(s.atomOrder), AsSeq(s.ham), AsSeq(s.wp), AsSeq(s.occ), AsSeq(s.bits),
           AsSeq(s.occX), AsSeq(s.bitsX), Verdict(sc, s),
           IF s.outcome = "ok" /\ sc.n <= MaxNPair THEN PairCheck(sc, s) ELSE TRUE>>)
====
