---- MODULE MPSOps ----
(***************************************************************************************************
C10 / C11 -- public MPS operations of emu_mps as transitions on the abstract state the two
properties talk about.

  Python names ("slots") hold MPS objects.  Of an object we keep
     c        declared orthogonality centre (0 = None, else site 1..n)      MPS.orthogonality_center
     l[i]     tensor i is KNOWN to be left-isometric   (sum_s A_s^+ A_s = 1)
     r[i]     tensor i is KNOWN to be right-isometric  (sum_s A_s A_s^+ = 1)
     bd[b]    bond b (between sites b, b+1) is KNOWN to be <= max_bond_dim
  and, of every pair of objects, the set of sites on which they hold THE SAME torch tensor
  (scale_factors shares every tensor but one; evolve_pair / evolve_single destroy their inputs).

  MECHANISM  = one operator per method body of emu_mps/mps.py, mpo.py, algebra.py, utils.py,
               solver_utils.py (which QR / split each method performs, which list entries it
               rebinds, which centre it declares afterwards).  Sites are 1-based here.
  REQUIREMENT = Canonical, NormIsCentreNorm, CapRespected, SplitAtCentre (C10) and Frame (C11),
               stated on (c, l, r, bd, last) only -- they never mention how a method works.

  Flags are one-sided knowledge (FALSE = not guaranteed), so the real tensors must be AT LEAST as
  isometric as the model says; the driver measures that after every replayed transition.
  Variant # "code" selects seeded mutants of the mechanism: TLC must refute the requirement for
  them (sensitivity self-test of the specification).
***************************************************************************************************)
EXTENDS Integers, FiniteSets, Sequences, TLC

CONSTANTS MinN, MaxN,      \* number of sites of a behaviour is chosen in MinN..MaxN
          NSlots,          \* Python names 1..NSlots hold MPS objects
          MaxDepth,        \* bound on the number of operations (guard of every action)
          Variant,         \* "code" | "scale_inplace" | "truncate_no_orth" | "apply_keeps_centre" | "evolve_unguarded"
          LogTransitions   \* print every explored transition (binding A)

VARIABLES n, obj, share, last, depth
vars == <<n, obj, share, last, depth>>

Slots == 1..NSlots
Sites == 1..n
Bonds == 1..(n - 1)
\* share[a][b] = share[b][a] = sites on which slots a # b hold the same tensor; share[a][a] = {} (unused)
Sh(a, b) == IF a = b THEN Sites ELSE share[a][b]

AllF == [i \in Sites |-> FALSE]
AllT == [i \in Sites |-> TRUE]
Null == [live |-> FALSE, c |-> 0, l |-> AllF, r |-> AllF, bd |-> [b \in Bonds |-> FALSE]]
Live == {s \in Slots : obj[s].live}

NoLast == [op |-> "init", a |-> 0, b |-> 0, res |-> 0, k |-> 0, touched |-> {}, regauged |-> {}, splitOK |-> TRUE]

---------------------------------------------------------------------------------------------------
(* MECHANISM, part 1: pure functions on one object record.  Each returns [o |-> object, rb |-> sites
   whose list entry was REBOUND to a new tensor] (rebinding ends the sharing on that site).       *)

\* MPS.orthogonalize(k): QR sweep left-to-right from the declared centre (or site 1 when None) up
\* to k-1, then right-to-left from the declared centre (or site n when None) down to k+1.
Orth(o, k) ==
  LET s1 == IF o.c = 0 THEN 1 ELSE o.c
      s2 == IF o.c = 0 THEN n ELSE o.c
      inL(i) == s1 <= i /\ i < k            \* replaced by the Q of a QR: left-isometric
      inR(i) == k < i /\ i <= s2            \* replaced by Q^T: right-isometric
      hitK == (s1 < k) \/ (s2 > k)          \* site k absorbed an R factor
  IN [o  |-> [o EXCEPT !.c = k,
                !.l = [i \in Sites |-> IF inL(i) THEN TRUE ELSE IF inR(i) \/ (i = k /\ hitK) THEN FALSE ELSE o.l[i]],
                !.r = [i \in Sites |-> IF inR(i) THEN TRUE ELSE IF inL(i) \/ (i = k /\ hitK) THEN FALSE ELSE o.r[i]]],
      rb |-> {i \in Sites : inL(i) \/ inR(i) \/ (i = k /\ hitK)}]

\* utils.truncate_impl: for i = n..2: factors[i] <- rows of q^+ (right-isometric), factors[i-1] absorbs;
\* every split is capped by max_bond_dim.  The caller declares the centre afterwards.
TruncImpl(o) ==
  [o  |-> [o EXCEPT !.c = 1, !.l = AllF, !.r = [i \in Sites |-> i >= 2], !.bd = [b \in Bonds |-> TRUE]],
   rb |-> Sites]

\* is the object canonical around site k according to what is KNOWN (used by SplitAtCentre)
CanonAt(o, k) == (\A i \in Sites : i < k => o.l[i]) /\ (\A i \in Sites : i > k => o.r[i])

\* MPS.truncate(): orthogonalize(n); truncate_impl; orthogonality_center = 0
Trunc(o) ==
  LET o1 == IF Variant = "truncate_no_orth" THEN [o |-> o, rb |-> {}] ELSE Orth(o, n)
      o2 == TruncImpl(o1.o)
  IN [o |-> o2.o, rb |-> Sites, splitOK |-> CanonAt(o1.o, n)]

\* a freshly built list of tensors nobody knows anything about (MPS(factors), add_factors result)
Raw == [live |-> TRUE, c |-> 0, l |-> AllF, r |-> AllF, bd |-> [b \in Bonds |-> FALSE]]

\* algebra.zip_right: every new factor is the Q of a QR, the last one absorbs the slider; truncate_impl
ZipResult ==
  LET pre == [Raw EXCEPT !.l = [i \in Sites |-> i < n]]
  IN [o |-> TruncImpl(pre).o, splitOK |-> CanonAt(pre, n)]

RECURSIVE CorrFold(_, _, _)
\* get_correlation_matrix: for left in 1..n: orthogonalize(left)
CorrFold(o, k, rb) == IF k > n THEN [o |-> o, rb |-> rb]
                      ELSE LET x == Orth(o, k) IN CorrFold(x.o, k + 1, rb \cup x.rb)

---------------------------------------------------------------------------------------------------
(* MECHANISM, part 2: actions.  `touched` = slots whose REPRESENTED STATE changed (or was created),
   `regauged` = slots whose tensors were rebound without changing the represented state.           *)

Unshare(sh, a, rb) ==      \* slot a rebound the sites rb
  [x \in Slots |-> [y \in Slots |-> IF x # y /\ a \in {x, y} THEN sh[x][y] \ rb ELSE sh[x][y]]]
Fresh(sh, a) == Unshare(sh, a, Sites)

SetLast(op, a, b, res, k, touched, regauged, splitOK) ==
  last' = [op |-> op, a |-> a, b |-> b, res |-> res, k |-> k, touched |-> touched, regauged |-> regauged, splitOK |-> splitOK]

Tick == depth < MaxDepth /\ depth' = depth + 1 /\ UNCHANGED n

\* x = MPS(random factors)            -- constructor, nothing declared
New(res) ==
  /\ obj' = [obj EXCEPT ![res] = Raw]
  /\ share' = Fresh(share, res)
  /\ SetLast("New", 0, 0, res, 0, {res}, {}, TRUE) /\ Tick

\* x = MPS.make(n)                    -- product state, every factor is both-sided isometric, centre 1
Make(res) ==
  /\ obj' = [obj EXCEPT ![res] = [live |-> TRUE, c |-> 1, l |-> AllT, r |-> AllT, bd |-> [b \in Bonds |-> TRUE]]]
  /\ share' = Fresh(share, res)
  /\ SetLast("Make", 0, 0, res, 0, {res}, {}, TRUE) /\ Tick

\* x = MPS.from_state_amplitudes(..): zero MPS, then `accum += amp * MPS(basis)` per string (each
\* __add__ ends in truncate()), then possibly `accum *= 1/norm` (scales the centre tensor, site 1)
FromAmplitudes(res) ==
  LET t == Trunc(Raw)
  IN /\ obj' = [obj EXCEPT ![res] = t.o]
     /\ share' = Fresh(share, res)
     /\ SetLast("FromAmplitudes", 0, 0, res, 0, {res}, {}, t.splitOK) /\ Tick

Orthogonalize(a, k) ==
  /\ obj[a].live
  /\ LET x == Orth(obj[a], k)
     IN /\ obj' = [obj EXCEPT ![a] = x.o]
        /\ share' = Unshare(share, a, x.rb)
        /\ SetLast("Orthogonalize", a, 0, 0, k, {}, IF x.rb = {} THEN {} ELSE {a}, TRUE) /\ Tick

Truncate(a) ==
  /\ obj[a].live
  /\ LET t == Trunc(obj[a])
     IN /\ obj' = [obj EXCEPT ![a] = t.o]
        /\ share' = Unshare(share, a, t.rb)
        /\ SetLast("Truncate", a, 0, 0, 0, {a}, {}, t.splitOK) /\ Tick

\* res = a + b : add_factors builds new tensors (torch.cat), centre None, then truncate()
Add(a, b, res) ==
  /\ obj[a].live /\ obj[b].live
  /\ LET t == Trunc(Raw)
     IN /\ obj' = [obj EXCEPT ![res] = t.o]
        /\ share' = Fresh(share, res)
        /\ SetLast("Add", a, b, res, 0, {res}, {}, t.splitOK) /\ Tick

\* res = z * a  (also `a *= z`, which REBINDS the name: res = a): scale_factors returns a new list
\* holding the operand's own tensors except the scaled one (the centre, or site 1 when None)
Scale(a, res) ==
  /\ obj[a].live
  /\ LET o == obj[a]
         w == IF o.c = 0 THEN 1 ELSE o.c
         ro == [o EXCEPT !.l = [o.l EXCEPT ![w] = FALSE], !.r = [o.r EXCEPT ![w] = FALSE]]
         inplace == Variant = "scale_inplace"     \* mutant: `f *= scalar` on the operand's tensor
         sh1 == IF res = a THEN Unshare(share, a, {w})
                ELSE [x \in Slots |-> [y \in Slots |->
                        IF x = y THEN {}
                        ELSE IF {x, y} = {a, res} THEN Sites \ {w}
                        ELSE IF res \in {x, y}
                             THEN LET q == IF x = res THEN y ELSE x IN Sh(a, q) \ {w}
                             ELSE share[x][y]]]
     IN /\ obj' = [obj EXCEPT ![res] = ro, ![a] = IF res = a THEN ro ELSE IF inplace THEN ro ELSE o]
        /\ share' = IF inplace /\ res # a THEN [sh1 EXCEPT ![a][res] = Sites, ![res][a] = Sites] ELSE sh1
        /\ SetLast("Scale", a, 0, res, 0,
                   {res} \cup (IF inplace THEN {a} \cup {q \in Live : w \in Sh(a, q)} ELSE {}), {}, TRUE)
        /\ Tick

\* a.apply(k, op): orthogonalize(k); factors[k] = op @ factors[k]
Apply(a, k) ==
  /\ obj[a].live
  /\ LET x == IF Variant = "apply_keeps_centre" THEN [o |-> obj[a], rb |-> {}] ELSE Orth(obj[a], k)
         o2 == [x.o EXCEPT !.l = [x.o.l EXCEPT ![k] = FALSE], !.r = [x.o.r EXCEPT ![k] = FALSE]]
     IN /\ obj' = [obj EXCEPT ![a] = o2]
        /\ share' = Unshare(share, a, x.rb \cup {k})
        /\ SetLast("Apply", a, 0, 0, k, {a}, {}, TRUE) /\ Tick

\* a.norm() / a.expect_batch(ops): centre if declared else orthogonalize(1); reads only
NormLike(op, a) ==
  /\ obj[a].live
  /\ LET x == IF obj[a].c = 0 THEN Orth(obj[a], 1) ELSE [o |-> obj[a], rb |-> {}]
     IN /\ obj' = [obj EXCEPT ![a] = x.o]
        /\ share' = Unshare(share, a, x.rb)
        /\ SetLast(op, a, 0, 0, 0, {}, IF x.rb = {} THEN {} ELSE {a}, TRUE) /\ Tick
Norm(a) == NormLike("Norm", a)
ExpectBatch(a) == NormLike("ExpectBatch", a)

\* a.sample(..): orthogonalize(1), then reads
Sample(a) ==
  /\ obj[a].live
  /\ LET x == Orth(obj[a], 1)
     IN /\ obj' = [obj EXCEPT ![a] = x.o]
        /\ share' = Unshare(share, a, x.rb)
        /\ SetLast("Sample", a, 0, 0, 0, {}, IF x.rb = {} THEN {} ELSE {a}, TRUE) /\ Tick

\* a.entanglement_entropy(b): orthogonalize(b); svdvals; orthogonalize(1)     (bond b = sites b | b+1)
Entropy(a, b) ==
  /\ obj[a].live
  /\ LET x == Orth(obj[a], b)
         y == Orth(x.o, 1)
     IN /\ obj' = [obj EXCEPT ![a] = y.o]
        /\ share' = Unshare(share, a, x.rb \cup y.rb)
        /\ SetLast("Entropy", a, 0, 0, b, {}, IF x.rb \cup y.rb = {} THEN {} ELSE {a}, TRUE) /\ Tick

\* a.get_correlation_matrix()
Correlation(a) ==
  /\ obj[a].live
  /\ LET x == CorrFold(obj[a], 1, {})
     IN /\ obj' = [obj EXCEPT ![a] = x.o]
        /\ share' = Unshare(share, a, x.rb)
        /\ SetLast("Correlation", a, 0, 0, 0, {}, IF x.rb = {} THEN {} ELSE {a}, TRUE) /\ Tick

\* a.inner(b), a.overlap(b), mpo.expect(a): read only, not even a gauge change
Inner(a, b) ==
  /\ obj[a].live /\ obj[b].live
  /\ UNCHANGED <<obj, share>>
  /\ SetLast("Inner", a, b, 0, 0, {}, {}, TRUE) /\ Tick
MPOExpect(a) ==
  /\ obj[a].live
  /\ UNCHANGED <<obj, share>>
  /\ SetLast("MPOExpect", a, 0, 0, 0, {}, {}, TRUE) /\ Tick

\* res = mpo.apply_to(a): zip_right builds new tensors; MPS(factors, orthogonality_center=0)
MPOApply(a, res) ==
  /\ obj[a].live
  /\ LET z == ZipResult
     IN /\ obj' = [obj EXCEPT ![res] = z.o]
        /\ share' = Fresh(share, res)
        /\ SetLast("MPOApply", a, 0, res, 0, {res}, {}, z.splitOK) /\ Tick

\* MPSBackendImpl._evolve(k, k+1, orth_center_right): evolve_pair DESTROYS the two input tensors
\* (deallocate_tensor) and splits the evolved pair, capped by max_bond_dim; the backend calls it on
\* tensors it owns exclusively (the normalised copy of fill_results is dropped before) -- that
\* discipline is the guard; the mutant "evolve_unguarded" drops it.
EvolvePair(a, k, right) ==
  /\ obj[a].live /\ k < n /\ obj[a].c \in {k, k + 1}
  /\ Variant = "evolve_unguarded" \/ \A q \in Live \ {a} : Sh(a, q) \cap {k, k + 1} = {}
  /\ LET o == obj[a]
         o2 == [o EXCEPT !.c = IF right THEN k + 1 ELSE k,
                         !.l = [o.l EXCEPT ![k] = right, ![k + 1] = FALSE],
                         !.r = [o.r EXCEPT ![k] = FALSE, ![k + 1] = ~right],
                         !.bd = [o.bd EXCEPT ![k] = TRUE]]
         hit == {q \in Live \ {a} : Sh(a, q) \cap {k, k + 1} # {}}
     IN /\ obj' = [obj EXCEPT ![a] = o2]
        /\ share' = Unshare(share, a, {k, k + 1})
        /\ SetLast("EvolvePair", a, IF right THEN 1 ELSE 0, 0, k, {a} \cup hit, {}, CanonAt(o, o.c)) /\ Tick

\* MPSBackendImpl._evolve(k): evolve_single -> krylov_exp normalises ITS INPUT in place
EvolveSingle(a) ==
  /\ obj[a].live /\ obj[a].c # 0
  /\ LET k == obj[a].c
         o == obj[a]
         hit == {q \in Live \ {a} : k \in Sh(a, q)}
     IN /\ Variant = "evolve_unguarded" \/ hit = {}
        /\ obj' = [obj EXCEPT ![a] = [o EXCEPT !.l = [o.l EXCEPT ![k] = FALSE], !.r = [o.r EXCEPT ![k] = FALSE]]]
        /\ share' = Unshare(share, a, {k})
        /\ SetLast("EvolveSingle", a, 0, 0, k, {a} \cup hit, {}, TRUE) /\ Tick

---------------------------------------------------------------------------------------------------
Init ==
  /\ n \in MinN..MaxN
  /\ obj = [s \in Slots |-> Null]
  /\ share = [x \in Slots |-> [y \in Slots |-> {}]]
  /\ last = NoLast
  /\ depth = 0

Step ==
  \/ \E s \in Slots : New(s) \/ Make(s) \/ FromAmplitudes(s)
  \/ \E a \in Slots, k \in Sites : Orthogonalize(a, k) \/ Apply(a, k)
  \/ \E a \in Slots : Truncate(a) \/ Norm(a) \/ ExpectBatch(a) \/ Sample(a) \/ Correlation(a) \/ MPOExpect(a) \/ EvolveSingle(a)
  \/ \E a \in Slots, b \in Bonds : Entropy(a, b)
  \/ \E a \in Slots, b \in Slots, s \in Slots : Add(a, b, s)
  \/ \E a \in Slots, b \in Slots : Inner(a, b)
  \/ \E a \in Slots, s \in Slots : Scale(a, s) \/ MPOApply(a, s)
  \/ \E a \in Slots, k \in Bonds, right \in BOOLEAN : EvolvePair(a, k, right)

Next == depth < MaxDepth /\ Step
Spec == Init /\ [][Next]_vars

\* compact one-line rendering of a transition for the binding (flat tuple of integers + the op name)
RECURSIVE Bits(_, _)
Bits(f, i) == IF i = 0 THEN 0 ELSE (IF f[i] THEN 2 ^ (i - 1) ELSE 0) + Bits(f, i - 1)
SetBits(S, m) == Bits([i \in 1..m |-> i \in S], m)
EncObj(o) == <<IF o.live THEN 1 ELSE 0, o.c, Bits(o.l, n), Bits(o.r, n), Bits(o.bd, n - 1)>>
RECURSIVE Cat(_, _)
Cat(f, i) == IF i = 0 THEN <<>> ELSE Cat(f, i - 1) \o f[i]
EncState(ob, sh) == Cat([s \in Slots |-> EncObj(ob[s])], NSlots)
                    \o Cat([x \in Slots |-> [y \in Slots |-> SetBits(sh[x][y], n)]], NSlots)
LogStep == LogTransitions =>
  PrintT(ToString(<<"T", n, depth, last'.op, last'.a, last'.b, last'.res, last'.k, SetBits(last'.touched, NSlots),
           SetBits(last'.regauged, NSlots), IF last'.splitOK THEN 1 ELSE 0>> \o EncState(obj, share) \o EncState(obj', share')))

---------------------------------------------------------------------------------------------------
(* REQUIREMENT (what C10 / C11 demand), on the abstract state only *)

\* C10: tensors left of the declared centre are left-orthonormal, right of it right-orthonormal
Canonical == \A s \in Live : obj[s].c # 0 => CanonAt(obj[s], obj[s].c)

\* C10: "so the norm equals the norm of the centre tensor" -- whenever norm() answers, a centre is
\* declared and the object is canonical around it
NormIsCentreNorm == last.op = "Norm" => obj[last.a].c # 0 /\ CanonAt(obj[last.a], obj[last.a].c)

\* C10: after an operation that truncates, the bonds it truncated respect the cap
Truncating == {"Truncate", "Add", "FromAmplitudes", "MPOApply"}
CapRespected ==
  /\ last.op \in Truncating => \A b \in Bonds : obj[IF last.res = 0 THEN last.a ELSE last.res].bd[b]
  /\ last.op = "EvolvePair" => obj[last.a].bd[last.k]

\* C10: every truncating split happens at the orthogonality centre of a canonical object, so that the
\* discarded eigenvalues are the discarded Schmidt weights of that bond ("discarded weight at each bond")
SplitAtCentre == last.splitOK

\* C11: only operations documented as in-place change the represented state of an existing object;
\* everything else may only create its result
InPlace == {"Truncate", "Apply", "EvolvePair", "EvolveSingle"}
Creates == {"New", "Make", "FromAmplitudes", "Add", "Scale", "MPOApply"}
Frame ==
  last.touched \subseteq ((IF last.op \in InPlace THEN {last.a} ELSE {}) \cup (IF last.op \in Creates THEN {last.res} ELSE {}))

\* model-level (reported as drift, not demanded by the statement): which operations may re-gauge
Regauging == {"Orthogonalize", "Norm", "ExpectBatch", "Sample", "Entropy", "Correlation"}
GaugeFrame == last.regauged \subseteq (IF last.op \in Regauging THEN {last.a} ELSE {})

\* sharing is only ever created by Scale and never includes the scaled tensor (sanity of the model)
ShareSane == \A x \in Slots, y \in Slots :
               /\ share[x][y] = share[y][x] /\ share[x][x] = {}
               /\ share[x][y] # {} => obj[x].live /\ obj[y].live
====
