---- MODULE MCEmuPipeline ----
EXTENDS EmuPipeline
cNoVersions == <<>>
cVals2 == {0, 1}
cVals3 == {0, 1, 3}
====
