---- MODULE MCSVObjects ----
EXTENDS SVObjects
O == <<1, 0>>   I1 == <<0, 1>>   M1 == <<0 - 1, 0>>   MI == <<0, 0 - 1>>
cUnits == {{<<"g", "g", O>>}, {<<"g", "r", O>>}, {<<"r", "g", O>>}, {<<"r", "r", O>>}}
cX == {<<"g", "r", O>>, <<"r", "g", O>>}
cY == {<<"g", "r", I1>>, <<"r", "g", MI>>}                       \* Pulser's own example
cZ == {<<"r", "r", O>>, <<"g", "g", M1>>}
cG == {<<"g", "g", O>>, <<"g", "r", I1>>, <<"r", "r", <<0 - 2, 0>>>>}    \* two entries in one row, nothing symmetric
cOpsFull == cUnits \cup {cX, cY, cZ, cG}
cOpsSmall == {{<<"g", "r", O>>}, {<<"r", "r", O>>}, cY, cG}
cCoefs == {O, I1, <<0 - 2, 0>>}
cCoefs1 == {O, <<0, 0 - 3>>}
cSecond == {<<I1, <<>>>>, <<M1, <<<<cG, {0}>>>>>>}
====
