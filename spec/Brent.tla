---- MODULE Brent ----
(* C19.  find_root_brents / the noisy solver's one-at-a-time feeding, against an ADVERSARIAL
   environment that picks every ordinate.  Mechanism: BrentFn.  Requirement: the invariants below. *)
EXTENDS BrentFn, TLC
CONSTANTS Start, End,      \* rationals: the initial bracket
          Ords,            \* finite set of non-zero rationals the environment may return
          Tol, Eps,        \* rationals
          MaxSteps,        \* claimed bound on the number of evaluations
          LogTransitions   \* BOOLEAN: print every transition (for the replay binding)
VARIABLES r, pc, steps, last
vars == <<r, pc, steps, last>>

Pos == {o \in Ords : Sgn(o) > 0}
Negs == {o \in Ords : Sgn(o) < 0}

Init == /\ \E fs \in Ords, fe \in Ords :
             /\ BrentNewOK(Start, End, fs, fe)
             /\ r = BrentNew(Start, End, fs, fe, Eps)
             /\ last = <<fs, fe>>
        /\ pc = "loop" /\ steps = 0

\* while not is_converged(tol): x = get_next_abscissa(); provide_ordinate(x, f(x))
Ask == /\ pc = "loop" /\ ~BrentConv(r, Tol)
       /\ r' = BrentAsk(r) /\ pc' = "tell" /\ UNCHANGED <<steps, last>>
Tell == /\ pc = "tell"
        /\ \E o \in Ords : r' = BrentTell(r, o) /\ last' = <<o, o>>
        /\ steps' = steps + 1 /\ pc' = "loop"
Finish == /\ pc = "loop" /\ BrentConv(r, Tol) /\ pc' = "done" /\ UNCHANGED <<r, steps, last>>
Next == Ask \/ Tell \/ Finish
Spec == Init /\ [][Next]_vars /\ WF_vars(Next)

Lo == RMin(r.a, r.b)
Hi == RMax(r.a, r.b)
\* ---------------------------------------------------------------- requirement (C19)
SignChange == Sgn(r.fa) * Sgn(r.fb) < 0                                   \* bracket keeps a sign change
InInitial  == Le(Start, Lo) /\ Le(Hi, End)                                \* never leaves [Start, End]
InBracket  == pc = "tell" => (Le(Lo, r.nxt) /\ Le(r.nxt, Hi))             \* queries inside current bracket
StrictInside == pc = "tell" => (Lt(Lo, r.nxt) /\ Lt(r.nxt, Hi))           \* ... strictly (progress)
Bounded    == steps <= MaxSteps
ReturnedOK == pc = "done" => (Lt(RAbs(Sub(r.b, r.a)), Tol) /\ SignChange) \* current_guess = b, an end of a sub-tolerance sign-changing bracket
Nested     == [][ (Le(Lo, Lo') /\ Le(Hi', Hi)) ]_vars                      \* brackets only shrink
Terminates == <>(pc = "done")

LogStep == LogTransitions => PrintT(<<"T", pc, r, steps, last, pc', r', steps', last'>>)
LogInit == LogTransitions => (steps = 0 /\ pc = "loop" => PrintT(<<"I", r, last>>))
====
