---- MODULE DriveSampling ----
(* C22.  emu_base/pulser_adapter.py:_extract_omega_delta_phi in exact rationals, over PchipFn.

   Pulser gives one sample per nanosecond, t = 0 .. T-1, per targeted atom.  The emulator evaluates the
   drive at the MIDPOINT of every step of its own time grid (target_times), which may be finer than
   1 ns and always ends at T -- so midpoints lie beyond the last sample T-1.

   MECHANISM (one action per code block)
     Midpoints : t_mid = (t_k + t_{k+1}) / 2
     Filter    : qubit_ids_filtered = the atoms that occur in Pulser's sample dictionary     (ColumnMode = "filtered")
                 | every atom of the register, zeros when not targeted                       (ColumnMode = "all")
     Interp    : PCHIP1D(arange(T), samples)(t_mid), extrapolating the last cubic beyond T-1  (PchipVariant)
     Clamp     : amplitude: only the LAST row is clamped at 0                                (ClampMode = "last")
                 | every row                                                                  (ClampMode = "all")
   REQUIREMENT (the statement of C22)
     ColumnIsAtom         : column j of the three arrays belongs to atom j of the register (every atom has one)
     MidpointValue        : detuning / phase of atom a in step k = StdPCHIP(samples_a)(mid_k);
                            amplitude = max(StdPCHIP(samples_a)(mid_k), 0); zero for an atom Pulser does not drive
     AmplitudeNonNegative : every amplitude row >= 0, also for steps after the last Pulser sample *)
EXTENDS PchipFn, TLC
CONSTANTS T,            \* number of Pulser samples (knots 0..T-1), >= 2
          Grids,        \* set of target-time sequences (rationals, strictly increasing, first 0, last T)
          AmpVals,      \* sample alphabet for amplitudes (non-negative rationals)
          DetVals,      \* sample alphabet for detunings / phases
          Registers,    \* set of <<atoms (sequence), driven (set)>>: register order and the atoms present in the samples
          ClampMode, ColumnMode, PchipVariant,
          LogCases
VARIABLES pc, tt, kind, reg, sig, mid, cols, rows
vars == <<pc, tt, kind, reg, sig, mid, cols, rows>>

Atoms == reg[1]
Driven == reg[2]
K == Len(tt) - 1
Ones == [i \in 1..(T-1) |-> R(1)]                     \* t_grid = arange(T): unit spacing
Knots == [j \in 1..T |-> R(j-1)]
\* every driven atom a gets its own sample vector: the enumerated one scaled by its position (keeps columns distinguishable)
SamplesOf(a) == LET p == CHOOSE i \in 1..Len(Atoms) : Atoms[i] = a IN [j \in 1..T |-> Mul(R(p), sig[j])]

Init == /\ pc = "start"
        /\ tt \in Grids
        /\ kind \in {"amp", "det"}
        /\ reg \in Registers
        /\ sig \in [1..T -> IF kind = "amp" THEN AmpVals ELSE DetVals]
        /\ mid = <<>> /\ cols = <<>> /\ rows = <<>>
Midpoints == /\ pc = "start"
             /\ mid' = [k \in 1..K |-> Half(Add(tt[k], tt[k+1]))]
             /\ pc' = "mid" /\ UNCHANGED <<tt, kind, reg, sig, cols, rows>>
Filter == /\ pc = "mid"
          /\ cols' = IF ColumnMode = "filtered" THEN SelectSeq(Atoms, LAMBDA a : a \in Driven) ELSE Atoms
          /\ pc' = "cols" /\ UNCHANGED <<tt, kind, reg, sig, mid, rows>>
InterpCol(a) ==
   IF a \notin Driven THEN [k \in 1..K |-> R(0)]
   ELSE LET yy == SamplesOf(a)
            dl == SecantsOf(Ones, yy)
            cc == Coeffs(yy, Ones, dl, Derivs(PchipVariant, Ones, dl))
        IN [k \in 1..K |-> Eval(Knots, cc, mid[k])]
Interp == /\ pc = "cols"
          /\ rows' = [c \in 1..Len(cols) |-> InterpCol(cols[c])]          \* rows[c][k]: column c, step k
          /\ pc' = "interp" /\ UNCHANGED <<tt, kind, reg, sig, mid, cols>>
Pos(v) == IF Lt(R(0), v) THEN v ELSE R(0)                                 \* torch.where(v > 0, v, 0)
Clamp == /\ pc = "interp"
         /\ rows' = IF kind # "amp" THEN rows
                    ELSE [c \in 1..Len(cols) |-> [k \in 1..K |->
                            IF ClampMode = "all" \/ k = K THEN Pos(rows[c][k]) ELSE rows[c][k]]]
         /\ pc' = "done" /\ UNCHANGED <<tt, kind, reg, sig, mid, cols>>
Next == Midpoints \/ Filter \/ Interp \/ Clamp
Spec == Init /\ [][Next]_vars

\* ------------------------------------------------------------------------------- requirement (C22)
Done == pc = "done"
ColumnIsAtom == Done => cols = Atoms
\* what the statement prescribes for atom a in step k
Wanted(a, k) ==
   IF a \notin Driven THEN R(0)
   ELSE LET yy == SamplesOf(a)
            v == StdEvalFn(Knots, Ones, yy, StdSlopes(Ones, yy), mid[k])
        IN IF kind = "amp" THEN Pos(v) ELSE v
\* what the solver uses for atom number p of the register: column p (R3: by position, not by label)
Used(p, k) == rows[p][k]
MidpointValue == Done => \A p \in 1..Len(Atoms) : p <= Len(cols) => \A k \in 1..K : Used(p, k) = Wanted(Atoms[p], k)
AmplitudeNonNegative == (Done /\ kind = "amp") => \A c \in 1..Len(cols) : \A k \in 1..K : Le(R(0), rows[c][k])
LogStep == (LogCases /\ pc' = "done") => PrintT(<<"S", tt, kind, reg, sig, rows'>>)
====
