---- MODULE MCEmuPipelineV ----
(* Part V with the version table recorded from the environment (binding C) *)
EXTENDS EmuPipeline, Json, IOUtils
cVersions == JsonDeserialize(IOEnv.VERSIONS_FILE)
cVals2 == {0, 1}
====
