---- MODULE MCDriveSampling ----
EXTENDS DriveSampling
RECURSIVE SortRat(_)
SortRat(S) == IF S = {} THEN <<>>
              ELSE LET m == CHOOSE a \in S : \A b \in S : Le(a, b) IN <<m>> \o SortRat(S \ {m})
\* the emulator's grid: multiples of dt up to the duration, the duration, the requested evaluation times
GridOf(TT, dt, ev) ==
   SortRat({Mul(R(i), dt) : i \in {j \in 0..(4*TT) : Le(Mul(R(j), dt), R(TT))}} \cup {R(TT)} \cup ev)
cDts == {Q(1,4), Q(1,2), R(1), Q(3,2), R(2), R(7)}
cDtsQuick == {Q(1,4), R(1), Q(3,2)}
cEv(TT) == {{}, {Sub(R(TT), Q(1,2))}, {Sub(R(TT), Q(1,4)), Q(1,3)}}
cGrids(TT, dts) == {GridOf(TT, dt, ev) : dt \in dts, ev \in cEv(TT)}
cGrids3 == cGrids(3, cDts)
cGrids4 == cGrids(4, cDts)
cGrids5 == cGrids(5, cDts)
cGrids4q == cGrids(4, cDtsQuick)
cGrids3q == cGrids(3, cDtsQuick)
cAmp == {R(0), R(1), R(2)}
cAmpWide == {R(0), R(1), R(5)}
cDet == {R(0-1), R(0), R(1)}
cDetWide == {R(0-3), R(0), R(2)}
cAmp2 == {R(0), R(2)}
cDet2 == {R(0-1), R(1)}
cGrids5q == cGrids(5, cDtsQuick)
cRegSingle == {<< <<"a">>, {"a"} >>}
cRegMulti == {<< <<"a", "b", "c">>, {"a", "b", "c"} >>, << <<"a", "b", "c">>, {"b"} >>,
              << <<"a", "b", "c">>, {"a", "c"} >>, << <<"a", "b">>, {"b"} >>}
====
