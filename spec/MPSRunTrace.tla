---- MODULE MPSRunTrace ----
(* Binding (B) for the emu-mps run loop: hook traces of REAL runs (TDVP, DMRG, noisy; uninterrupted,
   crashed after an autosave and resumed) validated against the requirement side of MPSRun.tla.
   The harness projects floats first: evolution times become signed HALF-step counts relative to the
   interval being evolved, times become indices into the target-time list, numeric comparisons with
   the independent reference become boolean atoms (rowOK, matOK, orderOK, valuesOK, timesOK, energyOK).
   Events (fields):
     new(N, K, mode)            mode in {"tdvp","dmrg","noisy"}; N = number of evolved (well prepared) sites
     init(center, nl, nr)
     evolve(s1, s2, halves, center)   s2 = -1 for a single-site evolution
     progress(ts, sw, dir, nl, nr, center, finished)
     sweep(kind)                end of a TDVP sweep (kind "tdvp") or of a noisy sweep (any branch, kind "noisy")
     hmake(matOK) hupdate(rowOK, row) updh(ts, noisy)
     fill(tidx, ts, normOK)     tidx = index of the current time in the target-time list (-1: not a target time)
     done(ts, finished)
     dmrgmin(idx, dir, center, ts, energyOK)   dmrgsweep(count, converged, hasprev)
     save(ts, sw, dir) crash resume(ts, sw, dir) rundone(fileExists) permute(on)
     ret(path, orderOK, valuesOK, timesOK)                                                          *)
EXTENDS Integers, Sequences, TLC, Json, IOUtils
Traces == JsonDeserialize(IOEnv.TRACE_FILE)
VARIABLES tid, l, bad, N, K, mode, ts, pair, single, fillsInStep, fills, lastSave, crashed, resumed,
          returned, fileGone, hOK, sweepsInStep, rowTs
vars == <<tid, l, bad, N, K, mode, ts, pair, single, fillsInStep, fills, lastSave, crashed, resumed,
          returned, fileGone, hOK, sweepsInStep, rowTs>>
Ev == Traces[tid].events
NoSave == [ts |-> 0 - 1, sw |-> 0 - 1, dir |-> "none"]
Zero == [x \in 0..63 |-> 0]
Init == /\ tid \in 1..Len(Traces) /\ l = 1 /\ bad = "none" /\ N = 0 /\ K = 0 /\ mode = "none" /\ ts = 0
        /\ pair = Zero /\ single = Zero /\ fillsInStep = 0 /\ fills = 0 /\ lastSave = NoSave /\ crashed = FALSE
        /\ resumed = FALSE /\ returned = FALSE /\ fileGone = FALSE /\ hOK = TRUE /\ sweepsInStep = 0 /\ rowTs = 0 - 1
Keep(S) == UNCHANGED S
Rest == <<N, K, mode, ts, pair, single, fillsInStep, fills, lastSave, crashed, resumed, returned, fileGone, hOK, sweepsInStep, rowTs>>
Fail(c) == bad' = c /\ UNCHANGED Rest
Ok == bad' = bad
ShapeOK == IF N >= 3 THEN /\ \A b \in 0..(N - 2) : pair[b] = 2
                          /\ \A q \in 0..(N - 1) : single[q] = (IF q = 0 \/ q = N - 1 THEN 0 ELSE 0 - 2)
           ELSE IF N = 2 THEN pair[0] = 2 /\ single[0] = 0 /\ single[1] = 0
           ELSE single[0] = 2
Step ==
  /\ bad = "none" /\ l <= Len(Ev)
  /\ LET e == Ev[l] IN
     CASE e.ev = "new" ->
            /\ N' = e.N /\ K' = e.K /\ mode' = e.mode /\ Ok
            /\ UNCHANGED <<ts, pair, single, fillsInStep, fills, lastSave, crashed, resumed, returned, fileGone, hOK, sweepsInStep, rowTs>>
       [] e.ev = "init" ->
            IF e.center # 0 THEN Fail("initial-orthogonality-centre-not-0")
            ELSE IF ~(e.nl = 1 /\ e.nr = (IF N >= 2 THEN N - 1 ELSE 1)) THEN Fail("initial-baths-wrong")
            ELSE IF fills # 1 THEN Fail("no-fill-at-time-0")
            ELSE Ok /\ UNCHANGED Rest
       [] e.ev = "evolve" ->
            IF ts >= K THEN Fail("evolution-after-last-step")
            ELSE IF ~hOK THEN Fail("evolution-with-a-hamiltonian-whose-drive-terms-were-never-written")
            ELSE IF e.s2 = 0 - 1
            THEN IF e.center # e.s1 THEN Fail("single-site-evolution-off-centre")
                 ELSE /\ single' = [single EXCEPT ![e.s1] = @ + e.halves] /\ Ok
                      /\ UNCHANGED <<N, K, mode, ts, pair, fillsInStep, fills, lastSave, crashed, resumed, returned, fileGone, hOK, sweepsInStep, rowTs>>
            ELSE IF e.s2 # e.s1 + 1 THEN Fail("pair-not-adjacent")
                 ELSE IF ~(e.center \in {e.s1, e.s2}) THEN Fail("centre-left-the-evolved-pair")
                 ELSE IF e.halves <= 0 THEN Fail("pair-evolved-backwards")
                 ELSE /\ pair' = [pair EXCEPT ![e.s1] = @ + e.halves] /\ Ok
                      /\ UNCHANGED <<N, K, mode, ts, single, fillsInStep, fills, lastSave, crashed, resumed, returned, fileGone, hOK, sweepsInStep, rowTs>>
       [] e.ev = "progress" ->
            IF e.ts # ts THEN Fail("progress-step-index-mismatch")
            ELSE IF N >= 3 /\ ~e.finished /\ ~(e.nl = e.sw + 1 /\ e.nr = N - 1 - e.sw) THEN Fail("bath-stacks-do-not-match-sweep-position")
            ELSE IF N >= 3 /\ ~e.finished /\ ~(e.center \in {e.sw, e.sw + 1}) THEN Fail("centre-does-not-follow-sweep")
            ELSE IF e.finished # (ts >= K) THEN Fail("finished-flag-wrong")
            ELSE Ok /\ UNCHANGED Rest
       [] e.ev = "sweep" ->
            IF ~ShapeOK THEN Fail("sweep-shape-not-second-order-symmetric")
            ELSE /\ pair' = Zero /\ single' = Zero /\ sweepsInStep' = sweepsInStep + 1 /\ Ok
                 /\ UNCHANGED <<N, K, mode, ts, fillsInStep, fills, lastSave, crashed, resumed, returned, fileGone, hOK, rowTs>>
       [] e.ev = "hmake" ->
            \* make_H returns an MPO whose single-atom (drive) slots are empty until update_H fills them
            IF ~e.matOK THEN Fail("interaction-matrix-differs-from-reference")
            ELSE /\ hOK' = FALSE /\ Ok
                 /\ UNCHANGED <<N, K, mode, ts, pair, single, fillsInStep, fills, lastSave, crashed, resumed, returned, fileGone, sweepsInStep, rowTs>>
       [] e.ev = "hupdate" ->
            IF ~e.rowOK THEN Fail("drive-row-differs-from-reference-row-in-site-order")
            ELSE /\ rowTs' = e.row /\ hOK' = TRUE /\ Ok
                 /\ UNCHANGED <<N, K, mode, ts, pair, single, fillsInStep, fills, lastSave, crashed, resumed, returned, fileGone, sweepsInStep>>
       [] e.ev = "updh" ->
            \* timestep_complete increments the step index before rewriting the Hamiltonian and reports `done` afterwards
            IF e.ts # ts + fillsInStep THEN Fail("hamiltonian-updated-for-wrong-step")
            ELSE IF rowTs # e.ts THEN Fail("hamiltonian-row-is-not-the-row-of-this-step")
            ELSE Ok /\ UNCHANGED Rest
       [] e.ev = "fill" ->
            IF ~e.normOK THEN Fail("state-not-normalised-at-fill")
            ELSE IF fills = 0 /\ e.tidx # 0 THEN Fail("first-fill-not-at-time-0")
            ELSE IF fills > 0 /\ e.tidx # ts + 1 THEN Fail("fill-not-at-the-end-of-the-current-step")
            ELSE IF fills > 0 /\ fillsInStep >= 1 THEN Fail("fill-twice-in-one-step")
            ELSE /\ fills' = fills + 1 /\ fillsInStep' = (IF fills = 0 THEN 0 ELSE 1) /\ Ok
                 /\ UNCHANGED <<N, K, mode, ts, pair, single, lastSave, crashed, resumed, returned, fileGone, hOK, sweepsInStep, rowTs>>
       [] e.ev = "done" ->
            IF e.ts # ts + 1 THEN Fail("steps-not-completed-in-order-once")
            ELSE IF fillsInStep # 1 THEN Fail("step-completed-without-exactly-one-fill")
            ELSE IF e.finished # (e.ts = K) THEN Fail("finished-flag-wrong")
            ELSE IF mode = "tdvp" /\ sweepsInStep # 1 THEN Fail("tdvp-step-is-not-exactly-one-sweep")
            ELSE /\ ts' = e.ts /\ fillsInStep' = 0 /\ sweepsInStep' = 0 /\ pair' = Zero /\ single' = Zero /\ Ok
                 /\ UNCHANGED <<N, K, mode, fills, lastSave, crashed, resumed, returned, fileGone, hOK, rowTs>>
       [] e.ev = "dmrgmin" ->
            IF e.ts # ts THEN Fail("dmrg-step-index-mismatch")
            ELSE IF ~(e.idx >= 0 /\ e.idx <= N - 2) THEN Fail("dmrg-pair-out-of-range")
            ELSE IF ~(e.center \in {e.idx, e.idx + 1}) THEN Fail("centre-left-the-minimised-pair")
            ELSE IF ~hOK THEN Fail("evolution-with-a-hamiltonian-whose-drive-terms-were-never-written")
            ELSE IF ~e.energyOK THEN Fail("dmrg-local-energy-below-ground-energy")
            ELSE Ok /\ UNCHANGED Rest
       [] e.ev = "dmrgsweep" ->
            IF e.converged /\ ~e.hasprev THEN Fail("dmrg-converged-without-previous-energy")
            ELSE /\ sweepsInStep' = sweepsInStep + 1 /\ Ok
                 /\ UNCHANGED <<N, K, mode, ts, pair, single, fillsInStep, fills, lastSave, crashed, resumed, returned, fileGone, hOK, rowTs>>
       [] e.ev = "save" ->
            /\ lastSave' = [ts |-> e.ts, sw |-> e.sw, dir |-> e.dir] /\ Ok
            /\ UNCHANGED <<N, K, mode, ts, pair, single, fillsInStep, fills, crashed, resumed, returned, fileGone, hOK, sweepsInStep, rowTs>>
       [] e.ev = "crash" ->
            IF lastSave = NoSave THEN Fail("crash-before-first-save")
            ELSE /\ crashed' = TRUE /\ Ok
                 /\ UNCHANGED <<N, K, mode, ts, pair, single, fillsInStep, fills, lastSave, resumed, returned, fileGone, hOK, sweepsInStep, rowTs>>
       [] e.ev = "resume" ->
            IF ~crashed THEN Fail("resume-without-crash")
            ELSE IF ~(e.ts = lastSave.ts /\ e.sw = lastSave.sw /\ e.dir = lastSave.dir) THEN Fail("resumed-state-is-not-the-last-saved-state")
            ELSE IF e.ts # ts THEN Fail("resumed-step-index-differs-from-crash-point")
            ELSE /\ resumed' = TRUE /\ crashed' = FALSE /\ Ok
                 /\ UNCHANGED <<N, K, mode, ts, pair, single, fillsInStep, fills, lastSave, returned, fileGone, hOK, sweepsInStep, rowTs>>
       [] e.ev = "rundone" ->
            IF ts # K THEN Fail("run-loop-ended-before-last-step")
            ELSE IF e.fileExists THEN Fail("autosave-file-not-removed")
            ELSE /\ fileGone' = TRUE /\ Ok
                 /\ UNCHANGED <<N, K, mode, ts, pair, single, fillsInStep, fills, lastSave, crashed, resumed, returned, hOK, sweepsInStep, rowTs>>
       [] e.ev = "permute" -> Ok /\ UNCHANGED Rest
       [] e.ev = "ret" ->
            IF ~fileGone THEN Fail("returned-without-finishing-the-run-loop")
            ELSE IF fills # K + 1 THEN Fail("not-every-step-filled")
            ELSE IF ~e.orderOK THEN Fail("results-not-in-register-order")
            ELSE IF ~e.timesOK THEN Fail("result-times-differ-from-reference")
            ELSE IF ~e.valuesOK THEN Fail("result-values-differ-from-reference")
            ELSE /\ returned' = TRUE /\ Ok
                 /\ UNCHANGED <<N, K, mode, ts, pair, single, fillsInStep, fills, lastSave, crashed, resumed, fileGone, hOK, sweepsInStep, rowTs>>
       [] OTHER -> Fail("unknown-event")
  /\ l' = l + 1 /\ UNCHANGED tid
Spec == Init /\ [][Step]_vars
Rejected == (bad # "none") => PrintT(<<"REJECT", Traces[tid].id, l - 1, bad>>)
Accepted == (bad = "none" /\ l = Len(Ev) + 1) =>
               IF returned \/ Traces[tid].partial THEN PrintT(<<"ACCEPT", Traces[tid].id>>)
               ELSE PrintT(<<"REJECT", Traces[tid].id, l, "trace-ends-before-results-were-returned">>)
====
