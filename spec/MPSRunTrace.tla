---- MODULE MPSRunTrace ----
(* Binding (B) for the emu-mps run loop: hook traces of REAL runs (TDVP, DMRG, noisy; uninterrupted,
   crashed after an autosave and resumed) validated against the requirement side of MPSRun.tla.
   The harness projects floats first: evolution times become signed HALF-step counts relative to the
   interval being evolved, times become indices into the target-time list, numeric comparisons with
   the independent reference become boolean atoms (rowOK, matOK, orderOK, valuesOK, timesOK, energyOK).
   Events (fields):
     new(N, K, mode)            mode in {"tdvp","dmrg","noisy"}; N = number of evolved (well prepared) sites
     init(center, nl, nr)
     evolve(s1, s2, halves, center)   s2 = -1 for a single-site evolution
     progress(ts, sw, dir, nl, nr, center, finished)
     sweep(kind)                end of a TDVP sweep (kind "tdvp") or of a noisy sweep (any branch, kind "noisy")
     hmake(matOK) hupdate(rowOK, row) updh(ts, noisy)
     fill(tidx, ts, normOK)     tidx = index of the current time in the target-time list (-1: not a target time)
     done(ts, finished)
     dmrgmin(idx, dir, center, ts, energyOK)   dmrgsweep(count, converged, hasprev)
     save(ts, sw, dir) crash resume(ts, sw, dir) rundone(fileExists) permute(on)
     ret(path, orderOK, valuesOK, timesOK)
   Clauses come in two kinds.  REQUIREMENT clauses (what the properties state: drive rows and interaction matrix
   handed to the solver, normalisation at fills, every step completed once and in order with exactly one fill,
   results complete / in register order / at the right times / with the right values, autosave file removed,
   run loop finished) REJECT the trace.  MECHANISM clauses (how the code organises a step: sweep shape, bath
   stacks and centre at progress() boundaries, where update_H sits, DMRG bookkeeping, resume bookkeeping) are
   recorded as DRIFT: the trace is still checked to its end against the requirement clauses.                   *)
EXTENDS Integers, Sequences, TLC, Json, IOUtils
Traces == JsonDeserialize(IOEnv.TRACE_FILE)
VARIABLES tid, l, bad, drift, N, K, mode, ts, pair, single, fillsInStep, fills, lastSave, crashed, resumed,
          returned, fileGone, hOK, sweepsInStep, rowTs
vars == <<tid, l, bad, drift, N, K, mode, ts, pair, single, fillsInStep, fills, lastSave, crashed, resumed,
          returned, fileGone, hOK, sweepsInStep, rowTs>>
Ev == Traces[tid].events
NoSave == [ts |-> 0 - 1, sw |-> 0 - 1, dir |-> "none"]
Zero == [x \in 0..63 |-> 0]
Init == /\ tid \in 1..Len(Traces) /\ l = 1 /\ bad = "none" /\ drift = "none" /\ N = 0 /\ K = 0 /\ mode = "none" /\ ts = 0
        /\ pair = Zero /\ single = Zero /\ fillsInStep = 0 /\ fills = 0 /\ lastSave = NoSave /\ crashed = FALSE
        /\ resumed = FALSE /\ returned = FALSE /\ fileGone = FALSE /\ hOK = TRUE /\ sweepsInStep = 0 /\ rowTs = 0 - 1
Rest == <<N, K, mode, ts, pair, single, fillsInStep, fills, lastSave, crashed, resumed, returned, fileGone, hOK, sweepsInStep, rowTs>>
ShapeOK == IF N >= 3 THEN /\ \A b \in 0..(N - 2) : pair[b] = 2
                          /\ \A q \in 0..(N - 1) : single[q] = (IF q = 0 \/ q = N - 1 THEN 0 ELSE 0 - 2)
           ELSE IF N = 2 THEN pair[0] = 2 /\ single[0] = 0 /\ single[1] = 0
           ELSE single[0] = 2
KnownEvents == {"new", "init", "evolve", "progress", "sweep", "hmake", "hupdate", "updh", "fill", "done", "dmrgmin", "dmrgsweep",
                "save", "crash", "resume", "rundone", "permute", "ret"}

\* ---------------------------------------------------------------- REQUIREMENT clauses: first failing one, or "none"
Req(e) ==
  CASE ~(e.ev \in KnownEvents) -> "unknown-event"
    [] e.ev = "init" -> IF fills # 1 THEN "no-fill-at-time-0" ELSE "none"
    [] e.ev = "hmake" -> IF ~e.matOK THEN "interaction-matrix-differs-from-reference" ELSE "none"
    [] e.ev = "hupdate" -> IF ~e.rowOK THEN "drive-row-differs-from-reference-row-in-site-order" ELSE "none"
    [] e.ev = "fill" ->
         IF ~e.normOK THEN "state-not-normalised-at-fill"
         ELSE IF fills = 0 /\ e.tidx # 0 THEN "first-fill-not-at-time-0"
         ELSE IF fills > 0 /\ e.tidx # ts + 1 THEN "fill-not-at-the-end-of-the-current-step"
         ELSE IF fills > 0 /\ fillsInStep >= 1 THEN "fill-twice-in-one-step"
         ELSE "none"
    [] e.ev = "done" ->
         IF e.ts # ts + 1 THEN "steps-not-completed-in-order-once"
         ELSE IF fillsInStep # 1 THEN "step-completed-without-exactly-one-fill"
         ELSE "none"
    [] e.ev = "rundone" ->
         IF ts # K THEN "run-loop-ended-before-last-step"
         ELSE IF e.fileExists THEN "autosave-file-not-removed"
         ELSE "none"
    [] e.ev = "ret" ->
         IF ~fileGone THEN "returned-without-finishing-the-run-loop"
         ELSE IF fills # K + 1 THEN "not-every-step-filled"
         ELSE IF ~e.orderOK THEN "results-not-in-register-order"
         ELSE IF ~e.timesOK THEN "result-times-differ-from-reference"
         ELSE IF ~e.valuesOK THEN "result-values-differ-from-reference"
         ELSE "none"
    [] OTHER -> "none"

\* ---------------------------------------------------------------- MECHANISM clauses: first failing one, or "none"
Mech(e) ==
  CASE e.ev = "init" ->
         IF e.center # 0 THEN "initial-orthogonality-centre-not-0"
         ELSE IF ~(e.nl = 1 /\ e.nr = (IF N >= 2 THEN N - 1 ELSE 1)) THEN "initial-baths-wrong"
         ELSE "none"
    [] e.ev = "evolve" ->
         IF ts >= K THEN "evolution-after-last-step"
         ELSE IF ~hOK THEN "evolution-with-a-hamiltonian-whose-drive-terms-were-never-written"
         ELSE IF e.s2 = 0 - 1 THEN (IF e.center # e.s1 THEN "single-site-evolution-off-centre" ELSE "none")
         ELSE IF e.s2 # e.s1 + 1 THEN "pair-not-adjacent"
         ELSE IF ~(e.center \in {e.s1, e.s2}) THEN "centre-left-the-evolved-pair"
         ELSE IF e.halves <= 0 THEN "pair-evolved-backwards"
         ELSE "none"
    [] e.ev = "progress" ->
         IF e.ts # ts THEN "progress-step-index-mismatch"
         ELSE IF N >= 3 /\ ~e.finished /\ ~(e.nl = e.sw + 1 /\ e.nr = N - 1 - e.sw) THEN "bath-stacks-do-not-match-sweep-position"
         ELSE IF N >= 3 /\ ~e.finished /\ ~(e.center \in {e.sw, e.sw + 1}) THEN "centre-does-not-follow-sweep"
         ELSE IF e.finished # (ts >= K) THEN "finished-flag-wrong"
         ELSE "none"
    [] e.ev = "sweep" -> IF ~ShapeOK THEN "sweep-shape-not-second-order-symmetric" ELSE "none"
    [] e.ev = "updh" ->
         \* timestep_complete increments the step index before rewriting the Hamiltonian and reports `done` afterwards
         IF e.ts # ts + fillsInStep THEN "hamiltonian-updated-for-wrong-step"
         ELSE IF rowTs # e.ts THEN "hamiltonian-row-is-not-the-row-of-this-step"
         ELSE "none"
    [] e.ev = "done" ->
         IF e.finished # (e.ts = K) THEN "finished-flag-wrong"
         ELSE IF mode = "tdvp" /\ sweepsInStep # 1 THEN "tdvp-step-is-not-exactly-one-sweep"
         ELSE "none"
    [] e.ev = "dmrgmin" ->
         IF e.ts # ts THEN "dmrg-step-index-mismatch"
         ELSE IF ~(e.idx >= 0 /\ e.idx <= N - 2) THEN "dmrg-pair-out-of-range"
         ELSE IF ~(e.center \in {e.idx, e.idx + 1}) THEN "centre-left-the-minimised-pair"
         ELSE IF ~hOK THEN "evolution-with-a-hamiltonian-whose-drive-terms-were-never-written"
         ELSE IF ~e.energyOK THEN "dmrg-local-energy-below-ground-energy"
         ELSE "none"
    [] e.ev = "dmrgsweep" -> IF e.converged /\ ~e.hasprev THEN "dmrg-converged-without-previous-energy" ELSE "none"
    [] e.ev = "crash" -> IF lastSave = NoSave THEN "crash-before-first-save" ELSE "none"
    [] e.ev = "resume" ->
         IF ~crashed THEN "resume-without-crash"
         ELSE IF ~(e.ts = lastSave.ts /\ e.sw = lastSave.sw /\ e.dir = lastSave.dir) THEN "resumed-state-is-not-the-last-saved-state"
         ELSE IF e.ts # ts THEN "resumed-step-index-differs-from-crash-point"
         ELSE "none"
    [] OTHER -> "none"

\* ---------------------------------------------------------------- state update of an event (no checks)
InRange(q) == q >= 0 /\ q <= 63
Apply(e) ==
  CASE e.ev = "new" ->
         /\ N' = e.N /\ K' = e.K /\ mode' = e.mode
         /\ UNCHANGED <<ts, pair, single, fillsInStep, fills, lastSave, crashed, resumed, returned, fileGone, hOK, sweepsInStep, rowTs>>
    [] e.ev = "evolve" ->
         IF e.s2 = 0 - 1
         THEN /\ single' = (IF InRange(e.s1) THEN [single EXCEPT ![e.s1] = @ + e.halves] ELSE single)
              /\ UNCHANGED <<N, K, mode, ts, pair, fillsInStep, fills, lastSave, crashed, resumed, returned, fileGone, hOK, sweepsInStep, rowTs>>
         ELSE /\ pair' = (IF InRange(e.s1) THEN [pair EXCEPT ![e.s1] = @ + e.halves] ELSE pair)
              /\ UNCHANGED <<N, K, mode, ts, single, fillsInStep, fills, lastSave, crashed, resumed, returned, fileGone, hOK, sweepsInStep, rowTs>>
    [] e.ev = "sweep" ->
         /\ pair' = Zero /\ single' = Zero /\ sweepsInStep' = sweepsInStep + 1
         /\ UNCHANGED <<N, K, mode, ts, fillsInStep, fills, lastSave, crashed, resumed, returned, fileGone, hOK, rowTs>>
    [] e.ev = "hmake" ->
         \* make_H returns an MPO whose single-atom (drive) slots are empty until update_H fills them
         /\ hOK' = FALSE
         /\ UNCHANGED <<N, K, mode, ts, pair, single, fillsInStep, fills, lastSave, crashed, resumed, returned, fileGone, sweepsInStep, rowTs>>
    [] e.ev = "hupdate" ->
         /\ rowTs' = e.row /\ hOK' = TRUE
         /\ UNCHANGED <<N, K, mode, ts, pair, single, fillsInStep, fills, lastSave, crashed, resumed, returned, fileGone, sweepsInStep>>
    [] e.ev = "fill" ->
         /\ fills' = fills + 1 /\ fillsInStep' = (IF fills = 0 THEN 0 ELSE 1)
         /\ UNCHANGED <<N, K, mode, ts, pair, single, lastSave, crashed, resumed, returned, fileGone, hOK, sweepsInStep, rowTs>>
    [] e.ev = "done" ->
         /\ ts' = e.ts /\ fillsInStep' = 0 /\ sweepsInStep' = 0 /\ pair' = Zero /\ single' = Zero
         /\ UNCHANGED <<N, K, mode, fills, lastSave, crashed, resumed, returned, fileGone, hOK, rowTs>>
    [] e.ev = "dmrgsweep" ->
         /\ sweepsInStep' = sweepsInStep + 1
         /\ UNCHANGED <<N, K, mode, ts, pair, single, fillsInStep, fills, lastSave, crashed, resumed, returned, fileGone, hOK, rowTs>>
    [] e.ev = "save" ->
         /\ lastSave' = [ts |-> e.ts, sw |-> e.sw, dir |-> e.dir]
         /\ UNCHANGED <<N, K, mode, ts, pair, single, fillsInStep, fills, crashed, resumed, returned, fileGone, hOK, sweepsInStep, rowTs>>
    [] e.ev = "crash" ->
         /\ crashed' = TRUE
         /\ UNCHANGED <<N, K, mode, ts, pair, single, fillsInStep, fills, lastSave, resumed, returned, fileGone, hOK, sweepsInStep, rowTs>>
    [] e.ev = "resume" ->
         /\ resumed' = TRUE /\ crashed' = FALSE
         /\ UNCHANGED <<N, K, mode, ts, pair, single, fillsInStep, fills, lastSave, returned, fileGone, hOK, sweepsInStep, rowTs>>
    [] e.ev = "rundone" ->
         /\ fileGone' = TRUE
         /\ UNCHANGED <<N, K, mode, ts, pair, single, fillsInStep, fills, lastSave, crashed, resumed, returned, hOK, sweepsInStep, rowTs>>
    [] e.ev = "ret" ->
         /\ returned' = TRUE
         /\ UNCHANGED <<N, K, mode, ts, pair, single, fillsInStep, fills, lastSave, crashed, resumed, fileGone, hOK, sweepsInStep, rowTs>>
    [] OTHER -> UNCHANGED Rest

Step ==
  /\ bad = "none" /\ l <= Len(Ev)
  /\ LET e == Ev[l]
         r == Req(e)
         m == Mech(e) IN
     IF r # "none" THEN bad' = r /\ drift' = drift /\ UNCHANGED Rest
     ELSE /\ bad' = bad
          /\ drift' = (IF drift = "none" /\ m # "none" THEN m ELSE drift)
          /\ Apply(e)
  /\ l' = l + 1 /\ UNCHANGED tid
Spec == Init /\ [][Step]_vars
DriftLine == drift # "none" => PrintT(<<"DRIFT", Traces[tid].id, drift>>)
Rejected == (bad # "none") => (PrintT(<<"REJECT", Traces[tid].id, l - 1, bad>>) /\ DriftLine)
Accepted == (bad = "none" /\ l = Len(Ev) + 1) =>
               /\ DriftLine
               /\ IF returned \/ Traces[tid].partial THEN PrintT(<<"ACCEPT", Traces[tid].id>>)
                  ELSE PrintT(<<"REJECT", Traces[tid].id, l, "trace-ends-before-results-were-returned">>)
====
