---- MODULE EmuPipeline ----
(* The run pipeline of both backends, from  Backend(sequence, config).run()  to the returned Results.

   Part D (C04)  dispatch: which inputs are rejected, which are accepted, and as what.
                 MECHANISM   = the checks the code performs, in the code's order, one action per stage:
                               PulserCheck    pulser HamiltonianData._check_noise_model (SUPPORTED_NOISES)
                               AdapterOps     emu_base.pulser_adapter._get_all_lindblad_noise_operators /
                                              jump_lindblad_operators.get_lindblad_operators
                               Sampling       PulserData.get_sequences -> _extract_omega_delta_phi
                               SVInit, SVRun  emu_sv.sv_backend_impl.SVBackendImpl.__init__ / first step
                               MPSCreate      emu_mps.mps_backend_impl.create_impl (+ DMRGBackendImpl.__init__)
                               MPSNew, MPSInit  MPSBackendImpl.__init__ / init
                 REQUIREMENT = AcceptedMeansImplemented: whatever is accepted is emulated with the
                               Hamiltonian Pulser defines for the basis, in a dimension and with an
                               algorithm the backend implements for the request.
   Part R (C34)  the run loop: trajectories with repetitions, one simulation per repetition, aggregation.
                 MECHANISM   = PulserData.get_sequences (for samples: for _ in range(reps): yield) and
                               Backend.run (results.append(run(sd)); Results.aggregate(results)).
                 REQUIREMENT = AllTrajectoriesAggregated.
   Part V (C31)  Admitted(v) => CanRun(v) over the versions recorded from the environment.          *)
EXTENDS Integers, Sequences, FiniteSets, TLC

CONSTANTS Part,            \* "D" | "R" | "V"
          SVBasisCheck,    \* FALSE = the code as found; TRUE = SVBackendImpl refuses non-Rydberg / dim # 2
          DMRGFirst,       \* FALSE = create_impl as found (lindblad ops win over solver); TRUE = solver gate first
          MaxTraj, MaxReps, Vals, Shots, LoopKind,
          Versions         \* sequence of records [v, admitted, canrun]   (Part V; recorded structure)

\* =========================================================================================== Part D
Backends == {"sv", "mps"}
Bases == {"gr", "xy", "digital", "mixed"}
Linds == {"none", "relaxation", "dephasing", "hyperfine", "depolarizing", "eff2", "leak3", "leak3deph"}
Stochs == {"none", "spam_prep", "spam_meas", "amplitude", "detuning", "register", "doppler"}
Rows == {r \in [backend : Backends, basis : Bases, lind : Linds, stoch : Stochs,
                solver : {"na", "tdvp", "dmrg"}, init : BOOLEAN, n : {1, 2}] :
            (r.backend = "sv") <=> (r.solver = "na")}

Leak(r) == r.lind \in {"leak3", "leak3deph"}
IntType(r) == IF r.basis = "xy" THEN "XY" ELSE "ising"          \* samples._in_xy; digital and mixed are 'ising' for Pulser
BasisLevels(r) == CASE r.basis = "mixed" -> 3 [] OTHER -> 2
Dim(r) == BasisLevels(r) + (IF Leak(r) THEN 1 ELSE 0)
HasLindblad(r) == r.lind # "none"
Noisy(r) == r.lind # "none" \/ r.stoch # "none"
XYUnsupported(r) == r.lind = "relaxation" \/ r.stoch \in {"amplitude", "detuning", "doppler"}

VARIABLES pc, row, out, trajs, ti, ri, runs, agg
vars == <<pc, row, out, trajs, ti, ri, runs, agg>>
Pending == [kind |-> "pending", why |-> "", h |-> "", dim |-> 0, algo |-> ""]
Reject(why) == [kind |-> "reject", why |-> why, h |-> "", dim |-> 0, algo |-> ""]
Accept(h, d, a) == [kind |-> "accept", why |-> "", h |-> h, dim |-> d, algo |-> a]
UnchangedR == UNCHANGED <<trajs, ti, ri, runs, agg>>
Goto(p) == pc' = p /\ out' = out /\ UNCHANGED row /\ UnchangedR
Finish(o) == pc' = "done" /\ out' = o /\ UNCHANGED row /\ UnchangedR

PulserCheck == /\ pc = "pulser"
               /\ IF IntType(row) = "XY" /\ XYUnsupported(row) THEN Finish(Reject("pulser:noise-unsupported-in-XY"))
                  ELSE Goto("adapter")
AdapterOps ==  /\ pc = "adapter"
               /\ IF row.lind = "hyperfine" THEN Finish(Reject("adapter:hyperfine-dephasing"))
                  ELSE IF row.lind = "eff2" /\ Dim(row) # 2 THEN Finish(Reject("adapter:eff-noise-shape"))
                  ELSE IF Leak(row) /\ Dim(row) # 3 THEN Finish(Reject("adapter:eff-noise-shape"))
                  ELSE Goto("sample")
Sampling ==    /\ pc = "sample"
               /\ IF row.basis = "mixed" THEN Finish(Reject("adapter:single-interaction-type"))
                  ELSE IF row.basis = "digital" THEN Finish(Reject("adapter:unsupported-channel"))
                  ELSE Goto(IF row.backend = "sv" THEN "sv_init" ELSE "mps_create")
SVInit ==      /\ pc = "sv_init"
               /\ IF SVBasisCheck /\ (IntType(row) # "ising" \/ Dim(row) # 2) THEN Finish(Reject("sv:basis-or-dim"))
                  ELSE IF row.init /\ HasLindblad(row) THEN Finish(Reject("sv:initial-state-type"))
                  ELSE IF row.init /\ row.stoch = "spam_prep" THEN Finish(Reject("sv:initial-state+prep-error"))
                  ELSE Goto("sv_run")
SVRun ==       /\ pc = "sv_run"
               /\ IF HasLindblad(row) /\ Dim(row) # 2 THEN Finish(Reject("sv:lindblad-op-shape"))
                  ELSE Finish(Accept("Rydberg", 2, IF HasLindblad(row) THEN "lindblad" ELSE "unitary"))   \* never looks at the basis
MPSCreate ==   /\ pc = "mps_create"
               /\ LET dmrgGate == row.solver = "dmrg" /\ Noisy(row) IN
                  IF DMRGFirst /\ dmrgGate THEN Finish(Reject("mps:dmrg+noise"))
                  ELSE IF HasLindblad(row) THEN Goto("mps_new")                      \* NoisyMPSBackendImpl, whatever the solver
                  ELSE IF dmrgGate THEN Finish(Reject("mps:dmrg+noise"))
                  ELSE Goto("mps_new")
MPSNew ==      /\ pc = "mps_new"
               /\ IF row.n < 2 THEN Finish(Reject("mps:fewer-than-2-atoms")) ELSE Goto("mps_init")
MPSInit ==     /\ pc = "mps_init"
               /\ IF row.init /\ row.stoch = "spam_prep" THEN Finish(Reject("mps:initial-state+prep-error"))
                  ELSE Finish(Accept(IF IntType(row) = "XY" THEN "XY" ELSE "Rydberg", Dim(row),
                                     IF HasLindblad(row) THEN "jumps" ELSE IF row.solver = "dmrg" THEN "dmrg" ELSE "tdvp"))

\* ---- requirement
PulserDefined(r) == CASE r.basis = "gr" -> "Rydberg" [] r.basis = "xy" -> "XY" [] r.basis = "digital" -> "Digital" [] OTHER -> "Mixed"
Implements(b, h, d) == IF b = "sv" THEN h = "Rydberg" /\ d = 2 ELSE h \in {"Rydberg", "XY"} /\ d \in {2, 3}
SameDynamics(h1, h2, r) == h1 = h2 \/ (r.n = 1 /\ {h1, h2} \subseteq {"Rydberg", "XY"})   \* one atom: no interaction term
RequestedAlgo(r) == IF r.backend = "sv" THEN (IF HasLindblad(r) THEN "lindblad" ELSE "unitary")
                    ELSE IF r.solver = "dmrg" THEN "dmrg" ELSE IF HasLindblad(r) THEN "jumps" ELSE "tdvp"
RowOK(r, o) == o.kind = "accept" =>
                 /\ SameDynamics(o.h, PulserDefined(r), r)
                 /\ Implements(r.backend, o.h, o.dim)
                 /\ o.dim = Dim(r)
                 /\ o.algo = RequestedAlgo(r)
                 /\ (o.algo = "dmrg" => ~Noisy(r))
AcceptedMeansImplemented == (Part = "D" /\ pc = "done") => RowOK(row, out)
RejectBeforeResult == (Part = "D" /\ out.kind = "reject") => pc = "done"
LogRow == (Part = "D" /\ pc' = "done") => PrintT(<<"ROW", row', out', RowOK(row', out')>>)

\* =========================================================================================== Part R
\* trajs: sequence of repetition counts produced by Pulser's trajectory generator (environment).
\* LoopKind = "reps" : for _ in range(reps)      (the code as found)
\*          = "reps-1": for _ in range(reps - 1) (seeded defect, used as a self-test of the requirement)
\*          = "reps+batched2": the loop as found, but the per-run results are aggregated in batches of 2 and the batch
\*            aggregates are aggregated again (mechanism variant seen in a seeded change: a mean of batch means is the
\*            mean of the runs only when all batches have the same size)
RECURSIVE SumSeq(_)
SumSeq(s) == IF s = <<>> THEN 0 ELSE Head(s) + SumSeq(Tail(s))
TrajSets == UNION {[1..k -> 1..MaxReps] : k \in 1..MaxTraj}
RepsOf(t) == IF LoopKind = "reps-1" THEN t - 1 ELSE t
AggBatch == IF LoopKind = "reps+batched2" THEN 2 ELSE 0     \* 0: one aggregation over all runs
NextTrajectory == /\ pc = "loop" /\ ti <= Len(trajs) /\ ri >= RepsOf(trajs[ti])
                  /\ ti' = ti + 1 /\ ri' = 0 /\ UNCHANGED <<pc, row, out, trajs, runs, agg>>
RunOne ==         /\ pc = "loop" /\ ti <= Len(trajs) /\ ri < RepsOf(trajs[ti])
                  /\ \E v \in Vals : runs' = Append(runs, [traj |-> ti, val |-> v, counts |-> Shots])
                  /\ ri' = ri + 1 /\ UNCHANGED <<pc, row, out, trajs, ti, agg>>
RECURSIVE SumVals(_)
SumVals(s) == IF s = <<>> THEN 0 ELSE Head(s).val + SumVals(Tail(s))
RECURSIVE SumCounts(_)
SumCounts(s) == IF s = <<>> THEN 0 ELSE Head(s).counts + SumCounts(Tail(s))
\* the reported mean as an exact rational <<num, den>>
RECURSIVE MeanOfBatchMeans(_, _, _)
MeanOfBatchMeans(s, B, acc) ==      \* acc = <<sum of batch means as num, den, number of batches>>
    IF s = <<>> THEN <<acc[1], acc[2] * acc[3]>>
    ELSE LET k == IF Len(s) < B THEN Len(s) ELSE B
             b == SubSeq(s, 1, k)
         IN MeanOfBatchMeans(SubSeq(s, k + 1, Len(s)), B, <<acc[1] * k + SumVals(b) * acc[2], acc[2] * k, acc[3] + 1>>)
ReportedMean(s) == IF AggBatch = 0 \/ s = <<>> THEN <<SumVals(s), Len(s)>> ELSE MeanOfBatchMeans(s, AggBatch, <<0, 1, 0>>)
Aggregate ==      /\ pc = "loop" /\ ti > Len(trajs)
                  /\ agg' = [n |-> Len(runs), meanTimesN |-> SumVals(runs), counts |-> SumCounts(runs), mean |-> ReportedMean(runs)]
                  /\ pc' = "returned" /\ UNCHANGED <<row, out, trajs, ti, ri, runs>>
NTraj == SumSeq(trajs)                                   \* Pulser: the repetition counts add up to n_trajectories
AllTrajectoriesAggregated ==
    (Part = "R" /\ pc = "returned") =>
        /\ agg.n = NTraj                                  \* exactly n_trajectories simulations are combined
        /\ agg.counts = NTraj * Shots                     \* bitstring counts add up to n_trajectories * shots
        /\ agg.meanTimesN = SumVals(runs)                 \* mean = average of the per-trajectory values
        /\ agg.mean[1] * NTraj = SumVals(runs) * agg.mean[2]   \* ... as reported (exact rational), however it was accumulated
        /\ \A k \in 1..Len(trajs) : Cardinality({i \in 1..Len(runs) : runs[i].traj = k}) = trajs[k]
RunsNeverExceed == Part = "R" => Len(runs) <= NTraj

\* =========================================================================================== Part V
\* (pc is mentioned so that TLC treats these as state predicates and reports them as invariant violations)
AdmittedCanRun == (Part = "V" /\ pc = "versions") => \A i \in 1..Len(Versions) : Versions[i].admitted => Versions[i].canrun
SomeAdmitted == (Part = "V" /\ pc = "versions") => \E i \in 1..Len(Versions) : Versions[i].admitted       \* non-vacuity

\* =========================================================================================== spec
NoR == trajs = <<>> /\ ti = 0 /\ ri = 0 /\ runs = <<>> /\ agg = [n |-> 0, meanTimesN |-> 0, counts |-> 0, mean |-> <<0, 1>>]
Init == \/ (Part = "D" /\ row \in Rows /\ pc = "pulser" /\ out = Pending /\ NoR)
        \/ (Part = "R" /\ trajs \in TrajSets /\ ti = 1 /\ ri = 0 /\ runs = <<>> /\ agg = [n |-> 0, meanTimesN |-> 0, counts |-> 0, mean |-> <<0, 1>>]
                       /\ pc = "loop" /\ row = [backend |-> "na"] /\ out = Pending)
        \/ (Part = "V" /\ pc = "versions" /\ row = [backend |-> "na"] /\ out = Pending /\ NoR)
\* (pc values of the parts are disjoint, so every action is enabled in its own part only)
Next == PulserCheck \/ AdapterOps \/ Sampling \/ SVInit \/ SVRun \/ MPSCreate \/ MPSNew \/ MPSInit
        \/ NextTrajectory \/ RunOne \/ Aggregate
Spec == Init /\ [][Next]_vars
Terminates == (Part = "R") => <>(pc = "returned")
FairSpec == Spec /\ WF_vars(Next)
====
