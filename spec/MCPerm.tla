---- MODULE MCPerm ----
(* C32 helpers: every permutation of 1..MaxN elements through the helper MECHANISM of Perm.tla; the
   REQUIREMENT (HelperLaws) is an invariant.  With Log = TRUE every (n, p, outputs) is printed, which is
   the script of the spec -> code replay (binding A): the harness calls the real helpers with the
   same p, evaluates the same laws on what they return and compares the outputs with the printed ones. *)
EXTENDS Perm, Sequences
CONSTANTS MaxN, Log
VARIABLES n, p, pc, o
vars == <<n, p, pc, o>>

AsSeq(f)  == [i \in 1..Size(f) |-> f[i - 1]]
AsSeq2(m) == [i \in 1..Size(m) |-> AsSeq(m[i - 1])]

Init == /\ n \in 1..MaxN /\ p \in Perms(n) /\ pc = "call" /\ o = <<>>
CallHelpers == /\ pc = "call" /\ o' = HelperOutputs(n, p) /\ pc' = "done" /\ UNCHANGED <<n, p>>
Next == CallHelpers
Spec == Init /\ [][Next]_vars

Laws == pc = "done" => HelperLaws(o)
NamedLaw == pc = "done" => FirstBrokenLaw(o) = "ok"
\* non-vacuity: the eye permutation is the only fixed point of "list = tags"
EyeOnly == pc = "done" => ((o.list = Tags(n)) <=> (p = EyePermutation(n)))

LogDone == (Log /\ pc = "done") =>
  PrintT(<<"H", n, AsSeq(p), AsSeq(o.inv), AsSeq(o.list), AsSeq(o.string), AsSeq(o.vector),
           AsSeq2(o.matrix), AsSeq(o.back_list), AsSeq2(o.back_matrix), AsSeq(o.inv_inv)>>)
====
