---- MODULE BrentTrace ----
(* C19 binding (B): traces recorded from the real BrentsRootFinder / find_root_brents in FLOAT
   arithmetic (random, discontinuous and adversarial functions; the noisy solver's searches) are
   validated against the requirement-level contract.  Abscissae are rank-transformed by the
   harness (order-exact projection: x < y iff rank(x) < rank(y)); ordinates enter by sign only;
   the width test |b-a| < tol is an atom computed on the raw floats.
   Events:  new(s,e,ss,se)  ask(x)  tell(x,sg)  done(g,widthOK)                                  *)
EXTENDS Integers, Sequences, TLC, Json, IOUtils
Traces == JsonDeserialize(IOEnv.TRACE_FILE)
VARIABLES tid, l, bad, lo, hi, slo, shi, s0, e0, pend, phase
vars == <<tid, l, bad, lo, hi, slo, shi, s0, e0, pend, phase>>
Ev == Traces[tid].events
Init == /\ tid \in 1..Len(Traces) /\ l = 1 /\ bad = "none"
        /\ lo = 0 /\ hi = 0 /\ slo = 0 /\ shi = 0 /\ s0 = 0 /\ e0 = 0 /\ pend = -1 /\ phase = "new"
Fail(c) == /\ bad' = c /\ UNCHANGED <<lo, hi, slo, shi, s0, e0, pend, phase>>
Step ==
  /\ bad = "none" /\ l <= Len(Ev)
  /\ LET e == Ev[l] IN
     CASE e.ev = "new" ->
            IF phase # "new" THEN Fail("new-twice")
            ELSE IF ~(e.s <= e.e) THEN Fail("start<=end")
            ELSE IF ~(e.ss * e.se < 0) THEN Fail("sign-change-at-ends")
            ELSE /\ lo' = e.s /\ hi' = e.e /\ slo' = e.ss /\ shi' = e.se /\ s0' = e.s /\ e0' = e.e
                 /\ pend' = -1 /\ phase' = "loop" /\ bad' = bad
       [] e.ev = "ask" ->
            IF phase # "loop" THEN Fail("ask-out-of-order")
            ELSE IF ~(lo <= e.x /\ e.x <= hi) THEN Fail("abscissa-outside-current-bracket")
            ELSE IF ~(s0 <= e.x /\ e.x <= e0) THEN Fail("abscissa-outside-initial-interval")
            ELSE /\ pend' = e.x /\ phase' = "tell" /\ bad' = bad /\ UNCHANGED <<lo, hi, slo, shi, s0, e0>>
       [] e.ev = "tell" ->
            \* e.x abscissa told, e.sg its sign, e.a / e.b the real object's bracket ends afterwards
            LET nlo == IF e.a <= e.b THEN e.a ELSE e.b
                nhi == IF e.a <= e.b THEN e.b ELSE e.a
                keepHi == (nlo = e.x /\ nhi = hi)          \* x replaced the low end
                keepLo == (nhi = e.x /\ nlo = lo)          \* x replaced the high end
                nslo == IF keepHi THEN e.sg ELSE slo
                nshi == IF keepHi THEN shi ELSE e.sg
            IN
            IF phase # "tell" \/ e.x # pend THEN Fail("tell-without-ask")
            ELSE IF ~(keepHi \/ keepLo) THEN Fail("new-bracket-is-not-x-plus-one-old-end")
            ELSE IF ~(nslo * nshi <= 0) THEN Fail("bracket-lost-its-sign-change")
            ELSE IF ~(nslo * nshi < 0 \/ e.sg = 0 \/ slo * shi = 0) THEN Fail("bracket-lost-its-sign-change")
            ELSE /\ lo' = nlo /\ hi' = nhi /\ slo' = nslo /\ shi' = nshi
                 /\ pend' = -1 /\ phase' = "loop" /\ bad' = bad /\ UNCHANGED <<s0, e0>>
       [] e.ev = "done" ->
            IF phase # "loop" THEN Fail("done-out-of-order")
            ELSE IF ~e.widthOK THEN Fail("returned-before-tolerance-reached")
            ELSE IF ~((e.a = lo /\ e.b = hi) \/ (e.a = hi /\ e.b = lo)) THEN Fail("final-bracket-not-the-sign-change-bracket")
            ELSE IF ~(e.g = e.b) THEN Fail("guess-not-an-end-of-bracket")
            ELSE IF ~(slo * shi <= 0) THEN Fail("no-sign-change")
            ELSE /\ phase' = "done" /\ bad' = bad /\ UNCHANGED <<lo, hi, slo, shi, s0, e0, pend>>
       [] OTHER -> Fail("unknown-event")
  /\ l' = l + 1 /\ UNCHANGED tid
Next == Step
Spec == Init /\ [][Next]_vars
Rejected == (bad # "none") => PrintT(<<"REJECT", Traces[tid].id, l - 1, bad>>)
Accepted == (bad = "none" /\ l = Len(Ev) + 1) =>
               IF phase = "done" \/ Traces[tid].partial THEN PrintT(<<"ACCEPT", Traces[tid].id>>)
               ELSE PrintT(<<"REJECT", Traces[tid].id, l, "trace-ends-before-done">>)
====
