---- MODULE MCEmuConfig ----
EXTENDS EmuConfig
cInf == 1000000
cWhitelist == {"bitstrings", "occupation", "correlation_matrix", "statistics", "energy", "energy_variance", "energy_second_moment"}
cWhitelistMutant == cWhitelist \cup {"state"}
\* exhaustive model-checking sets
cPExps == {3, 5, 8, 10, 12, 13}
cEExps == {0 - 1, 0, 2, 3, 4, 7, 9}
cDts == {0, 50, 100, 101, 110, 600, cInf}
cObsSets == {s \in SUBSET AllTags : Cardinality(s) <= 2} \cup {AllTags}
cPExpsQ == {5, 8, 10, 13}
cEExpsQ == {0 - 1, 2, 3, 4, 7}
cDtsQ == {50, 100, 101, cInf}
\* sets for the rows that are instantiated on the real code (binding A)
cObsFew == {{}, {"occupation"}, {"state"}, {"bitstrings", "entanglement_entropy"}, {"energy", "custom"}, AllTags}
cObsFewQ == {{}, {"occupation"}, {"energy", "state"}, AllTags}
cDtsQ3 == {100, 101, cInf}
cPExpsQ3 == {5, 10, 13}
cEExpsQ4 == {0 - 1, 2, 3, 7}
cSrcs == {"config", "device"}
cSrcsC == {"config"}
cPOne == {5}
cEOne == {3}
cDtInf == {cInf}
====
