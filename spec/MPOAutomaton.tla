---- MODULE MPOAutomaton ----
(* C05.  MECHANISM: emu_mps/hamiltonian.py -- make_H builds one factor per site
   (first / left / middle / right / last, Rydberg and XY classes), update_H overwrites one block
   per factor.  Two transcriptions:

     Construction = "index"  the code's own bookkeeping: integer bond indices, the any()-masks
                             of _left/_right_interaction_masks, nonzero() order, the running counters
                             i, j of the keep-loops, negative indices, slice assignments, the
                             bond-dimension arithmetic.  One operator per assignment statement.
     Construction = "named"  the design-level reading (channels named "S" not-started, "F" finished,
                             open(i), need(j)); Rydberg only.  Kept as the reference: a slip in a
                             keep-mask cannot misalign anything here, it does in "index".

   REQUIREMENT: MPOPathBag!PathBagOK (+ the factors fit together and no statement writes outside
   its tensor / over another statement's block -- that would be an exception or silent damage in
   the code).  TLC checks mechanism |= requirement for EVERY interaction pattern E over the pairs
   in Free (pairs in Fixed always interact), after make_H and after each of two update_H calls.  *)
EXTENDS MPOPathBag
CONSTANTS NS,            \* number of sites (>= 2)
          Kind,          \* "rydberg" | "xy"
          Construction,  \* "index" | "named"
          FreePairs,     \* sequence of pairs <<i,j>>, i<j, whose interaction is chosen
          FixedPairs     \* set of pairs that always interact
VARIABLES k, E, phase, F, gen
vars == <<k, E, phase, F, gen>>

Sites == 0..NS-1
Mid == NS \div 2                                   \* middle_site = num_sites // 2
Inter(i, j) == IF i < j THEN <<i, j>> \in E ELSE <<j, i>> \in E
UP(i, j) == IF i < j THEN <<i, j>> ELSE <<j, i>>    \* the symbol U_ij

\* ------------------------------------------------------------------------------ helpers
RECURSIVE SortedSeq(_)
SortedSeq(S) == IF S = {} THEN <<>>
                ELSE LET mn == CHOOSE x \in S : \A y \in S : x <= y IN <<mn>> \o SortedSeq(S \ {mn})
\* mask.nonzero().flatten(): 0-based positions where a boolean sequence (1-based here) is TRUE
NonZero(mask) == SortedSeq({p - 1 : p \in {q \in 1..Len(mask) : mask[q]}})
SumMask(mask) == Cardinality({q \in 1..Len(mask) : mask[q]})
B(b) == IF b THEN 1 ELSE 0

\* an assignment statement's effect on one block; "Z" = a zero block was written (coefficient 0)
A(l, r, op, u, m) == Edge(l, r, op, u, m, 0)
Coef(l, r, op, i, j, m) == IF Inter(i, j) THEN A(l, r, op, <<UP(i, j)>>, m) ELSE A(l, r, "Z", <<>>, 0)
Fac(ld, rd, as) == [ld |-> ld, rd |-> rd, as |-> as]

\* ------------------------------------------------------------------------------ masks (HamiltonianMPOFactors)
HasRight(n) == \E c \in Sites : c > n /\ Inter(n, c)              \* interaction_matrix[site, site+1:].any()
HasLeft(n)  == \E c \in Sites : c < n /\ Inter(n, c)              \* interaction_matrix[site, :site].any()
\* _left_interaction_masks(site): rows :site, position p <-> site p
CurL(n)  == [p \in 1..n |-> \E c \in Sites : c >= n /\ Inter(p - 1, c)]          \* [:site, site:].any(dim=1)
KeepL(n) == [p \in 1..n |-> \E c \in Sites : c >= n + 1 /\ Inter(p - 1, c)]      \* [:site, site+1:].any(dim=1)
\* _right_interaction_masks(site): rows site+1:, position p <-> site n+1+p
RSite(n, p0) == n + 1 + p0
CurR(n)  == [p \in 1..(NS - 1 - n) |-> \E c \in Sites : c <= n /\ Inter(RSite(n, p - 1), c)]      \* [site+1:, :site+1].any(dim=1)
KeepR(n) == [p \in 1..(NS - 1 - n) |-> \E c \in Sites : c <= n - 1 /\ Inter(RSite(n, p - 1), c)]  \* [site+1:, :site].any(dim=1)

\* ------------------------------------------------------------------------------ index construction, Rydberg
\* the keep-loop of left_factor:   i = j = 2; for c in cur.nonzero(): if keep[c]: factor[i,:,:,j] = id; j += 1;  i += 1
RECURSIVE LeftLoop(_, _, _, _, _, _)
LeftLoop(sel, keep, i, j, w, acc) ==
  IF sel = <<>> THEN acc
  ELSE IF keep[Head(sel) + 1]
       THEN LeftLoop(Tail(sel), keep, i + w, j + w, w, acc \cup {A(i + d, j + d, "I", <<>>, 1) : d \in 0..w-1})
       ELSE LeftLoop(Tail(sel), keep, i + w, j, w, acc)
\* the keep-loop of right_factor:  for c in cur.nonzero(): if keep[c]: factor[i,:,:,j] = id; i += 1;  j += 1
RECURSIVE RightLoop(_, _, _, _, _, _)
RightLoop(sel, keep, i, j, w, acc) ==
  IF sel = <<>> THEN acc
  ELSE IF keep[Head(sel) + 1]
       THEN RightLoop(Tail(sel), keep, i + w, j + w, w, acc \cup {A(i + d, j + d, "I", <<>>, 1) : d \in 0..w-1})
       ELSE RightLoop(Tail(sel), keep, i, j + w, w, acc)

RFirst ==
  LET hr == HasRight(0)  rd == IF hr THEN 3 ELSE 2 IN
  Fac(1, rd, {A(0, 1, "I", <<>>, 1)} \cup (IF hr THEN {A(0, 2, "N", <<>>, 1)} ELSE {}))

RLeft(n) ==
  LET hr == HasRight(n)  cur == CurL(n)  keep == KeepL(n)  sel == NonZero(cur)
      ld == SumMask(cur) + 2
      rd == SumMask(keep) + B(hr) + 2
  IN Fac(ld, rd,
         {A(0, 0, "I", <<>>, 1), A(1, 1, "I", <<>>, 1)}
         \cup (IF hr THEN {A(1, rd - 1, "N", <<>>, 1)} ELSE {})                      \* factor[1, :2, :2, -1] = n
         \cup {Coef(2 + t - 1, 0, "N", sel[t], n, 1) : t \in 1..Len(sel)}             \* factor[2:, :2, :2, 0] = coeff * n
         \cup LeftLoop(sel, keep, 2, 2, 1, {}))

RMiddle ==
  LET n == Mid  curL == CurL(n)  curR == CurR(n)  selL == NonZero(curL)  selR == NonZero(curR)
      ld == SumMask(curL) + 2
      rd == SumMask(curR) + 2
  IN Fac(ld, rd,
         {A(0, 0, "I", <<>>, 1), A(1, 1, "I", <<>>, 1)}
         \cup {Coef(2 + t - 1, 0, "N", selL[t], n, 1) : t \in 1..Len(selL)}                      \* factor[2:, :2, :2, 0]
         \cup {Coef(1, 2 + t - 1, "N", RSite(n, selR[t]), n, 1) : t \in 1..Len(selR)}            \* factor[1, :2, :2, 2:]
         \cup {Coef(2 + a - 1, 2 + b - 1, "I", selL[a], RSite(n, selR[b]), 1)                    \* factor[2:, :, :, 2:]
                 : a \in 1..Len(selL), b \in 1..Len(selR)})

RRight(n) ==
  LET hl == HasLeft(n)  cur == CurR(n)  keep == KeepR(n)  sel == NonZero(cur)
      ld == SumMask(keep) + B(hl) + 2
      rd == SumMask(cur) + 2
  IN Fac(ld, rd,
         {A(0, 0, "I", <<>>, 1), A(1, 1, "I", <<>>, 1)}
         \cup (IF hl THEN {A(2, 0, "N", <<>>, 1)} ELSE {})
         \cup {Coef(1, 2 + t - 1, "N", RSite(n, sel[t]), n, 1) : t \in 1..Len(sel)}   \* factor[1, :2, :2, 2:]
         \cup RightLoop(sel, keep, IF hl THEN 3 ELSE 2, 2, 1, {}))

RLast ==
  LET hl == HasLeft(NS - 1)  ld == IF hl THEN 3 ELSE 2 IN
  Fac(ld, 1, {A(0, 0, "I", <<>>, 1)}
             \cup (IF hl THEN (IF NS = 2 THEN {Coef(2, 0, "N", 0, 1, 1)} ELSE {A(2, 0, "N", <<>>, 1)}) ELSE {}))

\* ------------------------------------------------------------------------------ index construction, XY
XFirst ==
  LET hr == HasRight(0)  rd == IF hr THEN 4 ELSE 2 IN
  Fac(1, rd, {A(0, 1, "I", <<>>, 1)} \cup (IF hr THEN {A(0, 2, "SX", <<>>, 1), A(0, 3, "SY", <<>>, 1)} ELSE {}))

XLeft(n) ==
  LET hr == HasRight(n)  cur == CurL(n)  keep == KeepL(n)  sel == NonZero(cur)
      ld == 2 * SumMask(cur) + 2
      rd == 2 * SumMask(keep) + 2 * B(hr) + 2
  IN Fac(ld, rd,
         {A(0, 0, "I", <<>>, 1), A(1, 1, "I", <<>>, 1)}
         \cup (IF hr THEN {A(1, rd - 2, "SX", <<>>, 1), A(1, rd - 1, "SY", <<>>, 1)} ELSE {})
         \cup {Coef(2 + 2 * (t - 1), 0, "SX", sel[t], n, 2) : t \in 1..Len(sel)}      \* factor[2::2, :2, :2, 0] = coeff*2*sx
         \cup {Coef(3 + 2 * (t - 1), 0, "SY", sel[t], n, 2) : t \in 1..Len(sel)}      \* factor[3::2, :2, :2, 0] = coeff*2*sy
         \cup LeftLoop(sel, keep, 2, 2, 2, {}))

XMiddle ==
  LET n == Mid  curL == CurL(n)  curR == CurR(n)  selL == NonZero(curL)  selR == NonZero(curR)
      ld == 2 * SumMask(curL) + 2
      rd == 2 * SumMask(curR) + 2
  IN Fac(ld, rd,
         {A(0, 0, "I", <<>>, 1), A(1, 1, "I", <<>>, 1)}
         \cup {Coef(2 + 2 * (t - 1), 0, "SX", selL[t], n, 2) : t \in 1..Len(selL)}
         \cup {Coef(3 + 2 * (t - 1), 0, "SY", selL[t], n, 2) : t \in 1..Len(selL)}
         \cup {Coef(1, 2 + 2 * (t - 1), "SX", RSite(n, selR[t]), n, 2) : t \in 1..Len(selR)}
         \cup {Coef(1, 3 + 2 * (t - 1), "SY", RSite(n, selR[t]), n, 2) : t \in 1..Len(selR)}
         \cup {Coef(2 + 2 * (a - 1), 2 + 2 * (b - 1), "I", selL[a], RSite(n, selR[b]), 2)
                 : a \in 1..Len(selL), b \in 1..Len(selR)}
         \cup {Coef(3 + 2 * (a - 1), 3 + 2 * (b - 1), "I", selL[a], RSite(n, selR[b]), 2)
                 : a \in 1..Len(selL), b \in 1..Len(selR)})

XRight(n) ==
  LET hl == HasLeft(n)  cur == CurR(n)  keep == KeepR(n)  sel == NonZero(cur)
      ld == 2 * SumMask(keep) + 2 * B(hl) + 2
      rd == 2 * SumMask(cur) + 2
  IN Fac(ld, rd,
         {A(0, 0, "I", <<>>, 1), A(1, 1, "I", <<>>, 1)}
         \cup (IF hl THEN {A(2, 0, "SX", <<>>, 1), A(3, 0, "SY", <<>>, 1)} ELSE {})
         \cup {Coef(1, 2 + 2 * (t - 1), "SX", RSite(n, sel[t]), n, 2) : t \in 1..Len(sel)}
         \cup {Coef(1, 3 + 2 * (t - 1), "SY", RSite(n, sel[t]), n, 2) : t \in 1..Len(sel)}
         \cup RightLoop(sel, keep, IF hl THEN 4 ELSE 2, 2, 2, {}))

XLast ==
  LET hl == HasLeft(NS - 1)  ld == IF hl THEN 4 ELSE 2 IN
  Fac(ld, 1, {A(0, 0, "I", <<>>, 1)}
             \cup (IF hl THEN (IF NS = 2 THEN {Coef(2, 0, "SX", 0, 1, 2), Coef(3, 0, "SY", 0, 1, 2)}
                                         ELSE {A(2, 0, "SX", <<>>, 1), A(3, 0, "SY", <<>>, 1)}) ELSE {}))

\* HamiltonianMPOFactors.__iter__
IndexFactor(n) ==
  IF Kind = "rydberg"
  THEN (IF n = 0 THEN RFirst ELSE IF n = NS - 1 THEN RLast ELSE IF n < Mid THEN RLeft(n) ELSE IF n = Mid THEN RMiddle ELSE RRight(n))
  ELSE (IF n = 0 THEN XFirst ELSE IF n = NS - 1 THEN XLast ELSE IF n < Mid THEN XLeft(n) ELSE IF n = Mid THEN XMiddle ELSE XRight(n))

\* ------------------------------------------------------------------------------ named-channel construction (Rydberg)
CS == <<"S", 0>>   CF == <<"F", 0>>   Open(i) == <<"open", i>>   Need(j) == <<"need", j>>
LeftOpenAt(n)  == {i \in Sites : i < n /\ \E c \in Sites : c >= n /\ Inter(i, c)}
LeftKeepAt(n)  == {i \in Sites : i < n /\ \E c \in Sites : c >  n /\ Inter(i, c)}
RightNeedAt(n) == {j \in Sites : j > n /\ \E c \in Sites : c <= n /\ Inter(j, c)}
RightKeepAt(n) == {j \in Sites : j > n /\ \E c \in Sites : c <  n /\ Inter(j, c)}
NFirst == {A(CS, CS, "I", <<>>, 1)} \cup (IF HasRight(0) THEN {A(CS, Open(0), "N", <<>>, 1)} ELSE {})
NLeft(n) == {A(CF, CF, "I", <<>>, 1), A(CS, CS, "I", <<>>, 1)}
        \cup (IF HasRight(n) THEN {A(CS, Open(n), "N", <<>>, 1)} ELSE {})
        \cup {A(Open(i), CF, "N", <<UP(i, n)>>, 1) : i \in {c \in LeftOpenAt(n) : Inter(c, n)}}
        \cup {A(Open(i), Open(i), "I", <<>>, 1) : i \in LeftOpenAt(n) \cap LeftKeepAt(n)}
NMid == LET n == Mid IN {A(CF, CF, "I", <<>>, 1), A(CS, CS, "I", <<>>, 1)}
        \cup {A(Open(i), CF, "N", <<UP(i, n)>>, 1) : i \in {c \in LeftOpenAt(n) : Inter(c, n)}}
        \cup {A(CS, Need(j), "N", <<UP(n, j)>>, 1) : j \in {c \in RightNeedAt(n) : Inter(n, c)}}
        \cup {A(Open(p[1]), Need(p[2]), "I", <<UP(p[1], p[2])>>, 1) : p \in {q \in LeftOpenAt(n) \X RightNeedAt(n) : Inter(q[1], q[2])}}
NRight(n) == {A(CF, CF, "I", <<>>, 1), A(CS, CS, "I", <<>>, 1)}
        \cup (IF HasLeft(n) THEN {A(Need(n), CF, "N", <<>>, 1)} ELSE {})
        \cup {A(CS, Need(j), "N", <<UP(n, j)>>, 1) : j \in {c \in RightNeedAt(n) : Inter(n, c)}}
        \cup {A(Need(j), Need(j), "I", <<>>, 1) : j \in RightNeedAt(n) \cap RightKeepAt(n)}
NLast == {A(CF, CF, "I", <<>>, 1)} \cup (IF HasLeft(NS - 1) THEN
              IF NS = 2 THEN {A(Open(0), CF, "N", <<UP(0, 1)>>, 1)} ELSE {A(Need(NS - 1), CF, "N", <<>>, 1)} ELSE {})
NamedFactor(n) ==
  Fac(0, 0, IF n = 0 THEN NFirst ELSE IF n = NS - 1 THEN NLast ELSE IF n < Mid THEN NLeft(n) ELSE IF n = Mid THEN NMid ELSE NRight(n))

\* ------------------------------------------------------------------------------ make_H / update_H
Factor(n) == IF Construction = "index" THEN IndexFactor(n) ELSE NamedFactor(n)
MakeH == [s \in 1..NS |-> Factor(s - 1)]

\* update_H:  factors[0][0, :, :, 0] = terms[0];  factors[i][1, :, :, 0] = terms[i]   (whole block overwritten)
SlotL(n) == IF Construction = "index" THEN (IF n = 0 THEN 0 ELSE 1) ELSE CS
SlotR(n) == IF Construction = "index" THEN 0 ELSE CF
UpdateH(FF, g) ==
  [s \in 1..NS |->
     [FF[s] EXCEPT !.as = {a \in FF[s].as : ~(a.l = SlotL(s - 1) /\ a.r = SlotR(s - 1))}
                          \cup {Edge(SlotL(s - 1), SlotR(s - 1), "T", <<>>, 1, g)}]]

Root == IF Construction = "index" THEN 0 ELSE CS
Sink == IF Construction = "index" THEN 0 ELSE CF
Edges(FF) == [s \in 1..NS |-> {a \in FF[s].as : a.op # "Z"}]

\* ------------------------------------------------------------------------------ behaviour
NP == Len(FreePairs)
Init == k = 0 /\ E = FixedPairs /\ phase = "pattern" /\ F = <<>> /\ gen = 0
Choose == /\ phase = "pattern" /\ k < NP
          /\ k' = k + 1
          /\ \/ E' = E
             \/ E' = E \cup {FreePairs[k + 1]}
          /\ UNCHANGED <<phase, F, gen>>
Make == /\ phase = "pattern" /\ k = NP
        /\ F' = MakeH /\ phase' = "made" /\ UNCHANGED <<k, E, gen>>
Update == /\ phase \in {"made", "updated"} /\ gen < 2
          /\ F' = UpdateH(F, gen + 1) /\ gen' = gen + 1 /\ phase' = "updated" /\ UNCHANGED <<k, E>>
Next == Choose \/ Make \/ Update
Spec == Init /\ [][Next]_vars

\* ------------------------------------------------------------------------------ requirement
Built == phase # "pattern"
\* the statements stay inside their tensors, never write one block twice, and neighbouring factors fit
InRange == Built /\ Construction = "index" =>
             \A s \in 1..NS : \A a \in F[s].as : a.l \in 0..F[s].ld - 1 /\ a.r \in 0..F[s].rd - 1
NoOverwrite == Built => \A s \in 1..NS : \A a, b \in F[s].as : (a.l = b.l /\ a.r = b.r) => a = b
BondsFit == Built /\ Construction = "index" =>
              /\ F[1].ld = 1 /\ F[NS].rd = 1
              /\ \A s \in 1..NS-1 : F[s].rd = F[s + 1].ld
\* update_H only ever writes a block that make_H left empty
SlotFree == phase = "made" => \A s \in 1..NS : \A a \in F[s].as : ~(a.l = SlotL(s - 1) /\ a.r = SlotR(s - 1))
\* THE requirement
PathBag == Built => PathBagOK(Edges(F), NS, Root, Sink, E, Kind, gen)
\* the fast form of the requirement is the stated one (checked in the small configurations only)
FormsAgree == Built => LET P == Paths(Edges(F), NS, Root, Sink) IN
                         PathBagOKOn(P, NS, E, Kind, gen) <=> PathBagOKDef(P, NS, E, Kind, gen)
\* binding: print the factors of every pattern (ACTION_CONSTRAINT; compared with the real make_H's factors)
LogMake == (phase = "pattern" /\ phase' = "made") => PrintT(<<"F", E, F'>>)
====
