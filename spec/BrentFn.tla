---- MODULE BrentFn ----
(* MECHANISM: emu_base/math/brents_root_finding.py (class BrentsRootFinder) transcribed method by
   method as pure functions on a record, in exact rational arithmetic. *)
EXTENDS Rat
Swap(aa,bb,faa,fbb) == IF Lt(RAbs(faa), RAbs(fbb)) THEN <<bb,aa,fbb,faa>> ELSE <<aa,bb,faa,fbb>>
\* the two asserts of __init__
BrentNewOK(s,e,fs,fe) == Le(s,e) /\ Sgn(fs)*Sgn(fe) < 0
BrentNew(s,e,fs,fe,eps) ==
   LET w == Swap(s,e,fs,fe) IN
   [a |-> w[1], b |-> w[2], fa |-> w[3], fb |-> w[4], c |-> w[1], d |-> w[1], fc |-> w[3],
    bis |-> TRUE, nxt |-> R(0), eps |-> eps]
\* is_converged
BrentConv(r, tol) == Lt(RAbs(Sub(r.b, r.a)), tol)
BrentDx(r) ==
   IF Lt(RAbs(Sub(r.fc,r.fa)), r.eps) \/ Lt(RAbs(Sub(r.fc,r.fb)), r.eps)
   THEN Div(Mul(r.fb, Sub(r.b,r.a)), Sub(r.fa,r.fb))                        \* secant
   ELSE LET s == Div(r.fb,r.fa)
            rr == Div(r.fb,r.fc)
            t == Div(r.fa,r.fc)                                              \* inverse quadratic
            q == Mul(Mul(Sub(t,R(1)), Sub(s,R(1))), Sub(rr,R(1)))
            p == Mul(s, Add(Mul(Mul(t, Sub(rr,t)), Sub(r.c,r.b)), Mul(Sub(rr,R(1)), Sub(r.b,r.a))))
        IN Div(p,q)
\* get_next_abscissa
BrentAsk(r) ==
   LET dx == BrentDx(r)
       delta == RAbs(Mul(Mul(R(2),r.eps), r.b))
       adx == RAbs(dx)
       dbc == RAbs(Sub(r.b,r.c))
       dcd == RAbs(Sub(r.c,r.d))
       dab == Sub(r.a,r.b)
       usebis == \/ Le(RAbs(Mul(<<3,4>>, dab)), adx)
                 \/ Sgn(dx) * Sgn(dab) < 0
                 \/ (r.bis /\ Le(Half(dbc), adx))
                 \/ (~r.bis /\ Le(Half(dcd), adx))
                 \/ (r.bis /\ Lt(dbc, delta))
                 \/ (~r.bis /\ Lt(dcd, delta))
       ndx == IF usebis THEN Half(dab) ELSE dx
   IN [r EXCEPT !.bis = usebis, !.nxt = Add(r.b, ndx), !.d = r.c, !.c = r.b, !.fc = r.fb]
\* provide_ordinate
BrentTell(r, ord) ==
   LET neg == Sgn(r.fa)*Sgn(ord) < 0
       w == Swap(IF neg THEN r.a ELSE r.nxt, IF neg THEN r.nxt ELSE r.b,
                 IF neg THEN r.fa ELSE ord,  IF neg THEN ord ELSE r.fb)
   IN [r EXCEPT !.a = w[1], !.b = w[2], !.fa = w[3], !.fb = w[4]]
====
