---- MODULE MCSVOperator ----
EXTENDS SVOperator
Z == <<0, 0>>   O == <<1, 0>>   I1 == <<0, 1>>
cUnits == {<<O, Z, Z, Z>>, <<Z, O, Z, Z>>, <<Z, Z, O, Z>>, <<Z, Z, Z, O>>}          \* |g><g| |g><r| |r><g| |r><r|
\* polarisation pairs E_a + E_b and E_a + i E_b: fix the sesquilinear terms L rho L^+ and L^+ L
cSums == {[k \in 1..4 |-> IF k = a \/ k = b THEN O ELSE Z] : a \in 1..4, b \in 1..4} \ cUnits
cISums == {[k \in 1..4 |-> IF k = a THEN O ELSE IF k = b THEN I1 ELSE Z] : a \in 1..4, b \in 1..4} \ {[k \in 1..4 |-> IF k = a THEN I1 ELSE Z] : a \in 1..4}
cSingles == cUnits \cup cSums \cup cISums
cNoJumps == {<<>>}
cJumpsFull == {<<>>} \cup {<<j>> : j \in cSingles}
               \cup {<<<<Z, O, Z, Z>>, <<Z, Z, Z, O>>>>, <<<<Z, O, Z, Z>>, <<Z, O, Z, Z>>>>, <<<<Z, Z, O, Z>>, <<O, Z, Z, Z>>, <<O, Z, Z, <<0 - 1, 0>>>>>>}
cJumpsMid == {<<>>} \cup {<<j>> : j \in cUnits}
             \cup {<<<<Z, O, O, Z>>>>, <<<<O, Z, Z, O>>>>, <<<<O, O, Z, Z>>>>, <<<<Z, O, I1, Z>>>>, <<<<O, Z, Z, I1>>>>, <<<<Z, I1, Z, O>>>>}
             \cup {<<<<Z, O, Z, Z>>, <<Z, Z, Z, O>>>>, <<<<Z, O, Z, Z>>, <<Z, O, Z, Z>>>>, <<<<Z, Z, O, Z>>, <<O, Z, Z, Z>>, <<O, Z, Z, <<0 - 1, 0>>>>>>}
cJumpsSmall == {<<>>, <<<<Z, O, Z, Z>>>>, <<<<O, Z, Z, <<0 - 1, 0>>>>>>, <<<<Z, O, I1, Z>>>>, <<<<Z, O, Z, Z>>, <<Z, Z, Z, O>>>>}
====
