---- MODULE EmuPipelineTrace ----
(* C34 binding (B): traces recorded from real multi-trajectory runs (hook events seq_yield /
   aggregate of /repo, per-run Results captured by a harness wrapper around
   Backend._run_from_sequence_data) are validated against the requirement of EmuPipeline Part R.
   Events (projected by the harness; numeric comparisons enter as booleans computed on the raw data):
     start(n, shots)            n_trajectories requested, shots per run
     yield(reps, first)         one SequenceData handed to the backend; `first` marks the first
                                repetition of a trajectory, reps = repetitions Pulser asked for
     run                        one per-run Results produced
     aggregate(k)               Results.aggregate called with k results
     returned(counts, meanOK, bagOK, skipAbsent, orderOK, tagsOK)                                   *)
EXTENDS Integers, Sequences, TLC, Json, IOUtils
Traces == JsonDeserialize(IOEnv.TRACE_FILE)
VARIABLES tid, l, bad, n, shots, runs, yields, curReps, curDone, sumReps, phase, aggN
vars == <<tid, l, bad, n, shots, runs, yields, curReps, curDone, sumReps, phase, aggN>>
Ev == Traces[tid].events
Init == /\ tid \in 1..Len(Traces) /\ l = 1 /\ bad = "none"
        /\ n = 0 /\ shots = 0 /\ runs = 0 /\ yields = 0 /\ curReps = 0 /\ curDone = 0 /\ sumReps = 0 /\ phase = "new" /\ aggN = 0
Keep == UNCHANGED <<n, shots, runs, yields, curReps, curDone, sumReps, phase, aggN>>
Fail(c) == bad' = c /\ Keep
Step ==
  /\ bad = "none" /\ l <= Len(Ev)
  /\ LET e == Ev[l] IN
     CASE e.ev = "start" ->
            IF phase # "new" THEN Fail("start-twice")
            ELSE /\ n' = e.n /\ shots' = e.shots /\ phase' = "loop" /\ bad' = bad
                 /\ UNCHANGED <<runs, yields, curReps, curDone, sumReps, aggN>>
       [] e.ev = "yield" ->
            IF phase # "loop" THEN Fail("yield-after-aggregate")
            ELSE IF yields # runs THEN Fail("yield-without-run-of-previous")
            ELSE IF e.first /\ curDone # curReps THEN Fail("trajectory-left-before-all-repetitions")
            ELSE IF ~e.first /\ (curDone >= curReps \/ e.reps # curReps) THEN Fail("more-repetitions-than-requested")
            ELSE /\ yields' = yields + 1
                 /\ curReps' = e.reps
                 /\ curDone' = IF e.first THEN 1 ELSE curDone + 1
                 /\ sumReps' = IF e.first THEN sumReps + e.reps ELSE sumReps
                 /\ bad' = bad /\ UNCHANGED <<n, shots, runs, phase, aggN>>
       [] e.ev = "run" ->
            IF phase # "loop" \/ runs + 1 # yields THEN Fail("run-without-yield")
            ELSE /\ runs' = runs + 1 /\ bad' = bad /\ UNCHANGED <<n, shots, yields, curReps, curDone, sumReps, phase, aggN>>
       [] e.ev = "aggregate" ->
            IF phase # "loop" THEN Fail("aggregate-twice")
            ELSE IF curDone # curReps THEN Fail("trajectory-left-before-all-repetitions")
            ELSE IF sumReps # n THEN Fail("repetitions-do-not-add-up-to-n_trajectories")
            ELSE IF runs # n THEN Fail("simulations-run-differ-from-n_trajectories")
            ELSE IF e.k # n THEN Fail("aggregate-called-with-other-than-n_trajectories-results")
            ELSE /\ aggN' = e.k /\ phase' = "aggregated" /\ bad' = bad /\ UNCHANGED <<n, shots, runs, yields, curReps, curDone, sumReps>>
       [] e.ev = "returned" ->
            IF phase # "aggregated" THEN Fail("returned-before-aggregate")
            ELSE IF e.counts # n * shots THEN Fail("bitstring-counts-differ-from-n_trajectories-times-shots")
            ELSE IF ~e.bagOK THEN Fail("bitstring-counter-is-not-the-sum-of-per-run-counters")
            ELSE IF ~e.meanOK THEN Fail("mean-observable-is-not-the-average-of-per-run-values")
            ELSE IF ~e.tagsOK THEN Fail("aggregated-tags-differ-from-per-run-tags-minus-skipped")
            ELSE IF ~e.skipAbsent THEN Fail("skip-aggregated-observable-present")
            ELSE IF ~e.orderOK THEN Fail("atom-order-differs-between-runs")
            ELSE /\ phase' = "done" /\ bad' = bad /\ UNCHANGED <<n, shots, runs, yields, curReps, curDone, sumReps, aggN>>
       [] OTHER -> Fail("unknown-event")
  /\ l' = l + 1 /\ UNCHANGED tid
Next == Step
Spec == Init /\ [][Next]_vars
Rejected == (bad # "none") => PrintT(<<"REJECT", Traces[tid].id, l - 1, bad>>)
Accepted == (bad = "none" /\ l = Len(Ev) + 1) =>
               IF phase = "done" THEN PrintT(<<"ACCEPT", Traces[tid].id>>)
               ELSE PrintT(<<"REJECT", Traces[tid].id, l, "trace-ends-before-returned">>)
====
