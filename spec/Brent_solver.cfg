\* the noisy solver's configuration: epsilon = 1, tolerance = 1 (ns); step of 16 ns
SPECIFICATION Spec
CONSTANTS
  Start <- cZero
  End <- cSixteen
  Ords <- cOrds6
  Tol <- cOne
  Eps <- cOne
  MaxSteps = 12
  LogTransitions = FALSE
INVARIANT SignChange
INVARIANT InInitial
INVARIANT InBracket
INVARIANT StrictInside
INVARIANT Bounded
INVARIANT ReturnedOK
PROPERTY Nested
PROPERTY Terminates
