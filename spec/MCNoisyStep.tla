---- MODULE MCNoisyStep ----
EXTENDS NoisyStep, FiniteSets
\* gaps are (n^2 - 9/16) for norms n in {1/4, 1/2, 7/8, 1} (+ 5/8, 1/8); physical (norm^2 <= 1), hence with epsilon = 1 the inverse-quadratic branch of the root finder is unreachable: exactly representable in binary floating
\* point together with their square roots, so that the replay into the real code has no rounding in the gap
cGaps4 == {Q(0-8,16), Q(0-5,16), Q(13,64), Q(7,16)}
cPos2 == {Q(7,16)}
cGaps6 == {Q(0-32,64), Q(0-20,64), Q(0-11,64), Q(13,64), Q(28,64), Q(0-35,64)}
cPos3 == {Q(7,16)}
cDueAll2 == {0, 1, 2}
cDueSome2 == {0, 2}
cDueAll3 == {0, 1, 2, 3}
cDue1 == {1}
cDueAll1 == {0, 1}
====
