---- MODULE MCBandwidthOpt ----
EXTENDS BandwidthOpt
cVals3 == {0, 1, 2, 3}
cVals2 == {0, 1, 3}
cVals01 == {0, 2}
====
