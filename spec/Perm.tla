---- MODULE Perm ----
(* C32 (helpers) / C03 / C25.  Permutations and the permutation helpers of
   emu_mps/optimatrix/permutations.py, transcribed one operator per helper.  The code indexes from 0,
   so every object here is a FUNCTION on 0..n-1 (a list, a tuple, the characters of a string and a
   1-D tensor are all "index |-> element"; a square matrix is "row |-> (column |-> element)").

   MECHANISM  = EyePermutation / PermuteList / PermuteTuple / PermuteString / InvPermutation /
                PermuteVector / PermuteMatrix  (what the helpers compute)
   REQUIREMENT = the Law* predicates at the end (what C32 demands of them): inverting undoes
                permuting, and every helper moves the same elements.                              *)
EXTENDS Integers, FiniteSets, TLC

Idx(n)   == 0..(n - 1)
Size(f)  == Cardinality(DOMAIN f)
IsPerm(p, n) == /\ DOMAIN p = Idx(n)
                /\ \A i \in Idx(n) : p[i] \in Idx(n)
                /\ \A i, j \in Idx(n) : p[i] = p[j] => i = j
Perms(n) == {p \in [Idx(n) -> Idx(n)] : \A i, j \in Idx(n) : p[i] = p[j] => i = j}
Compose(f, g) == [i \in DOMAIN g |-> f[g[i]]]          \* (f o g)[i] = f[g[i]]

\* ---------------------------------------------------------------------------- mechanism
\* eye_permutation(n):  torch.arange(n)
EyePermutation(n) == [i \in Idx(n) |-> i]

\* permute_list(l, perm):  [l[i] for i in perm.tolist()]        (length = len(perm))
PermuteList(l, p) == [i \in DOMAIN p |-> l[p[i]]]

\* permute_tuple(t, perm): tuple(permute_list(list(t), perm))
PermuteTuple(t, p) == PermuteList([i \in DOMAIN t |-> t[i]], p)

\* permute_string(s, perm): "".join(permute_list(list(s), perm))
PermuteString(s, p) == PermuteList([i \in DOMAIN s |-> s[i]], p)

\* inv_permutation(perm):  inv = empty_like(perm); inv[perm] = arange(len(perm))
\* the scatter assignment is performed index by index (a later write wins, unwritten cells stay
\* "unset" = -1): for i in 0..n-1: inv[perm[i]] := i
RECURSIVE ScatterUpTo(_, _)
ScatterUpTo(p, k) == IF k = 0 THEN [j \in DOMAIN p |-> -1]
                     ELSE [ScatterUpTo(p, k - 1) EXCEPT ![p[k - 1]] = k - 1]
InvPermutation(p) == ScatterUpTo(p, Size(p))

\* permute_tensor(v, perm), 1-D:  v[perm]
PermuteVector(v, p) == [i \in DOMAIN p |-> v[p[i]]]

\* permute_tensor(m, perm), square 2-D:  m[perm][:, perm]   (rows first, then columns)
RowsPermuted(m, p)  == [i \in DOMAIN p |-> m[p[i]]]
ColsPermuted(m, p)  == [i \in DOMAIN m |-> [j \in DOMAIN p |-> m[i][p[j]]]]
PermuteMatrix(m, p) == ColsPermuted(RowsPermuted(m, p), p)

\* ---------------------------------------------------------------------------- requirement (C32, helpers)
\* stated on OUTPUTS (records of what the helpers returned), so that the same predicates are
\* evaluated by TLC on the mechanism above and by the harness on the real helpers.
\*   o.n, o.p          the permutation
\*   o.inv             inv_permutation(p)
\*   o.list/.tuple/.string/.vector   helper applied to the identity-tagged object  i |-> i
\*   o.matrix          permute_tensor applied to the tagged matrix  m[i][j] = <<i, j>>
\*   o.back_*          the helper applied again, with o.inv, to the object it produced
Tags(n)    == [i \in Idx(n) |-> i]
TagMat(n)  == [i \in Idx(n) |-> [j \in Idx(n) |-> <<i, j>>]]

HelperOutputs(n, p) ==
  LET inv == InvPermutation(p) IN
  [ n |-> n, p |-> p, inv |-> inv,
    list   |-> PermuteList(Tags(n), p),
    tuple  |-> PermuteTuple(Tags(n), p),
    string |-> PermuteString(Tags(n), p),
    vector |-> PermuteVector(Tags(n), p),
    matrix |-> PermuteMatrix(TagMat(n), p),
    back_list   |-> PermuteList(PermuteList(Tags(n), p), inv),
    back_tuple  |-> PermuteTuple(PermuteTuple(Tags(n), p), inv),
    back_string |-> PermuteString(PermuteString(Tags(n), p), inv),
    back_vector |-> PermuteVector(PermuteVector(Tags(n), p), inv),
    back_matrix |-> PermuteMatrix(PermuteMatrix(TagMat(n), p), inv),
    fwd_after_inv |-> PermuteList(PermuteList(Tags(n), inv), p),
    inv_inv |-> InvPermutation(inv) ]

LawInvIsPerm(o)      == IsPerm(o.inv, o.n)
LawInvLeft(o)        == \A i \in Idx(o.n) : o.inv[o.p[i]] = i            \* inv o perm = id
LawInvRight(o)       == \A i \in Idx(o.n) : o.p[o.inv[i]] = i            \* perm o inv = id
LawInvInvolution(o)  == o.inv_inv = o.p
LawUndo(o)           == /\ o.back_list = Tags(o.n) /\ o.back_tuple = Tags(o.n)
                        /\ o.back_string = Tags(o.n) /\ o.back_vector = Tags(o.n)
                        /\ o.back_matrix = TagMat(o.n) /\ o.fwd_after_inv = Tags(o.n)
\* "moves the same elements": new position i of EVERY kind of object holds the element that the
\* list helper put there; a matrix entry (i, j) holds the pair of what the list holds at i and at j
LawSameElements(o)   == /\ o.tuple = o.list /\ o.string = o.list /\ o.vector = o.list
                        /\ \A i, j \in Idx(o.n) : o.matrix[i][j] = <<o.list[i], o.list[j]>>
LawIsRearrangement(o) == IsPerm(o.list, o.n)                             \* nothing lost, nothing duplicated
LawFollowsPerm(o)    == \A i \in Idx(o.n) : o.list[i] = o.p[i]           \* position i <- old position p[i]

HelperLaws(o) == /\ LawInvIsPerm(o) /\ LawInvLeft(o) /\ LawInvRight(o) /\ LawInvInvolution(o)
                 /\ LawUndo(o) /\ LawSameElements(o) /\ LawIsRearrangement(o) /\ LawFollowsPerm(o)
FirstBrokenLaw(o) ==
  IF ~LawInvIsPerm(o) THEN "inv-is-not-a-permutation"
  ELSE IF ~LawInvLeft(o) THEN "inv-after-perm-is-not-identity"
  ELSE IF ~LawInvRight(o) THEN "perm-after-inv-is-not-identity"
  ELSE IF ~LawInvInvolution(o) THEN "inv-of-inv-is-not-perm"
  ELSE IF ~LawIsRearrangement(o) THEN "permute-list-loses-or-duplicates-elements"
  ELSE IF ~LawFollowsPerm(o) THEN "permute-list-does-not-follow-perm"
  ELSE IF ~LawSameElements(o) THEN "helpers-move-different-elements"
  ELSE IF ~LawUndo(o) THEN "inverse-does-not-undo-permuting"
  ELSE "ok"

\* ---------------------------------------------------------------------------- weighted bandwidth (C32, optimiser)
IAbsP(x) == IF x < 0 THEN -x ELSE x
SetMax(S) == CHOOSE x \in S : \A y \in S : y <= x
\* matrix_bandwidth(m) = max_{i,j} |m[i][j] * (j - i)|     (integer matrices)
Bandwidth(m) == SetMax({IAbsP(m[i][j]) * IAbsP(j - i) : i \in DOMAIN m, j \in DOMAIN m})
IsSymmetric(m) == \A i, j \in DOMAIN m : m[i][j] = m[j][i]
\* the optimiser's contract: a permutation of ALL atoms, weighted bandwidth no larger than before
OptimiserContract(m, p) == /\ IsPerm(p, Size(m))
                           /\ Bandwidth(PermuteMatrix(m, p)) <= Bandwidth(m)
====
