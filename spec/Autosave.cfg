SPECIFICATION Spec
INVARIANT AdvertisedLoadable
INVARIANT SaveAdvertisesNew
