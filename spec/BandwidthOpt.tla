---- MODULE BandwidthOpt ----
(* C32, optimiser.  MECHANISM: emu_mps/optimatrix/optimiser.py
     minimize_bandwidth(A):  candidates = [impl(|A|, start) for start in [identity] + random starts]
                             best = min(candidates, key = bandwidth)      (first minimal one)
                             assert best.bandwidth <= bandwidth(A);  return best.perm
     minimize_bandwidth_impl(M, start):  M <- P(M, start); acc <- start; bw <- bandwidth(M)
                             loop:  opt <- minimize_bandwidth_global(M)     -- reverse Cuthill-McKee over thresholds
                                    if bw <= bandwidth(P(M, opt)): break
                                    M <- P(M, opt); acc <- acc[opt]; bw <- bandwidth(P(M, opt))
   The reverse Cuthill-McKee step is an ENVIRONMENT here: it may answer ANY permutation (so the result
   does not depend on scipy being clever, only on the bookkeeping around it).
   REQUIREMENT (C32): the returned value is a permutation of all atoms and the weighted bandwidth of
   the permuted matrix is no larger than the original one's.
   ReturnBest = FALSE is the seeded fault "return the last candidate instead of the best".            *)
EXTENDS Perm, Sequences
CONSTANTS N, Vals, ReturnBest
VARIABLES A, starts, k, acc, mat, bw, cands, pc, result
vars == <<A, starts, k, acc, mat, bw, cands, pc, result>>

PermsN == Perms(N)
Pairs == {<<i, j>> \in Idx(N) \X Idx(N) : i < j}
SymOf(f) == [i \in Idx(N) |-> [j \in Idx(N) |-> IF i = j THEN 0 ELSE IF i < j THEN f[<<i, j>>] ELSE f[<<j, i>>]]]

Init == /\ \E f \in [Pairs -> Vals] : A = SymOf(f)
        /\ \E r \in PermsN : starts = <<EyePermutation(N), r>>        \* identity first, then a "random" start
        /\ k = 1 /\ acc = <<>> /\ mat = <<>> /\ bw = 0 /\ cands = <<>> /\ pc = "start" /\ result = <<>>

\* minimize_bandwidth_impl, before the loop
ImplStart == /\ pc = "start"
             /\ LET m == IF starts[k] # EyePermutation(N) THEN PermuteMatrix(A, starts[k]) ELSE A
                IN mat' = m /\ bw' = Bandwidth(m)
             /\ acc' = starts[k] /\ pc' = "loop" /\ UNCHANGED <<A, starts, k, cands, result>>
\* one pass of the loop; `opt` is whatever minimize_bandwidth_global answers
ImplRound == /\ pc = "loop"
             /\ \E opt \in PermsN :
                  LET test == PermuteMatrix(mat, opt)
                      nb   == Bandwidth(test)
                  IN IF bw <= nb
                     THEN /\ cands' = Append(cands, <<acc, bw>>) /\ pc' = "next" /\ UNCHANGED <<mat, acc, bw>>
                     ELSE /\ mat' = test /\ acc' = PermuteVector(acc, opt) /\ bw' = nb /\ UNCHANGED <<cands, pc>>
             /\ UNCHANGED <<A, starts, k, result>>
NextStart == /\ pc = "next"
             /\ IF k < Len(starts) THEN k' = k + 1 /\ pc' = "start" ELSE k' = k /\ pc' = "pick"
             /\ UNCHANGED <<A, starts, acc, mat, bw, cands, result>>
\* min(candidates, key = bandwidth): the first candidate of minimal bandwidth
BestIndex == CHOOSE i \in 1..Len(cands) : /\ \A j \in 1..Len(cands) : cands[i][2] <= cands[j][2]
                                           /\ \A h \in 1..(i - 1) : cands[h][2] > cands[i][2]
Pick == /\ pc = "pick"
        /\ LET i == IF ReturnBest THEN BestIndex ELSE Len(cands)
           IN IF cands[i][2] <= Bandwidth(A)                          \* the code's own assert
              THEN result' = cands[i][1] /\ pc' = "done"
              ELSE result' = <<>> /\ pc' = "assert_failed"
        /\ UNCHANGED <<A, starts, k, acc, mat, bw, cands>>
Next == ImplStart \/ ImplRound \/ NextStart \/ Pick
Spec == Init /\ [][Next]_vars /\ WF_vars(Next)

\* ---------------------------------------------------------------- bookkeeping lemmas
AccTracks == pc = "loop" => (IsPerm(acc, N) /\ mat = PermuteMatrix(A, acc) /\ bw = Bandwidth(mat))
CandidatesHonest == \A i \in 1..Len(cands) : /\ IsPerm(cands[i][1], N)
                                             /\ cands[i][2] = Bandwidth(PermuteMatrix(A, cands[i][1]))
                                             /\ cands[i][2] <= Bandwidth(PermuteMatrix(A, starts[i]))
\* ---------------------------------------------------------------- requirement (C32)
Contract == pc = "done" => OptimiserContract(A, result)
NeverRaises == pc # "assert_failed"
Terminates == <>(pc \in {"done", "assert_failed"})
====
