---- MODULE SVObjects ----
(* C12.  emu-sv's state / operator objects built from Pulser's abstract representation.
   MECHANISM (transcribed):
     StateVector._from_state_amplitudes    idx = int(s.replace("r","1").replace("g","0"), 2)  (positional parse),
                                           data[idx] = amplitude   (normalisation is numeric: harness side)
     DensityMatrix.from_state_vector       outer(psi, conj(psi))
     DenseOperator._from_operator_repr     literal 2x2 tables for "gg","gr","rg","rr"; QuditOp = weighted sum;
                                           gates = [I]*n; for (op, targets): for t in targets: gates[t] = op;
                                           accum += coeff * reduce(kron, gates)        (kron by its index formula)
     SparseOperator._from_operator_repr    the same with COO tensors: sparse_kron (index formula
                                           sb * a.indices + b.indices, outer product of values), sparse_add
                                           (concatenate + coalesce)
   REQUIREMENT (on level strings, never on flat indices):
     basis string s  |->  index sum_q lvl(s_q) 2^(N-1-q),  lvl(g) = 0, lvl(r) = 1, a bijection;
     <s| coeff * (x)_q G_q |t> = coeff * prod_q G_q[lvl(s_q)][lvl(t_q)],  G_q = sum c_ab |a><b| for the
     QuditOp given to q, identity for untouched qubits;  FullOp = sum of its terms;  dense == sparse;
     rho = |psi><psi|.                                                                               *)
EXTENDS Gauss, TLC
CONSTANTS NQ,         \* qubits
          QuditOps,   \* alphabet of single-qubit operators: sets of <<a, b, coef>>, a, b in {"g","r"}, coef Gaussian
          Coefs,      \* Gaussian coefficients of tensor terms
          MaxParts,   \* at most this many (QuditOp, targets) entries per tensor term
          SecondTerms \* set of tensor terms allowed as the second summand of a FullOp
VARIABLES bucket, kind, obj, out
vars == <<bucket, kind, obj, out>>

D == Pow2(NQ)
Idx == 0..D-1
Q == 0..NQ-1
Letters == {"g", "r"}
Strings == [1..NQ -> Letters]               \* basis strings, qubit 0 first

\* ------------------------------------------------------------------------------ requirement
Lvl(a) == IF a = "r" THEN 1 ELSE 0
RECURSIVE IndexFrom(_, _)
IndexFrom(s, q) == IF q = NQ THEN 0 ELSE Lvl(s[q + 1]) * Pow2(NQ - 1 - q) + IndexFrom(s, q + 1)
IndexReq(s) == IndexFrom(s, 0)
StringOf(i) == CHOOSE s \in Strings : IndexReq(s) = i
IndexBijection == /\ \A i \in Idx : \E s \in Strings : IndexReq(s) = i
                  /\ \A s, t \in Strings : IndexReq(s) = IndexReq(t) => s = t
ASSUME IndexBijection

RECURSIVE GSumSet(_)                          \* sum of the 3rd components of a set of <<x, y, g>>
GSumSet(S) == IF S = {} THEN GZero ELSE LET e == CHOOSE x \in S : TRUE IN GAdd(e[3], GSumSet(S \ {e}))
QOEntry(qo, a, b) == GSumSet({e \in qo : e[1] = a /\ e[2] = b})                 \* <a| G |b>
IdQO == {<<"g", "g", GOne>>, <<"r", "r", GOne>>}     \* untouched qubits carry the identity
GateReq(top, q) ==                              \* the QuditOp given to qubit q
  IF \E k \in 1..Len(top) : q \in top[k][2] THEN top[CHOOSE k \in 1..Len(top) : q \in top[k][2]][1] ELSE IdQO
GateEntry(g, a, b) == QOEntry(g, a, b)
RECURSIVE ProdQ(_, _, _, _)
ProdQ(top, s, t, q) == IF q = NQ THEN GOne ELSE GMul(GateEntry(GateReq(top, q), s[q + 1], t[q + 1]), ProdQ(top, s, t, q + 1))
TermEntry(term, s, t) == GMul(term[1], ProdQ(term[2], s, t, 0))
RECURSIVE FullEntry(_, _, _, _)
FullEntry(fop, s, t, k) == IF k = 0 THEN GZero ELSE GAdd(TermEntry(fop[k], s, t), FullEntry(fop, s, t, k - 1))
OpReq(fop) == TLCEval([r \in Idx |-> [c \in Idx |-> FullEntry(fop, StringOf(r), StringOf(c), Len(fop))]])
\* amplitudes: set of <<string, coef>> with distinct strings
StateReq(amps) == TLCEval([i \in Idx |-> IF \E a \in amps : a[1] = StringOf(i) THEN (CHOOSE a \in amps : a[1] = StringOf(i))[2] ELSE GZero])
DMReq(amps) == LET psi == StateReq(amps) IN TLCEval([r \in Idx |-> [c \in Idx |-> GMul(psi[r], GConj(psi[c]))]])

\* ------------------------------------------------------------------------------ mechanism: states
RECURSIVE ParseBinary(_, _, _)                 \* int("1011", 2): most significant digit first
ParseBinary(s, k, acc) == IF k > Len(s) THEN acc ELSE ParseBinary(s, k + 1, 2 * acc + (IF s[k] = "r" THEN 1 ELSE 0))
RECURSIVE FillState(_, _)                      \* accum_state.data[bin_to_int] = amplitude, for every item
FillState(vec, amps) == IF amps = {} THEN vec
                        ELSE LET a == CHOOSE x \in amps : TRUE IN FillState([vec EXCEPT ![ParseBinary(a[1], 1, 0)] = a[2]], amps \ {a})
StateMech(amps) == FillState([i \in Idx |-> GZero], amps)
DMMech(amps) == LET psi == StateMech(amps) IN TLCEval([r \in Idx |-> [c \in Idx |-> GMul(psi[r], GConj(psi[c]))]])     \* torch.outer(psi, psi.conj())

\* ------------------------------------------------------------------------------ mechanism: dense operator
\* the literal tables of _from_operator_repr
Table(a, b) == CASE a = "g" /\ b = "g" -> MUnit(2, 0, 0)
                 [] a = "r" /\ b = "g" -> MUnit(2, 1, 0)
                 [] a = "g" /\ b = "r" -> MUnit(2, 0, 1)
                 [] a = "r" /\ b = "r" -> MUnit(2, 1, 1)
RECURSIVE BuildQO(_, _)                        \* result += tensor * coeff  over the items of the QuditOp
BuildQO(acc, qo) == IF qo = {} THEN acc
                    ELSE LET e == CHOOSE x \in qo : TRUE IN BuildQO(MAdd(2, acc, MScale(2, e[3], Table(e[1], e[2]))), qo \ {e})
RECURSIVE AssignTargets(_, _, _)               \* for t in targets: gates[t] = factor
AssignTargets(gates, fac, ts) == IF ts = {} THEN gates
                                 ELSE LET t == CHOOSE x \in ts : TRUE IN AssignTargets([gates EXCEPT ![t + 1] = fac], fac, ts \ {t})
RECURSIVE Gates(_, _, _)                       \* for (op, targets) in tensor term, in order
Gates(gates, top, k) == IF k > Len(top) THEN gates
                        ELSE Gates(AssignTargets(gates, BuildQO(MZero(2), top[k][1]), top[k][2]), top, k + 1)
\* torch.kron(A, B)[i*rb + k, j*cb + l] = A[i, j] * B[k, l]      (A: da x da, B: db x db)
Kron(da, A, db, B) == TLCEval([r \in 0..(da * db - 1) |-> [c \in 0..(da * db - 1) |-> GMul(A[r \div db][c \div db], B[r % db][c % db])]])
RECURSIVE ReduceKron(_, _, _, _)               \* functools.reduce(torch.kron, gates): left fold
ReduceKron(acc, dacc, gates, k) == IF k > Len(gates) THEN acc ELSE ReduceKron(Kron(dacc, acc, 2, gates[k]), 2 * dacc, gates, k + 1)
TermDense(term) == LET gs == Gates([q \in 1..NQ |-> MId(2)], term[2], 1) IN MScale(D, term[1], ReduceKron(gs[1], 2, gs, 2))
RECURSIVE DenseMech(_, _)
DenseMech(fop, k) == IF k = 0 THEN MZero(D) ELSE MAdd(D, DenseMech(fop, k - 1), TermDense(fop[k]))

\* ------------------------------------------------------------------------------ mechanism: sparse operator
\* a COO tensor: sequence of <<row, col, value>> (possibly with repeated positions until coalesced)
RECURSIVE SeqOfSet(_)
SeqOfSet(S) == IF S = {} THEN <<>> ELSE LET e == CHOOSE x \in S : \A y \in S : (x[1] < y[1] \/ (x[1] = y[1] /\ x[2] <= y[2])) IN <<e>> \o SeqOfSet(S \ {e})
Positions(coo) == {<<coo[k][1], coo[k][2]>> : k \in 1..Len(coo)}
ValueAt(coo, p) == GSumSeq([k \in 1..Len(coo) |-> IF coo[k][1] = p[1] /\ coo[k][2] = p[2] THEN coo[k][3] ELSE GZero], Len(coo))
Coalesce(coo) == SeqOfSet({<<p[1], p[2], ValueAt(coo, p)>> : p \in Positions(coo)})      \* sorted, duplicates summed
ToCoo(d, M) == SeqOfSet({<<r, c, M[r][c]>> : r \in 0..d-1, c \in 0..d-1} \ {<<r, c, GZero>> : r \in 0..d-1, c \in 0..d-1})   \* .to_sparse_coo()
ScaleCoo(z, coo) == [k \in 1..Len(coo) |-> <<coo[k][1], coo[k][2], GMul(z, coo[k][3])>>]
\* sparse_add: cat indices, cat values, coalesce
SparseAdd(x, y) == Coalesce(x \o y)
\* sparse_kron: i = sb * a.indices + b.indices (both coalesced), v = outer(a.values, b.values).flatten()
SparseKron(x, sbr, sbc, y) ==
  LET a == Coalesce(x)  b == Coalesce(y) IN
  [k \in 1..(Len(a) * Len(b)) |->
     LET ea == a[((k - 1) \div Len(b)) + 1]  eb == b[((k - 1) % Len(b)) + 1] IN
     <<sbr * ea[1] + eb[1], sbc * ea[2] + eb[2], GMul(ea[3], eb[3])>>]
RECURSIVE BuildQOSparse(_, _)                  \* result += tensor * coeff on COO tensors
BuildQOSparse(acc, qo) == IF qo = {} THEN acc
                          ELSE LET e == CHOOSE x \in qo : TRUE IN BuildQOSparse(acc \o ScaleCoo(e[3], ToCoo(2, Table(e[1], e[2]))), qo \ {e})
RECURSIVE GatesSparse(_, _, _)
GatesSparse(gates, top, k) == IF k > Len(top) THEN gates
                              ELSE GatesSparse(AssignTargets(gates, BuildQOSparse(<<>>, top[k][1]), top[k][2]), top, k + 1)
RECURSIVE ReduceSparseKron(_, _, _)
ReduceSparseKron(acc, gates, k) == IF k > Len(gates) THEN acc ELSE ReduceSparseKron(SparseKron(acc, 2, 2, gates[k]), gates, k + 1)
TermSparse(term) == LET gs == GatesSparse([q \in 1..NQ |-> ToCoo(2, MId(2))], term[2], 1) IN ScaleCoo(term[1], ReduceSparseKron(gs[1], gs, 2))
RECURSIVE SparseMech(_, _)
SparseMech(fop, k) == IF k = 0 THEN <<>> ELSE SparseAdd(SparseMech(fop, k - 1), TermSparse(fop[k]))
Densify(coo) == TLCEval([r \in Idx |-> [c \in Idx |-> ValueAt(coo, <<r, c>>)]])

\* ------------------------------------------------------------------------------ what is enumerated
Targets == (SUBSET Q) \ {{}}
Parts1 == {<<<<g, ts>>>> : g \in QuditOps, ts \in Targets}
Parts2 == {<<<<g1, t1>>, <<g2, t2>>>> : g1 \in QuditOps, g2 \in QuditOps, t1 \in Targets, t2 \in Targets}
PartsOK(top) == \A a, b \in 1..Len(top) : a # b => top[a][2] \cap top[b][2] = {}        \* Pulser: mutually exclusive target sets
Parts3 == IF NQ >= 3 THEN {<<<<g1, {0}>>, <<g2, {1}>>, <<g3, {2}>>>> : g1 \in QuditOps, g2 \in QuditOps, g3 \in QuditOps} ELSE {}
TensorOps == {<<>>} \cup Parts1 \cup (IF MaxParts >= 2 THEN {t \in Parts2 : PartsOK(t)} ELSE {}) \cup (IF MaxParts >= 3 THEN Parts3 ELSE {})
FullOps == {<<<<c, t>>>> : c \in Coefs, t \in TensorOps} \cup {<<<<c, t>>, s>> : c \in Coefs, t \in Parts1, s \in SecondTerms}
AmpSets == {{<<s, c>>} : s \in Strings, c \in Coefs}
           \cup {{<<p[1], GOne>>, <<p[2], c>>} : p \in {x \in Strings \X Strings : x[1] # x[2]}, c \in Coefs}

\* `bucket` only splits the enumeration into independent initial states (so TLC's workers share it)
Bucket(f) == <<f[1][1], IF Len(f[1][2]) = 0 THEN {} ELSE f[1][2][1][1]>>
Init == bucket \in Coefs \X (QuditOps \cup {{}}) /\ kind = "none" /\ obj = <<>> /\ out = <<>>
BuildState == /\ kind = "none" /\ bucket[2] = {}
              /\ \E a \in {x \in AmpSets : \E e \in x : e[2] = bucket[1]} : obj' = a /\ out' = <<StateMech(a), DMMech(a)>>
              /\ kind' = "state" /\ UNCHANGED bucket
BuildOp == /\ kind = "none"
           /\ \E f \in {x \in FullOps : Bucket(x) = bucket} : obj' = f /\ out' = <<DenseMech(f, Len(f)), SparseMech(f, Len(f))>>
           /\ kind' = "op" /\ UNCHANGED bucket
Next == BuildState \/ BuildOp
Spec == Init /\ [][Next]_vars

\* ------------------------------------------------------------------------------ what TLC checks (mechanism |= requirement)
ParseIsIndex == \A s \in Strings : ParseBinary(s, 1, 0) = IndexReq(s)
ASSUME ParseIsIndex
StateOK == kind = "state" => out[1] = StateReq(obj)
DMOK == kind = "state" => out[2] = DMReq(obj)
DenseOK == kind = "op" => out[1] = OpReq(obj)
SparseOK == kind = "op" => Densify(out[2]) = OpReq(obj)
SparseCoalesced == kind = "op" => Cardinality(Positions(out[2])) = Len(out[2])           \* the final COO tensor has no repeated position
\* binding (ACTION_CONSTRAINT): every enumerated object with the requirement's entries
LogBuild ==
  /\ (kind' = "state") => PrintT(<<"ST", obj', {<<i, StateReq(obj')[i][1], StateReq(obj')[i][2]>> : i \in {x \in Idx : StateReq(obj')[x] # GZero}}>>)
  /\ (kind' = "op") => PrintT(<<"OP", obj', Entries(D, OpReq(obj'))>>)
====
