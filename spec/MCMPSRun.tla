---- MODULE MCMPSRun ----
EXTENDS MPSRun
====
