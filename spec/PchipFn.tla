---- MODULE PchipFn ----
(* MECHANISM of C20 / C22: emu_base/math/pchip_torch.py transcribed operator by operator as pure
   functions over exact rationals (secants, _weighted_harmonic_mean, _endpoint_slope,
   _limit_endpoint, _pchip_derivatives, _polynomial_coeffs, _interval_index, __call__), plus the
   REFERENCE definition of the standard PCHIP interpolant in Hermite-basis form (StdEvalFn) that the
   requirements of Pchip.tla and DriveSampling.tla compare against.
   v = "code"     : the end-slope limiter as the code writes it  (d_end * s_l < 0 ; s_l * s_r < 0)
   v = "standard" : the limiter of the standard method           (sign(d) # sign(s_l) ; sign(s_l) # sign(s_r)) *)
EXTENDS Rat, Sequences, FiniteSets
Two == R(2)
Three == R(3)

\* ------------------------------------------------------------------------------- mechanism
\* _weighted_harmonic_mean(delta_l, delta_r, h_l, h_r)
WHMean(dl, dr, hl, hr) ==
   LET wl == Add(hl, Mul(Two, hr))
       wr == Add(Mul(Two, hl), hr)
   IN Div(Add(wl, wr), Add(Div(wl, dl), Div(wr, dr)))
\* _endpoint_slope(delta_l, delta_r, h_l, h_r)
EndSlope(dl, dr, hl, hr) == Div(Sub(Mul(Add(Mul(Two, hl), hr), dl), Mul(hl, dr)), Add(hl, hr))
\* _limit_endpoint(d_end, s_l, s_r) as written in the code
LimitCode(de, sl, sr) ==
   LET d1 == IF Sgn(Mul(de, sl)) < 0 THEN R(0) ELSE de                    \* mask_sign_change = d_end * s_l < 0
       cap == Sgn(Mul(sl, sr)) < 0 /\ Lt(Mul(Three, RAbs(sl)), RAbs(d1))   \* (s_l * s_r < 0) & (|d| > 3|s_l|)
   IN IF cap THEN Mul(Three, sl) ELSE d1
\* the limiter of the standard method (Moler pchipend, SciPy _edge_case)
LimitStd(de, sl, sr) ==
   IF Sgn(de) # Sgn(sl) THEN R(0)
   ELSE IF Sgn(sl) # Sgn(sr) /\ Lt(Mul(Three, RAbs(sl)), RAbs(de)) THEN Mul(Three, sl) ELSE de
Limit(v, de, sl, sr) == IF v = "code" THEN LimitCode(de, sl, sr) ELSE LimitStd(de, sl, sr)
\* _pchip_derivatives(h, delta)
Derivs(v, hh, dl) ==
   LET n == Len(hh) + 1 IN
   IF n = 2 THEN <<dl[1], dl[1]>>                                           \* two points: straight line
   ELSE [i \in 1..n |->
          IF i = 1 THEN Limit(v, EndSlope(dl[1], dl[2], hh[1], hh[2]), dl[1], dl[2])
          ELSE IF i = n THEN Limit(v, EndSlope(dl[n-1], dl[n-2], hh[n-1], hh[n-2]), dl[n-1], dl[n-2])
          ELSE IF Sgn(Mul(dl[i-1], dl[i])) > 0                               \* mask_same_sign
               THEN WHMean(dl[i-1], dl[i], hh[i-1], hh[i]) ELSE R(0)]
\* _polynomial_coeffs(y, h, delta, d): <<p0, p1, p2, p3>> per interval
Coeffs(yy, hh, dl, dd) ==
   [i \in 1..Len(hh) |->
      <<yy[i], dd[i],
        Div(Sub(Sub(Mul(Three, dl[i]), Mul(Two, dd[i])), dd[i+1]), hh[i]),
        Div(Sub(Add(dd[i], dd[i+1]), Mul(Two, dl[i])), Mul(hh[i], hh[i]))>>]
\* knot abscissae (x[1] = 0)
RECURSIVE XAt(_, _)
XAt(hh, i) == IF i = 1 THEN R(0) ELSE Add(XAt(hh, i-1), hh[i-1])
\* _interval_index: searchsorted(x, q, right=True) - 1, clamped to [0, n-2]   (here 1-based)
Idx(xs, q) ==
   LET n == Len(xs)
       k == Cardinality({j \in 1..n : Le(xs[j], q)})
   IN IF k < 1 THEN 1 ELSE IF k > n - 1 THEN n - 1 ELSE k
\* __call__: Horner form in t = q - x[i]
Eval(xs, cc, q) ==
   LET i == Idx(xs, q)
       t == Sub(q, xs[i])
       c == cc[i]
   IN Add(c[1], Mul(t, Add(c[2], Mul(t, Add(c[3], Mul(t, c[4]))))))
EvalOn(cc, i, t) == LET c == cc[i] IN Add(c[1], Mul(t, Add(c[2], Mul(t, Add(c[3], Mul(t, c[4]))))))
DerOn(cc, i, t) == LET c == cc[i] IN Add(c[2], Add(Mul(Mul(Two, c[3]), t), Mul(Mul(Three, c[4]), Mul(t, t))))


\* ------------------------------------------------------------------------------- reference (standard PCHIP)
SecantsOf(hh, yy) == [i \in 1..Len(hh) |-> Div(Sub(yy[i+1], yy[i]), hh[i])]
StdSlopes(hh, yy) == Derivs("standard", hh, SecantsOf(hh, yy))
StdIdxFn(xs, q) ==   \* interval containing q; first / last interval outside the knot range
   LET n == Len(xs) IN
   IF Le(q, xs[1]) THEN 1
   ELSE IF Le(xs[n], q) THEN n - 1
   ELSE CHOOSE i \in 1..(n-1) : Le(xs[i], q) /\ Lt(q, xs[i+1])
StdEvalFn(xs, hh, yy, sd, q) ==  \* Hermite basis form
   LET i == StdIdxFn(xs, q)
       s == Div(Sub(q, xs[i]), hh[i])
       om == Sub(R(1), s)
       h00 == Mul(Add(R(1), Mul(Two, s)), Mul(om, om))
       h10 == Mul(s, Mul(om, om))
       h01 == Mul(Mul(s, s), Sub(Three, Mul(Two, s)))
       h11 == Mul(Mul(s, s), Sub(s, R(1)))
   IN Add(Add(Mul(h00, yy[i]), Mul(Mul(h10, hh[i]), sd[i])),
          Add(Mul(h01, yy[i+1]), Mul(Mul(h11, hh[i]), sd[i+1])))
====
