---- MODULE MCObsSchedule ----
(* constant wrappers for ObsSchedule: ticks of 0.25 ns, TolP = 2 ticks (0.5 ns).
   Pool of requestable points for (D, g): 0, a multiple g of dt (or the middle when dt >= D), a point
   0.25 ns after it (inside Pulser's tolerance), a point 1 ns after it (outside), 0.25 ns before the
   end, the end.  No two pool points are exactly 0.5 ns apart (the float comparison at the boundary
   is not decided by the statement).  Two observables, each with own times (1..2 pool points) or
   none; 1..2 default times.                                                                       *)
EXTENDS ObsSchedule
Pool(D, g) == {0, g, g + 1, g + 4, D - 1, D}
Sub12(P) == {E \in SUBSET P : Cardinality(E) >= 1 /\ Cardinality(E) <= 2}
ObsChoices(P) == {[has |-> FALSE, own |-> {}]} \cup {[has |-> TRUE, own |-> E] : E \in Sub12(P)}
Scn(D, dt, g, DfltMax) ==
   LET OC == ObsChoices(Pool(D, g))
       DC == {E \in Sub12(Pool(D, g)) : Cardinality(E) <= DfltMax}
   IN {[D |-> D, dt |-> dt, obs |-> <<a, b>>, dflt |-> d] : a \in OC, b \in OC, d \in DC}
cA == Scn(16, 6, 6, 2)      \* 4 ns, dt 1.5 ns (does not divide)
cB == Scn(12, 4, 4, 2)      \* 3 ns, dt 1 ns (divides; the "far" point is a multiple of dt)
cC == Scn(40, 40, 20, 2)    \* 10 ns, dt = duration
cD == Scn(16, 20, 8, 2)     \* 4 ns, dt 5 ns > duration
cB1 == Scn(12, 4, 4, 1)
cQuick == Scn(16, 6, 6, 1) \cup cB1
cAll == cA \cup cB \cup cC \cup cD
====
