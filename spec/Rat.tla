---- MODULE Rat ----
(* Exact rationals <<n, d>> with d > 0, normalised by GCD.  TLC integers are 32-bit and TLC raises
   on overflow, so an overflow is loud (machinery failure), never a silent wrong answer. *)
EXTENDS Integers
RECURSIVE GCD(_,_)
GCD(a,b) == IF b = 0 THEN a ELSE GCD(b, a % b)
IAbs(x) == IF x < 0 THEN -x ELSE x
Norm(n,d) == LET s == IF d < 0 THEN -1 ELSE 1
                 g == GCD(IAbs(n), IAbs(d))
             IN IF n = 0 THEN <<0,1>> ELSE <<(s*n) \div g, (s*d) \div g>>
R(n) == <<n,1>>
Q(n,d) == Norm(n,d)
\* cross-reduced arithmetic: intermediates stay as small as the results allow (32-bit TLC integers)
Add(x,y) == LET g == GCD(x[2], y[2]) IN Norm(x[1]*(y[2] \div g) + y[1]*(x[2] \div g), (x[2] \div g)*y[2])
Neg(x) == <<-x[1], x[2]>>
Sub(x,y) == Add(x, Neg(y))
Mul(x,y) == IF x[1] = 0 \/ y[1] = 0 THEN <<0,1>>
            ELSE LET g1 == GCD(IAbs(x[1]), y[2])
                     g2 == GCD(IAbs(y[1]), x[2])
                 IN <<(x[1] \div g1)*(y[1] \div g2), (x[2] \div g2)*(y[2] \div g1)>>
Inv(y) == IF y[1] < 0 THEN <<-y[2], -y[1]>> ELSE <<y[2], y[1]>>
Div(x,y) == Mul(x, Inv(y))
Lt(x,y) == LET g == GCD(x[2], y[2]) IN x[1]*(y[2] \div g) < y[1]*(x[2] \div g)
Le(x,y) == LET g == GCD(x[2], y[2]) IN x[1]*(y[2] \div g) <= y[1]*(x[2] \div g)
RAbs(x) == <<IAbs(x[1]), x[2]>>
Sgn(x) == IF x[1] > 0 THEN 1 ELSE IF x[1] < 0 THEN -1 ELSE 0
Half(x) == Div(x, R(2))
RMin(x,y) == IF Le(x,y) THEN x ELSE y
RMax(x,y) == IF Le(x,y) THEN y ELSE x
====
