---- MODULE MCInteraction ----
(* constant wrappers for Interaction: all magnitude-class assignments (user matrix: below / equal /
   above the cutoff per pair; register: below / above), both interaction types, every SLM mask subset,
   mask end on a step boundary (2), inside a step (3), at the end of the sequence (6) or no mask (0),
   both backends' query rules; three steps 0-2-4-6.                                                *)
EXTENDS Interaction
ClsSets(c) == IF c THEN [UPairs -> {"below", "equal", "above"}] ELSE [UPairs -> {"below", "above"}]
Ends(m) == IF m = {} THEN {0} ELSE {2, 3, 6}
cScn == UNION {UNION {{[custom |-> c, htype |-> h, cls |-> f, mask |-> m, slmEnd |-> e, T |-> <<0, 2, 4, 6>>, backend |-> b] :
                         f \in ClsSets(c), e \in Ends(m), h \in {"ising", "xy"}, b \in {"sv", "mps"}} : m \in SUBSET Atoms} : c \in BOOLEAN}
====
