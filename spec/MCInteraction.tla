---- MODULE MCInteraction ----
(* constant wrappers for Interaction: all magnitude-class assignments (user matrix: below / equal /
   above the cutoff per pair; register: below / above), both interaction types, every SLM mask subset,
   mask end on a step boundary (2), inside a step (3), at the end of the sequence (6) or no mask (0),
   both backends' query rules; a regular grid 0-2-4-6 and an irregular one 0-1-2-4-5-6 (off-grid
   evaluation times before and after the mask end).                                                *)
EXTENDS Interaction
(* scenario sets are FILTERS over a record product (TLC enumerates those lazily; a big UNION of record
   sets is normalised first, which is quadratic) *)
AllRecords == [custom : BOOLEAN, htype : {"ising", "xy"}, cls : [UPairs -> {"below", "equal", "above"}], mask : SUBSET Atoms,
               slmEnd : {0, 2, 3, 6}, T : {<<0, 2, 4, 6>>, <<0, 1, 2, 4, 5, 6>>}, backend : {"sv", "mps"}]
NEqual(f) == Cardinality({p \in UPairs : f[p] = "equal"})
MaskEndOK(s) == (s.mask = {}) = (s.slmEnd = 0)
cScn == {s \in AllRecords : MaskEndOK(s) /\ (~s.custom => NEqual(s.cls) = 0)}
(* N = 4 (thorough tier): every below / above assignment of the six pairs, for a user matrix also every
   assignment with exactly one pair equal to the cutoff; Rydberg interaction; every mask subset *)
cScn4 == {s \in AllRecords : MaskEndOK(s) /\ s.T = <<0, 2, 4, 6>> /\ s.htype = "ising" /\ NEqual(s.cls) <= (IF s.custom THEN 1 ELSE 0)}
====
