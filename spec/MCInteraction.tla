---- MODULE MCInteraction ----
(* constant wrappers for Interaction: all magnitude-class assignments (user matrix: below / equal /
   above the cutoff per pair; register: below / above), both interaction types, every SLM mask subset,
   mask end on a step boundary (2), inside a step (3), at the end of the sequence (6) or no mask (0),
   both backends' query rules; three steps 0-2-4-6.                                                *)
EXTENDS Interaction
ClsSets(c) == IF c THEN [UPairs -> {"below", "equal", "above"}] ELSE [UPairs -> {"below", "above"}]
Ends(m) == IF m = {} THEN {0} ELSE {2, 3, 6}
cScn == UNION {UNION {{[custom |-> c, htype |-> h, cls |-> f, mask |-> m, slmEnd |-> e, T |-> <<0, 2, 4, 6>>, backend |-> b] :
                         f \in ClsSets(c), e \in Ends(m), h \in {"ising", "xy"}, b \in {"sv", "mps"}} : m \in SUBSET Atoms} : c \in BOOLEAN}
(* N = 4 (thorough tier): every below / above assignment of the six pairs, for a user matrix also every
   assignment with exactly one pair equal to the cutoff; Rydberg interaction; every mask subset *)
OneEqual == {f \in [UPairs -> {"below", "equal", "above"}] : Cardinality({p \in UPairs : f[p] = "equal"}) = 1}
ClsSets4(c) == [UPairs -> {"below", "above"}] \cup (IF c THEN OneEqual ELSE {})
cScn4 == UNION {UNION {{[custom |-> c, htype |-> "ising", cls |-> f, mask |-> m, slmEnd |-> e, T |-> <<0, 2, 4, 6>>, backend |-> b] :
                         f \in ClsSets4(c), e \in Ends(m), b \in {"sv", "mps"}} : m \in SUBSET Atoms} : c \in BOOLEAN}
====
