---- MODULE Interaction ----
(* C23 -- the interaction matrix follows the register, the cutoff, the user matrix and the SLM schedule.

   Entries are SYMBOLIC: <<"c", i, j>> is entry (i,j) of the user-supplied matrix, <<"r", i, j>> the
   register interaction of atoms i and j (i < j in both: the sources are symmetric), Zero is 0.
   Each unordered pair has a magnitude class relative to the cutoff: "below", "equal", "above".
   Times are integer ticks; query times are carried DOUBLED (tq2 = 2 * t) so that the midpoint of a
   step is an integer.  The diagonal is not modelled: neither backend reads it (checked on the real
   code by the driver: zero for register matrices, without effect for user matrices).

   MECHANISM   PulserData.get_sequences (source selection, clone, cutoff `abs(x) < cutoff -> 0`, SLM
               mask: rows then columns of every masked atom set to 0), _InteractionMatrixCallable
               (`t < slm_end_time` -> masked else full) and the time at which each backend step asks
               for the matrix (emu-sv _evolve_step: start of the step; emu-mps: midpoint of the first
               step in init_noiseless_hamiltonian, then the start of each later step in
               timestep_complete, where target_time has not been advanced yet).
   REQUIREMENT (statement of C23) symmetric; from the user matrix if given else the register; below
               the cutoff -> 0, others unchanged; before the mask ends every entry of a masked atom
               is 0, afterwards the full matrix; every step asks inside its own interval, so steps
               entirely before / after the mask end use the masked / full matrix (a step that
               straddles the end may use either).                                                  *)
EXTENDS Integers, Sequences, FiniteSets, TLC

CONSTANTS N,            \* number of atoms
          Scenarios,    \* set of [custom, htype, cls: [pair -> class], mask: SUBSET 1..N, slmEnd, T: times, backend]
          Variant,      \* "code", or a seeded mutant of the mechanism used as a self-test of the requirement:
                        \* "cut_le" (cutoff with <=), "slm_le" (callable with <=), "rows" (mask rows only),
                        \* "cache_first" (the register matrix of the first noise trajectory is kept and reused for the
                        \* later ones: with register noise every trajectory has its own, shaken, register)
          LogResult

VARIABLES sc, pc, full, masked, k, used, tq2,
          traj,         \* noise trajectory being prepared / run (1..NTraj); register entries of trajectory 2 carry the tag "r2"
          cache         \* "cache_first" only: the register matrix remembered from an earlier trajectory (NoMatrix = none)
vars == <<sc, pc, full, masked, k, used, tq2, traj, cache>>
NTraj == 2

Atoms == 1..N
Zero == <<"z", 0, 0>>
OPairs == {p \in Atoms \X Atoms : p[1] # p[2]}                 \* ordered pairs = off-diagonal matrix positions
UPair(p) == IF p[1] < p[2] THEN <<p[1], p[2]>> ELSE <<p[2], p[1]>>
UPairs == {p \in Atoms \X Atoms : p[1] < p[2]}

-----------------------------------------------------------------------------------------------
(* REQUIREMENT: the matrices the statement asks for *)
RegTag(tr) == IF tr = 1 THEN "r" ELSE "r2"
SourceT(s, p, tr) == <<IF s.custom THEN "c" ELSE RegTag(tr), UPair(p)[1], UPair(p)[2]>>     \* the user matrix is the same for all trajectories
ExpFullT(s, tr)   == [p \in OPairs |-> IF s.cls[UPair(p)] = "below" THEN Zero ELSE SourceT(s, p, tr)]
ExpMaskedT(s, tr) == [p \in OPairs |-> IF p[1] \in s.mask \/ p[2] \in s.mask THEN Zero ELSE ExpFullT(s, tr)[p]]
Source(s, p) == SourceT(s, p, 1)
ExpFull(s)   == ExpFullT(s, 1)
ExpMasked(s) == ExpMaskedT(s, 1)
Symmetric(m) == \A p \in OPairs : m[p] = m[<<p[2], p[1]>>]
(* the matrix a query at doubled time t2 must return; at t = slmEnd exactly the direct query is not
   decided by the statement, the step-level requirement below decides what matters *)
DirectOK(s, tr, t2, m) == /\ (t2 < 2 * s.slmEnd => m = ExpMaskedT(s, tr))
                          /\ (t2 > 2 * s.slmEnd => m = ExpFullT(s, tr))
StepOK(s, tr, a, b, m) == /\ (b <= s.slmEnd => m = ExpMaskedT(s, tr))           \* step [a,b] entirely before the end
                          /\ (a >= s.slmEnd => m = ExpFullT(s, tr))             \* entirely after
                          /\ (m = ExpMaskedT(s, tr) \/ m = ExpFullT(s, tr))     \* straddling: either
QueryInside(a, b, t2) == 2 * a <= t2 /\ t2 <= 2 * b

-----------------------------------------------------------------------------------------------
(* MECHANISM *)
SrcMatrix(s, tr) == [p \in OPairs |-> SourceT(s, p, tr)]                 \* custom matrix if given else THIS trajectory's matrix [0]
Cutoff(s, m) == [p \in OPairs |-> IF s.cls[UPair(p)] = "below" \/ (Variant = "cut_le" /\ s.cls[UPair(p)] = "equal") THEN Zero ELSE m[p]]     \* m[abs(m) < cutoff] = 0.0
RowZero(m, a) == [p \in OPairs |-> IF p[1] = a THEN Zero ELSE m[p]]    \* masked[target] = 0.0
ColZero(m, a) == [p \in OPairs |-> IF p[2] = a THEN Zero ELSE m[p]]    \* masked[:, target] = 0.0
RECURSIVE MaskAll(_, _)
MaskAll(m, S) == IF S = {} THEN m ELSE LET a == CHOOSE x \in S : TRUE IN MaskAll(IF Variant = "rows" THEN RowZero(m, a) ELSE ColZero(RowZero(m, a), a), S \ {a})
Callable(s, f, msk, t2) == IF t2 < 2 * s.slmEnd \/ (Variant = "slm_le" /\ t2 = 2 * s.slmEnd) THEN msk ELSE f          \* _InteractionMatrixCallable.__call__
StepQuery2(s, i) ==                                                      \* doubled time at which step i (T[i] -> T[i+1]) asks
   IF s.backend = "sv" THEN 2 * s.T[i]                                   \* interaction_matrix(target_times[step_idx])
   ELSE IF i = 1 THEN s.T[1] + s.T[2]                                    \* 0.5 * (current_time + target_time) in init
   ELSE 2 * s.T[i]                                                       \* same expression in timestep_complete: target_time == current_time

NoScenario == [custom |-> FALSE, htype |-> "ising", cls |-> <<>>, mask |-> {}, slmEnd |-> 0, T |-> <<0, 1>>, backend |-> "sv"]
NoMatrix == [p \in OPairs |-> Zero]
Init == sc = NoScenario /\ pc = "pick" /\ full = NoMatrix /\ masked = NoMatrix /\ k = 0 /\ used = NoMatrix /\ tq2 = 0 /\ traj = 1 /\ cache = NoMatrix
Pick == /\ pc = "pick" /\ sc' \in Scenarios /\ pc' = "source" /\ UNCHANGED <<full, masked, k, used, tq2, traj, cache>>
TakeSource == /\ pc = "source"
              /\ LET own == SrcMatrix(sc, traj)
                     m == IF Variant = "cache_first" /\ ~sc.custom /\ cache # NoMatrix THEN cache ELSE own IN
                 /\ full' = m
                 /\ cache' = (IF Variant = "cache_first" /\ ~sc.custom /\ cache = NoMatrix THEN own ELSE cache)
              /\ pc' = "cutoff" /\ UNCHANGED <<sc, masked, k, used, tq2, traj>>
ApplyCutoff == /\ pc = "cutoff" /\ full' = Cutoff(sc, full) /\ pc' = "mask" /\ UNCHANGED <<sc, masked, k, used, tq2, traj, cache>>
ApplyMask == /\ pc = "mask" /\ masked' = MaskAll(full, sc.mask) /\ pc' = "run" /\ k' = 1 /\ UNCHANGED <<sc, full, used, tq2, traj, cache>>
Step == /\ pc = "run" /\ k < Len(sc.T)
        /\ tq2' = StepQuery2(sc, k)
        /\ used' = Callable(sc, full, masked, StepQuery2(sc, k))
        /\ pc' = "stepped" /\ UNCHANGED <<sc, full, masked, k, traj, cache>>
Advance == /\ pc = "stepped" /\ k' = k + 1 /\ pc' = (IF k + 1 < Len(sc.T) THEN "run" ELSE "done") /\ UNCHANGED <<sc, full, masked, used, tq2, traj, cache>>
\* the next noise trajectory of the same run: get_sequences builds its matrices afresh
NextTrajectory == /\ pc = "done" /\ traj < NTraj /\ traj' = traj + 1 /\ pc' = "source" /\ k' = 0
                  /\ UNCHANGED <<sc, full, masked, used, tq2, cache>>
Next == Pick \/ TakeSource \/ ApplyCutoff \/ ApplyMask \/ Step \/ Advance \/ NextTrajectory
Spec == Init /\ [][Next]_vars

-----------------------------------------------------------------------------------------------
Built == pc \in {"run", "stepped", "done"}
InvSymmetric   == Built => Symmetric(full) /\ Symmetric(masked)
InvFullMatrix  == Built => full = ExpFullT(sc, traj)                  \* source (of THIS trajectory) and cutoff
InvMaskedMatrix == Built => masked = ExpMaskedT(sc, traj)
InvDirect      == Built => \A t2 \in 0..(2 * sc.T[Len(sc.T)] + 2) : DirectOK(sc, traj, t2, Callable(sc, full, masked, t2))
InvQueryInside == pc = "stepped" => QueryInside(sc.T[k], sc.T[k + 1], tq2)
InvStepMatrix  == pc = "stepped" => StepOK(sc, traj, sc.T[k], sc.T[k + 1], used)
UsedName(s, m) == IF m = ExpMasked(s) /\ m = ExpFull(s) THEN "both" ELSE IF m = ExpMasked(s) THEN "masked" ELSE IF m = ExpFull(s) THEN "full" ELSE "other"
Log == (pc = "stepped" /\ LogResult /\ traj = 1) =>
         PrintT(<<"I", sc.custom, sc.htype, sc.cls, sc.mask, sc.slmEnd, sc.backend, sc.T, k, tq2, UsedName(sc, used), ExpFull(sc), ExpMasked(sc)>>)
====
