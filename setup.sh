#!/bin/sh
# Offline setup: check tools, create scratch dirs, SANY-parse every specification module.
set -e
cd "$(dirname "$0")"
mkdir -p .work evidence
java -version >/dev/null 2>&1 || { echo "java missing"; exit 1; }
/venv/bin/python -c "import torch, pulser, numpy, scipy" || { echo "python deps missing"; exit 1; }
fail=0
for f in spec/*.tla; do
  [ -e "$f" ] || continue
  ( cd spec && java -cp /opt/veriftools/tla/tla2tools.jar:/opt/veriftools/tla/CommunityModules-deps.jar tla2sany.SANY "$(basename "$f")" >/dev/null 2>&1 ) || { echo "WARNING: SANY failed: $f"; }
done
exit $fail
