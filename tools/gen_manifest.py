#!/venv/bin/python
import json, sys, os
sys.path.insert(0, os.path.dirname(os.path.abspath(__file__)))
from registry import CLAIMED, PENDING_REASON, NOT_APPLICABLE  # noqa
ROOT = os.path.dirname(os.path.dirname(os.path.abspath(__file__)))
props = [json.loads(l)["id"] for l in open(os.path.join(ROOT, "properties.jsonl"))]
hook_commits = [l.strip() for l in open(os.path.join(ROOT, "tools/hook_commits.txt")) if l.strip()]
m = {
    "version": 1,
    "setup_cmd": "./setup.sh",
    "hooks": {
        "guard": "PASQAL_IO_EMULATORS_VERIF",
        "enable": "environment variable PASQAL_IO_EMULATORS_VERIF=1 (set by ./check before importing /repo's working tree; nothing is compiled). "
                  "Extra guard-only controls: PASQAL_IO_EMULATORS_VERIF_TRACE=<ndjson file>, PASQAL_IO_EMULATORS_VERIF_AUTOSAVE=always, "
                  "PASQAL_IO_EMULATORS_VERIF_CRASH_AFTER_SAVE=<k>",
        "baseline_off_cmd": "cd /repo && env -u PASQAL_IO_EMULATORS_VERIF /venv/bin/python -m pytest -ra -q -p no:cacheprovider --timeout=900 --continue-on-collection-errors",
        "source_commits": hook_commits,
        "add_only": True,
    },
    "engines": [
        {"name": "tlc", "path": "/opt/veriftools/tla/tla2tools.jar", "serves_properties": sorted(CLAIMED), "kind_free_text": "TLA+ explicit-state model checker; specs in /verif/spec"},
        {"name": "harness", "path": "/verif/harness", "serves_properties": sorted(CLAIMED), "kind_free_text": "conformance: spec->code replay, code->spec trace validation, recorded-structure validation; dense numpy/scipy reference"},
    ],
    "checks": [],
    "not_applicable": [],
    "notes": "Model-based verification with explicit TLA+ specifications (see DESIGN.md). ./check <ID> --tier quick|thorough; exit 0/1/2; known findings in known_findings.json.",
}
for pid in props:
    if pid in CLAIMED:
        c = CLAIMED[pid]
        m["checks"].append({
            "property_id": pid,
            "quick_cmd": f"./check {pid} --tier quick",
            "thorough_cmd": f"./check {pid} --tier thorough",
            "evidence_file": f"/verif/evidence/{pid}.json",
            "replay_cmd_template": f"./check {pid} --replay {{path}}",
            "engine": "tlc",
            "level_claimed": {"category": c["level"], "text": c["text"], "design_ref": "DESIGN.md " + c.get("design_ref", "4")},
            "level_note": c["note"],
            "technique": c["technique"],
        })
    elif pid in NOT_APPLICABLE:
        m["not_applicable"].append({"property_id": pid, "reason": NOT_APPLICABLE[pid]})
    else:
        m["not_applicable"].append({"property_id": pid, "reason": PENDING_REASON})
json.dump(m, open(os.path.join(ROOT, "MANIFEST.json"), "w"), indent=1)
import jsonschema
jsonschema.validate(m, json.load(open("/root/.vp/MANIFEST.schema.json")))
print("MANIFEST ok:", len(m["checks"]), "claimed,", len(m["not_applicable"]), "not claimed")
