#!/bin/sh
cd /verif
for c in "$@"; do
  t0=$(date +%s)
  out=$(./check $c --tier thorough 2>&1); rc=$?
  echo "$c thorough rc=$rc $(( $(date +%s) - t0 ))s $(echo "$out" | grep -E 'done:' | tail -1 | cut -c1-140)"
  if [ $rc -ne 0 ]; then echo "$out" | grep -E "VIOLATION|key=|MACHINERY|Error" | cut -c1-400 | head -8; fi
done
