#!/bin/sh
# usage: tools/seed_sweep.sh "<seeds>" C01 C02 ...   -> one line per (check, seed): rc and summary
SEEDS="$1"; shift
cd /verif
for s in $SEEDS; do for c in "$@"; do
  out=$(VERIF_SEED=$s ./check $c --tier quick 2>&1); rc=$?
  echo "seed=$s $c rc=$rc $(echo "$out" | grep -E 'done:' | tail -1 | cut -c1-160)"
  if [ $rc -ne 0 ]; then echo "$out" | grep -E "VIOLATION|key=|MACHINERY" | cut -c1-400 | head -6; fi
done; done
