"""Wrap every `_verif.emit(...)` statement in `if _verif.enabled():` (idempotent)."""
import sys, re
for p in sys.argv[1:]:
    lines = open(p).read().split("\n")
    out = []
    i = 0
    while i < len(lines):
        ln = lines[i]
        m = re.match(r"^(\s*)_verif\.emit\(", ln)
        if m and not (out and out[-1].strip() == "if _verif.enabled():"):
            ind = m.group(1)
            depth = 0
            j = i
            block = []
            while True:
                depth += lines[j].count("(") - lines[j].count(")")
                block.append(lines[j])
                if depth == 0:
                    break
                j += 1
            out.append(ind + "if _verif.enabled():")
            out.extend("    " + b if b.strip() else b for b in block)
            i = j + 1
        else:
            out.append(ln)
            i += 1
    open(p, "w").write("\n".join(out))
