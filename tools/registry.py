"""Single table from which MANIFEST.json is generated (tools/gen_manifest.py)."""
# pid -> dict(level, text, note, technique, design_ref, quick_timeout)
CLAIMED = {
    "C19": dict(
        level="model_checking",
        text="Brent.tla (mechanism transcribed from BrentsRootFinder, exact rationals) is model-checked against an adversarial ordinate environment "
             "(bracket / sign-change / nesting invariants, step bound, termination under fairness); the real class is explored exhaustively over the same "
             "alphabet on fractions.Fraction and its transition relation compared with TLC's; float traces of the real class are validated by BrentTrace.tla.",
        note="Exhaustive only for the configured brackets and ordinate alphabets; trusted: TLC, Python fractions, the rank projection of float abscissae.",
        technique="TLA+ model checking (TLC) + exhaustive spec->code replay on exact arithmetic + TLC trace validation of float runs",
        design_ref="4/C19",
    ),
    "C27": dict(
        level="fault_enumeration",
        text="The file-system operations of the real save_simulation are recorded (Python audit events) and become the protocol constant of Autosave.tla; "
             "TLC explores a crash between any two operations and mid-write and predicts which crash points keep a loadable snapshot under the advertised name; "
             "every crash point of the 2nd and 3rd autosave is then injected into real TDVP / DMRG / noisy runs and MPSBackend.resume must succeed from the advertised file.",
        note="POSIX-like file model (atomic rename, partial file until closed, no power-loss reordering); file operations observed via audit events open/os.rename/os.remove; "
             "mid-write crash injected while the snapshot is pickled.",
        technique="TLA+ model checking of the recorded save protocol (TLC) + exhaustive real fault injection at every crash point",
        design_ref="4/C27",
    ),
    "C18": dict(
        level="model_checking",
        text="NoisyStep.tla models every branch of NoisyMPSBackendImpl.sweep_complete (root finder = the transcription of BrentsRootFinder) against an adversarial "
             "squared-norm environment; TLC checks steps-in-order-once, one fill per step, jumps inside the step at a sub-tolerance sign-changing bracket, target restored, "
             "the root finder's precondition and termination under fairness. TLC-simulated behaviours are replayed into the real NoisyMPSBackendImpl with a scripted evolution "
             "kernel (state compared after every progress()), and hook traces of replays and of ordinary noisy runs are validated by NoisyStepTrace.tla.",
        note="Environment assumptions: finitely many crossings per step (MaxJumps), gap never exactly zero. Replays substitute emu_mps.mps_backend_impl.evolve_pair and random.uniform; "
             "exhaustive only for the configured (K, L, gap alphabet); times rank-projected.",
        technique="TLA+ model checking (TLC, safety + liveness) + spec->code replay of simulated behaviours + TLC trace validation of real runs",
        design_ref="4/C18",
    ),
    "C26": dict(
        level="fault_enumeration",
        text="A crash is injected after every autosave (forced after each progress()) of small real TDVP / DMRG / noisy runs, with the optimiser's permutation on and off; "
             "MPSBackend.resume is compared with the uninterrupted run (values, times, atom order, file removed) and every crashed-and-resumed hook trace is validated by MPSRunTrace.tla. "
             "MPSRun.tla (progress machine + save / crash / resume + both return paths) is model-checked with the mechanism switch observed from the real resume path.",
        note="Crash = exception right after a completed save; noiseless tolerance 1e-7; noisy runs compared in distribution only (global RNG state is not in the snapshot).",
        technique="real fault injection at every save point + TLC trace validation (MPSRunTrace.tla) + TLA+ model checking of MPSRun.tla",
        design_ref="4/C26",
    ),
    "C01": dict(
        level="exploration",
        text="SVRun.tla models the emu-sv step loop (which row, duration and interaction query each step uses, when observables are evaluated) and is model-checked; "
             "hook traces of real SVBackend.run() executions over stratified scenarios (atoms x waveform x phase x DMM x SLM x modulation x dt class x evaluation-time class x "
             "initial state x tolerance) are validated by SVRunTrace.tla with numeric atoms from the independent dense reference: state and every observable equal the exact "
             "piecewise-constant evolution on the rows the stepper actually received (10*tol per step + rounding), and occupations agree with a converged continuous-time "
             "reference within the discretisation error of an ideal midpoint scheme.",
        note="Accuracy is sampled (seeded), not proved. Pulser's QuTiP emulator is absent: the continuous-time reference is a fine-step evolution of the PCHIP-interpolated Pulser samples. "
             "Dense reference limits N <= 10 (continuous-time part N <= 5).",
        technique="TLA+ model of the run loop (TLC) + TLC trace validation of real runs with reference-computed numeric atoms",
        design_ref="4/C01",
    ),
    "C16": dict(
        level="exploration",
        text="Same machinery as C01 with the Lindblad stepper: SVRun.tla model of the step loop, hook traces of real noisy SVBackend runs (relaxation, dephasing, depolarizing, "
             "combinations, random complex 2x2 effective operators; 1-5 atoms) validated by SVRunTrace.tla; atoms: the density matrix equals the exact propagation exp(dt*L_k) of the "
             "piecewise-constant Lindblad generator (dense Liouvillian) within 10*tol per step, observables equal their reference values, and rho is Hermitian, trace one and PSD.",
        note="Sampled, not proved. The dense Liouvillian propagator stands in for Pulser's master-equation solver (not installed); jump operators are taken from the emulator's list (C24 decides that list).",
        technique="TLA+ model of the run loop (TLC) + TLC trace validation of real noisy runs with reference-computed numeric atoms",
        design_ref="4/C16",
    ),
    "C09": dict(
        level="exploration",
        text="MPSRun.tla in DMRG mode (minimisation sweeps, convergence by environment, restart, raise after MaxSweeps, no fill before convergence) is model-checked; hook traces of real "
             "DMRG runs (2-8 atoms, constant / adiabatic / Blackman drives, dt, precision, bond cap) are validated by MPSRunTrace.tla with atoms from dense diagonalisation of every "
             "step's Hamiltonian: every local minimisation energy and every reported energy >= E0 - rounding, |E-E0| within 10*energy_tol + 2(N-1)*precision*||H|| on gapped steps, "
             "returned state normalised and canonical around its declared centre.",
        note="Closeness asserted only where the reference gap exceeds 100x the budget and the bond cap cannot bind; dense reference limits N <= 8.",
        technique="TLA+ model checking of the sweep machine (TLC) + TLC trace validation of real DMRG runs with reference-computed atoms",
        design_ref="4/C09",
    ),
    "C28": dict(
        level="exploration",
        text="ConserveTrace.tla derives the windows of constant Hamiltonian from per-step events (values actually received by the stepper / written into the MPO) and checks, over every pair "
             "of consecutive evaluation times of real noiseless runs of both backends (up to 12-13 atoms emu-sv, 12-20 atoms emu-mps), that the state is normalised and that energy and "
             "energy second moment are conserved inside a window, within the backend's precision budget.",
        note="No dense reference (this property scales); budgets scale with a coefficient-sum bound on ||H||; MPS second moment carries the package-default 1e-5 compression of H@H.",
        technique="TLC trace validation (ConserveTrace.tla) of real runs; windows decided by the specification",
        design_ref="4/C28",
    ),
    "C29": dict(
        level="exploration",
        text="Pairs of real runs (original, transformed) on both backends for translation, rotation, reflection, constant phase offset, phase negation and abstract-repr round trip; "
             "equality atoms on schedules, occupations, correlations, energies (budgets of C01 / C02) and bitstring distributions (two-sample chi-square, family-wise 1e-9) are decided by MetaTrace.tla.",
        note="Phase negation is only a symmetry when all pulses share one phase (phi -> -phi is time reversal otherwise); it is checked on such sequences only. Sampled, not proved.",
        technique="metamorphic pairs of real runs decided by a TLC trace specification (MetaTrace.tla)",
        design_ref="4/C29",
    ),
    "C17": dict(
        level="exploration",
        text="Real quantum-jump trajectories of emu-mps (2-4 atoms; relaxation, dephasing, depolarizing, effective 2x2 noise, leakage with 3x3 operators) are run with fixed seeds; "
             "TrajTrace.tla decides per-trajectory atoms (finished, values in physical range) and the aggregate atom: the trajectory average equals the dense Lindblad master-equation "
             "value within z*sqrt(ref(1-ref)/n) + z^2/(3n) + systematic(dt), z from a family-wise error rate of 1e-9.",
        note="Statistical acceptance with a rigorous variance bound, hence low power at 128 trajectories (quick) - detects gross errors; 1000 trajectories in the thorough tier. "
             "Reference uses the emulator's jump-operator list (C24 decides that list). Stepping structure of each trajectory is C18's subject.",
        technique="seeded statistical comparison of real trajectories with a dense master-equation reference, decided by a TLC trace specification (TrajTrace.tla)",
        design_ref="4/C17",
    ),
    "C07": dict(
        level="model_checking",
        text="KrylovFn.tla transcribes the control flow of krylov_exp_impl / krylov_exp (incl. the confirmation step) with every floating-point test chosen by the environment; TLC checks "
             "iterations <= max_krylov_dim, converged => accurate, raised <=> not converged, returned => accurate and termination over all control paths (max_krylov_dim <= 6) and refutes seeded "
             "mechanism mutants. Every model path is realised on the real functions; every real execution (path realisations, stratified exploration over the operator classes of the property, "
             "in-situ kry_exit events of real emu-sv / emu-mps runs) is validated by KrylovTrace.tla with `accurate` computed by a dense reference.",
        note="Exhaustive only for control paths with max_krylov_dim <= 6; accuracy sampled; budget 10*tol*|v| + 64*eps*||A||*|v| + reference disagreement; norm_tolerance <= exp_tolerance.",
        technique="TLA+ model checking (TLC) + exhaustive spec->code path realisation + TLC trace validation with reference-computed atoms",
        design_ref="4/C07",
    ),
    "C08": dict(
        level="model_checking",
        text="KrylovFn.tla transcribes the restarted Lanczos ground-state search (best-residual Ritz pair, breakdown before residual test, cycles, restart, wrapper); TLC checks all control paths "
             "with every residual-order pattern (max_krylov_dim <= 6, max_restarts <= 3): energy paired with the vector, converged and no breakdown => residual < tol, restart / iteration bounds, termination. "
             "Model paths are realised on the real impl; every real execution (random Hermitian instances, DMRG in-situ kmin_exit events) is validated by KrylovTrace.tla with unit / Rayleigh / variational / residual atoms from eigh.",
        note="Exhaustive only for small dimensions of the control model; slack 256*eps*||H||; claimed region residual_tolerance >= 16*eps*||H||.",
        technique="TLA+ model checking (TLC) + spec->code path realisation + TLC trace validation with reference-computed atoms",
        design_ref="4/C08",
    ),
    "C24": dict(
        level="model_checking",
        text="NoiseChannels.tla states get_lindblad_operators branch by branch next to Pulser's channel definitions on named levels; two operator lists are the same channel when their dissipators agree on every "
             "matrix unit (exact Gaussian-integer arithmetic). TLC covers basis x dim x channel x amplitude and, for eff_noise, every matrix unit and pair; every TLC case plus random noise models is instantiated on the real "
             "PulserData.lindblad_ops and judged against Pulser's own collapse-operator definitions.",
        note="Trusted: Pulser's collapse-operator definitions; emulator level order (g,r[,x]) / (u,d[,x]); relative tolerance 1e-10.",
        technique="TLA+ model checking (TLC) + exhaustive replay of spec cases on the real code + dissipator oracle",
        design_ref="4/C24",
    ),
    "C04": dict(
        level="model_checking",
        text="EmuPipeline.tla (part D) states the acceptance checks of Pulser, the adapter and both backends in code order against AcceptedMeansImplemented over the 2688-row table "
             "(backend x basis x Lindblad class x stochastic class x solver x initial state x atom class); rows become real 1-2 atom runs whose outcome is an exception or Results compared with the dense reference of the Pulser-defined Hamiltonian.",
        note="Noise magnitudes negligible so the noiseless reference is the oracle; XY reference uses the C3 exchange term only (the C6 slice of pulser-core 1.9 is defined in pulser-simulation, absent).",
        technique="TLA+ model checking (TLC) + spec->code replay of table rows + dense reference oracle",
        design_ref="4/C04",
    ),
    "C33": dict(
        level="model_checking",
        text="EmuConfig.tla states MPSConfig.__init__ (autosave assertion, Krylov-tolerance floor, permutable-observable whitelist) and create_impl / DMRG refusal; TLC covers the full cross product and rows are replayed on the real "
             "MPSConfig / create_impl, including the permutation actually used and the tolerance actually passed to krylov_exp (kry_exit hook).",
        note="'Cannot be un-permuted' = {state, fidelity, expectation, entanglement_entropy, unknown observables}; products compared with 8 ulp slack.",
        technique="TLA+ model checking (TLC) + spec->code replay + hook-based point-of-use observation",
        design_ref="4/C33",
    ),
    "C34": dict(
        level="model_checking",
        text="EmuPipeline.tla (part R) states get_sequences (trajectories x reps) and run / Results.aggregate against AllTrajectoriesAggregated plus termination for any split of n_trajectories; real multi-trajectory runs of both backends "
             "are traced (seq_yield / aggregate hooks + per-run Results) and validated by EmuPipelineTrace.tla; aggregated means, bitstring counters and totals are recomputed independently.",
        note="Pulser's aggregator is recomputed by the harness; trajectory blocks recognised from (reps, bad_atoms) of consecutive seq_yield events.",
        technique="TLA+ model checking with liveness (TLC) + TLC trace validation of real runs",
        design_ref="4/C34",
    ),
    "C31": dict(
        level="exploration",
        text="The pulser-core specifier is read from both pyproject files; every pulser-core distribution available offline is smoke-run in a subprocess (import, construction of every Observable class, 9 end-to-end runs over both backends, "
             "TDVP / DMRG / noisy / Lindblad / SPAM / custom interaction matrix / XY) and TLC evaluates Admitted => CanRun on the recorded table.",
        note="Only pulser-core 1.9.1 exists offline (the wheelhouse has no pulser wheels), so the quantifier is covered for one version.",
        technique="environment enumeration + subprocess smoke runs + TLC on the recorded table (EmuPipeline.tla part V)",
        design_ref="4/C31",
    ),
    "C10": dict(
        level="model_checking",
        text="MPSOps.tla transcribes which QR / split every public MPS / MPO method performs, which centre it declares and which tensors it rebinds; TLC checks canonical form around the declared centre, norm = centre norm, "
             "bond cap after truncating operations and splits at the centre over all histories of <= 4 operations on 2-4 sites. Every explored transition is executed on real emu_mps.MPS objects (plus simulated long histories and real TDVP sweeps) "
             "and the requirement is evaluated on the real tensors (isometry defects, bonds, discarded weight observed through a wrapper on split_matrix).",
        note="One-sided abstraction (real tensors must be at least as strong as the model says), checked every run; rounding slack 1e-12*||m||^2 on discarded weights (Gram-matrix split); seeded spec mutants must be refuted.",
        technique="TLA+ model checking (TLC) + spec->code replay of every transition on real objects",
        design_ref="4/C10",
    ),
    "C11": dict(
        level="exploration",
        text="The frame rule (only truncate, apply and in-place evolution may change an existing object's represented state) is model-checked on MPSOps.tla; every model transition is replayed on real objects carrying a dense numpy shadow, "
             "each result compared with the dense operation and every pre-existing object re-contracted afterwards; constructors from abstract representations and MPO algebra are enumerated / sampled against Kronecker-product references.",
        note="Truncation budget one configured precision per split not limited by the cap; MPO@MPO budgeted at the default precision per bond; sampled, not proved.",
        technique="model-checked frame rule (TLC) + spec->code replay + seeded differential test against a numpy reference",
        design_ref="4/C11",
    ),
    "C13": dict(
        level="exploration",
        text="Observables.tla (part 1) models the monkey-patch dispatch of both configs, which state classes each implementation accepts and what each backend does to its state before the callbacks; TLC checks totality, "
             "value = definition on the normalised state and physical ranges over 102 cells; every cell is instantiated through the real fill_results / _apply_observables on random states, Hamiltonians and dark masks and compared with numpy definitions.",
        note="Budgets 1e-9 relative; MPS second moment / variance carry the 1e-5 compression of H@H; dark padding restricted to two levels (three levels is C25's subject).",
        technique="exhaustively checked dispatch table (TLC) + instantiation of each cell on real code against independent definitions",
        design_ref="4/C13",
    ),
    "C15": dict(
        level="exploration",
        text="Observables.tla (part 2) models the 32-shot batching loop of MPS.sample and the per-shot readout-error loop; TLC checks count conservation, no overshoot and termination for every shot count 1..70 and the order / letter / flip-direction laws over full enumerations; "
             "the same enumerations run on the real code and random states are tested with exact binomial tests (outcome bins, per-bit and pairwise flip counts) at a family-wise error of 1e-9.",
        note="Statistical acceptance (seeded); effects below ~1.5% at 20000 shots are not resolved.",
        technique="model-checked loop and laws (TLC) + exhaustive deterministic replay + exact statistical acceptance",
        design_ref="4/C15",
    ),
    "C05": dict(
        level="model_checking",
        text="MPOAutomaton.tla transcribes emu_mps/hamiltonian.py at index level (masks, running counters, slice assignments, bond arithmetic, Rydberg and XY, update_H slots) next to the named-channel reference; TLC checks that the path bag of the MPO "
             "automaton equals {T_k} + {U_ij N_i N_j} (or the XY terms) symbolically in U after make_H and after each of two update_H, for every interaction pattern with N <= 5 (quick) / 6 (thorough). The real factors are recorded, projected onto the alphabet and judged "
             "by the same requirement in MPORecorded.tla, compared index by index with the model's factors, and contracted densely against the reference Hamiltonian.",
        note="Exhaustive in pattern space up to N = 5 / 6 (N = 7 slices and samples); symbolic U means generic values; dim 3 exhaustive to N = 4 / 5.",
        technique="TLA+ model checking of an index-level mechanism against a path-bag requirement + recorded-structure validation in TLC + exhaustive dense comparison",
        design_ref="4/C05",
    ),
    "C06": dict(
        level="model_checking",
        text="SVOperator.tla transcribes the view / index_add_ arithmetic of RydbergHamiltonian (diagonal, real fast path, complex path) and RydbergLindbladian in exact Gaussian-integer arithmetic against the bit-string entry map of H and i*Lindblad; "
             "TLC checks HamOK, LindOK, Hermiticity, fast = complex path at phi = 0, trace and Hermiticity preservation over unit parameter assignments; every probe is replayed on the real classes (CPU branch and the batched branch forced by an is_cpu=False tensor subclass), "
             "plus random dense comparison for N = 1..8 with 0-6 jump operators.",
        note="Unit probes determine the operators per code path by linearity; general values covered by random comparison; no real CUDA; Lindblad model N <= 2.",
        technique="TLA+ model checking (TLC) + exhaustive spec->code probe replay + random dense differential testing",
        design_ref="4/C06",
    ),
    "C12": dict(
        level="model_checking",
        text="SVObjects.tla models the index parse, outer product, operator tables, target loop, reduce(kron) and the COO arithmetic of the sparse operators against the index bijection and the Kronecker entry law, dense = sparse and rho = |psi><psi|, over all basis strings and "
             "operator representations for N <= 3 / 4; every enumerated object is built with the real constructors and compared entry by entry; random amplitude dictionaries, operator representations and tensors (1-8 qubits) are checked against a numpy reference for all public operations.",
        note="Nested symbolic operators cannot reach _from_operator_repr under pulser-core 1.9.1; documented NotImplementedError operations are recorded, not judged.",
        technique="TLA+ model checking (TLC) + exhaustive constructor replay + random differential testing",
        design_ref="4/C12",
    ),
    "C20": dict(
        level="model_checking",
        text="PchipFn.tla transcribes pchip_torch.py operator by operator in exact rationals (code variant and the standard Fritsch-Carlson / SciPy variant); TLC checks KnotsExact, C1, exact monotonicity, boundedness and equality with the standard interpolant incl. extrapolation on every enumerated data set; "
             "every data set is replayed into the real PCHIP1D / _pchip_derivatives (the real slopes identify the variant the code follows) and random exploration (2-500 knots, flat runs, ratios up to 1e9, tiny magnitudes) is compared with the exact reference and scipy.",
        note="Exhaustive up to 6 knots and value ratio <= 10 (32-bit TLC integers); float budget 256*eps * sum of term magnitudes.",
        technique="TLA+ model checking (TLC) over rational data sets + spec->code replay with mechanism identification + random exploration",
        design_ref="4/C20",
    ),
    "C22": dict(
        level="model_checking",
        text="DriveSampling.tla (over PchipFn) models midpoints, knots 0..T-1, index clamp, extrapolation past T-1, the amplitude clamp and the column<->atom mapping with named variants; TLC checks ColumnIsAtom, MidpointValue and AmplitudeNonNegative on every grid, signal and register; "
             "all cases are replayed into the real _extract_omega_delta_phi and real Pulser sequences of every waveform kind / channel layout / dt / noise mode are compared with scipy PCHIP on Pulser's own samples, also at the point of use (sv_step hook).",
        note="Exhaustive scope T <= 5, small alphabets; with_modulation, XY channels and SLM masks not covered here.",
        technique="TLA+ model checking (TLC) + spec->code replay with variant identification + stratified exploration on real sequences",
        design_ref="4/C22",
    ),
    "C30": dict(
        level="model_checking",
        text="PchipGrad.tla is an abstract interpreter over {NEG, ZERO, POS, PINF, NINF, NAN} of the forward and reverse pass of the PCHIP slope computation over all sign patterns (GradFinite, ForwardFinite); every pattern is concretised on the real autograd. "
             "AD is compared with Richardson-extrapolated central differences for single EvolveStateVector steps, whole emu-sv runs (rows, U, initial state) and Pulser waveform parameters.",
        note="Abstract domain ignores overflow of finite values; finite-difference budget 1e-5 relative + 1e-7 + 2x step spread; equality with finite differences is sampled.",
        technique="TLA+ abstract-domain model checking (TLC) + concretisation on real autograd + directional finite-difference exploration",
        design_ref="4/C30",
    ),
    "C02": dict(
        level="exploration",
        text="MPSRun.tla (TDVP mode) models the second-order symmetric sweep (every bond +1 step, every interior site -1 step), bath stacks, centre and one fill per step and is model-checked; hook traces of real MPSBackend.run() executions over stratified scenarios "
             "(Rydberg / XY, atoms, waveforms, phases, DMM, SLM, dt / evaluation classes, precision, bond cap, reordering, initial states) are validated by MPSRunTrace.tla with atoms from the dense reference: the drive row written into the MPO equals the reference row of that step in SITE order "
             "(values at the point of use), the interaction matrix equals the register-derived one in site order, observables equal exact piecewise-constant evolution within the precision budget, results come back in register order.",
        note="Budget 5*steps*2(N-1)*precision + 1e-6 + 3*|emu(dt)-emu(dt/2)| capped at 2e-3 (TDVP projection error is dt-dependent); XY uses the first (C3) interaction slice; dense reference limits N <= 8; sampled, not proved.",
        technique="TLA+ model checking of the sweep machine (TLC) + TLC trace validation of real runs with reference-computed atoms",
        design_ref="4/C02",
    ),
    "C21": dict(
        level="model_checking",
        text="TimeGrid.tla transcribes _get_target_times one action per statement in exact arithmetic and under an adversarial IEEE-rounding model against TimeGridReq (strictly increasing, starts at 0, ends exactly at the duration, contains every multiple of dt and every requested time); "
             "target-time lists recorded from the real code, the solver steps actually taken and the runs per noise trajectory are handed to TLC as data (TimeGridData.tla) which evaluates the same requirement (5.6k lists quick / 103k thorough).",
        note="Rounding modelled as residues on at most 2 results; recorded lists decide violations; points compared at 1e-6 ns, grey-zone inputs (< 1e-3 ns apart) skipped and counted.",
        technique="TLA+ model checking (TLC) + recorded-structure and trace-data validation in TLC",
        design_ref="4/C21",
    ),
    "C14": dict(
        level="model_checking",
        text="ObsSchedule.tla models a backend run applying observables at t = 0 and after every step through the filter chain (backend pre-filter at 1e-10, Pulser __call__ at 0.5/duration, Results._store) against recorded = requested, once each, increasing, no raise; "
             "every TLC-enumerated schedule is instantiated on real sequences and run on emu-sv, emu-mps TDVP and DMRG; get_result_times is compared with the requested set and with the model variants, with a hook cross-check (sv_obs / mps_fill).",
        note="Times compared at 1e-9 relative; inputs exactly 0.5 ns apart or closer than 1e-4 ns skipped and counted; values at those times are decided by C01 / C02 / C13; Pulser's second stage is trusted and transcribed.",
        technique="TLA+ model checking (TLC) + spec->code replay of every enumerated schedule + hook cross-check",
        design_ref="4/C14",
    ),
    "C23": dict(
        level="model_checking",
        text="Interaction.tla models get_sequences (source selection, cutoff, SLM row / column zeroing), the interaction callable and the query time of each backend step against symmetry, source, exact cutoff, masked-before / full-after and query-inside-own-step; "
             "every N = 3 scenario is realised on the real code both at SequenceData.interaction_matrix(t) and in both backends' steps (matrices and query times from hooks); N = 4 model-checked and sampled; seeded spec mutants must be rejected every run.",
        note="Register entries compared within 1e-5 of C6/r^6 or C3/r^3 and bit-for-bit against Pulser's trajectory matrix; a query exactly at the SLM end and straddling steps are not decided by the statement.",
        technique="TLA+ model checking (TLC) + spec->code replay + hook-trace step validation",
        design_ref="4/C23",
    ),
    "C03": dict(
        level="model_checking",
        text="QubitOrder.tla (atoms are labels; every per-atom datum carries its label; one operator per index-space change of the code) is model-checked against LabelCoherent, ResultsInRegisterOrder and an explicit two-run RelabelEquivariance for all register orders, optimiser outputs, dark masks and initial-state choices; "
             "every enumerated scenario for n <= 3 / 4 is replayed into real MPSBackend / SVBackend runs with the optimiser forced to the scenario's permutation, compared with its same-site-order run (tight) and the dense per-label reference, then handed back to TLC; the real RCM optimiser is exercised on 6-16 atoms.",
        note="Exhaustive only for small n (forced permutations n <= 5); per-atom identification needs distinct DMM weights and distances; bitstring claims are exact binomial tests at a family-wise 1e-9.",
        technique="TLA+ model checking (TLC) + spec->code replay with forced optimiser output + recorded-structure validation by TLC + same-computation oracle",
        design_ref="4/C03",
    ),
    "C25": dict(
        level="model_checking",
        text="The QubitOrder model restricted to runs with state-preparation errors is checked against RunsForEveryMask, DarkStayGround, DarkDoNotInteract, OthersAsReducedRegister, LabelCoherent and ResultsInRegisterOrder for every mask, register order, optimiser output and 2 / 3 levels; "
             "scenarios are replayed through _run_from_sequence_data of both backends (hand-set masks, Pulser-zeroed masks, Pulser's own draw; reordering on / off; with / without leakage) and compared with the same backend on the reduced register (tight) and the dense reference.",
        note="Three levels are emu-mps only; noise enters at 1e-7/us to select code paths without changing values; emu-sv index handling observed through results only.",
        technique="TLA+ model checking (TLC) + spec->code replay + reduced-register same-computation oracle",
        design_ref="4/C25",
    ),
    "C32": dict(
        level="model_checking",
        text="Perm.tla transcribes the six permutation helpers and checks their laws for every permutation of 1..6 elements; the real helpers are called with the same permutations and their outputs go back to TLC. BandwidthOpt.tla checks the bookkeeping of minimize_bandwidth around an adversarial RCM step against the contract "
             "(a permutation of all atoms with weighted bandwidth no larger than the original); outputs of the real optimiser for seeded symmetric matrices of size 1..30 are evaluated by TLC.",
        note="The contract on sizes 1..30 is explored by random matrices, not exhaustively; 'no larger' is read in float64 arithmetic.",
        technique="TLA+ model checking (TLC) + spec->code replay + recorded-structure validation by TLC",
        design_ref="4/C32",
    ),
}
PENDING_REASON = "check not built yet in this round (planned in DESIGN.md section 4); not claimed until it runs"
NOT_APPLICABLE = {}
