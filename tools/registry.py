"""Single table from which MANIFEST.json is generated (tools/gen_manifest.py)."""
# pid -> dict(level, text, note, technique, design_ref, quick_timeout)
CLAIMED = {
    "C19": dict(
        level="model_checking",
        text="Brent.tla (mechanism transcribed from BrentsRootFinder, exact rationals) is model-checked against an adversarial ordinate environment "
             "(bracket / sign-change / nesting invariants, step bound, termination under fairness); the real class is explored exhaustively over the same "
             "alphabet on fractions.Fraction and its transition relation compared with TLC's; float traces of the real class are validated by BrentTrace.tla.",
        note="Exhaustive only for the configured brackets and ordinate alphabets; trusted: TLC, Python fractions, the rank projection of float abscissae.",
        technique="TLA+ model checking (TLC) + exhaustive spec->code replay on exact arithmetic + TLC trace validation of float runs",
        design_ref="4/C19",
    ),
}
PENDING_REASON = "check not built yet in this round (planned in DESIGN.md section 4); not claimed until it runs"
NOT_APPLICABLE = {}
