"""Single table from which MANIFEST.json is generated (tools/gen_manifest.py)."""
# pid -> dict(level, text, note, technique, design_ref, quick_timeout)
CLAIMED = {
    "C19": dict(
        level="model_checking",
        text="Brent.tla (mechanism transcribed from BrentsRootFinder, exact rationals) is model-checked against an adversarial ordinate environment "
             "(bracket / sign-change / nesting invariants, step bound, termination under fairness); the real class is explored exhaustively over the same "
             "alphabet on fractions.Fraction and its transition relation compared with TLC's; float traces of the real class are validated by BrentTrace.tla.",
        note="Exhaustive only for the configured brackets and ordinate alphabets; trusted: TLC, Python fractions, the rank projection of float abscissae.",
        technique="TLA+ model checking (TLC) + exhaustive spec->code replay on exact arithmetic + TLC trace validation of float runs",
        design_ref="4/C19",
    ),
    "C27": dict(
        level="fault_enumeration",
        text="The file-system operations of the real save_simulation are recorded (Python audit events) and become the protocol constant of Autosave.tla; "
             "TLC explores a crash between any two operations and mid-write and predicts which crash points keep a loadable snapshot under the advertised name; "
             "every crash point of the 2nd and 3rd autosave is then injected into real TDVP / DMRG / noisy runs and MPSBackend.resume must succeed from the advertised file.",
        note="POSIX-like file model (atomic rename, partial file until closed, no power-loss reordering); file operations observed via audit events open/os.rename/os.remove; "
             "mid-write crash injected while the snapshot is pickled.",
        technique="TLA+ model checking of the recorded save protocol (TLC) + exhaustive real fault injection at every crash point",
        design_ref="4/C27",
    ),
    "C18": dict(
        level="model_checking",
        text="NoisyStep.tla models every branch of NoisyMPSBackendImpl.sweep_complete (root finder = the transcription of BrentsRootFinder) against an adversarial "
             "squared-norm environment; TLC checks steps-in-order-once, one fill per step, jumps inside the step at a sub-tolerance sign-changing bracket, target restored, "
             "the root finder's precondition and termination under fairness. TLC-simulated behaviours are replayed into the real NoisyMPSBackendImpl with a scripted evolution "
             "kernel (state compared after every progress()), and hook traces of replays and of ordinary noisy runs are validated by NoisyStepTrace.tla.",
        note="Environment assumptions: finitely many crossings per step (MaxJumps), gap never exactly zero. Replays substitute emu_mps.mps_backend_impl.evolve_pair and random.uniform; "
             "exhaustive only for the configured (K, L, gap alphabet); times rank-projected.",
        technique="TLA+ model checking (TLC, safety + liveness) + spec->code replay of simulated behaviours + TLC trace validation of real runs",
        design_ref="4/C18",
    ),
    "C26": dict(
        level="fault_enumeration",
        text="A crash is injected after every autosave (forced after each progress()) of small real TDVP / DMRG / noisy runs, with the optimiser's permutation on and off; "
             "MPSBackend.resume is compared with the uninterrupted run (values, times, atom order, file removed) and every crashed-and-resumed hook trace is validated by MPSRunTrace.tla. "
             "MPSRun.tla (progress machine + save / crash / resume + both return paths) is model-checked with the mechanism switch observed from the real resume path.",
        note="Crash = exception right after a completed save; noiseless tolerance 1e-7; noisy runs compared in distribution only (global RNG state is not in the snapshot).",
        technique="real fault injection at every save point + TLC trace validation (MPSRunTrace.tla) + TLA+ model checking of MPSRun.tla",
        design_ref="4/C26",
    ),
    "C01": dict(
        level="exploration",
        text="SVRun.tla models the emu-sv step loop (which row, duration and interaction query each step uses, when observables are evaluated) and is model-checked; "
             "hook traces of real SVBackend.run() executions over stratified scenarios (atoms x waveform x phase x DMM x SLM x modulation x dt class x evaluation-time class x "
             "initial state x tolerance) are validated by SVRunTrace.tla with numeric atoms from the independent dense reference: state and every observable equal the exact "
             "piecewise-constant evolution on the rows the stepper actually received (10*tol per step + rounding), and occupations agree with a converged continuous-time "
             "reference within the discretisation error of an ideal midpoint scheme.",
        note="Accuracy is sampled (seeded), not proved. Pulser's QuTiP emulator is absent: the continuous-time reference is a fine-step evolution of the PCHIP-interpolated Pulser samples. "
             "Dense reference limits N <= 10 (continuous-time part N <= 5).",
        technique="TLA+ model of the run loop (TLC) + TLC trace validation of real runs with reference-computed numeric atoms",
        design_ref="4/C01",
    ),
}
PENDING_REASON = "check not built yet in this round (planned in DESIGN.md section 4); not claimed until it runs"
NOT_APPLICABLE = {}
