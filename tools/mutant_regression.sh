#!/bin/sh
# usage: tools/mutant_regression.sh <logfile> <id> [<id> ...]   -- every stored seeded change against the check(s) of its property
LOG="$1"; shift
cd /verif
for d in "$@"; do
  p=$(echo "$d" | cut -c1-3)
  out=$(tools/try_patch.sh seeded/$d/patch.diff $p 2>&1)
  nv=$(echo "$out" | grep -c "^VIOLATION")
  mf=$(echo "$out" | grep -c "MACHINERY")
  pf=$(echo "$out" | grep -c "PATCH-FAILED")
  if [ "$pf" -gt 0 ]; then echo "$d check=$p PATCH-FAILED" >> "$LOG"; continue; fi
  echo "$d check=$p violations=$nv machinery=$mf $(echo "$out" | grep -E 'done:' | tail -1 | cut -c1-90)" >> "$LOG"
done
echo "REGRESSION-DONE" >> "$LOG"
