#!/bin/sh
# usage: tools/batch_try.sh <logfile> "<patch> <Cxx> [<Cxx>...]" ...   -- run several try_patch jobs one after the other
LOG="$1"; shift
cd /verif
for job in "$@"; do
  set -- $job
  tools/try_patch.sh "$@" >> "$LOG" 2>&1
done
echo "BATCH-DONE" >> "$LOG"
