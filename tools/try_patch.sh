#!/bin/sh
# usage: tools/try_patch.sh <patch.diff> <Cxx> [more Cxx ...]   -- run checks against a scratch worktree carrying the patch
set -e
PATCH=$(readlink -f "$1"); shift
WT=/tmp/wt_try_$$
git -C /repo worktree add -q "$WT" HEAD
trap 'git -C /repo worktree remove --force "$WT" >/dev/null 2>&1 || true' EXIT
if ! git -C "$WT" apply "$PATCH" 2>/dev/null; then echo "PATCH-FAILED $PATCH does not apply to HEAD"; exit 3; fi
cd /verif
for c in "$@"; do
  echo "=== $c against $PATCH"
  VERIF_SCRATCH_TAG=try$$ VERIF_REPO="$WT" ./check "$c" --tier "${VERIF_TIER:-quick}" 2>&1 | grep -E "VIOLATION|KNOWN-FINDING|key=|done:|MACHINERY|DRIFT" | cut -c1-400 | head -12 || true
done
