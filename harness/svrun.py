"""Run-level worker for emu-sv (C01, C16; also used by C28 / C29): runs the REAL SVBackend on a JSON-able
scenario with hooks on, computes the numeric atoms against the independent dense reference and projects
the hook events onto the vocabulary of SVRunTrace.tla."""
from __future__ import annotations

import os

from typing import Any

import numpy as np

EPS = 2.2e-16


def make_observables(obs_specs: list[dict]) -> list[Any]:
    import pulser.backend as pb

    out = []
    for i, o in enumerate(obs_specs):
        kw = {}
        if o.get("times") is not None:
            kw["evaluation_times"] = o["times"]
        k = o["k"]
        if k == "occupation":
            out.append(pb.Occupation(**kw))
        elif k == "correlation_matrix":
            out.append(pb.CorrelationMatrix(**kw))
        elif k == "energy":
            out.append(pb.Energy(**kw))
        elif k == "energy_variance":
            out.append(pb.EnergyVariance(**kw))
        elif k == "energy_second_moment":
            out.append(pb.EnergySecondMoment(**kw))
        elif k == "state":
            out.append(pb.StateResult(**kw))
        elif k == "bitstrings":
            out.append(pb.BitStrings(num_shots=o.get("shots", 200), **kw))
        else:
            raise ValueError(k)
    return out


def noise_model(spec: dict | None):
    import pulser

    if not spec:
        return None
    kw = dict(spec)
    if "eff_noise_opers" in kw:
        kw["eff_noise_opers"] = [np.array(m, dtype=complex) if isinstance(m[0][0], (list, tuple)) is False else np.array([[complex(*x) for x in r] for r in m]) for m in kw["eff_noise_opers"]]
    return pulser.NoiseModel(**kw)


def sv_worker(job: dict) -> dict:
    """job: {id, seq (spec), dt, tol, default_times (list|None), obs (list), modulation (bool), init (None|'random'),
             noise (None|dict), seed, ct (bool: also compute the continuous-time reference)}"""
    import random
    import pulser
    import torch
    from emu_base import PulserData, _verif
    from emu_sv import DensityMatrix, StateVector, SVBackend, SVConfig
    from harness.gen import seqs
    from harness.ref import dense

    random.seed(job["seed"])
    torch.manual_seed(job["seed"])
    rng = np.random.default_rng(job["seed"])
    out: dict = {"id": job["id"], "error": None, "stage": "build", "margins": {}}
    ev: list = []
    try:
        seq = seqs.build_sequence(job["seq"])
        n = len(seq.register.qubit_ids)
        dim = 2
        nm = noise_model(job.get("noise"))
        lind = bool(job.get("noise"))
        obs = make_observables(job["obs"])
        kw: dict = dict(dt=job["dt"], krylov_tolerance=job["tol"], observables=obs, log_level=100, with_modulation=bool(job.get("modulation")))
        if job.get("default_times") is not None:
            kw["default_evaluation_times"] = job["default_times"]
        if nm is not None:
            kw["noise_model"] = nm
        psi0 = None
        rho0_mixed = None
        if job.get("init") in ("random", "mixed"):
            v = rng.normal(size=2**n) + 1j * rng.normal(size=2**n)
            v /= np.linalg.norm(v)
            psi0 = v
            if lind and job["init"] == "mixed":
                w = rng.normal(size=2**n) + 1j * rng.normal(size=2**n)
                w /= np.linalg.norm(w)
                p_ = float(rng.uniform(0.3, 0.7))
                rho0_mixed = p_ * np.outer(v, v.conj()) + (1 - p_) * np.outer(w, w.conj())
                kw["initial_state"] = DensityMatrix(torch.tensor(rho0_mixed, dtype=torch.complex128), gpu=False)
            elif lind:
                kw["initial_state"] = DensityMatrix(torch.tensor(np.outer(v, v.conj()), dtype=torch.complex128), gpu=False)
            else:
                kw["initial_state"] = StateVector(torch.tensor(v, dtype=torch.complex128), gpu=False)
        cfg = SVConfig(gpu=False, **kw)
        out["stage"] = "data"
        data = next(iter(PulserData(sequence=seq, config=cfg, dt=job["dt"]).get_sequences()))
        T = [float(t) for t in data.target_times]
        K = len(T) - 1
        om = np.real(data.omega.detach().numpy())
        de = np.real(data.delta.detach().numpy())
        ph = np.real(data.phi.detach().numpy())
        out["stage"] = "run"
        _verif.reset()
        _verif.set_sink(ev)
        try:
            if job.get("twice"):
                # the same backend object (hence the same stored configuration) feeds more than one run (as with several trajectories, or a user calling
                # run() again): the run under test is the SECOND one
                backend = SVBackend(seq, config=cfg)
                backend.run()
                ev.clear()
                _verif.reset()
                res = backend.run()
            else:
                res = SVBackend(seq, config=cfg).run()
        finally:
            _verif.set_sink(None)
        out["stage"] = "reference"
        # ---- exact piecewise-constant evolution on the EMITTED rows (first sentence of C01 / C16)
        slm_end = float(seq._slm_mask_time[1]) if len(seq._slm_mask_time) > 1 else 0.0
        # interaction matrices from the REGISTER (independent of the adapter): C6 / r^6, SLM-masked atoms decoupled
        full = seqs.ref_interaction(seq, "rydberg")
        cut = float(job.get("cutoff", 0.0))
        full[np.abs(full) < cut] = 0.0
        masked = full.copy()
        ids_ = [str(q) for q in seq.register.qubit_ids]
        for q in getattr(seq, "_slm_mask_targets", []) or []:
            j_ = ids_.index(str(q))
            masked[j_, :] = 0.0
            masked[:, j_] = 0.0

        def allowed_mats(k: int) -> list[np.ndarray]:
            a, b = T[k], T[k + 1]
            if b <= slm_end:
                return [masked]
            if a >= slm_end:
                return [full]
            return [masked, full]

        steps = [e for e in ev if e["ev"] == "sv_step"]
        used_mats = []
        RT = 1e-6   # Pulser rounds register coordinates before taking distances: its C6/r^6 differs from the raw-coordinate value at ~1e-7 relative
        for k in range(K):
            cands = allowed_mats(k)
            pick = cands[0]
            if k < len(steps):
                m_ = np.asarray(steps[k]["matrix"], dtype=float)
                for c_ in cands:      # a step straddling the SLM end may use either matrix: follow the emulator's choice
                    if m_.shape == c_.shape and np.allclose(m_, c_, rtol=RT, atol=1e-9) and np.array_equal(m_, m_.T):
                        pick = m_     # validated against the register-derived matrix: use the emulator's digits
            used_mats.append(pick)
        single_ops = [np.asarray(L.detach().numpy()) for L in data.lindblad_ops]
        if lind:
            rho0 = rho0_mixed if rho0_mixed is not None else (None if psi0 is None else np.outer(psi0, psi0.conj()))
            states, hams = seqs.ref_lindblad_run(om, de, ph, T, lambda k: used_mats[k], single_ops, rho0=rho0)
        else:
            states, hams = seqs.ref_unitary_run(om, de, ph, T, lambda k: used_mats[k], psi0=psi0)
        hnorm = max([np.linalg.norm(h, 2) if h.shape[0] <= 256 else np.abs(h).sum(axis=1).max() for h in hams] + [1.0])
        # ---- events -> trace
        trace: list[dict] = [{"ev": "new", "K": K}]
        tol = job["tol"]
        worst_state = 0.0
        worst_obs = 0.0
        tagvals = {}
        for tag in res.get_result_tags():
            if tag == "statistics":
                continue
            tagvals[tag] = dict(zip([round(float(t), 12) for t in res.get_result_times(tag)], getattr(res, tag)))
        step_i = 0
        for e in ev:
            if e["ev"] == "sv_step":
                row = -1
                o_, d_, p_ = np.asarray(e["omega"], float), np.asarray(e["delta"], float), np.asarray(e["phi"], float)
                for k in range(K):
                    if np.array_equal(o_, om[k]) and np.array_equal(d_, de[k]) and np.array_equal(p_, ph[k]):
                        row = k if (row == -1 or k == step_i) else row
                dti = -1
                for k in range(K):
                    if abs(e["dt"] - (T[k + 1] - T[k]) * 1e-3) <= 1e-15 + 1e-12 * abs(e["dt"]):
                        dti = k if (dti == -1 or k == step_i) else dti
                m = np.asarray(e["matrix"], dtype=float)
                mat_ok = step_i < K and np.array_equal(m, m.T) and any(m.shape == a.shape and np.allclose(m, a, rtol=RT, atol=1e-9) for a in allowed_mats(step_i))
                trace.append({"ev": "step", "rowIdx": row, "dtIdx": dti, "matOK": bool(mat_ok), "kind": e["kind"]})
                step_i += 1
            elif e["ev"] == "sv_evolve":
                k = e["k"]
                q_in = 0 <= k < K and (T[k] - 1e-9 <= e["tq"] <= T[k + 1] + 1e-9)
                trace.append({"ev": "evolve", "k": int(k), "qIn": bool(q_in)})
            elif e["ev"] == "sv_obs":
                k = int(e["k"])
                t = round(float(e["t"]), 12)
                stored_tags = [tg for tg in e["after"] if e["after"][tg] != e["before"].get(tg, 0) and tg != "statistics"]
                due_tags = [tg for tg in e["due"] if tg != "statistics"]
                budget = 10.0 * tol * max(k, 1) + 64 * EPS * hnorm * max(T[-1], 1.0) * 1e-3 * max(k, 1) + 1e-12
                state_ok, obs_ok, phys_ok = True, True, True
                ref = states[k] if k < len(states) else None
                H_k = hams[max(k - 1, 0)] if hams else None
                for tg in stored_tags:
                    val = tagvals.get(tg, {}).get(t)
                    if val is None or ref is None:
                        continue
                    if tg == "state":
                        x = val.data.detach().numpy()
                        err = float(np.linalg.norm(x - ref))
                        worst_state = max(worst_state, err / budget)
                        if err > budget:
                            state_ok = False
                        if lind:
                            herm = float(np.linalg.norm(x - x.conj().T))
                            tr = abs(np.trace(x) - 1.0)
                            w = np.linalg.eigvalsh(0.5 * (x + x.conj().T))
                            if herm > 1e-9 + budget or tr > 1e-9 + budget or w.min() < -(1e-9 + budget):
                                phys_ok = False
                    else:
                        exp = _obs_ref(tg, ref, n, H_k, lind)
                        if exp is None:
                            continue
                        got = np.asarray(val.detach().numpy() if hasattr(val, "detach") else val, dtype=complex)
                        scale = 1.0
                        if tg.startswith("energy"):
                            scale = hnorm if tg == "energy" else hnorm**2
                        ob = 2.0 * scale * budget + 1e-9 * max(1.0, scale)
                        err = float(np.max(np.abs(got - exp)))
                        if tg.startswith("energy") and err > ob and H_k is not None:
                            # a step that straddles the end of the SLM mask may be represented by either interaction matrix
                            # (both are discretisations of the step function); the generator handed to the energy observables
                            # need not be the one the stepper picked
                            s_ = max(k - 1, 0)
                            for c_ in allowed_mats(s_):
                                h_alt = dense.hamiltonian(om[s_], de[s_], ph[s_], c_, kind="rydberg", dim=2)
                                e_alt = _obs_ref(tg, ref, n, h_alt, lind)
                                # the alternative matrix comes from the raw register coordinates (Pulser rounds them: ~1e-7 relative)
                                sc_alt = float(np.abs(h_alt).sum(axis=1).max())
                                sc_alt = sc_alt if tg == "energy" else sc_alt**2
                                err = min(err, max(0.0, float(np.max(np.abs(got - e_alt))) - 2e-6 * max(scale, sc_alt)))
                        worst_obs = max(worst_obs, err / ob)
                        if err > ob:
                            obs_ok = False
                            if os.environ.get("VERIF_DEBUG"):
                                print("DEBUG obs", tg, k, "got", got, "exp", exp, "err", err, "ob", ob)
                # whether the RIGHT observables are stored at this time is C14's subject; here due := stored
                trace.append({"ev": "obs", "k": k, "due": bool(stored_tags), "stored": bool(stored_tags), "stateOK": state_ok, "obsOK": obs_ok, "physOK": phys_ok})
            elif e["ev"] == "sv_ret":
                trace.append({"ev": "ret", "K": int(e["nsteps"]), "refOK": True})
        out["margins"] = {"state": worst_state, "obs": worst_obs}
        # ---- continuous-time reference (second sentence): converged fine-step evolution of the interpolated samples
        if job.get("ct") and "occupation" in tagvals and not lind and n <= 6:
            out["stage"] = "ct-reference"
            local, basis, duration = seqs.pulser_local_samples(seq, bool(job.get("modulation")))
            qids = [str(q) for q in seq.register.qubit_ids]
            local = {str(k): v for k, v in local.items()}
            U_of_t = lambda t: masked if t < slm_end else full
            fine = min(job["dt"] / 8.0, 0.25)
            rt = seqs.ref_target_times(int(T[-1]), job["dt"], [t for t in tagvals["occupation"]])
            ft = sorted(set(np.round(np.concatenate([np.arange(0, T[-1] + 1e-9, fine), np.asarray(rt)]), 9).tolist()))
            def run_grid(grid, where="mid"):
                o2, d2, p2 = seqs.ref_rows(local, qids, grid, int(T[-1]))
                tq = (lambda k: 0.5 * (grid[k] + grid[k + 1])) if where == "mid" else (lambda k: grid[k])
                st, _ = seqs.ref_unitary_run(o2, d2, p2, grid, lambda k: U_of_t(tq(k)), psi0=psi0)
                return {round(g / T[-1], 12): s for g, s in zip(grid, st)}
            pc = run_grid(rt)
            pc2 = run_grid(rt, "start")   # a step straddling the SLM mask end may use either matrix
            ct = run_grid(ft)
            worst = 0.0
            ref_ok = True
            for t, val in tagvals["occupation"].items():
                if t not in pc or t not in ct:
                    continue
                e_emu = np.asarray(val.detach().numpy(), float)
                o_pc = dense.occupation(pc[t], n)
                o_ct = dense.occupation(ct[t], n)
                D = max(float(np.max(np.abs(o_pc - o_ct))), float(np.max(np.abs(dense.occupation(pc2[t], n) - o_ct))))
                bud = 1.05 * D + 40.0 * tol * K + 1e-7
                err = float(np.max(np.abs(e_emu - o_ct)))
                worst = max(worst, err / bud)
                if err > bud:
                    ref_ok = False
            out["margins"]["ct"] = worst
            for tr in trace:
                if tr["ev"] == "ret":
                    tr["refOK"] = ref_ok
        out["trace"] = trace
        out["K"] = K
        out["n"] = n
        out["njumps"] = 0
        out["stage"] = "done"
    except BaseException as e:  # noqa
        import traceback

        out["error"] = f"{type(e).__name__}: {e}"
        out["tb"] = traceback.format_exc()[-1500:]
    return out


def _obs_ref(tag: str, state: np.ndarray, n: int, H: np.ndarray | None, lind: bool):
    from harness.ref import dense

    if state.ndim == 1:
        nrm = np.vdot(state, state).real
        st = state / np.sqrt(nrm) if nrm > 0 else state
    else:
        st = state / np.trace(state).real
    if tag == "occupation":
        return dense.occupation(st, n)
    if tag == "correlation_matrix":
        return dense.correlation(st, n)
    if H is None:
        return None
    if tag == "energy":
        return np.array(dense.expect(H, st).real)
    if tag == "energy_second_moment":
        return np.array(dense.expect(H @ H, st).real)
    if tag == "energy_variance":
        return np.array(dense.expect(H @ H, st).real - dense.expect(H, st).real ** 2)
    return None
