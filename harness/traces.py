"""Batched trace validation: many traces, one TLC start, one verdict line per trace (DESIGN 3.2 B)."""
from __future__ import annotations

import json
from pathlib import Path
from typing import Any

from .core import Ctx, MachineryError
from .tlc import printed_tuples, run_tlc


def rank_map(values: list[float]) -> dict[float, int]:
    """Order-exact projection of floats onto small integers (ties preserved)."""
    return {v: i for i, v in enumerate(sorted(set(values)))}


def validate_batch(
    ctx: Ctx, module: str, traces: list[dict], name: str, cfg: str | None = None,
    timeout: int = 1800, chunk: int = 2000,
) -> dict[Any, tuple]:
    """Returns {trace id: ("ACCEPT",) | ("REJECT", event_index, clause)}; every trace gets a verdict."""
    verdicts: dict[Any, tuple] = {}
    drift: dict[str, list] = {}
    for c0 in range(0, len(traces), chunk):
        part = traces[c0:c0 + chunk]
        f = ctx.work / f"{name}_{c0}.json"
        f.write_text(json.dumps(part))
        res = run_tlc(
            module, cfg or module + ".cfg", workdir=ctx.work, name=f"{name}_{c0}", workers=1,
            env={"TRACE_FILE": str(f)}, timeout=timeout,
        )
        if not res["ok"]:
            raise MachineryError(f"trace validation run {name} did not complete: {res['violated']} see {res['outfile']}")
        for t in printed_tuples(res["out"]):
            if t[0] == "ACCEPT":
                verdicts.setdefault(t[1], ("ACCEPT",))
            elif t[0] == "REJECT":
                verdicts[t[1]] = ("REJECT", t[2], t[3])
            elif t[0] == "DRIFT":
                # a MECHANISM clause of the trace specification failed: reported, never alarmed (R2)
                drift.setdefault(t[2], []).append(t[1])
        ctx.add_tlc(res)
        for tr in part:
            if tr["id"] not in verdicts:
                raise MachineryError(f"no verdict for trace {tr['id']} in {name} (see {res['outfile']})")
    ctx.traces_validated += len(traces)
    for clause, ids in sorted(drift.items()):
        ctx.model_drift(f"[{name}] {module}: mechanism clause '{clause}' fails on {len(set(ids))} of {len(traces)} real traces (first: trace {sorted(set(ids))[0]}); requirement clauses were still checked to the end of each trace")
    return verdicts
