"""Process pool for run-level checks (spawn context; 1 torch thread per worker; hooks on)."""
from __future__ import annotations

import concurrent.futures as cf
import multiprocessing as mp
import os
from typing import Any, Callable, Iterable


def _init() -> None:
    os.environ["PASQAL_IO_EMULATORS_VERIF"] = "1"
    os.environ["OMP_NUM_THREADS"] = "1"
    os.environ["MKL_NUM_THREADS"] = "1"
    try:
        import torch

        torch.set_num_threads(1)
    except Exception:
        pass


def pmap(fn: Callable[[Any], Any], items: Iterable[Any], procs: int | None = None, chunksize: int = 1) -> list[Any]:
    """Ordered parallel map; `fn` must be a module-level function (spawned workers import it)."""
    items = list(items)
    procs = procs or int(os.environ.get("VERIF_PROCS", "16"))
    procs = max(1, min(procs, len(items)))
    if procs == 1:
        _init()
        return [fn(x) for x in items]
    ctx = mp.get_context("spawn")
    with cf.ProcessPoolExecutor(max_workers=procs, mp_context=ctx, initializer=_init) as ex:
        return list(ex.map(fn, items, chunksize=chunksize))
