"""File-system operation recorder / fault injector built on sys.addaudithook (layout-agnostic:
whatever API the code uses -- open, os.rename, os.replace, pathlib, shutil -- the audit events
`open`, `os.rename`, `os.remove` fire).  An exception raised from the hook aborts the operation,
which is how a crash BEFORE a given operation is injected."""
from __future__ import annotations

import os
import sys
from typing import Callable, Optional

_state = {"on": False, "dir": None, "ops": None, "crash_at": None, "count": 0, "exc": None, "paused": False}
_installed = False


def _hook(event: str, args: tuple) -> None:
    st = _state
    if not st["on"] or st["paused"]:
        return
    if event == "open":
        path, mode, flags = args
        if not isinstance(mode, str) or not any(c in mode for c in "wax+"):
            return
        rec = ("create", "", _norm(path))
    elif event == "os.rename":
        rec = ("rename", _norm(args[0]), _norm(args[1]))
    elif event == "os.remove":
        rec = ("remove", "", _norm(args[0]))
    elif event in ("os.truncate", "os.link", "os.symlink", "shutil.copyfile", "shutil.move"):
        rec = ("other:" + event, _norm(args[0]), _norm(args[1]) if len(args) > 1 else "")
    else:
        return
    d = st["dir"]
    if d and not any(p.startswith(d) for p in rec[1:] if p):
        return
    st["count"] += 1
    if st["crash_at"] is not None and st["count"] == st["crash_at"]:
        st["on"] = False
        raise st["exc"](f"injected crash before fs op #{st['count']} {rec}")
    st["ops"].append(rec)


def _norm(p) -> str:
    try:
        return os.path.abspath(os.fspath(p))
    except TypeError:
        return str(p)


def start(directory: str, crash_at: Optional[int] = None, exc: type = RuntimeError) -> list:
    global _installed
    if not _installed:
        sys.addaudithook(_hook)
        _installed = True
    ops: list = []
    _state.update(on=True, dir=os.path.abspath(directory), ops=ops, crash_at=crash_at, count=0, exc=exc, paused=False)
    return ops


def stop() -> None:
    _state["on"] = False


def count() -> int:
    return _state["count"]
