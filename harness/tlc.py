"""TLC runner and output parsers (model checking, simulation, batched trace validation)."""
from __future__ import annotations

import json
import os
import re
import shutil
import subprocess
import time
from pathlib import Path
from typing import Any

from .core import SPEC, MachineryError

JAR = "/opt/veriftools/tla/tla2tools.jar:/opt/veriftools/tla/CommunityModules-deps.jar"

_RE_STATES = re.compile(r"(\d+) states generated, (\d+) distinct states found, (\d+) states left on queue")
_RE_DEPTH = re.compile(r"The depth of the complete state graph search is (\d+)")
_RE_INV = re.compile(r"Error: Invariant (\S+) is violated")
_RE_ACTPROP = re.compile(r"Error: Action property (\S+) is violated")
_RE_TEMPORAL = re.compile(r"Error: Temporal properties were violated")
_RE_COV = re.compile(r"^<(\w+) line (\d+), col (\d+) to line (\d+), col (\d+) of module (\w+)>: (\d+):(\d+)")


def run_tlc(
    module: str,
    cfg: str | None = None,
    *,
    workdir: Path,
    name: str | None = None,
    workers: int | str = 16,
    env: dict[str, str] | None = None,
    extra: list[str] | None = None,
    timeout: int = 1800,
    coverage: bool = False,
    simulate: str | None = None,
    depth: int | None = None,
    deadlock: bool = False,
    spec_dir: Path = SPEC,
    cfg_text: str | None = None,
    heap: str = "8g",
    expect_fail: bool = False,
) -> dict[str, Any]:
    """Run TLC on spec_dir/module.tla.  `cfg` is a file name in spec_dir, or cfg_text gives the
    configuration literally (written to the work dir).  Returns parsed statistics + raw output."""
    name = name or (cfg or module).replace(".cfg", "")
    meta = workdir / "tlc" / name
    if meta.exists():
        shutil.rmtree(meta, ignore_errors=True)
    meta.mkdir(parents=True, exist_ok=True)
    if cfg_text is not None:
        cfg_path = meta / f"{name}.cfg"
        cfg_path.write_text(cfg_text)
    else:
        cfg_path = spec_dir / (cfg or module + ".cfg")
    cmd = [
        "java", f"-Xmx{heap}", "-XX:+UseParallelGC", f"-Djava.io.tmpdir={meta}", "-cp", JAR, "tlc2.TLC",
        "-workers", str(workers), "-metadir", str(meta / "states"), "-noGenerateSpecTE",
        "-config", str(cfg_path),
    ]
    if not deadlock:
        cmd += ["-deadlock"]  # -deadlock DISABLES deadlock checking
    if coverage:
        cmd += ["-coverage", "1"]
    if simulate:
        cmd += ["-simulate", simulate]
    if depth is not None:
        cmd += ["-depth", str(depth)]
    if extra:
        cmd += extra
    cmd += [module + ".tla"]
    e = dict(os.environ)
    if env:
        e.update(env)
    t0 = time.time()
    try:
        p = subprocess.run(cmd, cwd=spec_dir, env=e, capture_output=True, text=True, timeout=timeout)
    except subprocess.TimeoutExpired as ex:
        raise MachineryError(f"TLC timeout after {timeout}s on {module}/{name}") from ex
    out = p.stdout + "\n" + p.stderr
    (meta / "out.txt").write_text(out)
    res: dict[str, Any] = {
        "name": name, "module": module, "rc": p.returncode, "out": out, "wall_s": round(time.time() - t0, 2),
        "mode": "simulate" if simulate else "bfs", "outfile": str(meta / "out.txt"),
    }
    m = None
    for m in _RE_STATES.finditer(out):
        pass
    if m:
        res["generated"], res["distinct"], res["queue"] = int(m.group(1)), int(m.group(2)), int(m.group(3))
    m = _RE_DEPTH.search(out)
    if m:
        res["depth"] = int(m.group(1))
    res["violated"] = (
        [("invariant", x) for x in _RE_INV.findall(out)]
        + [("action", x) for x in _RE_ACTPROP.findall(out)]
        + ([("temporal", "temporal")] if _RE_TEMPORAL.search(out) else [])
    )
    res["deadlock"] = "Error: Deadlock reached" in out
    res["ok"] = ("Model checking completed. No error has been found." in out) or (
        simulate is not None and p.returncode == 0 and "Error:" not in out
    )
    if coverage:
        zero = []
        # TLC prints an intermediate coverage snapshot every minute: only the last one counts
        last = out.rfind("The coverage statistics at")
        for line in (out[last:] if last >= 0 else out).splitlines():
            mm = _RE_COV.match(line.strip())
            if mm and int(mm.group(8)) == 0:
                zero.append(mm.group(1))
        res["coverage_zero"] = sorted(set(zero))
    if not res["ok"] and not res["violated"] and not res["deadlock"] and not expect_fail:
        tail = "\n".join(out.splitlines()[-40:])
        raise MachineryError(f"TLC failed on {module}/{name} (rc={p.returncode}):\n{tail}")
    return res


# ---------------------------------------------------------------------------------------------
# TLA+ value parsing (PrintT output, counter-example states, simulation trace files)
# ---------------------------------------------------------------------------------------------

_RE_INT = re.compile(r"-?\d+")
_RE_ID = re.compile(r"[A-Za-z_][A-Za-z0-9_]*")


class _P:
    def __init__(self, s: str):
        self.s = s
        self.i = 0

    def ws(self) -> None:
        while self.i < len(self.s) and self.s[self.i] in " \t\r\n":
            self.i += 1

    def peek(self, k: int = 1) -> str:
        return self.s[self.i:self.i + k]

    def expect(self, t: str) -> None:
        self.ws()
        if not self.s.startswith(t, self.i):
            raise ValueError(f"expected {t!r} at {self.i}: {self.s[self.i:self.i+40]!r}")
        self.i += len(t)

    def value(self) -> Any:
        self.ws()
        s = self.s
        if s.startswith("<<", self.i):
            self.i += 2
            items = []
            self.ws()
            if s.startswith(">>", self.i):
                self.i += 2
                return items
            while True:
                items.append(self.value())
                self.ws()
                if s.startswith(">>", self.i):
                    self.i += 2
                    return items
                self.expect(",")
        if s.startswith("{", self.i):
            self.i += 1
            items = []
            self.ws()
            if s.startswith("}", self.i):
                self.i += 1
                return {"__set__": items}
            while True:
                items.append(self.value())
                self.ws()
                if s.startswith("}", self.i):
                    self.i += 1
                    return {"__set__": items}
                self.expect(",")
        if s.startswith("[", self.i):
            self.i += 1
            d = {}
            self.ws()
            while True:
                self.ws()
                j = self.i
                while s[self.i] not in " |":
                    self.i += 1
                key = s[j:self.i]
                self.ws()
                self.expect("|->")
                d[key] = self.value()
                self.ws()
                if s.startswith("]", self.i):
                    self.i += 1
                    return d
                self.expect(",")
        if s.startswith("(", self.i):  # function display (a :> b @@ c :> d)
            self.i += 1
            d = {}
            while True:
                k = self.value()
                self.ws()
                self.expect(":>")
                v = self.value()
                d[json.dumps(k) if not isinstance(k, (str, int)) else k] = v
                self.ws()
                if s.startswith(")", self.i):
                    self.i += 1
                    return {"__fn__": d}
                self.expect("@@")
        if s[self.i] == '"':
            j = self.i + 1
            while s[j] != '"':
                j += 2 if s[j] == "\\" else 1
            v = s[self.i + 1:j]
            self.i = j + 1
            return v
        m = _RE_INT.match(s, self.i)
        if m:
            self.i += len(m.group(0))
            return int(m.group(0))
        m = _RE_ID.match(s, self.i)
        if m:
            self.i += len(m.group(0))
            w = m.group(0)
            return {"TRUE": True, "FALSE": False}.get(w, w)
        raise ValueError(f"cannot parse TLA value at {self.i}: {s[self.i:self.i+40]!r}")


def parse_value(s: str) -> Any:
    p = _P(s)
    v = p.value()
    return v


def printed_tuples(out: str, head: str | None = None) -> list[list]:
    """All PrintT'ed tuples `<<"HEAD", ...>>` in a TLC output (bracket matching, multi-line safe)."""
    res = []
    i = 0
    while True:
        i = out.find("<<", i)
        if i < 0:
            break
        # only tuples that start a line
        ls = out.rfind("\n", 0, i) + 1
        if out[ls:i].strip():
            i += 2
            continue
        p = _P(out)
        p.i = i
        try:
            v = p.value()
        except Exception:
            i += 2
            continue
        i = p.i
        if isinstance(v, list) and v and (head is None or v[0] == head):
            res.append(v)
    return res


_RE_STATE_HDR = re.compile(r"^State (\d+): <(.*?)>\s*$|^State (\d+): (Stuttering)", re.M)


def parse_counterexample(out: str) -> list[dict]:
    """States of a TLC counter-example: [{'n':1,'action':'Initial predicate', 'vars':{...}}, ...]"""
    states = []
    parts = re.split(r"^State (\d+): ", out, flags=re.M)
    # parts: [pre, n1, body1, n2, body2, ...]
    for k in range(1, len(parts) - 1, 2):
        body = parts[k + 1]
        hdr, _, rest = body.partition("\n")
        block = rest.split("\n\n")[0]
        vars_: dict[str, Any] = {}
        for m in re.finditer(r"^/\\ (\w+) = ", block, flags=re.M):
            start = m.end()
            nxt = re.search(r"^/\\ \w+ = ", block[start:], flags=re.M)
            txt = block[start: start + nxt.start()] if nxt else block[start:]
            try:
                vars_[m.group(1)] = parse_value(txt.strip())
            except Exception:
                vars_[m.group(1)] = txt.strip()
        act = re.match(r"<(\w+)", hdr)
        states.append({"n": int(parts[k]), "action": act.group(1) if act else hdr.strip(), "vars": vars_})
    return states


def parse_sim_file(path: Path) -> list[dict]:
    """Parse one behaviour file written by `-simulate file=...`:
    [{'n': 1, 'action': 'Init', 'vars': {...}}, ...]"""
    txt = Path(path).read_text()
    states = []
    parts = re.split(r"^\\\* <(\w+)[^\n]*\nSTATE_(\d+) ==[ ]*\n", txt, flags=re.M)
    # parts: [pre, action1, n1, body1, action2, n2, body2, ...]
    for k in range(1, len(parts) - 2, 3):
        act, n, body = parts[k], int(parts[k + 1]), parts[k + 2]
        body = body.split("\n\n")[0]
        vars_: dict[str, Any] = {}
        ms = list(re.finditer(r"^/\\ (\w+) = ", body, flags=re.M))
        for idx, m in enumerate(ms):
            end = ms[idx + 1].start() if idx + 1 < len(ms) else len(body)
            v = body[m.end():end].strip()
            if v.endswith("===="):
                v = v[: v.index("====")].strip()
            try:
                vars_[m.group(1)] = parse_value(v)
            except Exception:
                vars_[m.group(1)] = v
        states.append({"n": n, "action": act, "vars": vars_})
    return states


# ---------------------------------------------------------------------------------------------
# helpers to write constants / JSON for TLC
# ---------------------------------------------------------------------------------------------

def tla(v: Any) -> str:
    """Python value -> TLA+ expression (ints, bools, strings, lists -> tuples, dicts -> records, sets)."""
    if isinstance(v, bool):
        return "TRUE" if v else "FALSE"
    if isinstance(v, int):
        return str(v) if v >= 0 else f"(0 - {-v})"
    if isinstance(v, str):
        return '"' + v + '"'
    if isinstance(v, (list, tuple)):
        return "<<" + ", ".join(tla(x) for x in v) + ">>"
    if isinstance(v, (set, frozenset)):
        return "{" + ", ".join(tla(x) for x in sorted(v, key=repr)) + "}"
    if isinstance(v, dict):
        if not v:
            return "<<>>"
        return "[" + ", ".join(f"{k} |-> {tla(x)}" for k, x in v.items()) + "]"
    raise TypeError(f"no TLA+ form for {v!r}")
