"""Stratified scenario generator for run-level checks.  Discrete strata are enumerated / covered
round-robin; a seeded RNG fills in the continuous parameters.  Everything returned is JSON-able."""
from __future__ import annotations

import math
import random
from typing import Any

from . import seqs

WF_KINDS = ["const", "ramp", "blackman", "interp", "composite"]
PHASE_KINDS = ["zero", "const", "jump", "pi_echo"]   # pi_echo: phases exactly 0 and pi (sin(pi) is 1e-16 in floating point)
DMM_KINDS = ["none", "zeros", "all"]
SLM_KINDS = ["none", "subset"]
DT_KINDS = ["divides", "not_divides", "lt1", "gt_T"]
EVAL_KINDS = ["grid", "offgrid", "last_ns", "ends", "default_only"]


def _wf(rng: random.Random, kind: str, d: int, scale: float, positive: bool) -> dict:
    lo = 0.0 if positive else -scale
    if kind == "const":
        return {"k": "const", "d": d, "v": rng.uniform(lo if not positive else 0.2 * scale, scale)}
    if kind == "ramp":
        return {"k": "ramp", "d": d, "v0": rng.uniform(lo, scale), "v1": rng.uniform(lo, scale)}
    if kind == "blackman":
        if positive:
            return {"k": "blackman", "d": d, "area": rng.uniform(0.3, 1.5) * math.pi * max(d, 16) / 100.0 * 3}
        return {"k": "ramp", "d": d, "v0": rng.uniform(lo, scale), "v1": rng.uniform(lo, scale)}
    if kind == "interp":
        m = rng.choice([3, 4, 6])
        return {"k": "interp", "d": d, "values": [rng.uniform(lo if not positive else 0.0, scale) for _ in range(m)]}
    if kind == "composite":
        d1 = max(4, d // 2)
        d2 = max(4, d - d1)
        return {"k": "composite", "parts": [_wf(rng, "ramp", d1, scale, positive), _wf(rng, "const", d2, scale, positive)]}
    raise ValueError(kind)


def sequence_spec(rng: random.Random, n: int, wf_kind: str, phase_kind: str, dmm_kind: str, slm_kind: str,
                  duration: int, modulation: bool = False, amp_scale: float = 8.0, det_scale: float = 6.0,
                  min_spacing: float = 6.0) -> dict:
    layout = rng.choice(["line", "ring", "zigzag", "ladder"]) if n > 2 else "line"
    spacing = rng.uniform(min_spacing, min_spacing + 4.0)
    coords = seqs.LAYOUTS[layout](n, spacing)
    # small random jitter so that no two interactions are exactly equal
    coords = [[c[0] + rng.uniform(-0.3, 0.3), c[1] + rng.uniform(-0.3, 0.3)] for c in coords]
    dev = "AnalogDevice" if modulation else "MockDevice"
    spec: dict[str, Any] = {"coords": coords, "device": dev, "channels": {"ryd": "rydberg_global"}, "ops": []}
    ids = [f"q{i}" for i in range(n)]
    if modulation:
        amp_scale = min(amp_scale, 10.0)
        det_scale = min(det_scale, 30.0)
        duration = max(16, (duration // 4) * 4)
    if phase_kind in ("jump", "pi_echo"):
        d1 = max(4, (duration // 2 // 4) * 4) if modulation else max(2, duration // 2)
        d2 = duration - d1
        durs = [d1, d2] if d2 >= (16 if modulation else 2) else [duration]
    else:
        durs = [duration]
    if modulation:
        durs = [max(16, (x // 4) * 4) for x in durs]
    phases = {"zero": [0.0, 0.0], "const": [rng.uniform(0.2, 3.0)] * 2, "jump": [rng.uniform(0.0, 3.0), rng.uniform(-3.0, 3.0)],
              "pi_echo": rng.choice([[0.0, math.pi], [math.pi, 0.0], [math.pi, math.pi / 2], [0.0, -math.pi]])}[phase_kind]
    for i, d in enumerate(durs):
        spec["ops"].append({"op": "add", "ch": "ryd", "pulse": {"amp": _wf(rng, wf_kind, d, amp_scale, True), "det": _wf(rng, rng.choice(["const", "ramp", "interp"]), d, det_scale, False), "phase": phases[i]}})
    if dmm_kind != "none" and not modulation:
        w = [rng.uniform(0.1, 1.0) for _ in ids]
        if dmm_kind == "zeros" and n > 1:
            for j in rng.sample(range(n), max(1, n // 2)):
                w[j] = 0.0
        if sum(w) == 0:
            w[0] = 1.0
        tot = sum(w)
        spec["dmm"] = {"weights": {q: wi / tot for q, wi in zip(ids, w)}}
        spec["ops"].insert(0, {"op": "dmm", "wf": {"k": "ramp", "d": sum(durs), "v0": -rng.uniform(0.0, 8.0), "v1": -rng.uniform(0.0, 8.0)}})
        # the detuning map must act WHILE the atoms are driven: with the default protocol Pulser delays the global pulses until the
        # DMM waveform is over (the channels share their targets), and a per-atom detuning on undriven ground-state atoms is inert
        for o in spec["ops"]:
            if o["op"] == "add":
                o["protocol"] = "no-delay"
    if slm_kind == "subset" and n > 1 and not modulation:
        spec["slm"] = rng.sample(ids, rng.randint(1, n - 1))
    return spec


def add_local_phase(rng: random.Random, spec: dict, d: int = 10, amp_scale: float = 8.0) -> dict:
    """Append two pulses of a rydberg_local channel (two different targets) after the global pulses: every atom is still driven by
    the global channel, so no atom is without samples; the default min-delay protocol keeps the local pulses after the global ones."""
    n = len(spec["coords"])
    ids = [f"q{i}" for i in range(n)]
    a = rng.randrange(n)
    b = rng.choice([j for j in range(n) if j != a]) if n > 1 else a
    spec["channels"]["loc"] = "rydberg_local"
    spec.setdefault("initial_target", {})["loc"] = ids[a]
    ph = rng.choice([0.0, rng.uniform(0.2, 3.0)])
    spec["ops"].append({"op": "add", "ch": "loc", "pulse": {"amp": _wf(rng, "const", d, amp_scale, True), "det": _wf(rng, "const", d, 4.0, False), "phase": ph}})
    spec["ops"].append({"op": "target", "ch": "loc", "q": ids[b]})
    spec["ops"].append({"op": "add", "ch": "loc", "pulse": {"amp": _wf(rng, "ramp", d, amp_scale, True), "det": _wf(rng, "const", d, 4.0, False), "phase": ph}})
    return spec


def spec_duration(spec: dict) -> int:
    if len(spec["channels"]) > 1:
        return int(seqs.build_sequence(spec).get_duration())
    return sum(seqs.wf_duration(o["pulse"]["amp"]) for o in spec["ops"] if o["op"] == "add")


def dt_and_times(rng: random.Random, duration: int, dt_kind: str, eval_kind: str, safe_times: bool, allow_lt1: bool) -> tuple[float, list[float] | None, list[float]]:
    """Returns (dt, default_evaluation_times or None, per-observable times)."""
    divs = [d for d in (1, 2, 4, 5, 8, 10, 16, 20, 25) if duration % d == 0 and d <= duration]
    if dt_kind == "divides":
        dt = float(rng.choice(divs))
    elif dt_kind == "not_divides":
        cands = [d for d in (3, 6, 7, 9, 11, 13) if duration % d != 0 and d < duration]
        dt = float(rng.choice(cands)) if cands else float(rng.choice(divs))
    elif dt_kind == "lt1" and allow_lt1:
        dt = rng.choice([0.5, 0.25])
    elif dt_kind == "gt_T":
        dt = float(duration + rng.choice([1, 7]))
    else:
        dt = float(rng.choice(divs))
    nsteps = int(duration // dt)
    if eval_kind == "grid":
        ks = sorted(set(rng.sample(range(0, nsteps + 1), min(3, nsteps + 1))))
        # same floating-point expression as the emulator's own grid construction (i * dt / duration)
        times = [min(1.0, k * float(dt) / float(duration)) for k in ks]
    elif eval_kind == "offgrid":
        if safe_times:
            times = sorted({rng.choice([1, 3, 5, 7]) / 8.0, rng.choice([1, 3]) / 4.0})
        else:
            times = sorted({round(rng.uniform(0.05, 0.95), 6), round(rng.uniform(0.05, 0.95), 3)})
    elif eval_kind == "last_ns":
        times = sorted({(duration - rng.uniform(0.1, 0.9)) / duration, 1.0})
    elif eval_kind == "ends":
        times = [0.0, 1.0]
    else:
        times = [1.0]
    times = [min(1.0, max(0.0, float(t))) for t in times]
    if 1.0 not in times and rng.random() < 0.5:
        times.append(1.0)
    times = sorted(set(times))
    default = None
    if eval_kind == "default_only":
        default = times
    return dt, default, times
