"""
Scenario instantiation: JSON-able sequence specifications -> pulser.Sequence, and the INDEPENDENT
reference for what a run should compute (target times, per-step drive rows, interaction matrices,
exact piecewise-constant evolution).  Uses pulser (trusted base: Sequence / sampler / NoiseModel
API), numpy, scipy.  Never imports emu_*.
"""
from __future__ import annotations

import math
from fractions import Fraction
from typing import Any, Sequence

import numpy as np
import pulser
from pulser.sampler import sampler
from scipy.interpolate import PchipInterpolator

from ..ref import dense

# ------------------------------------------------------------------------------ building
LAYOUTS = {
    "line": lambda n, a: [[i * a, 0.0] for i in range(n)],
    "ring": lambda n, a: [[a / (2 * math.sin(math.pi / n)) * math.cos(2 * math.pi * i / n),
                           a / (2 * math.sin(math.pi / n)) * math.sin(2 * math.pi * i / n)] for i in range(n)] if n > 2 else [[i * a, 0.0] for i in range(n)],
    "ladder": lambda n, a: [[(i // 2) * a, (i % 2) * a * 1.1] for i in range(n)],
    "zigzag": lambda n, a: [[i * a * 0.8, (i % 2) * a * 0.7] for i in range(n)],
}


def waveform(w: dict) -> Any:
    k = w["k"]
    if k == "const":
        return pulser.ConstantWaveform(w["d"], w["v"])
    if k == "ramp":
        return pulser.RampWaveform(w["d"], w["v0"], w["v1"])
    if k == "blackman":
        return pulser.BlackmanWaveform(w["d"], w["area"])
    if k == "interp":
        return pulser.InterpolatedWaveform(w["d"], w["values"])
    if k == "custom":
        return pulser.CustomWaveform(w["values"])
    if k == "composite":
        return pulser.CompositeWaveform(*[waveform(x) for x in w["parts"]])
    raise ValueError(k)


def wf_duration(w: dict) -> int:
    if w["k"] == "composite":
        return sum(wf_duration(x) for x in w["parts"])
    if w["k"] == "custom":
        return len(w["values"])
    return w["d"]


def device(name: str) -> Any:
    if name == "MockDevice":
        return pulser.MockDevice
    if name == "AnalogDevice":
        return pulser.AnalogDevice
    if name == "DigitalAnalogDevice":
        return pulser.DigitalAnalogDevice
    raise ValueError(name)


def build_sequence(spec: dict) -> pulser.Sequence:
    """spec = {coords, ids?, device?, channels: {name: channel_id}, ops: [...], dmm?: {weights}, slm?: [ids], magnetic_field?}"""
    coords = spec["coords"]
    ids = spec.get("ids") or [f"q{i}" for i in range(len(coords))]
    reg = pulser.Register({i: c for i, c in zip(ids, coords)})
    seq = pulser.Sequence(reg, device(spec.get("device", "MockDevice")))
    for name, cid in spec["channels"].items():
        if cid.startswith("rydberg_local") or cid.startswith("raman_local"):
            seq.declare_channel(name, cid, initial_target=spec.get("initial_target", {}).get(name, ids[0]))
        else:
            seq.declare_channel(name, cid)
    if spec.get("magnetic_field") is not None:
        seq.set_magnetic_field(*spec["magnetic_field"])
    if spec.get("dmm"):
        dm = reg.define_detuning_map({k: v for k, v in spec["dmm"]["weights"].items()})
        seq.config_detuning_map(dm, "dmm_0")
    if spec.get("slm"):
        seq.config_slm_mask(spec["slm"])
    for op in spec["ops"]:
        o = op["op"]
        if o == "add":
            p = op["pulse"]
            pulse = pulser.Pulse(waveform(p["amp"]), waveform(p["det"]), p.get("phase", 0.0), post_phase_shift=p.get("post_phase_shift", 0.0))
            seq.add(pulse, op["ch"], protocol=op.get("protocol", "min-delay"))
        elif o == "delay":
            seq.delay(op["d"], op["ch"])
        elif o == "target":
            seq.target(op["q"], op["ch"])
        elif o == "dmm":
            seq.add_dmm_detuning(waveform(op["wf"]), "dmm_0")
        elif o == "phase_shift":
            seq.phase_shift(op["phi"], *op["targets"], basis=op.get("basis", "ground-rydberg"))
        else:
            raise ValueError(o)
    return seq


def simple_spec(n: int, layout: str, spacing: float, amp: dict, det: dict, phase: float = 0.0, **kw: Any) -> dict:
    spec = {
        "coords": LAYOUTS[layout](n, spacing),
        "channels": {"ryd": "rydberg_global"},
        "ops": [{"op": "add", "ch": "ryd", "pulse": {"amp": amp, "det": det, "phase": phase}}],
    }
    spec.update(kw)
    return spec


# ------------------------------------------------------------------------------ reference: time grid
def ref_target_times(duration: int, dt: float | Fraction, eval_times: Sequence[float]) -> list[float]:
    """The INTENDED grid: multiples of dt up to the duration, the duration itself, and every requested
    evaluation time (as fraction of the duration); points closer than 1e-9 ns are the same point."""
    dtf = Fraction(dt) if not isinstance(dt, Fraction) else dt
    pts = set()
    k = 0
    while k * dtf <= duration:
        pts.add(float(k * dtf))
        k += 1
    pts.add(float(duration))
    for e in eval_times:
        pts.add(float(e) * duration)
    out: list[float] = []
    for p in sorted(pts):
        if not out or p - out[-1] > 1e-9:
            out.append(p)
    return out


# ------------------------------------------------------------------------------ reference: drive rows
def pulser_local_samples(seq: pulser.Sequence, with_modulation: bool = False) -> tuple[dict, str, int]:
    """Pulser's own 1-ns samples per qubit: {qid: {'amp','det','phase'}} , basis name, duration."""
    s = sampler.sample(seq, modulation=with_modulation,
                       extended_duration=seq.get_duration(include_fall_time=with_modulation))
    d = s.to_nested_dict(all_local=True)["Local"]
    keys = [k for k in d if d[k]]
    assert len(keys) == 1, keys
    return d[keys[0]], keys[0], s.max_duration


def ref_rows(local: dict, qubit_ids: Sequence[str], target_times: Sequence[float], duration: int) -> tuple[np.ndarray, np.ndarray, np.ndarray]:
    """Shape-preserving cubic (scipy PCHIP, extrapolating from the end interval) of Pulser's samples at
    the step midpoints; amplitude clamped at 0."""
    t = np.asarray(target_times, dtype=float)
    mid = 0.5 * (t[:-1] + t[1:])
    grid = np.arange(duration, dtype=float)
    n = len(qubit_ids)
    om = np.zeros((len(mid), n))
    de = np.zeros((len(mid), n))
    ph = np.zeros((len(mid), n))
    for j, q in enumerate(qubit_ids):
        if q not in local:
            continue
        for arr, name in ((om, "amp"), (de, "det"), (ph, "phase")):
            y = np.real(np.asarray(local[q][name], dtype=complex))
            if duration >= 2:
                arr[:, j] = PchipInterpolator(grid, y, extrapolate=True)(mid)
            else:
                arr[:, j] = y[0]
    om = np.maximum(om, 0.0)
    return om, de, ph


def ref_interaction(seq: pulser.Sequence, kind: str = "rydberg") -> np.ndarray:
    """C6/r^6 (Rydberg) computed from the register and the device coefficient."""
    coords = np.array([np.asarray(c, dtype=float) for c in seq.register.qubits.values()])
    n = len(coords)
    U = np.zeros((n, n))
    for i in range(n):
        for j in range(i + 1, n):
            r = np.linalg.norm(coords[i] - coords[j])
            if kind == "rydberg":
                U[i, j] = U[j, i] = seq.device.interaction_coeff / r**6
            else:
                U[i, j] = U[j, i] = seq.device.interaction_coeff_xy / r**3
    return U


# ------------------------------------------------------------------------------ reference run
def ref_unitary_run(
    om: np.ndarray, de: np.ndarray, ph: np.ndarray, target_times: Sequence[float],
    U_of_step, psi0: np.ndarray | None = None, kind: str = "rydberg", dim: int = 2,
) -> list[np.ndarray]:
    """Exact product of exp(-i dt_k H_k); returns the state at every target time.
    U_of_step(k) -> interaction matrix for step k."""
    n = om.shape[1]
    psi = dense.basis_state([0] * n, dim) if psi0 is None else np.asarray(psi0, dtype=complex)
    out = [psi]
    hams = []
    for k in range(om.shape[0]):
        H = dense.hamiltonian(om[k], de[k], ph[k], U_of_step(k), kind=kind, dim=dim)
        psi = dense.evolve_unitary(psi, H, target_times[k + 1] - target_times[k])
        out.append(psi)
        hams.append(H)
    return out, hams


def ref_lindblad_run(
    om: np.ndarray, de: np.ndarray, ph: np.ndarray, target_times: Sequence[float],
    U_of_step, single_ops: Sequence[np.ndarray], rho0: np.ndarray | None = None, dim: int = 2,
) -> list[np.ndarray]:
    n = om.shape[1]
    if rho0 is None:
        v = dense.basis_state([0] * n, dim)
        rho = np.outer(v, v.conj())
    else:
        rho = np.asarray(rho0, dtype=complex)
    Ls = dense.all_site_ops(single_ops, n, dim)
    out = [rho]
    hams = []
    for k in range(om.shape[0]):
        H = dense.hamiltonian(om[k], de[k], ph[k], U_of_step(k), kind="rydberg", dim=dim)
        rho = dense.evolve_lindblad(rho, H, Ls, target_times[k + 1] - target_times[k])
        out.append(rho)
        hams.append(H)
    return out, hams
