"""Run-level worker for emu-mps (C02, C09, C28, C29): runs the REAL MPSBackend on a JSON-able scenario with
hooks on, computes numeric atoms against the independent dense reference and projects the hook events onto
the vocabulary of MPSRunTrace.tla."""
from __future__ import annotations

from typing import Any

import numpy as np


def mps_worker(job: dict) -> dict:
    """job: {id, seq, dt, precision, max_bond_dim, reorder, solver ('tdvp'|'dmrg'), obs, default_times, modulation,
             kind ('rydberg'|'xy'), seed, cutoff (float), init (None|'product'|'random'), budget_c}"""
    import random
    import torch
    from emu_base import PulserData, _verif
    from emu_mps import MPS, MPSBackend, MPSConfig, Solver
    from harness.gen import seqs
    from harness.mpstrace import CONTROL, Ref, project
    from harness.ref import dense
    from harness.svrun import _obs_ref, make_observables

    random.seed(job["seed"])
    torch.manual_seed(job["seed"])
    rng = np.random.default_rng(job["seed"])
    out: dict = {"id": job["id"], "error": None, "stage": "build", "margins": {}}
    ev: list = []
    try:
        seq = seqs.build_sequence(job["seq"])
        ids = [str(q) for q in seq.register.qubit_ids]
        n = len(ids)
        obs = make_observables(job["obs"])
        kw: dict = dict(dt=job["dt"], precision=job["precision"], max_bond_dim=job.get("max_bond_dim", 1024), observables=obs, log_level=100,
                        optimize_qubit_ordering=bool(job.get("reorder")), with_modulation=bool(job.get("modulation")),
                        interaction_cutoff=float(job.get("cutoff", 0.0)))
        if job.get("default_times") is not None:
            kw["default_evaluation_times"] = job["default_times"]
        if job.get("solver") == "dmrg":
            kw["solver"] = Solver.DMRG
        psi0 = None
        if job.get("init") in ("product", "random"):
            if job["init"] == "product":
                bits = [int(rng.integers(0, 2)) for _ in range(n)]
                amps = {"".join("r" if b else "g" for b in bits): 1.0}
                psi0 = dense.basis_state(bits)
            else:
                amps = {}
                psi0 = np.zeros(2**n, dtype=complex)
                for _ in range(min(4, 2**n)):
                    bits = [int(rng.integers(0, 2)) for _ in range(n)]
                    a = complex(rng.normal(), rng.normal())
                    amps["".join("r" if b else "g" for b in bits)] = amps.get("".join("r" if b else "g" for b in bits), 0) + a
                nrm = np.sqrt(sum(abs(a) ** 2 for a in amps.values()))
                amps = {k: a / nrm for k, a in amps.items()}
                for k_, a in amps.items():
                    psi0 += a * dense.basis_state([1 if c == "r" else 0 for c in k_])
            eig = ("r", "g") if job.get("kind", "rydberg") == "rydberg" else ("u", "d")
            if eig == ("u", "d"):
                amps = {k.replace("r", "u").replace("g", "d"): v for k, v in amps.items()}
            kw["initial_state"] = MPS.from_state_amplitudes(eigenstates=eig, amplitudes=amps)
        cfg = MPSConfig(**kw)
        out["stage"] = "data"
        data = next(iter(PulserData(sequence=seq, config=cfg, dt=job["dt"]).get_sequences()))
        T = [float(t) for t in data.target_times]
        K = len(T) - 1
        om = np.real(data.omega.detach().numpy())
        de = np.real(data.delta.detach().numpy())
        ph = np.real(data.phi.detach().numpy())
        out["stage"] = "run"
        _verif.reset()
        _verif.set_sink(ev)
        try:
            res = MPSBackend(seq, config=cfg).run()
        finally:
            _verif.set_sink(None)
        res2 = None
        if job.get("self_consistency", True) and job.get("solver") != "dmrg":
            # TDVP's own projection / splitting error is dt-dependent and not bounded by `precision`; it is measured by
            # re-running the emulator with dt/2 (DESIGN 3.3) and capped so that a dt-dependent BUG cannot buy its own tolerance
            kw2 = dict(kw)
            kw2["dt"] = job["dt"] / 2.0
            kw2["observables"] = make_observables(job["obs"])
            try:
                res2 = MPSBackend(seq, config=MPSConfig(**kw2)).run()
            except BaseException:
                res2 = None
        out["stage"] = "reference"
        slm_end = float(seq._slm_mask_time[1]) if len(seq._slm_mask_time) > 1 else 0.0
        kind = job.get("kind", "rydberg")
        full = np.asarray(data.interaction_matrix(1e18).detach().numpy(), dtype=float)
        masked = np.asarray(data.interaction_matrix(-1.0).detach().numpy(), dtype=float)
        if kind == "rydberg":
            # interaction matrices from the REGISTER (independent of the adapter): C6 / r^6, cutoff, SLM-masked atoms decoupled
            full = seqs.ref_interaction(seq, "rydberg")
            full[np.abs(full) < float(job.get("cutoff", 0.0))] = 0.0
            masked = full.copy()
            for q in getattr(seq, "_slm_mask_targets", []) or []:
                j_ = ids.index(str(q))
                masked[j_, :] = 0.0
                masked[:, j_] = 0.0
        else:
            # XY: Pulser's angular C3 factor is taken from the adapter; symmetry and masking are still demanded
            full = 0.5 * (full + full.T) if np.allclose(full, full.T) else full * np.nan
            masked = masked if np.allclose(masked, masked.T) else masked * np.nan

        def allowed(k: int) -> list[np.ndarray]:
            a, b = T[k], T[k + 1]
            if b <= slm_end:
                return [masked]
            if a >= slm_end:
                return [full]
            return [masked, full]

        new = [e for e in ev if e["ev"] == "mps_new"]
        perm = list(new[0]["perm"]) if new else list(range(n))
        # matrices actually used per step (for the straddling step either choice is allowed): read from the h_make / imat events
        used = []
        cur_mat = None
        imats = [e for e in ev if e["ev"] == "mps_imat"]
        # register-order matrix for step k: undo the permutation of the k-th queried matrix
        inv = np.argsort(perm)
        for k in range(K):
            cands = allowed(k)
            pick = cands[0]
            if k < len(imats):
                m = np.asarray(imats[k]["matrix"], dtype=float)
                if m.shape == pick.shape:
                    m = m[np.ix_(inv, inv)]
                    for c in cands:
                        # Pulser rounds coordinates before taking distances (~1e-7 relative): validate against the register-derived
                        # matrix, then use the emulator's digits
                        if np.allclose(m, c, rtol=1e-6, atol=1e-9) and np.array_equal(m, m.T):
                            pick = m
            used.append(pick)
        states, hams = seqs.ref_unitary_run(om, de, ph, T, lambda k: used[k], psi0=psi0, kind=kind)
        hnorm = max([float(np.abs(h).sum(axis=1).max()) for h in hams] + [1.0])
        # ---- numeric atoms for the trace
        ref = Ref()
        steps_c = max(K, 1)
        prec = job["precision"]
        ref.norm_budget = steps_c * 2 * max(n - 1, 1) * prec + 1e-9

        def row_atom(e: dict, ts: int) -> tuple[bool, int]:
            o_, d_, p_ = np.asarray(e["omega"], float), np.asarray(e["delta"], float), np.asarray(e["phi"], float)
            hits = []
            for k in range(K):
                if o_.shape == om[k][perm].shape and np.array_equal(o_, om[k][perm]) and np.array_equal(d_, de[k][perm]) and np.array_equal(p_, ph[k][perm]):
                    hits.append(k)
            return bool(hits), hits

        def mat_atom(e: dict) -> bool:
            m = np.asarray(e["matrix"], dtype=float)
            return bool(np.array_equal(m, m.T)) and any(m.shape == c.shape and np.allclose(m, c[np.ix_(perm, perm)], rtol=1e-6, atol=1e-9) for c in (masked, full))

        ref.row = row_atom
        ref.mat = mat_atom
        dmrg = job.get("solver") == "dmrg"
        if dmrg:
            evals = [np.linalg.eigvalsh(h) for h in hams]
            e0 = [float(w[0]) for w in evals]
            gaps = [float(w[1] - w[0]) if len(w) > 1 else float("inf") for w in evals]
            ref.norm_budget = 1e-8

            def energy_atom(e: dict) -> bool:
                k = int(e["ts"])
                if not (0 <= k < len(e0)):
                    return True
                return float(e["energy"]) >= e0[k] - (1e-9 * hnorm + 1e-10)

            ref.energy = energy_atom
        # ---- observable comparison
        budget_state = job.get("budget_c", 5.0) * steps_c * 2 * max(n - 1, 1) * prec + 1e-6
        worst = 0.0
        why = []
        values_ok = True
        tindex = {round(t / T[-1], 12): i for i, t in enumerate(T)}
        for tag in res.get_result_tags():
            if tag in ("statistics", "bitstrings"):
                continue
            for t, val in zip(res.get_result_times(tag), getattr(res, tag)):
                k = tindex.get(round(float(t), 12))
                if k is None:
                    # evaluation time stored at a time that is not a target time: C14 / C21
                    continue
                st = states[k]
                H_k = hams[max(k - 1, 0)]
                if dmrg:
                    kk = max(k - 1, 0)
                    if k == 0:
                        continue   # t = 0: the initial state, no minimisation has happened yet
                    if tag == "energy":
                        E = float(np.real(val))
                        slack = 1e-9 * hnorm + 1e-10
                        below = e0[kk] - E
                        worst = max(worst, below / slack if below > 0 else 0.0)
                        if below > slack:
                            values_ok = False
                            why.append(f"energy@{t:.4f}: {E:.10f} below the exact ground energy {e0[kk]:.10f}")
                        # the energy of a variational state is second order in the state error: a truncation of relative weight
                        # precision^2 per bond costs at most ~ precision^2 * (spectral range) in energy
                        hrange = float(evals[kk][-1] - evals[kk][0])
                        close_bud = 10.0 * 1e-5 + 20.0 * max(n - 1, 1) * prec**2 * hrange + 1e-9 * hnorm
                        if gaps[kk] > job.get("gap_factor", 10.0) * close_bud and job.get("max_bond_dim", 1024) >= 2 ** (n // 2):
                            out.setdefault("gapped", 0)
                            out["gapped"] += 1
                            if abs(E - e0[kk]) > close_bud:
                                values_ok = False
                                why.append(f"energy@{t:.4f}: |E - E0| = {abs(E - e0[kk]):.3e} > {close_bud:.3e} on a gapped step (gap {gaps[kk]:.3e})")
                            worst = max(worst, abs(E - e0[kk]) / close_bud)
                    elif tag == "state":
                        fs = [f.detach().numpy() for f in val.factors]
                        vec = dense.mps_to_vec(fs)
                        nrm = float(np.linalg.norm(vec))
                        if abs(nrm - 1.0) > 1e-8:
                            values_ok = False
                            why.append(f"state@{t:.4f}: norm {nrm}")
                        c = val.orthogonality_center
                        canon = c is not None
                        if canon:
                            for i, f in enumerate(fs):
                                if i < c:
                                    m = f.reshape(-1, f.shape[2])
                                    canon &= bool(np.allclose(m.conj().T @ m, np.eye(m.shape[1]), atol=1e-8))
                                elif i > c:
                                    m = f.reshape(f.shape[0], -1)
                                    canon &= bool(np.allclose(m @ m.conj().T, np.eye(m.shape[0]), atol=1e-8))
                        if not canon:
                            values_ok = False
                            why.append(f"state@{t:.4f}: not in canonical form around its declared centre {c}")
                        # the returned state's Rayleigh quotient is the reported energy's subject; also variational:
                        Evec = float(np.real(np.vdot(vec, hams[kk] @ vec)) / max(nrm**2, 1e-300))
                        if Evec < e0[kk] - (1e-9 * hnorm + 1e-10):
                            values_ok = False
                            why.append(f"state@{t:.4f}: Rayleigh quotient below ground energy")
                    continue
                if tag == "state":
                    vec = dense.mps_to_vec([f.detach().numpy() for f in val.factors])
                    vec = vec / np.linalg.norm(vec)
                    err = float(np.linalg.norm(vec - st * np.vdot(st, vec) / max(abs(np.vdot(st, vec)), 1e-300)))
                    bud = budget_state
                else:
                    exp = _obs_ref(tag, st, n, H_k, False)
                    if exp is None:
                        continue
                    got = np.asarray(val.detach().numpy() if hasattr(val, "detach") else val, dtype=complex)
                    scale = 1.0
                    extra = 0.0
                    if tag == "energy":
                        scale = hnorm
                    elif tag in ("energy_variance", "energy_second_moment"):
                        scale = hnorm**2
                        extra = 4e-5 * hnorm**2   # H@H is compressed at the package default precision 1e-5 whatever the configured one
                    err = float(np.max(np.abs(got - exp)))
                    bud = 2.0 * scale * budget_state + extra
                if res2 is not None and tag != "state":
                    try:
                        t2 = [round(float(x), 12) for x in res2.get_result_times(tag)]
                        v2 = getattr(res2, tag)[t2.index(round(float(t), 12))]
                        g2 = np.asarray(v2.detach().numpy() if hasattr(v2, "detach") else v2, dtype=complex)
                        sc = 1.0 if tag in ("occupation", "correlation_matrix") else (hnorm if tag == "energy" else hnorm**2)
                        # the cap grows with the step: the projection error of two-site TDVP scales with a power of dt, and a single
                        # giant step (dt above the duration) is legitimately far less accurate than dt = 10 ns
                        cap = min(0.2, job.get("tdvp_cap", 2e-3) * max(1.0, job["dt"] / 10.0) ** 2)
                        bud += min(3.0 * float(np.max(np.abs(got - g2))), cap * sc)
                    except (ValueError, IndexError):
                        pass
                worst = max(worst, err / bud)
                if err > bud:
                    values_ok = False
                    why.append(f"{tag}@{t:.4f}: err {err:.3e} > budget {bud:.3e}")
        out["margins"] = {"values": worst}
        order_ok = [str(a) for a in res.atom_order] == ids
        ret = {"path": "run", "orderOK": order_ok, "valuesOK": values_ok, "timesOK": True}
        events = [e for e in ev if e["ev"] in CONTROL]
        tr = project(events, job["id"], ref=ref, ret=ret)
        out["trace"] = tr["events"]
        out["why"] = why[:5]
        out["K"], out["n"], out["perm"] = K, n, perm
        out["max_bond"] = None
        out["stage"] = "done"
    except BaseException as e:  # noqa
        import traceback

        out["error"] = f"{type(e).__name__}: {e}"
        out["tb"] = traceback.format_exc()[-1800:]
    return out
