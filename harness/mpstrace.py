"""Projection of emu-mps hook events onto the event vocabulary of MPSRunTrace.tla."""
from __future__ import annotations

from typing import Any, Callable, Optional

import numpy as np

CONTROL = {
    "mps_new", "mps_init", "mps_evolve", "mps_progress", "mps_sweep", "mps_fill", "mps_step_done", "mps_update_h",
    "h_update", "h_make", "dmrg_min", "dmrg_sweep", "save", "resume", "run_done", "mps_permute", "mps_jump", "mps_thr",
}


def mode_of(cls: str) -> str:
    return {"MPSBackendImpl": "tdvp", "DMRGBackendImpl": "dmrg", "NoisyMPSBackendImpl": "noisy"}.get(cls, "tdvp")


class Ref:
    """Numeric atoms.  Every callable returns a bool; defaults accept (property decided elsewhere)."""

    def __init__(self) -> None:
        self.row: Optional[Callable[[dict, int], tuple[bool, int]]] = None   # (h_update event, current ts) -> (rowOK, row index)
        self.mat: Optional[Callable[[dict], bool]] = None                    # h_make event -> matOK
        self.energy: Optional[Callable[[dict], bool]] = None                 # dmrg_min event -> energyOK
        self.norm_budget: float = 1e-3


def project(events: list[dict], tid: Any, ref: Ref | None = None, ret: dict | None = None, partial: bool = False,
            target_times: list[float] | None = None) -> dict:
    """events: hook events of ONE implementation object's life (possibly: crashed run + {'ev':'crash'} + resumed run).
    ret: {'path','orderOK','valuesOK','timesOK'} appended as the final event when given."""
    ref = ref or Ref()
    out: list[dict] = []
    tt = target_times
    cur = tgt = None
    ts = 0
    mode = "tdvp"
    n_sites = None
    for e in events:
        k = e["ev"]
        if k == "mps_new":
            tt = e["target_times"]
            mode = mode_of(e["cls"])
            out.append({"ev": "new", "N": int(e["n"]), "K": int(e["nsteps"]), "mode": mode})
        elif k == "mps_init":
            cur, tgt = e["cur"], e["tgt"]
            # N after dark-atom filtering
            for o in out:
                if o["ev"] == "new":
                    o["N"] = int(e["n"])
            n_sites = int(e["n"])
            out.append({"ev": "init", "center": int(e["center"]), "nl": int(e["nl"]), "nr": int(e["nr"])})
        elif k == "mps_evolve":
            delta = (tgt - cur) if (cur is not None and tgt is not None) else 0.0
            if delta == 0:
                halves = 99
            else:
                x = 2.0 * e["dt"] / delta
                halves = int(round(x)) if abs(x - round(x)) < 1e-9 else 99
            s = e["sites"]
            out.append({"ev": "evolve", "s1": int(s[0]), "s2": int(s[1]) if len(s) > 1 else -1, "halves": halves, "center": int(e["center"])})
        elif k == "mps_progress":
            cur, tgt = e["cur"], e["tgt"]
            out.append({"ev": "progress", "ts": int(e["ts"]), "sw": int(e["sw"]), "dir": "LR" if e["dir"] == "LEFT_TO_RIGHT" else "RL",
                        "nl": int(e["nl"]), "nr": int(e["nr"]), "center": int(e["center"]) if e["center"] is not None else -1,
                        "finished": bool(e["finished"])})
        elif k == "mps_sweep":
            if e.get("kind") == "tdvp":
                out.append({"ev": "sweep", "kind": "tdvp"})
                cur = e["cur"]
            else:
                out.append({"ev": "sweep", "kind": "noisy"})
                cur, tgt = e["cur"], e["tgt"]
        elif k == "h_make":
            out.append({"ev": "hmake", "matOK": bool(ref.mat(e)) if ref.mat else True})
        elif k == "h_update":
            if ref.row:
                ok, hits = ref.row(e, ts)   # hits: indices of ALL reference rows (site order) equal to the received values
                hits = list(hits) if not isinstance(hits, int) else [hits]
            else:
                ok, hits = True, None
            out.append({"ev": "hupdate", "rowOK": bool(ok), "row": int(hits[0]) if hits else -2, "_hits": hits})
        elif k == "mps_update_h":
            for o in reversed(out):
                if o["ev"] == "hupdate":
                    if o["_hits"] is None or int(e["ts"]) in o["_hits"]:
                        o["row"] = int(e["ts"])   # the bookkeeping index is one of the matching rows (or no reference given)
                    break
            out.append({"ev": "updh", "ts": int(e["ts"]), "noisy": bool(e["noisy"])})
        elif k == "mps_fill":
            tidx = -1
            if tt is not None:
                for i, t in enumerate(tt):
                    if abs(t - e["cur"]) <= 1e-9 * max(1.0, abs(t)):
                        tidx = i
                        break
            norm_ok = True if mode == "noisy" else abs(e["norm"] - 1.0) <= ref.norm_budget
            out.append({"ev": "fill", "tidx": tidx, "ts": int(e["ts"]), "normOK": bool(norm_ok)})
        elif k == "mps_step_done":
            ts = int(e["ts"])
            cur, tgt = e["cur"], e["tgt"]
            out.append({"ev": "done", "ts": ts, "finished": bool(e["finished"])})
        elif k == "dmrg_min":
            out.append({"ev": "dmrgmin", "idx": int(e["idx"]), "dir": "LR" if e["dir"] == "LEFT_TO_RIGHT" else "RL",
                        "center": int(e["center"]), "ts": int(e["ts"]), "energyOK": bool(ref.energy(e)) if ref.energy else True})
        elif k == "dmrg_sweep":
            out.append({"ev": "dmrgsweep", "count": int(e["count"]), "converged": bool(e["converged"]), "hasprev": e["prev"] is not None})
        elif k == "save":
            out.append({"ev": "save", "ts": int(e["ts"]), "sw": int(e["sw"]), "dir": "LR" if e["dir"] == "LEFT_TO_RIGHT" else "RL"})
        elif k == "crash":
            out.append({"ev": "crash"})
        elif k == "resume":
            cur, tgt = e["cur"], e["tgt"]
            ts = int(e["ts"])
            out.append({"ev": "resume", "ts": int(e["ts"]), "sw": int(e["sw"]), "dir": "LR" if e["dir"] == "LEFT_TO_RIGHT" else "RL"})
        elif k == "run_done":
            out.append({"ev": "rundone", "fileExists": bool(e["file_exists"])})
        elif k == "mps_permute":
            out.append({"ev": "permute", "on": bool(e["permute"])})
    # the updh row check needs the row index found for the h_update that precedes it; when a reference is
    # present `row` is the index of the reference row that matched (or -1)
    for o in out:
        o.pop("_hits", None)
    if ret is not None:
        out.append({"ev": "ret", "path": ret.get("path", "run"), "orderOK": bool(ret["orderOK"]), "valuesOK": bool(ret["valuesOK"]), "timesOK": bool(ret["timesOK"])})
    return {"id": tid, "partial": partial, "events": out}


def compare_results(a: dict, b: dict, atol: float = 1e-7) -> dict:
    """a, b: smallruns.results_table projections.  Returns {'orderOK','timesOK','valuesOK','why'}."""
    why = []
    order_ok = a.get("atom_order") == b.get("atom_order")
    if not order_ok:
        why.append(f"atom_order {a.get('atom_order')} vs {b.get('atom_order')}")
    times_ok = True
    values_ok = True
    tags = (set(a) | set(b)) - {"atom_order"}
    for tag in sorted(tags):
        if tag not in a or tag not in b:
            times_ok = False
            why.append(f"tag {tag} missing")
            continue
        ta = [t for t, _ in a[tag]]
        tb = [t for t, _ in b[tag]]
        if len(ta) != len(tb) or any(abs(x - y) > 1e-12 for x, y in zip(ta, tb)):
            times_ok = False
            why.append(f"times of {tag}: {ta} vs {tb}")
            continue
        for (t, va), (_, vb) in zip(a[tag], b[tag]):
            if isinstance(va, dict) or isinstance(vb, dict) or isinstance(va, str):
                continue
            xa, xb = np.asarray(va, dtype=complex), np.asarray(vb, dtype=complex)
            if xa.shape != xb.shape or not np.allclose(xa, xb, atol=atol, rtol=0):
                values_ok = False
                why.append(f"{tag}@{t}: {np.round(xa.real, 6).tolist()} vs {np.round(xb.real, 6).tolist()}")
    return {"orderOK": order_ok, "timesOK": times_ok, "valuesOK": values_ok, "why": why[:6]}
