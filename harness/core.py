"""
Shared machinery of the checks: context, violation / known-finding protocol, evidence files.

Exit codes of a check:  0 property held on everything explored (known findings are printed)
                        1 at least one violation that known_findings.json does not list
                        2 machinery failure (TLC crashed, hook missing, ...) -- never a VIOLATION
"""
from __future__ import annotations

import json
import os
import random
import shutil
import sys
import time
import traceback
from pathlib import Path
from typing import Any

ROOT = Path(__file__).resolve().parent.parent
SPEC = ROOT / "spec"
WORK = ROOT / ".work"
EVID = ROOT / "evidence"
FINDINGS = ROOT / "known_findings.json"
REPO = Path(os.environ.get("VERIF_REPO", "/repo"))

GUARD = "PASQAL_IO_EMULATORS_VERIF"


class MachineryError(Exception):
    pass


def load_findings() -> list[dict]:
    if not FINDINGS.exists():
        return []
    return json.loads(FINDINGS.read_text())["findings"]


def _jsonable(x: Any) -> Any:
    try:
        import numpy as np  # noqa
        import torch  # noqa
    except Exception:  # pragma: no cover
        np = None
        torch = None
    if x is None or isinstance(x, (bool, int, str)):
        return x
    if isinstance(x, float):
        if x != x or x in (float("inf"), float("-inf")):
            return repr(x)
        return x
    if isinstance(x, complex):
        return [x.real, x.imag]
    if isinstance(x, dict):
        return {str(k): _jsonable(v) for k, v in x.items()}
    if isinstance(x, (list, tuple, set, frozenset)):
        return [_jsonable(v) for v in x]
    if isinstance(x, Path):
        return str(x)
    from fractions import Fraction

    if isinstance(x, Fraction):
        return f"{x.numerator}/{x.denominator}"
    if torch is not None and isinstance(x, torch.Tensor):
        x = x.detach().cpu().resolve_conj().numpy()
    if np is not None and isinstance(x, np.ndarray):
        if np.iscomplexobj(x):
            return _jsonable([[float(v.real), float(v.imag)] for v in x.reshape(-1)])
        return _jsonable(x.tolist())
    if np is not None and isinstance(x, np.generic):
        return _jsonable(x.item())
    return repr(x)


class Ctx:
    def __init__(self, pid: str, tier: str, seed: int, replay: str | None = None):
        self.pid = pid
        self.tier = tier
        self.seed = seed
        self.replay = replay
        # VERIF_SCRATCH_TAG: side runs (a patched scratch tree, a seed sweep) get their own scratch directory and do not
        # overwrite the registered evidence file
        self.scratch_tag = os.environ.get("VERIF_SCRATCH_TAG", "")
        self.work = WORK / (pid + ("__" + self.scratch_tag if self.scratch_tag else ""))
        if self.work.exists():
            shutil.rmtree(self.work, ignore_errors=True)
        self.work.mkdir(parents=True, exist_ok=True)
        self.t0 = time.time()
        self.rng = random.Random(seed * 1000003 + sum(map(ord, pid)))
        self.findings = [f for f in load_findings() if f["property"] == pid]
        self.n_violations = 0
        self.n_known = 0
        self.known_seen: set[str] = set()
        self.violation_keys: list[str] = []
        self.notes: list[str] = []
        self.drift: list[str] = []
        # evidence
        self.level = "exploration"
        self.coverage: dict[str, Any] = {}
        self.assumptions: list[str] = []
        self._samples: list[Any] = []
        self._distinct: set[str] = set()
        self.evaluations = 0
        self.tlc_stats: list[dict] = []
        self.traces_validated = 0

    # ------------------------------------------------------------------ properties
    @property
    def quick(self) -> bool:
        return self.tier == "quick"

    def pick(self, quick: Any, thorough: Any) -> Any:
        return quick if self.quick else thorough

    def log(self, *a: Any) -> None:
        print(f"[{self.pid} {time.time() - self.t0:6.1f}s]", *a, flush=True)

    # ------------------------------------------------------------------ evidence
    def case(self, key: Any, nontrivial: bool = True, sample: Any = None) -> None:
        """Count one explored case; `key` identifies it for the distinct count."""
        self.evaluations += 1
        if nontrivial:
            self._distinct.add(key if isinstance(key, str) else json.dumps(_jsonable(key), sort_keys=True))
        if sample is not None and len(self._samples) < 6:
            self._samples.append(_jsonable(sample))

    def sample(self, s: Any) -> None:
        if len(self._samples) < 8:
            self._samples.append(_jsonable(s))

    def add_tlc(self, res: "dict") -> None:
        self.tlc_stats.append(
            {k: res.get(k) for k in ("name", "generated", "distinct", "depth", "wall_s", "mode", "coverage_zero")}
        )

    # ------------------------------------------------------------------ violations
    def violation(self, key: str, what: str, replay: Any = None) -> bool:
        """Report a requirement-level violation observed on the real code (or on a structure
        recorded from it).  Returns True when it is a new (unlisted) violation."""
        for f in self.findings:
            if f.get("status") == "known" and f["key"] == key:
                if key not in self.known_seen:
                    self.known_seen.add(key)
                    print(f"KNOWN-FINDING: property={self.pid} {f['what']}", flush=True)
                self.n_known += 1
                return False
        self.n_violations += 1
        if key in self.violation_keys:
            return True  # same key already reported with a replay file; counted only
        self.violation_keys.append(key)
        what = what if len(what) < 700 else what[:700] + " ..."
        path = self.work / f"replay_{self.n_violations:03d}.json"
        path.write_text(
            json.dumps(
                {"property": self.pid, "key": key, "what": what, "seed": self.seed, "tier": self.tier, "replay": _jsonable(replay)},
                indent=1,
            )
        )
        if self.n_violations <= 20:
            print(f"VIOLATION property={self.pid} replay={path}", flush=True)
            print(f"  key={key}: {what}", flush=True)
        return True

    def model_drift(self, what: str) -> None:
        if len(self.drift) < 20:
            self.drift.append(what)
        self.log("MODEL-DRIFT:", what)

    # ------------------------------------------------------------------ finish
    def finish(self) -> int:
        cov = dict(self.coverage)
        cov.setdefault("evaluations", self.evaluations)
        cov.setdefault("distinct_nontrivial", len(self._distinct))
        cov.setdefault("samples", self._samples[:8])
        cov.setdefault("rule", "see DESIGN.md section for this property")
        if self.tlc_stats:
            cov.setdefault("states", sum(int(t.get("distinct") or 0) for t in self.tlc_stats))
            cov.setdefault("transitions", sum(int(t.get("generated") or 0) for t in self.tlc_stats))
            cov["tlc_runs"] = self.tlc_stats
        cov.setdefault("traces_validated_against_impl", self.traces_validated)
        cov["known_findings_reproduced"] = sorted(self.known_seen)
        cov["model_drift"] = bool(self.drift)
        if self.drift:
            cov["model_drift_first"] = self.drift[:5]
        if self.notes:
            cov["notes"] = self.notes[:20]
        if self.violation_keys:
            cov["violation_keys"] = self.violation_keys[:50]
        ev = {
            "property_id": self.pid,
            "tier": self.tier,
            "seed": self.seed,
            "level": self.level,
            "coverage": cov,
            "assumptions": self.assumptions,
            "wall_s": round(time.time() - self.t0, 2),
            "violations": self.n_violations,
        }
        EVID.mkdir(exist_ok=True)
        (self.work / "evidence.json" if self.scratch_tag else EVID / f"{self.pid}.json").write_text(json.dumps(_jsonable(ev), indent=1) + "\n")
        self.log(
            f"done: evaluations={cov['evaluations']} distinct={cov['distinct_nontrivial']} "
            f"violations={self.n_violations} known={len(self.known_seen)} wall={ev['wall_s']}s"
        )
        return 1 if self.n_violations else 0


def enable_hooks() -> None:
    os.environ[GUARD] = "1"


def run_check(pid: str, tier: str, seed: int, replay: str | None) -> int:
    import importlib

    enable_hooks()
    if str(REPO) != "/repo":
        # scratch worktree of pasqal-io/emulators (mutation testing): shadow the editable install
        sys.path.insert(0, str(REPO))
        os.environ["PYTHONPATH"] = str(REPO) + os.pathsep + os.environ.get("PYTHONPATH", "")
    os.environ.setdefault("OMP_NUM_THREADS", "1")
    os.environ.setdefault("MKL_NUM_THREADS", "1")
    sys.path.insert(0, str(ROOT))
    ctx = Ctx(pid, tier, seed, replay)
    try:
        mod = importlib.import_module(f"harness.drivers.{pid}")
        mod.run(ctx)
        return ctx.finish()
    except MachineryError as e:
        print(f"MACHINERY-FAILURE property={pid}: {e}", flush=True)
        traceback.print_exc()
        return 2
    except Exception as e:  # anything unexpected in the harness itself
        print(f"MACHINERY-FAILURE property={pid}: {type(e).__name__}: {e}", flush=True)
        traceback.print_exc()
        return 2
