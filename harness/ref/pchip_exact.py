"""
Independent reference for C20 / C22 / C30: the STANDARD PCHIP interpolant (Fritsch-Carlson interior
derivatives = weighted harmonic mean iff the neighbouring secants have the same sign, three-point
end slopes with the shape-preserving limiter of Moler's `pchipend` / SciPy's `_edge_case`),
written from the textbook formulas over any exact field (fractions.Fraction) -- floats are converted
exactly, so the reference values carry NO rounding error.  Never imports emu_* or torch.

Evaluation uses the Hermite BASIS form (not the code's power form), extrapolating with the first /
last cubic outside the knot range.
"""
from __future__ import annotations

from bisect import bisect_right
from fractions import Fraction as F
from typing import Sequence


def sgn(v) -> int:
    return (v > 0) - (v < 0)


def std_end_slope(h0, h1, m0, m1):
    """One-sided three-point estimate at an end, limited to preserve shape (Moler pchipend)."""
    d = ((2 * h0 + h1) * m0 - h0 * m1) / (h0 + h1)
    if sgn(d) != sgn(m0):
        return d * 0
    if sgn(m0) != sgn(m1) and abs(d) > 3 * abs(m0):
        return 3 * m0
    return d


def std_slopes(h: Sequence, y: Sequence) -> list:
    n = len(y)
    m = [(y[i + 1] - y[i]) / h[i] for i in range(n - 1)]
    if n == 2:
        return [m[0], m[0]]
    d = [None] * n
    for i in range(1, n - 1):
        if sgn(m[i - 1]) * sgn(m[i]) > 0:
            w1 = 2 * h[i] + h[i - 1]
            w2 = h[i] + 2 * h[i - 1]
            d[i] = (w1 + w2) / (w1 / m[i - 1] + w2 / m[i])
        else:
            d[i] = m[i] * 0
    d[0] = std_end_slope(h[0], h[1], m[0], m[1])
    d[-1] = std_end_slope(h[-1], h[-2], m[-1], m[-2])
    return d


class ExactPchip:
    """Standard PCHIP over exact rationals.  x, y: sequences of float / int / Fraction."""

    def __init__(self, x: Sequence, y: Sequence):
        self.x = [F(v) for v in x]
        self.y = [F(v) for v in y]
        self.n = len(self.x)
        assert self.n >= 2 and all(self.x[i] < self.x[i + 1] for i in range(self.n - 1))
        self.h = [self.x[i + 1] - self.x[i] for i in range(self.n - 1)]
        self.m = [(self.y[i + 1] - self.y[i]) / self.h[i] for i in range(self.n - 1)]
        self.d = std_slopes(self.h, self.y)

    def interval(self, q: F) -> int:
        i = bisect_right(self.x, q) - 1
        return min(max(i, 0), self.n - 2)

    def __call__(self, q) -> F:
        q = F(q)
        i = self.interval(q)
        h = self.h[i]
        s = (q - self.x[i]) / h
        h00 = (1 + 2 * s) * (1 - s) ** 2
        h10 = s * (1 - s) ** 2
        h01 = s * s * (3 - 2 * s)
        h11 = s * s * (s - 1)
        return h00 * self.y[i] + h10 * h * self.d[i] + h01 * self.y[i + 1] + h11 * h * self.d[i + 1]

    def deriv(self, q, i: int | None = None) -> F:
        q = F(q)
        if i is None:
            i = self.interval(q)
        h = self.h[i]
        s = (q - self.x[i]) / h
        return ((6 * s * s - 6 * s) * self.y[i] / h + (3 * s * s - 4 * s + 1) * self.d[i]
                + (6 * s - 6 * s * s) * self.y[i + 1] / h + (3 * s * s - 2 * s) * self.d[i + 1])

    def term_scale(self, q) -> F:
        """Sum of the magnitudes of the terms a floating-point evaluation has to combine at q (the
        natural scale of its rounding error), including the cancellation inside the three-point end
        formula and inside the cubic coefficients."""
        q = F(q)
        i = self.interval(q)
        if 0 < i and q == self.x[i]:
            # at an interior knot either neighbouring cubic is a legitimate way to evaluate: take the larger scale
            return max(self._term_scale_on(q, i - 1), self._term_scale_on(q, i))
        return self._term_scale_on(q, i)

    def _term_scale_on(self, q: F, i: int) -> F:
        h = self.h[i]
        t = abs(q - self.x[i])
        r = t / h
        dm = abs(self.m[i])
        di, dj = abs(self.d[i]), abs(self.d[i + 1])
        end = F(0)
        if self.n > 2:
            if i == 0:
                end += ((2 * self.h[0] + self.h[1]) * abs(self.m[0]) + self.h[0] * abs(self.m[1])) / (self.h[0] + self.h[1])
            if i == self.n - 2:
                end += ((2 * self.h[-1] + self.h[-2]) * abs(self.m[-1]) + self.h[-1] * abs(self.m[-2])) / (self.h[-1] + self.h[-2])
        slope = 3 * dm + 2 * di + dj + 2 * end
        return abs(self.y[i]) + abs(self.y[i + 1]) + t * (1 + r + r * r) * slope

    def interval_monotone(self, i: int) -> bool:
        """Exact: the cubic on interval i is monotone (P' keeps one sign on [x_i, x_{i+1}])."""
        h, y0, y1, d0, d1 = self.h[i], self.y[i], self.y[i + 1], self.d[i], self.d[i + 1]
        return cubic_monotone(h, y0, y1, d0, d1)


def cubic_monotone(h, y0, y1, d0, d1) -> bool:
    m = (y1 - y0) / h
    p1 = d0
    p2 = (3 * m - 2 * d0 - d1) / h
    p3 = (d0 + d1 - 2 * m) / (h * h)
    s = sgn(m)
    if s == 0:
        return d0 == 0 and d1 == 0 and p2 == 0 and p3 == 0
    # P'(t) = p1 + 2 p2 t + 3 p3 t^2 must satisfy s*P' >= 0 on [0, h]
    a, b, c = 3 * p3 * s, 2 * p2 * s, p1 * s
    if c < 0 or a * h * h + b * h + c < 0:
        return False
    if a > 0:
        tv = -b / (2 * a)
        if 0 < tv < h and a * tv * tv + b * tv + c < 0:
            return False
    return True


# ------------------------------------------------------------------------------------------------
# classification of data sets (used for violation keys and for coverage strata)
# ------------------------------------------------------------------------------------------------

def end_case(h0, h1, m0, m1) -> str:
    """Which branch of the end-point rule a data set exercises."""
    d = ((2 * h0 + h1) * m0 - h0 * m1) / (h0 + h1)
    if m0 == 0 and m1 == 0:
        return "flat-flat"
    if m0 == 0:
        return "flat-end"           # end secant zero, neighbour not: slope must be zeroed
    if sgn(d) != sgn(m0):
        return "zeroed"
    if sgn(m0) != sgn(m1) and abs(d) > 3 * abs(m0):
        return "capped"
    if sgn(m0) != sgn(m1):
        return "turn-uncapped"
    return "plain"


def interior_case(m0, m1) -> str:
    if m0 == 0 and m1 == 0:
        return "flat-flat"
    if m0 == 0 or m1 == 0:
        return "one-flat"
    if sgn(m0) != sgn(m1):
        return "opposite-equal" if m0 == -m1 else "opposite"
    return "same-sign"
