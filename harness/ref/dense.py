"""
Independent dense reference (numpy / scipy only; never imports emu_*).

Conventions (written from Pulser's documented Hamiltonian conventions, carried to the emulators'
index order):
  * local level order  g=0, r=1 [, x=2]      (ground-rydberg)        d=0, u=1 [, x=2]   (XY)
    -- Pulser's own matrices use (r, g[, x]) / (u, d[, x]); `pulser_to_emu_perm` converts.
  * atom 0 is the MOST significant digit of a basis index:  idx = sum_i b_i * dim**(N-1-i)
  * drive   H_j = Omega_j/2 * (e^{-i phi_j} |g><r| + e^{+i phi_j} |r><g|) - delta_j |r><r|
  * Rydberg interaction  sum_{i<j} U_ij n_i n_j ,  n = |r><r|
  * XY interaction       sum_{i<j} U_ij (|u d><d u| + h.c.) = sum 2 U_ij (Sx_i Sx_j + Sy_i Sy_j)
  * Lindblad:  d rho/dt = -i[H, rho] + sum_k ( L_k rho L_k^+ - 1/2 {L_k^+ L_k, rho} )
  * time: Omega, delta, U in rad/us; dt in ns  ->  exp(-i * H * dt * 1e-3)
"""
from __future__ import annotations

import itertools
from typing import Sequence

import numpy as np
import scipy.linalg as sla

TIME_COEFF = 1e-3


# ----------------------------------------------------------------------------- local operators
def proj(dim: int, a: int, b: int) -> np.ndarray:
    m = np.zeros((dim, dim), dtype=complex)
    m[a, b] = 1.0
    return m


def op_n(dim: int = 2) -> np.ndarray:
    return proj(dim, 1, 1)


def embed(op: np.ndarray, site: int, n: int, dim: int = 2) -> np.ndarray:
    mats = [np.eye(dim, dtype=complex)] * n
    mats = list(mats)
    mats[site] = op
    out = mats[0]
    for m in mats[1:]:
        out = np.kron(out, m)
    return out


def embed2(op_i: np.ndarray, i: int, op_j: np.ndarray, j: int, n: int, dim: int = 2) -> np.ndarray:
    mats = [np.eye(dim, dtype=complex) for _ in range(n)]
    mats[i] = op_i
    mats[j] = op_j
    out = mats[0]
    for m in mats[1:]:
        out = np.kron(out, m)
    return out


def drive_local(omega: float, delta: float, phi: float, dim: int = 2) -> np.ndarray:
    h = np.zeros((dim, dim), dtype=complex)
    h[0, 1] = omega / 2 * np.exp(-1j * phi)
    h[1, 0] = omega / 2 * np.exp(1j * phi)
    h[1, 1] = -delta
    return h


def hamiltonian(
    omega: Sequence[float], delta: Sequence[float], phi: Sequence[float], U: np.ndarray,
    kind: str = "rydberg", dim: int = 2, local_extra: np.ndarray | None = None,
) -> np.ndarray:
    """Dense neutral-atom Hamiltonian.  `local_extra` (dim x dim, may be non-Hermitian) is added on every atom."""
    n = len(omega)
    U = np.asarray(U, dtype=float)
    H = np.zeros((dim**n, dim**n), dtype=complex)
    for j in range(n):
        loc = drive_local(float(np.real(omega[j])), float(np.real(delta[j])), float(np.real(phi[j])), dim)
        if local_extra is not None:
            loc = loc + local_extra
        H += embed(loc, j, n, dim)
    if kind == "rydberg":
        nn = op_n(dim)
        for i, j in itertools.combinations(range(n), 2):
            if U[i, j] != 0.0:
                H += U[i, j] * embed2(nn, i, nn, j, n, dim)
    elif kind == "xy":
        sp = proj(dim, 1, 0)  # |u><d|
        sm = proj(dim, 0, 1)
        for i, j in itertools.combinations(range(n), 2):
            if U[i, j] != 0.0:
                H += U[i, j] * (embed2(sp, i, sm, j, n, dim) + embed2(sm, i, sp, j, n, dim))
    else:
        raise ValueError(kind)
    return H


def noise_term(lindblads: Sequence[np.ndarray]) -> np.ndarray:
    """-i/2 sum L^+ L  (single-atom effective non-Hermitian term of the jump method)."""
    d = lindblads[0].shape[0]
    return -0.5j * sum((L.conj().T @ L for L in lindblads), start=np.zeros((d, d), dtype=complex))


# ----------------------------------------------------------------------------- propagation
def expm_herm(H: np.ndarray, t: float) -> np.ndarray:
    w, v = np.linalg.eigh(H)
    return (v * np.exp(-1j * w * t)) @ v.conj().T


def evolve_unitary(psi: np.ndarray, H: np.ndarray, dt_ns: float) -> np.ndarray:
    return expm_herm(H, dt_ns * TIME_COEFF) @ psi


def liouvillian(H: np.ndarray, Ls: Sequence[np.ndarray]) -> np.ndarray:
    """Row-major vectorisation: vec(A rho B) = (A kron B^T) vec(rho)."""
    d = H.shape[0]
    I = np.eye(d, dtype=complex)
    L = -1j * (np.kron(H, I) - np.kron(I, H.T))
    for c in Ls:
        cdc = c.conj().T @ c
        L += np.kron(c, c.conj()) - 0.5 * (np.kron(cdc, I) + np.kron(I, cdc.T))
    return L


def lindblad_rhs(H: np.ndarray, Ls: Sequence[np.ndarray], rho: np.ndarray) -> np.ndarray:
    out = -1j * (H @ rho - rho @ H)
    for c in Ls:
        cdc = c.conj().T @ c
        out += c @ rho @ c.conj().T - 0.5 * (cdc @ rho + rho @ cdc)
    return out


def all_site_ops(single: Sequence[np.ndarray], n: int, dim: int = 2) -> list[np.ndarray]:
    return [embed(L, j, n, dim) for j in range(n) for L in single]


def evolve_lindblad(rho: np.ndarray, H: np.ndarray, Ls_full: Sequence[np.ndarray], dt_ns: float) -> np.ndarray:
    d = H.shape[0]
    Lsup = liouvillian(H, Ls_full)
    return (sla.expm(Lsup * dt_ns * TIME_COEFF) @ rho.reshape(-1)).reshape(d, d)


# ----------------------------------------------------------------------------- states / observables
def basis_state(bits: Sequence[int], dim: int = 2) -> np.ndarray:
    n = len(bits)
    idx = 0
    for b in bits:
        idx = idx * dim + b
    v = np.zeros(dim**n, dtype=complex)
    v[idx] = 1.0
    return v


def occupation(state: np.ndarray, n: int, dim: int = 2) -> np.ndarray:
    """<n_j> for a vector or a density matrix."""
    if state.ndim == 1:
        p = np.abs(state) ** 2
    else:
        p = np.real(np.diag(state))
    p = p.reshape([dim] * n)
    return np.array([p.take(1, axis=j).sum() for j in range(n)])


def correlation(state: np.ndarray, n: int, dim: int = 2) -> np.ndarray:
    if state.ndim == 1:
        p = np.abs(state) ** 2
    else:
        p = np.real(np.diag(state))
    p = p.reshape([dim] * n)
    c = np.zeros((n, n))
    for i in range(n):
        for j in range(n):
            if i == j:
                c[i, j] = p.take(1, axis=i).sum()
            else:
                a, b = min(i, j), max(i, j)
                c[i, j] = p.take(1, axis=b).take(1, axis=a).sum()
    return c


def expect(op: np.ndarray, state: np.ndarray) -> complex:
    if state.ndim == 1:
        return complex(np.vdot(state, op @ state))
    return complex(np.trace(op @ state))


def bit_probabilities(state: np.ndarray, n: int, dim: int = 2) -> dict[str, float]:
    """Born probabilities of measured bitstrings ('1' iff level r/u; leakage level reads '0')."""
    p = np.abs(state) ** 2 if state.ndim == 1 else np.real(np.diag(state))
    out: dict[str, float] = {}
    for idx, pr in enumerate(p):
        digits = []
        k = idx
        for _ in range(n):
            digits.append(k % dim)
            k //= dim
        digits.reverse()
        s = "".join("1" if d == 1 else "0" for d in digits)
        out[s] = out.get(s, 0.0) + float(pr)
    return out


def entanglement_entropy(psi: np.ndarray, cut: int, n: int, dim: int = 2) -> float:
    """von Neumann entropy of sites 0..cut vs the rest (natural log)."""
    m = psi.reshape(dim ** (cut + 1), -1)
    s = np.linalg.svd(m, compute_uv=False)
    p = s**2
    p = p[p > 1e-300]
    return float(-(p * np.log(p)).sum())


# ----------------------------------------------------------------------------- MPS / MPO contraction
def mps_to_vec(factors: Sequence[np.ndarray]) -> np.ndarray:
    """factors[i]: (Dl, d, Dr)."""
    t = np.asarray(factors[0])
    for f in factors[1:]:
        t = np.tensordot(t, np.asarray(f), axes=([-1], [0]))
    return t.reshape(-1)


def mpo_to_mat(factors: Sequence[np.ndarray]) -> np.ndarray:
    """factors[i]: (Dl, out, in, Dr)."""
    t = np.asarray(factors[0])  # (1, o, i, D)
    n = len(factors)
    for f in factors[1:]:
        t = np.tensordot(t, np.asarray(f), axes=([-1], [0]))
    # t: (1, o1, i1, o2, i2, ..., 1)
    t = t.reshape(t.shape[1:-1])
    d = t.shape[0]
    perm = [2 * k for k in range(n)] + [2 * k + 1 for k in range(n)]
    return t.transpose(perm).reshape(d**n, d**n)


def pulser_to_emu_perm(dim: int) -> list[int]:
    """emu index a  <-  pulser index perm[a]   (pulser order r,g[,x]; emu order g,r[,x])."""
    return [1, 0] + list(range(2, dim))


def pulser_op_to_emu(op: np.ndarray) -> np.ndarray:
    p = pulser_to_emu_perm(op.shape[0])
    return np.asarray(op)[np.ix_(p, p)]
