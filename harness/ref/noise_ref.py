"""
Independent reference for noise channels (C24) -- numpy + pulser-core only, never imports emu_*.

Pulser side (trusted base):
  * `HamiltonianData.lindblad_data` / `_build_local_collapse_operators` give the collapse operators of a
    NoiseModel as (coefficient, name | matrix) with names 'sigma_ab' and the Pauli labels 'x','y','z'
    (expanded through `depolarizing_pauli_2ds`).  'sigma_ab' is the projector-like operator |a><b|
    (pulser-simulation builds it as basis[a] * basis[b].dag(); NoiseModel documents relaxation as the
    decay r -> g and uses 'sigma_gr' for it).  Matrices given by the user are written in Pulser's
    eigenbasis order  (r, g[, x])  /  (u, d[, x]).
Emulator side:
  * index 1 is the level reported as "1" / occupied (Pulser `State.infer_one_state`: r for
    ground-rydberg, d for XY), index 0 the other computational level, index 2 the leakage level x.
A channel is compared through its dissipator  D(rho) = sum_k L_k rho L_k^+ - 1/2 {L_k^+ L_k, rho}
evaluated on every matrix unit, so two operator lists describing the same process are equal here
(sqrt(G/2) sigma_z  vs  sqrt(2G) |r><r|), while a g/r swap in a leakage transition is not.
"""
from __future__ import annotations

from typing import Sequence

import numpy as np

ONE_STATE = {"ising": "r", "XY": "d"}


def emu_levels(eigenbasis: Sequence[str], interaction: str) -> list[str]:
    """Level names in the emulator's index order."""
    one = ONE_STATE[interaction]
    comp = [s for s in eigenbasis if s != "x"]
    assert one in comp and len(comp) == 2, (eigenbasis, interaction)
    zero = [s for s in comp if s != one][0]
    return [zero, one] + (["x"] if "x" in eigenbasis else [])


def relabel_perm(eigenbasis: Sequence[str], interaction: str) -> list[int]:
    """perm[a] = Pulser index of the level that has emulator index a."""
    lev = emu_levels(eigenbasis, interaction)
    return [list(eigenbasis).index(s) for s in lev]


def to_emu(op_pulser: np.ndarray, eigenbasis: Sequence[str], interaction: str) -> np.ndarray:
    p = relabel_perm(eigenbasis, interaction)
    return np.asarray(op_pulser, dtype=complex)[np.ix_(p, p)]


def sigma(name: str, eigenbasis: Sequence[str]) -> np.ndarray:
    """'sigma_ab' -> |a><b| in Pulser's eigenbasis order."""
    assert name.startswith("sigma_") and len(name) == 8, name
    a, b = name[6], name[7]
    d = len(eigenbasis)
    m = np.zeros((d, d), dtype=complex)
    m[list(eigenbasis).index(a), list(eigenbasis).index(b)] = 1.0
    return m


def pulser_collapse_ops(lindblad_data, eigenbasis: Sequence[str]) -> list[np.ndarray]:
    """Dense single-atom collapse operators (Pulser order) from a pulser LindbladData."""
    out = []
    for coeff, op in lindblad_data.local_collapse_ops:
        if isinstance(op, str):
            if op in lindblad_data.depolarizing_pauli_2ds:
                m = sum(c * sigma(nm, eigenbasis) for c, nm in lindblad_data.depolarizing_pauli_2ds[op])
            else:
                m = sigma(op, eigenbasis)
        else:
            m = np.asarray(op, dtype=complex)
        out.append(complex(coeff) * m)
    return out


def dissipator_superop(ops: Sequence[np.ndarray], dim: int) -> np.ndarray:
    """Matrix of rho -> D(rho) on row-major vec(rho); column (p*dim+q) is D(|p><q|)."""
    I = np.eye(dim, dtype=complex)
    S = np.zeros((dim * dim, dim * dim), dtype=complex)
    for L in ops:
        L = np.asarray(L, dtype=complex)
        ldl = L.conj().T @ L
        S += np.kron(L, L.conj()) - 0.5 * (np.kron(ldl, I) + np.kron(I, ldl.T))
    return S


def channel_distance(ops_a: Sequence[np.ndarray], ops_b: Sequence[np.ndarray], dim: int) -> tuple[float, tuple[int, int, int, int]]:
    """max |D_a(|p><q|)[m,n] - D_b(|p><q|)[m,n]| and where it is attained (m, n, p, q)."""
    diff = np.abs(dissipator_superop(ops_a, dim) - dissipator_superop(ops_b, dim))
    k = int(np.argmax(diff))
    row, col = divmod(k, dim * dim)
    m, n = divmod(row, dim)
    p, q = divmod(col, dim)
    return float(diff.max()), (m, n, p, q)
