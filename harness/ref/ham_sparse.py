"""
Fast construction of the SAME dense neutral-atom Hamiltonian as `dense.hamiltonian` (same conventions:
levels g=0, r=1[, x=2]; atom 0 most significant; drive Omega/2 (e^{-i phi}|g><r| + h.c.) - delta |r><r|;
Rydberg U_ij n_i n_j; XY U_ij (|ud><du| + h.c.)), assembled from scipy.sparse Kronecker products.
`dense.hamiltonian` builds every term as a dense d^N x d^N Kronecker product, which takes seconds for
3-level atoms at N >= 6; the sweeps of C05 need tens of thousands of references.  numpy / scipy only;
never imports emu_*.  `self_check()` compares with dense.hamiltonian and is run by every driver using it.
"""
from __future__ import annotations

import itertools

import numpy as np
import scipy.sparse as sp

from . import dense


def _embed(ops: dict[int, np.ndarray], n: int, dim: int) -> sp.spmatrix:
    out = sp.identity(1, dtype=complex, format="csr")
    run = 0  # pending identity sites
    for s in range(n):
        if s in ops:
            if run:
                out = sp.kron(out, sp.identity(dim**run, dtype=complex, format="csr"), format="csr")
                run = 0
            out = sp.kron(out, sp.csr_matrix(ops[s]), format="csr")
        else:
            run += 1
    if run:
        out = sp.kron(out, sp.identity(dim**run, dtype=complex, format="csr"), format="csr")
    return out


def local_part(omega, delta, phi, dim: int = 2, local_extra: np.ndarray | None = None) -> sp.spmatrix:
    n = len(omega)
    H = sp.csr_matrix((dim**n, dim**n), dtype=complex)
    for j in range(n):
        loc = dense.drive_local(float(np.real(omega[j])), float(np.real(delta[j])), float(np.real(phi[j])), dim)
        if local_extra is not None:
            loc = loc + local_extra
        H = H + _embed({j: loc}, n, dim)
    return H


def interaction_part(U, kind: str = "rydberg", dim: int = 2) -> sp.spmatrix:
    U = np.asarray(U, dtype=float)
    n = U.shape[0]
    H = sp.csr_matrix((dim**n, dim**n), dtype=complex)
    if kind == "rydberg":
        nn = dense.op_n(dim)
        for i, j in itertools.combinations(range(n), 2):
            if U[i, j] != 0.0:
                H = H + U[i, j] * _embed({i: nn, j: nn}, n, dim)
    elif kind == "xy":
        spl, smi = dense.proj(dim, 1, 0), dense.proj(dim, 0, 1)
        for i, j in itertools.combinations(range(n), 2):
            if U[i, j] != 0.0:
                H = H + U[i, j] * (_embed({i: spl, j: smi}, n, dim) + _embed({i: smi, j: spl}, n, dim))
    else:
        raise ValueError(kind)
    return H


def hamiltonian(omega, delta, phi, U, kind: str = "rydberg", dim: int = 2, local_extra: np.ndarray | None = None) -> np.ndarray:
    return np.asarray((local_part(omega, delta, phi, dim, local_extra) + interaction_part(U, kind, dim)).toarray())


def self_check(seed: int = 0) -> float:
    """max |fast - dense.hamiltonian| over a few random instances (both kinds, dim 2/3, N = 1..4)."""
    rng = np.random.default_rng([seed, 77])
    worst = 0.0
    for kind in ("rydberg", "xy"):
        for dim in (2, 3):
            for n in (1, 2, 3, 4):
                U = rng.normal(size=(n, n))
                U = U + U.T
                U[rng.random((n, n)) < 0.3] = 0.0
                U = np.triu(U, 1) + np.triu(U, 1).T
                om, de, ph = rng.normal(size=n), rng.normal(size=n), rng.normal(size=n)
                ex = rng.normal(size=(dim, dim)) + 1j * rng.normal(size=(dim, dim))
                a = hamiltonian(om, de, ph, U, kind, dim, ex)
                b = dense.hamiltonian(om, de, ph, U, kind, dim, ex)
                worst = max(worst, float(np.abs(a - b).max()))
    return worst
