"""
Independent tensor-network / measurement reference used by C10, C11, C13, C15 (numpy / scipy only;
never imports emu_*).  Conventions as in dense.py: site 0 is the most significant digit of a basis
index, local level order g=0, r=1 [, x=2]; MPS factors (Dl, d, Dr); MPO factors (Dl, out, in, Dr).
"""
from __future__ import annotations

import math
from typing import Sequence

import numpy as np

from . import dense


# ----------------------------------------------------------------------------- isometry defects
def left_defect(a: np.ndarray) -> float:
    """max | sum_s A_s^+ A_s - 1 |  of a factor (Dl, d, Dr)."""
    if a.size == 0:
        return 0.0
    m = a.reshape(-1, a.shape[-1])
    return float(np.abs(m.conj().T @ m - np.eye(m.shape[1])).max())


def right_defect(a: np.ndarray) -> float:
    """max | sum_s A_s A_s^+ - 1 |."""
    if a.size == 0:
        return 0.0
    m = a.reshape(a.shape[0], -1)
    return float(np.abs(m @ m.conj().T - np.eye(m.shape[0])).max())


# ----------------------------------------------------------------------------- MPO on dense vectors
def mpo_apply_vec(factors: Sequence[np.ndarray], v: np.ndarray) -> np.ndarray:
    """(MPO) @ v without building the dense matrix.  factors[i]: (Dl, out, in, Dr)."""
    n = len(factors)
    d = factors[0].shape[2]
    t = v.reshape((1,) + (d,) * n)  # (bond, s_0 .. s_{n-1})
    # sweep: contract factor i with the bond and physical leg i; outputs are appended at the end
    for i, f in enumerate(factors):
        # t axes: (bond, s_i, s_{i+1}.., s_{n-1}, o_0 .. o_{i-1})
        t = np.tensordot(f, t, axes=([0, 2], [0, 1]))  # (out, Dr, rest..., outs...)
        t = np.moveaxis(t, 0, -1)  # (Dr, rest..., outs..., out_i)
    return t.reshape(-1)


def mpo_expect_vec(factors: Sequence[np.ndarray], v: np.ndarray, w: np.ndarray | None = None) -> complex:
    """<w| MPO |v>  (w defaults to v)."""
    return complex(np.vdot(v if w is None else w, mpo_apply_vec(factors, v)))


def mpo_frob(factors: Sequence[np.ndarray]) -> float:
    """Frobenius norm of the operator an MPO represents (transfer-matrix contraction)."""
    e = np.ones((1, 1), dtype=complex)
    for f in factors:
        e = np.einsum("ab,aijc,bijd->cd", e, f.conj(), f)
    return float(math.sqrt(max(e.reshape(-1)[0].real, 0.0)))


# ----------------------------------------------------------------------------- local observables
def local_density(v: np.ndarray, site: int, n: int, d: int) -> np.ndarray:
    """rho[s, s'] = sum_rest v[.. s ..] conj(v[.. s' ..])   (unnormalised)."""
    t = v.reshape((d**site, d, -1))
    return np.einsum("asb,atb->st", t, t.conj())


def expect_batch(v: np.ndarray, ops: np.ndarray, n: int, d: int) -> np.ndarray:
    """T[q, i] = <v| ops[i] on site q |v>  (no normalisation, as MPS.expect_batch)."""
    out = np.zeros((n, ops.shape[0]), dtype=complex)
    for q in range(n):
        rho = local_density(v, q, n, d)  # <O> = sum_{s',s} conj(v_s') O[s',s] v_s = sum O[s',s] rho[s,s']
        for i in range(ops.shape[0]):
            out[q, i] = np.einsum("ts,st->", ops[i], rho)
    return out


def pair_expect(v: np.ndarray, oi: np.ndarray, i: int, oj: np.ndarray, j: int, n: int, d: int) -> complex:
    """<v| O_i O_j |v> for i < j (unnormalised)."""
    assert i < j
    t = v.reshape((d**i, d, d ** (j - i - 1), d, -1))
    w = np.einsum("ps,qt,asbtc->apbqc", oi, oj, t)
    return complex(np.vdot(t.reshape(-1), w.reshape(-1)))


def correlation_diag_op(v: np.ndarray, n: int, d: int, op: np.ndarray) -> np.ndarray:
    """C[i,j] = <O_i O_j> (i != j),  C[i,i] = <O_i>  -- the convention of MPS.get_correlation_matrix
    for projector-like diagonal operators (O^2 = O), which is all the harness feeds it."""
    c = np.zeros((n, n), dtype=complex)
    for i in range(n):
        c[i, i] = np.einsum("ts,st->", op, local_density(v, i, n, d))
        for j in range(i + 1, n):
            c[i, j] = c[j, i] = pair_expect(v, op, i, op, j, n, d)
    return c


def schmidt(v: np.ndarray, cut_sites: int, d: int) -> np.ndarray:
    """singular values of the bipartition (first `cut_sites` sites | rest)."""
    return np.linalg.svd(v.reshape(d**cut_sites, -1), compute_uv=False)


def entropy_of_singular_values(s: np.ndarray) -> float:
    """-sum s^2 log s^2 (natural log), the formula MPS.entanglement_entropy documents."""
    p = s.astype(float) ** 2
    p = p[p > 1e-300]
    return float(-(p * np.log(p)).sum())


# ----------------------------------------------------------------------------- abstract representations
LEVELS = {
    ("r", "g"): {"g": 0, "r": 1},
    ("0", "1"): {"0": 0, "1": 1},
    ("r", "g", "x"): {"g": 0, "r": 1, "x": 2},
}


def basis_key(eigenstates: Sequence[str]) -> tuple:
    s = set(eigenstates)
    for k in LEVELS:
        if set(k) == s:
            return k
    raise ValueError(eigenstates)


def vec_from_amplitudes(eigenstates: Sequence[str], amplitudes: dict[str, complex], normalise: bool = True) -> np.ndarray:
    """Pulser convention: string position p <-> qudit p; letter -> level index (g/0 -> 0, r/1 -> 1, x -> 2)."""
    lv = LEVELS[basis_key(eigenstates)]
    d = len(lv)
    n = len(next(iter(amplitudes)))
    v = np.zeros(d**n, dtype=complex)
    for s, a in amplitudes.items():
        idx = 0
        for ch in s:
            idx = idx * d + lv[ch]
        v[idx] += a
    if normalise:
        v = v / np.linalg.norm(v)
    return v


def qudit_op(eigenstates: Sequence[str], q: dict[str, complex]) -> np.ndarray:
    """'ij' -> |i><j| in emulator level order."""
    lv = LEVELS[basis_key(eigenstates)]
    d = len(lv)
    m = np.zeros((d, d), dtype=complex)
    for k, c in q.items():
        m[lv[k[0]], lv[k[1]]] += c
    return m


def mat_from_operations(eigenstates: Sequence[str], n: int, operations) -> np.ndarray:
    """FullOp = [(coeff, [(QuditOp, targets), ...]), ...]  ->  dense matrix."""
    d = len(LEVELS[basis_key(eigenstates)])
    out = np.zeros((d**n, d**n), dtype=complex)
    for coeff, tensorop in operations:
        mats = [np.eye(d, dtype=complex) for _ in range(n)]
        for q, targets in tensorop:
            m = qudit_op(eigenstates, q)
            for t in targets:
                mats[t] = m
        full = mats[0]
        for m in mats[1:]:
            full = np.kron(full, m)
        out += coeff * full
    return out


# ----------------------------------------------------------------------------- measurement
def bit_probs(state: np.ndarray, n: int, d: int = 2) -> dict[str, float]:
    """Born probabilities of measured bitstrings of a vector / density matrix (normalised here);
    '1' iff level 1 (r / u / '1'); any other level (g, x) reads '0'."""
    p = np.abs(state) ** 2 if state.ndim == 1 else np.real(np.diag(state)).clip(min=0.0)
    p = p / p.sum()
    out: dict[str, float] = {}
    for idx in np.nonzero(p)[0]:
        k = int(idx)
        digs = []
        for _ in range(n):
            digs.append(k % d)
            k //= d
        s = "".join("1" if x == 1 else "0" for x in reversed(digs))
        out[s] = out.get(s, 0.0) + float(p[idx])
    return out


def readout_channel(probs: dict[str, float], n: int, p_fp: float, p_fn: float) -> dict[str, float]:
    """Push a bitstring distribution through independent per-bit flips (0->1 w.p. p_fp, 1->0 w.p. p_fn)."""
    t = np.zeros((2,) * n)
    for s, p in probs.items():
        t[tuple(int(c) for c in s)] += p
    flip = np.array([[1 - p_fp, p_fp], [p_fn, 1 - p_fn]])  # flip[true, read]
    for ax in range(n):
        t = np.moveaxis(np.tensordot(t, flip, axes=([ax], [0])), -1, ax)
    out = {}
    for idx in np.ndindex(*t.shape):
        if t[idx] > 0:
            out["".join(map(str, idx))] = float(t[idx])
    return out


def reference_sample(probs: dict[str, float], shots: int, rng: np.random.Generator) -> dict[str, int]:
    keys = sorted(probs)
    p = np.array([probs[k] for k in keys])
    c = rng.multinomial(shots, p / p.sum())
    return {k: int(x) for k, x in zip(keys, c) if x}
