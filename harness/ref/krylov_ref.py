"""
Independent reference for C07 / C08 (numpy / scipy only; never imports emu_* or torch).

* JSON-able instance specifications -> dense operators of the classes the emulators exponentiate
  (-i dt H with H Hermitian; -i dt (H - i G/2) with G PSD; dt * Lindblad generator; physical Rydberg
  Hamiltonians) and Hermitian operators with prescribed spectra for the ground-state search;
  start vectors (random, inside an invariant subspace of dimension k, eigenvector + hidden component,
  basis state, zero).
* exact answers: exp(A) v three independent ways (scipy.linalg.expm, scipy.sparse.linalg.expm_multiply,
  eigendecomposition for the Hermitian-proportional class) with their mutual disagreement as the
  reference uncertainty; spectrum / lowest eigenvalue by eigvalsh.
* the NUMERIC ATOMS of the two properties with the statement's own budgets plus explicit rounding slack
  (DESIGN 3.3):   accurate     |result - exp(A)v| <= 10 tol |v| + 64 eps |A| |v|   (+ reference uncertainty)
                  unit         | |psi| - 1 | <= 64 eps
                  rayleigh     |E - <psi|H|psi>/<psi|psi>| <= 256 eps |H|
                  variational  E >= lambda_min - 256 eps |H|
                  residOK      |H psi - E psi| < tol + 256 eps |H|
"""
from __future__ import annotations

import math
from typing import Any

import numpy as np
import scipy.linalg as sla
import scipy.sparse.linalg as spla

from . import dense

EPS = float(np.finfo(float).eps)
SLACK_EXP = 64.0          # * eps * |A| * |v|
SLACK_UNIT = 64.0         # * eps
SLACK_MIN = 256.0         # * eps * |H|

SPECTRA = ("uniform", "gapped", "clustered", "wide", "degenerate")
EXP_CLASSES = ("herm", "nonherm", "lindblad", "rydberg", "chain")


# ----------------------------------------------------------------------------------- building blocks
def _unitary(n: int, rng: np.random.Generator, cplx: bool) -> np.ndarray:
    x = rng.normal(size=(n, n)) + (1j * rng.normal(size=(n, n)) if cplx else 0.0)
    q, r = np.linalg.qr(x)
    d = np.diag(r)
    return q * (d / np.where(np.abs(d) > 0, np.abs(d), 1.0))


def spectrum(kind: str, n: int, rng: np.random.Generator) -> np.ndarray:
    """n real eigenvalues, max |lambda| = 1 (0 only for the all-zero spectrum)."""
    if kind == "uniform":
        lam = rng.uniform(-1, 1, n)
    elif kind == "gapped":
        lam = np.concatenate([[-1.0], rng.uniform(0.3, 1.0, n - 1)])
    elif kind == "clustered":
        nc = int(rng.integers(1, 4))
        centres = rng.uniform(-1, 1, nc)
        width = 10.0 ** rng.uniform(-9, -3)
        lam = centres[rng.integers(0, nc, n)] + width * rng.normal(size=n)
        lam[0] = centres.min() - width * abs(rng.normal())      # the low end is a cluster, too
    elif kind == "wide":
        lam = 10.0 ** rng.uniform(-4, 0, n) * rng.choice([-1.0, 1.0], n)
    elif kind == "degenerate":
        vals = rng.uniform(-1, 1, max(1, min(n, int(rng.integers(1, 4)))))
        lam = vals[rng.integers(0, len(vals), n)]
    else:
        raise ValueError(kind)
    m = float(np.max(np.abs(lam)))
    return np.sort(lam / m) if m > 0 else lam


def hermitian(n: int, lam: np.ndarray, rng: np.random.Generator, cplx: bool) -> tuple[np.ndarray, np.ndarray]:
    q = _unitary(n, rng, cplx)
    h = (q * lam) @ q.conj().T
    h = 0.5 * (h + h.conj().T)
    return h.astype(complex), q.astype(complex)


def psd(n: int, rng: np.random.Generator, cplx: bool) -> np.ndarray:
    r = int(rng.integers(1, n + 1))
    x = rng.normal(size=(n, r)) + (1j * rng.normal(size=(n, r)) if cplx else 0.0)
    g = x @ x.conj().T
    nr = np.linalg.norm(g, 2)
    return (g / nr if nr > 0 else g).astype(complex)


def norm2(a: np.ndarray) -> float:
    return float(np.linalg.norm(a, 2)) if a.size else 0.0


def rydberg_h(n_atoms: int, rng: np.random.Generator) -> np.ndarray:
    om = rng.uniform(0.0, 12.0, n_atoms)
    de = rng.uniform(-15.0, 15.0, n_atoms)
    ph = rng.uniform(-math.pi, math.pi, n_atoms) * (rng.random() < 0.5)
    x = np.cumsum(rng.uniform(5.0, 9.0, n_atoms))
    u = np.zeros((n_atoms, n_atoms))
    for i in range(n_atoms):
        for j in range(i + 1, n_atoms):
            u[i, j] = u[j, i] = 5420158.53 / abs(x[i] - x[j]) ** 6
    return dense.hamiltonian(om, de, ph, u, kind="rydberg", dim=2)


# ----------------------------------------------------------------------------------- instances
def build_operator(spec: dict) -> dict:
    """spec: cls, dim, spectrum, scale, cplx, seed [, gamma].  Returns A (dense, complex), H (for the
    Hermitian-proportional classes: A = -i * s * H), s, herm (is A complex-proportional to its adjoint)."""
    rng = np.random.default_rng([int(spec["seed"]), 11])
    cls, n, scale = spec["cls"], int(spec["dim"]), float(spec["scale"])
    cplx = bool(spec.get("cplx", True))
    out: dict[str, Any] = {"cls": cls}
    if cls == "herm":
        h, _ = hermitian(n, spectrum(spec["spectrum"], n, rng), rng, cplx)
        out.update(A=-1j * scale * h, H=h, s=scale, herm=True)
    elif cls == "rydberg":
        na = max(1, int(round(math.log2(max(n, 2)))))
        h = rydberg_h(na, rng)
        out.update(A=-1j * scale * h, H=h, s=scale, herm=True)          # scale = dt in us
    elif cls == "chain":
        # weakly coupled chain (the structure of a weakly driven atom register): couplings spread over many
        # decades, diagonal entries 0 or O(1); the start vector (basis state 0) is nearly annihilated
        c = 10.0 ** rng.uniform(-7, 0, max(n - 1, 0))
        ph = np.exp(1j * rng.uniform(-math.pi, math.pi, max(n - 1, 0))) if cplx else np.ones(max(n - 1, 0))
        dg = rng.choice([0.0, 1.0], n) * rng.uniform(-1, 1, n)
        if spec.get("couplings") is not None:                   # explicit chain (path realisation)
            c = np.asarray(spec["couplings"], dtype=float)
            dg = np.asarray(spec["diag"], dtype=float)
        h = np.diag(dg).astype(complex)
        for i in range(n - 1):
            h[i, i + 1] = c[i] * ph[i]
            h[i + 1, i] = np.conj(c[i] * ph[i])
        out.update(A=-1j * scale * h, H=h, s=scale, herm=True)
    elif cls == "nonherm":
        h, _ = hermitian(n, spectrum(spec["spectrum"], n, rng), rng, cplx)
        g = psd(n, rng, cplx) * float(spec.get("gamma", 1.0))
        out.update(A=-1j * scale * (h - 0.5j * g), H=None, s=scale, herm=False)
    elif cls == "lindblad":
        d = max(1, int(round(math.sqrt(n))))
        h, _ = hermitian(d, spectrum(spec["spectrum"], d, rng), rng, cplx)
        nj = int(rng.integers(1, 4))
        ls = []
        for _ in range(nj):
            x = rng.normal(size=(d, d)) + 1j * rng.normal(size=(d, d))
            if rng.random() < 0.5:                                       # sparse jump (decay / dephasing like)
                m = np.zeros((d, d), dtype=complex)
                m[int(rng.integers(0, d)), int(rng.integers(0, d))] = 1.0
                x = m
            nx = np.linalg.norm(x, 2)
            ls.append(math.sqrt(float(spec.get("gamma", 1.0))) * x / (nx if nx > 0 else 1.0))
        out.update(A=scale * dense.liouvillian(h, ls), H=None, s=scale, herm=False, d=d)
    else:
        raise ValueError(cls)
    out["A"] = np.ascontiguousarray(out["A"], dtype=complex)
    out["normA"] = norm2(out["A"])
    return out


def start_vector(spec: dict, a: np.ndarray, hermitian_part: np.ndarray | None) -> np.ndarray:
    """vkind: random | invariant (k) | hidden (delta) | basis | zero ; vnorm."""
    rng = np.random.default_rng([int(spec["seed"]), 23])
    n = a.shape[0]
    kind = spec.get("vkind", "random")
    if kind == "zero":
        return np.zeros(n, dtype=complex)
    if kind == "basis":
        v = np.zeros(n, dtype=complex)
        v[int(rng.integers(0, n)) if spec.get("basis_random") else 0] = 1.0
    elif kind in ("invariant", "hidden"):
        k = max(1, min(int(spec.get("k", 1)), n))
        if hermitian_part is not None:
            w, vec = np.linalg.eigh(hermitian_part)
        else:
            w, vec = np.linalg.eig(a)
        # k eigenvectors with pairwise well separated eigenvalues (so the Krylov space really has dimension k)
        order = list(rng.permutation(n))
        chosen: list[int] = []
        sep = 1e-3 * (np.max(np.abs(w)) if n else 0.0)
        for i in order:
            if all(abs(w[i] - w[j]) > sep for j in chosen):
                chosen.append(i)
            if len(chosen) == k:
                break
        c = rng.normal(size=len(chosen)) + 1j * rng.normal(size=len(chosen))
        c = c / np.abs(c) * rng.uniform(0.5, 1.5, len(chosen))
        v = vec[:, chosen] @ c
        if kind == "hidden":
            x = rng.normal(size=n) + 1j * rng.normal(size=n)
            v = v / np.linalg.norm(v) + float(spec.get("delta", 1e-6)) * x / np.linalg.norm(x)
    else:
        v = rng.normal(size=n) + 1j * rng.normal(size=n)
    nv = np.linalg.norm(v)
    return (v / nv * float(spec.get("vnorm", 1.0))).astype(complex)


def build_exp(spec: dict) -> dict:
    o = build_operator(spec)
    o["v"] = start_vector(spec, o["A"], o.get("H"))
    return o


def build_min(spec: dict) -> dict:
    """spec: dim, spectrum, hnorm, cplx, seed, vkind...  Returns H, lam (sorted), normH, v."""
    rng = np.random.default_rng([int(spec["seed"]), 37])
    n = int(spec["dim"])
    if spec.get("cls") == "rydberg":
        h = rydberg_h(max(1, int(round(math.log2(max(n, 2))))), rng)
        nh = float(np.max(np.abs(np.linalg.eigvalsh(h))))
        h = h * (float(spec.get("hnorm", 1.0)) / nh if nh > 0 else 1.0)
    elif spec.get("spectrum") == "zero":
        h = np.zeros((n, n), dtype=complex)
    else:
        lam0 = spectrum(spec["spectrum"], n, rng) * float(spec.get("hnorm", 1.0))
        h, _ = hermitian(n, lam0, rng, bool(spec.get("cplx", True)))
    lam = np.linalg.eigvalsh(h)
    v = start_vector(spec, h, h)
    if not spec.get("cplx", True) and spec.get("cls") != "rydberg":
        v = v.real.astype(complex) if np.linalg.norm(v.real) > 0 else v
        nv = np.linalg.norm(v)
        v = v / nv * float(spec.get("vnorm", 1.0))
    return {"H": np.ascontiguousarray(h, dtype=complex), "lam": lam, "normH": float(np.max(np.abs(lam))) if n else 0.0, "v": v}


# ----------------------------------------------------------------------------------- exact answers
def exp_action(o: dict) -> tuple[np.ndarray, float]:
    """exp(A) v and the reference's own uncertainty (largest mutual distance of independent evaluations)."""
    a, v = o["A"], o["v"]
    refs = []
    if o.get("H") is not None:
        w, vec = np.linalg.eigh(o["H"])
        refs.append(vec @ (np.exp(-1j * o["s"] * w) * (vec.conj().T @ v)))
    refs.append(sla.expm(a) @ v)
    if a.shape[0] > 1:
        refs.append(np.asarray(spla.expm_multiply(a, v)).reshape(-1))
    else:
        refs.append(np.exp(a[0, 0]) * v)
    unc = 0.0
    for i in range(len(refs)):
        for j in range(i + 1, len(refs)):
            unc = max(unc, float(np.linalg.norm(refs[i] - refs[j])))
    return refs[0], unc


def atom_accurate(result: np.ndarray, ref: np.ndarray, unc: float, tol: float, norm_a: float, norm_v: float) -> dict:
    res = np.asarray(result).reshape(-1)
    if not np.all(np.isfinite(res)):
        return {"accurate": False, "err": float("inf"), "budget": 10 * tol * norm_v, "ratio": float("inf"), "unc": unc}
    err = float(np.linalg.norm(res - ref))
    budget = 10.0 * tol * norm_v + SLACK_EXP * EPS * norm_a * norm_v + unc
    return {"accurate": bool(err <= budget), "err": err, "budget": budget,
            "ratio": err / budget if budget > 0 else (0.0 if err == 0 else float("inf")), "unc": unc,
            "ratio_stmt": err / (10.0 * tol * norm_v) if tol * norm_v > 0 else None}


def atoms_min(b: dict, psi: np.ndarray, energy: float, tol: float) -> dict:
    h, lam, nh = b["H"], b["lam"], b["normH"]
    psi = np.asarray(psi).reshape(-1)
    slack = SLACK_MIN * EPS * nh + 1e-300
    if not (np.all(np.isfinite(psi)) and math.isfinite(energy)):
        nrm = float(np.linalg.norm(psi)) if np.all(np.isfinite(psi)) else float("nan")
        return {"unit": bool(abs(nrm - 1.0) <= SLACK_UNIT * EPS), "rayleigh": False,
                "variational": bool(energy == float("inf")), "residOK": False,
                "m_unit": None, "m_ray": float("inf"), "m_var": None, "m_res": float("inf"), "resid": float("inf")}
    nrm = float(np.linalg.norm(psi))
    hp = h @ psi
    ray = float(np.real(np.vdot(psi, hp))) / (nrm * nrm) if nrm > 0 else float("nan")
    resid = float(np.linalg.norm(hp - energy * psi))
    d_unit = abs(nrm - 1.0)
    d_ray = abs(energy - ray)
    d_var = float(lam[0]) - energy
    return {
        "unit": bool(d_unit <= SLACK_UNIT * EPS),
        "rayleigh": bool(d_ray <= slack),
        "variational": bool(d_var <= slack),
        "residOK": bool(resid < tol + slack),
        "m_unit": d_unit / (SLACK_UNIT * EPS), "m_ray": d_ray / slack, "m_var": max(d_var, 0.0) / slack,
        "m_res": (resid - tol) / slack if resid > tol else 0.0, "resid": resid, "ray": ray, "lam_min": float(lam[0]),
    }
