"""
Independent reference for Pulser's abstract state / operator representation in the ground-rydberg basis
(numpy only; never imports emu_*).  Conventions as in dense.py: level g = 0, r = 1; qubit 0 is the most
significant digit of a basis index; "ab" denotes |a><b|; a tensor term is the Kronecker product over the
qubits (identity where no QuditOp is given), a FullOp the weighted sum of its terms.
"""
from __future__ import annotations

import numpy as np

LEVEL = {"g": 0, "r": 1}


def index_of(s: str) -> int:
    n = len(s)
    return sum(LEVEL[ch] * 2 ** (n - 1 - q) for q, ch in enumerate(s))


def state_vector(amplitudes: dict, normalise: bool = True) -> np.ndarray:
    n = len(next(iter(amplitudes)))
    v = np.zeros(2**n, dtype=complex)
    for s, a in amplitudes.items():
        e = np.ones(1, dtype=complex)
        for ch in s:                      # Kronecker product of single-qubit basis vectors
            b = np.zeros(2, dtype=complex)
            b[LEVEL[ch]] = 1.0
            e = np.kron(e, b)
        v = v + complex(a) * e
    if normalise:
        v = v / np.linalg.norm(v)
    return v


def qudit_op(qo: dict) -> np.ndarray:
    m = np.zeros((2, 2), dtype=complex)
    for key, c in qo.items():
        m[LEVEL[key[0]], LEVEL[key[1]]] += complex(c)
    return m


def operator(n: int, operations: list) -> np.ndarray:
    out = np.zeros((2**n, 2**n), dtype=complex)
    for coeff, tensor_op in operations:
        gates = [np.eye(2, dtype=complex) for _ in range(n)]
        for qo, targets in tensor_op:
            g = qudit_op(qo)
            for t in targets:
                gates[t] = g
        m = np.ones((1, 1), dtype=complex)
        for g in gates:
            m = np.kron(m, g)
        out = out + complex(coeff) * m
    return out
