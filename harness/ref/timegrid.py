"""
Independent reference for the time grid (C21 / C14): intended points in exact rationals, and the
projection of float time lists onto point numbers (ints) for TLC.  numpy only; never imports emu_*.

A *point* of time is a cluster of values closer than RES ns (1e-6 ns: ~1e8 times the rounding noise of
a double at 10 000 ns, 1000 times below the closest pair of intended points the generators produce).
"""
from __future__ import annotations

from fractions import Fraction
from typing import Iterable, Sequence

RES = 1e-6        # ns: values closer than this are the same point
SEP = 1e-3        # ns: generators guarantee that two different intended points are at least this far apart
REL_RES = 1e-9    # relative times (fractions of the duration) closer than this are the same point


def intended(duration: int, dt: float, eval_times: Iterable[float]) -> tuple[list[Fraction], list[Fraction]]:
    """(multiples of dt up to the duration, requested absolute evaluation times) as exact rationals of
    the floats the user supplied.  A multiple that lands within RES above the duration IS the duration
    (dt = 0.1 is 0.1000000000000000055...: 10 * dt 'is' 1)."""
    d = Fraction(duration)
    dtf = Fraction(dt)
    res = Fraction(RES)
    mult = []
    k = 0
    while k * dtf <= d + res:
        mult.append(min(k * dtf, d))
        k += 1
    ev = [min(max(Fraction(float(e)) * d, Fraction(0)), d) for e in eval_times]
    return mult, ev


def well_separated(points: Iterable[Fraction], sep: float = SEP, res: float = RES) -> bool:
    """No two intended points in the grey zone (res/1000 .. sep): either the same point or clearly apart."""
    ps = sorted(points)
    lo = Fraction(res) / 1000
    hi = Fraction(sep)
    for a, b in zip(ps, ps[1:]):
        if lo < b - a < hi:
            return False
    return True


def project(lists: Sequence[Sequence[float | Fraction]], res: float = RES) -> list[list[int]]:
    """Order-exact projection of several lists of times onto point numbers: values closer than `res`
    (chained from the smallest member of the cluster) get the same number; the cluster of 0 gets 0."""
    allv = sorted({float(v) for lst in lists for v in lst} | {0.0})
    ids = {}
    cur = -1
    start = None
    for v in allv:
        if start is None or v - start > res:
            cur += 1
            start = v
        ids[v] = cur
    off = ids[0.0]
    return [[ids[float(v)] - off for v in lst] for lst in lists]


# ---------------------------------------------------------------------------- python twin of TimeGridReq.tla
def failing(T: Sequence[int], d: int, M: Sequence[int], E: Sequence[int]) -> set[str]:
    out = set()
    if not all(a < b for a, b in zip(T, T[1:])):
        out.add("StrictlyIncreasing")
    if not (len(T) >= 1 and T[0] == 0):
        out.add("StartsAt0")
    if not (len(T) >= 1 and T[-1] == d):
        out.add("EndsAtD")
    s = set(T)
    if not set(M) <= s:
        out.add("ContainsMultiples")
    if not set(E) <= s:
        out.add("ContainsEvalTimes")
    if not all(0 <= t <= d for t in T):
        out.add("InsideSequence")
    return out


# ---------------------------------------------------------------------------- C14: requested vs recorded
def match_recorded(requested: Sequence[float], recorded: Sequence[float], res: float = REL_RES) -> dict:
    """Compare the recorded relative times of one observable with the requested ones.
    Requested times closer than `res` are one request.  Returns the failing clauses with witnesses."""
    req = []
    for e in sorted(float(x) for x in requested):
        if not req or e - req[-1] > res:
            req.append(e)
    out: dict[str, list] = {}
    hits = {i: [] for i in range(len(req))}
    for r in recorded:
        m = [i for i, e in enumerate(req) if abs(float(r) - e) <= res]
        if not m:
            out.setdefault("unrequested", []).append(float(r))
        else:
            hits[m[0]].append(float(r))
    for i, e in enumerate(req):
        if not hits[i]:
            out.setdefault("missing", []).append(e)
        elif len(hits[i]) > 1:
            out.setdefault("repeated", []).append([e] + hits[i])
    if not all(a < b for a, b in zip(recorded, list(recorded)[1:])):
        out.setdefault("not-increasing", []).append([float(x) for x in recorded])
    return out
