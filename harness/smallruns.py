"""Small real emu-mps runs shared by the autosave / resume / stepping checks."""
from __future__ import annotations

from typing import Any

from .gen import seqs


def small_spec(n: int = 3, duration: int = 30, layout: str = "line", spacing: float = 7.0, dmm: bool = False, amp: float = 6.0, det: float = 2.0) -> dict:
    spec = seqs.simple_spec(n, layout, spacing, {"k": "const", "d": duration, "v": amp}, {"k": "ramp", "d": duration, "v0": -det, "v1": det}, phase=0.3)
    if dmm:
        ids = [f"q{i}" for i in range(n)]
        w = [((i * 7) % n + 1) for i in range(n)]
        tot = float(sum(w))
        spec["dmm"] = {"weights": {q: wi / tot for q, wi in zip(ids, w)}}
        spec["ops"].insert(0, {"op": "dmm", "wf": {"k": "const", "d": duration, "v": -5.0}})
    return spec


def observables(kinds: list[str], times: list[float] | None = None) -> list[Any]:
    import pulser.backend as pb

    out = []
    for k in kinds:
        kw = {} if times is None else {"evaluation_times": times}
        if k == "occupation":
            out.append(pb.Occupation(**kw))
        elif k == "energy":
            out.append(pb.Energy(**kw))
        elif k == "correlation_matrix":
            out.append(pb.CorrelationMatrix(**kw))
        elif k == "bitstrings":
            out.append(pb.BitStrings(num_shots=100, **kw))
        elif k == "state":
            out.append(pb.StateResult(**kw))
        elif k == "energy_variance":
            out.append(pb.EnergyVariance(**kw))
        elif k == "energy_second_moment":
            out.append(pb.EnergySecondMoment(**kw))
        else:
            raise ValueError(k)
    return out


def results_table(res: Any) -> dict:
    """Plain projection of a pulser Results: {tag: [(time, value-as-nested-list)]} + atom_order."""
    import torch

    out: dict = {"atom_order": [str(a) for a in res.atom_order]}
    for tag in res.get_result_tags():
        if tag == "statistics":
            continue
        vals = []
        for t, v in zip(res.get_result_times(tag), getattr(res, tag)):
            if isinstance(v, torch.Tensor):
                v = v.detach().cpu().tolist()
            elif hasattr(v, "items"):
                v = dict(v)
            elif hasattr(v, "factors"):
                v = "state"
            vals.append((float(t), v))
        out[tag] = vals
    return out
