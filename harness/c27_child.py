"""Child process of the C27 check.  Runs one small real emu-mps simulation with forced autosaves and either

  record  : logs, for every bytecode instruction executed inside MPSBackendImpl.save_simulation (and the first
            instruction of __getstate__ called from it), the sizes of the files in the run directory, and every
            file-system operation (audit events) with the instruction counter at which it happened; or
  kill N  : terminates the process with os._exit(77) -- a hard death, no unwinding, no flushing -- immediately
            BEFORE the N-th such instruction.
  raise N : raises an exception (a BaseException subclass, like KeyboardInterrupt / MemoryError / a failing write) at the
            N-th such instruction: the stack unwinds (with-blocks close files, finally-clauses run), then the process ends (78).

Usage: python -m harness.c27_child <kind> <workdir> record|kill [N]
"""
from __future__ import annotations

import json
import os
import sys


def main() -> None:
    kind, workdir, mode = sys.argv[1], sys.argv[2], sys.argv[3]
    kill_at = int(sys.argv[4]) if mode in ("kill", "raise") else -1

    class Abort(BaseException):
        pass

    os.makedirs(workdir, exist_ok=True)
    os.chdir(workdir)
    os.environ["PASQAL_IO_EMULATORS_VERIF"] = "1"
    os.environ["PASQAL_IO_EMULATORS_VERIF_AUTOSAVE"] = "always"
    os.environ["PASQAL_IO_EMULATORS_VERIF_TRACE"] = os.path.join(workdir, "events.ndjson")
    os.environ.setdefault("OMP_NUM_THREADS", "1")
    import random
    import torch

    torch.set_num_threads(1)
    from emu_mps import MPSBackend
    from emu_mps.mps_backend_impl import MPSBackendImpl
    from harness.drivers.C27 import _cfg
    from harness.gen import seqs
    from harness.smallruns import small_spec

    random.seed(1234)
    torch.manual_seed(1234)
    natoms, dur = (int(x) for x in os.environ.get("C27_SCENARIO", "3,30").split(","))
    seq = seqs.build_sequence(small_spec(natoms, dur))
    cfg = _cfg(kind)
    log = open(os.path.join(workdir, "record.jsonl"), "w") if mode == "record" else None
    state = {"n": 0, "save_calls": 0, "in_save": 0, "seq": 0}
    save_code = MPSBackendImpl.save_simulation.__code__
    gs_code = MPSBackendImpl.__getstate__.__code__
    import emu_mps as _pkg
    repo_root = os.path.dirname(os.path.dirname(os.path.abspath(_pkg.__file__))) + os.sep
    instrumented = {save_code}

    def open_names() -> list:
        names = []
        try:
            for fd in os.listdir("/proc/self/fd"):
                try:
                    t = os.readlink(f"/proc/self/fd/{fd}")
                except OSError:
                    continue
                if t.startswith(workdir) and not t.endswith((".ndjson", ".jsonl")):
                    names.append(os.path.basename(t))
        except OSError:
            pass
        return names

    def snapshot() -> dict:
        out = {}
        for f in os.listdir(workdir):
            if f.endswith((".dat", ".new", ".bak", ".tmp")) or "emu_mps_save" in f:
                try:
                    out[f] = os.path.getsize(os.path.join(workdir, f))
                except OSError:
                    pass
        return out

    def tick(tag: str, line: int, off: int) -> None:
        state["n"] += 1
        if state["n"] == kill_at:
            if mode == "raise":
                state["raised"] = True
                raise Abort("injected exception inside the autosave")
            os._exit(77)
        if log is not None:
            log.write(json.dumps({"n": state["n"], "tag": tag, "line": line, "lasti": off, "save": state["save_calls"], "fs": snapshot(), "open": open_names()}) + "\n")
            log.flush()

    # per-instruction events of save_simulation (sys.monitoring, Python >= 3.12); __getstate__ entry marks "mid-write"
    mon = sys.monitoring
    TOOL = mon.DEBUGGER_ID
    mon.use_tool_id(TOOL, "verif-c27")

    # The instruction counter runs over save_simulation AND over every function of the package it calls (helpers a
    # refactoring may introduce): PY_START is switched on globally for the duration of a save and instruments any code
    # object of the repository tree it meets (the hook module itself excepted).
    def on_start(code, offset):
        if code is save_code:
            state["save_calls"] += 1
            state["in_save"] += 1
            if state["in_save"] == 1:
                mon.set_events(TOOL, mon.events.PY_START)
        elif code is gs_code and state["in_save"] > 0:
            tick("getstate", code.co_firstlineno, 0)
        elif state["in_save"] > 0 and code not in instrumented and code.co_filename.startswith(repo_root) \
                and not code.co_filename.endswith("_verif.py"):
            instrumented.add(code)
            mon.set_local_events(TOOL, code, mon.events.INSTRUCTION)

    def on_instr(code, offset):
        if state["in_save"] > 0:
            tick("op", 0, offset)

    def on_leave(code, *a):
        if code is save_code:
            state["in_save"] -= 1
            if state["in_save"] == 0:
                mon.set_events(TOOL, 0)

    mon.register_callback(TOOL, mon.events.PY_START, on_start)
    mon.register_callback(TOOL, mon.events.INSTRUCTION, on_instr)
    mon.register_callback(TOOL, mon.events.PY_RETURN, on_leave)
    mon.set_local_events(TOOL, save_code, mon.events.PY_START | mon.events.INSTRUCTION | mon.events.PY_RETURN)
    mon.set_local_events(TOOL, gs_code, mon.events.PY_START)

    def audit(event, args):
        if log is None:
            return
        if event in ("open", "os.rename", "os.remove") and str(args[0]).endswith((".ndjson", ".jsonl")):
            return
        if event in ("open", "os.rename", "os.remove"):
            state["seq"] += 1
        if event == "open":
            path, m, _ = args
            if isinstance(m, str) and any(c in m for c in "wax+") and str(path).startswith(workdir):
                log.write(json.dumps({"fsop": "create", "dst": os.path.basename(str(path)), "n": state["n"], "seq": state["seq"], "save": state["save_calls"]}) + "\n")
        elif event == "os.rename" and str(args[0]).startswith(workdir):
            # is the source still held open for writing by this process?  (then its data may still sit in a user-space buffer)
            src_open = False
            try:
                for fd in os.listdir("/proc/self/fd"):
                    try:
                        if os.readlink(f"/proc/self/fd/{fd}") == os.path.abspath(str(args[0])):
                            src_open = True
                    except OSError:
                        pass
            except OSError:
                pass
            log.write(json.dumps({"fsop": "rename", "src": os.path.basename(str(args[0])), "dst": os.path.basename(str(args[1])), "n": state["n"], "seq": state["seq"], "save": state["save_calls"], "src_open": src_open}) + "\n")
        elif event == "os.remove" and str(args[0]).startswith(workdir):
            log.write(json.dumps({"fsop": "remove", "dst": os.path.basename(str(args[0])), "n": state["n"], "seq": state["seq"], "save": state["save_calls"]}) + "\n")

    sys.addaudithook(audit)
    try:
        res = MPSBackend(seq, config=cfg).run()
    except BaseException:
        # whatever the unwinding turned the injected exception into (a finally-clause may raise on its own), the run is over
        if state.get("raised"):
            os._exit(78)
        raise
    mon.set_events(TOOL, 0)
    for c_ in instrumented:
        mon.set_local_events(TOOL, c_, 0)
    mon.set_local_events(TOOL, gs_code, 0)
    if log is not None:
        import torch as _t

        occ = [[float(x) for x in v] for v in res.occupation]
        log.write(json.dumps({"final": True, "occupation": occ}) + "\n")
        log.close()
    os._exit(0)


if __name__ == "__main__":
    main()
