"""C21 - The simulation time grid covers the sequence and every evaluation time.

(1) TLC: TimeGrid.tla -- mechanism = transcription of _get_target_times (relative grid, union, scale
    back, set, sorted) in exact arithmetic AND under adversarial IEEE rounding (<= MaxRound inexact
    results), requirement = TimeGridReq.tla (StrictlyIncreasing at point level, StartsAt0, EndsAtD,
    ContainsMultiples, ContainsEvalTimes, InsideSequence).  Exact arithmetic: holds.  With rounding the
    construction as written admits near-duplicate points and an end above the duration (TLC counter-
    examples); the "merged" construction (absolute time + merge below the tolerance) holds.
(2) Binding C: the REAL target-time lists (SequenceData.target_times via PulserData.get_sequences, and
    _get_target_times directly) for every TLC scenario scaled to real durations and written in several
    float forms, plus a free stratum (durations 1..10000 ns, dt 0.05 .. > duration, modulation on/off,
    linspace / rational / irrational evaluation sets, own and default times) are projected to point
    numbers and handed to TLC (TimeGridData.tla), which evaluates the requirement on them.
(3) Binding B: solver steps actually taken (hook events sv_evolve / mps_init / mps_step_done) and the
    number of runs per noise trajectory (seq_yield / sv_new / mps_new) -> OneStepPerInterval,
    RunsAsRequested, evaluated by TLC on the recorded data.
"""
from __future__ import annotations

import json
import math
import os
from fractions import Fraction
from typing import Any

from harness.core import Ctx, MachineryError
from harness.pool import pmap
from harness.ref import timegrid as tg
from harness.tlc import parse_counterexample, printed_tuples, run_tlc

WORKERS = int(os.environ.get("VERIF_TLC_WORKERS", "16"))

INVS = ["InvStrictlyIncreasing", "InvStartsAt0", "InvEndsAtD", "InvContainsMultiples", "InvContainsEvalTimes", "InvInsideSequence"]


def cfg_text(scn: str, resid: str, maxround: int, variant: str, log: bool, invs: list[str], drift_inv: bool = False) -> str:
    t = f"""SPECIFICATION Spec
CONSTANTS
  Scenarios <- {scn}
  Resid <- {resid}
  MaxRound = {maxround}
  Variant = "{variant}"
  LogResult = {"TRUE" if log else "FALSE"}
"""
    for i in invs:
        t += f"INVARIANT {i}\n"
    if drift_inv:
        t += "INVARIANT OnlyIntended\n"
    if log:
        t += "INVARIANT Log\n"
    return t


# ------------------------------------------------------------------------------------------------
# real code, executed in pool workers
# ------------------------------------------------------------------------------------------------
_SEQ_CACHE: dict = {}


def _device(mod: bool):
    import dataclasses

    import pulser
    from pulser.channels import Rydberg

    if not mod:
        return pulser.MockDevice
    if "dev" not in _SEQ_CACHE:
        _SEQ_CACHE["dev"] = dataclasses.replace(
            pulser.MockDevice, name="ModMock", channel_ids=("rydberg_global",),
            channel_objects=(Rydberg.Global(None, None, mod_bandwidth=8),),
        )
    return _SEQ_CACHE["dev"]


def _sequence(D: int, mod: bool, natoms: int = 2):
    import pulser

    key = (D, mod, natoms)
    if key not in _SEQ_CACHE:
        if len(_SEQ_CACHE) > 300:
            dev = _SEQ_CACHE.get("dev")
            _SEQ_CACHE.clear()
            if dev is not None:
                _SEQ_CACHE["dev"] = dev
        reg = pulser.Register({f"q{i}": [7.0 * i, 0.0] for i in range(natoms)})
        seq = pulser.Sequence(reg, _device(mod))
        seq.declare_channel("ryd", "rydberg_global")
        seq.add(pulser.Pulse.ConstantPulse(D, 2.0, 0.5, 0.0), "ryd")
        _SEQ_CACHE[key] = seq
    return _SEQ_CACHE[key]


def _observables(spec: dict):
    from pulser.backend import Energy, Occupation

    obs = []
    for j, own in enumerate(spec["obs"]):
        cls = Occupation if j % 2 == 0 else Energy
        obs.append(cls(evaluation_times=own, tag_suffix=f"o{j}"))
    return obs


def requested_union(spec: dict) -> list[float]:
    out: list[float] = []
    for own in spec["obs"]:
        out += list(own) if own is not None else list(spec["default"] if spec["default"] is not None else [1.0])
    return out


def grid_case(spec: dict) -> dict:
    """Real target times for one case.  spec = {id, D, mod, dt, obs: [[...]|None], default: [...]|None, route}"""
    from pulser.backend import EmulationConfig

    from emu_base.pulser_adapter import PulserData, _get_target_times

    out: dict[str, Any] = {"id": spec["id"]}
    try:
        seq = _sequence(spec["D"], spec["mod"])
        kw = {}
        if spec["default"] is not None:
            kw["default_evaluation_times"] = spec["default"]
        cfg = EmulationConfig(observables=_observables(spec), interaction_cutoff=0.0, with_modulation=spec["mod"], **kw)
        out["Deff"] = int(seq.get_duration(include_fall_time=spec["mod"]))
    except Exception as ex:  # pulser rejected the input: not a case
        out["invalid"] = f"{type(ex).__name__}: {ex}"[:200]
        return out
    try:
        out["T_fn"] = [float(t) for t in _get_target_times(seq, cfg, spec["dt"])]
    except Exception as ex:
        out["fn_raises"] = f"{type(ex).__name__}: {ex}"[:200]
    if spec["route"] == "pulserdata":
        try:
            pd = PulserData(sequence=seq, config=cfg, dt=spec["dt"])
            sds = list(pd.get_sequences())
            out["T_sd"] = [float(t) for t in sds[0].target_times]
            out["n_sd"] = len(sds)
            out["rows"] = int(sds[0].omega.shape[0])
        except Exception as ex:
            out["sd_raises"] = f"{type(ex).__name__}: {ex}"[:200]
    return out


def grid_chunk(specs: list[dict]) -> list[dict]:
    return [grid_case(s) for s in specs]


def steps_case(spec: dict) -> dict:
    """Run a backend and record the steps actually taken.  spec as above + backend, natoms, noise?"""
    import pulser
    import torch

    from emu_base import _verif

    import numpy as np

    torch.manual_seed(spec.get("seed", 0))
    np.random.seed(spec.get("seed", 0))
    ev: list = []
    _verif.set_sink(ev)
    out: dict[str, Any] = {"id": spec["id"]}
    try:
        seq = _sequence(spec["D"], spec["mod"], spec.get("natoms", 2))
        kw: dict[str, Any] = {}
        if spec["default"] is not None:
            kw["default_evaluation_times"] = spec["default"]
        if spec.get("noise"):
            kw["noise_model"] = pulser.NoiseModel(**spec["noise"])
            kw["n_trajectories"] = spec.get("ntraj", 1)
        out["Deff"] = int(seq.get_duration(include_fall_time=spec["mod"]))
        if spec["backend"] == "sv":
            from emu_sv import SVBackend, SVConfig

            cfg = SVConfig(dt=spec["dt"], observables=_observables(spec), with_modulation=spec["mod"], log_level=100, **kw)
            be = SVBackend(seq, config=cfg)
        else:
            from emu_mps import MPSBackend, MPSConfig
            from emu_mps.solver import Solver

            if spec["backend"] == "dmrg":
                kw["solver"] = Solver.DMRG
            cfg = MPSConfig(dt=spec["dt"], observables=_observables(spec), with_modulation=spec["mod"], log_level=100,
                            optimize_qubit_ordering=False, **kw)
            be = MPSBackend(seq, config=cfg)
    except Exception as ex:
        out["invalid"] = f"{type(ex).__name__}: {ex}"[:200]
        _verif.set_sink(None)
        return out
    try:
        be.run()
    except Exception as ex:
        out["raises"] = f"{type(ex).__name__}: {ex}"[:200]
    finally:
        _verif.set_sink(None)
    try:   # without hooks: what Pulser requests and how many SequenceData the adapter yields
        from emu_base.pulser_adapter import PulserData

        np.random.seed(spec.get("seed", 0))
        pd = PulserData(sequence=seq, config=cfg, dt=spec["dt"])
        out["requested_reps"] = [int(s.reps) for s in pd.hamiltonian.noisy_samples]
        out["yielded"] = sum(1 for _ in pd.get_sequences())
    except Exception as ex:
        out["direct_raises"] = f"{type(ex).__name__}: {ex}"[:200]
    runs = []
    cur = None
    for e in ev:
        if e["ev"] == "seq_yield":
            cur = {"reps": e["reps"], "bad": e["bad_atoms"], "T": None, "steps": [], "done": False}
            runs.append(cur)
        elif e["ev"] in ("sv_new", "mps_new") and cur is not None:
            cur["T"] = [float(t) for t in e["target_times"]]
        elif e["ev"] == "sv_evolve" and cur is not None:
            cur["steps"].append([float(e["tq"]), float(e["tq"]) + float(e["dt"])])
        elif e["ev"] == "mps_init" and cur is not None:
            cur["open"] = [float(e["cur"]), float(e["tgt"])]
        elif e["ev"] == "mps_step_done" and cur is not None:
            a, b = cur.get("open", [None, None])
            cur["steps"].append([a, float(e["cur"])] if a is not None else [float("nan"), float(e["cur"])])
            if b is not None and abs(b - float(e["cur"])) > 0:
                cur.setdefault("overshoot", []).append([b, float(e["cur"])])
            cur["open"] = None if e["finished"] else [float(e["cur"]), float(e["tgt"])]
        elif e["ev"] in ("sv_ret",) and cur is not None:
            cur["done"] = True
    out["runs"] = runs
    out["n_events"] = len(ev)
    return out


# ------------------------------------------------------------------------------------------------
# scenario generation
# ------------------------------------------------------------------------------------------------
SCALES_ALL = [0.5, 1.0, 3.5, 5.0, 50.0, 416.5]
SCALES_20 = [0.05, 0.15, 0.35, 0.55]   # only for 20-tick durations: non-binary dt (0.05 .. 7.7 ns)


def eval_float(form: str, q: int, dticks: int) -> float:
    import numpy as np

    if form == "div":
        return q / dticks
    if form == "linspace":
        return float(np.linspace(0.0, 1.0, dticks + 1)[q])
    if form == "mulinv":
        return min(1.0, q * (1.0 / dticks))
    if form == "arange":
        return min(1.0, float(np.arange(0.0, 1.0 + 0.5 / dticks, 1.0 / dticks)[q]))
    raise ValueError(form)


def split_obs(ev: list[float], how: int) -> tuple[list, list | None]:
    """Distribute the requested points over observables: own lists / the config default."""
    ev = sorted(ev)
    if not ev:
        return ([[1.0]], None) if how % 2 == 0 else ([None], None)   # nothing but the end (explicit / Pulser default)
    if how % 3 == 0 or len(ev) == 1 and how % 3 == 1:
        return [ev], None
    if how % 3 == 1:
        return [[ev[0]], [ev[1]]], None
    return [None, [ev[0]]], ev[1:] if len(ev) > 1 else [ev[0]]


def s1_specs(ctx: Ctx, scenarios: list[tuple]) -> list[dict]:
    specs = []
    forms = ["div", "linspace", "mulinv", "arange"]
    k = 0
    for (D, dt, ev) in scenarios:
        scales = list(SCALES_ALL) + (SCALES_20 if D == 20 else [])
        if ctx.quick:
            scales = [scales[(k + j) % len(scales)] for j in range(2)] + (SCALES_20[k % 4:k % 4 + 1] if D == 20 else [])
        for s in scales:
            Dr = D * s
            if abs(Dr - round(Dr)) > 1e-9 or round(Dr) < 1:
                continue
            Dr = int(round(Dr))
            fl = forms if not ctx.quick else [forms[(k + 1) % 4]]
            for f in fl:
                evf = [eval_float(f, q, D) for q in sorted(ev)]
                obs, dflt = split_obs(evf, k)
                specs.append({"stratum": "S1", "model": [D, dt, sorted(ev)], "scale": s, "form": f, "D": Dr, "mod": False,
                              "dt": dt * s, "obs": obs, "default": dflt, "route": "pulserdata" if Dr <= 1500 else "fn"})
                k += 1
    return specs


def s2_specs(ctx: Ctx) -> list[dict]:
    import numpy as np

    rng = ctx.rng
    dts = [0.05, 0.1, 0.2, 0.25, 0.3, 0.35, 0.5, 0.6, 0.7, 0.9, 1.0, 1.1, 1.5, 2.5, 3.3, 4.4, 7.0, 10.0, 12.5, 100.0, 1000.0]
    maxpts = ctx.pick(400, 2500)
    if ctx.quick:
        durs = sorted(set(list(range(1, 131)) + [187, 363, 374, 455, 726, 1000, 2048, 4999, 9999, 10000] + [rng.randrange(131, 10001) for _ in range(250)]))
    else:
        durs = list(range(1, 10001))
    specs = []
    lin11 = [float(x) for x in np.linspace(0, 1, 11)]
    for D, dt, obs in [(63, 0.7, [None]), (187, 1.1, [None]), (374, 4.4, [None]), (126, 0.35, [None]), (100, 10.0, [lin11]), (10, 0.1, [[0.3, 0.7]]), (3, 0.1, [None])]:
        specs.append({"stratum": "S2", "kind": "fixed", "D": D, "mod": False, "dt": dt, "obs": obs, "default": None, "route": "pulserdata"})
    for D in durs:
        cand = [d for d in dts if D / d <= maxpts]
        pick = cand if (D <= 130 and not ctx.quick) else rng.sample(cand, min(len(cand), ctx.pick(3, 4)))
        pick = list(pick) + [rng.choice([D + 0.5, 2.0 * D, D / 3, D / 7, float(D)])]
        for dt in pick:
            kind = rng.choice(["none", "none", "linspace", "linspace_dt", "rational", "irrational", "zero", "mixed"])
            mod = rng.random() < 0.25
            if kind == "none":
                obs, dflt = [None], None
            elif kind == "linspace":
                n = rng.choice([2, 4, 5, 10, 20, 100])
                obs, dflt = [[float(x) for x in np.linspace(0, 1, n + 1)]], None
            elif kind == "linspace_dt":
                n = max(1, min(200, int(D // dt)))
                obs, dflt = [None], [float(x) for x in np.linspace(0, 1, n + 1)]
            elif kind == "rational":
                n = rng.choice([3, 7, 9, 10, 12, 30])
                ks = sorted(rng.sample(range(0, n + 1), rng.randint(1, min(4, n))))
                obs, dflt = [[k / n for k in ks]], None
            elif kind == "irrational":
                obs, dflt = [sorted([math.sqrt(0.5), math.pi / 4, 1 / 3, math.e / 10][: rng.randint(1, 4)])], None
            elif kind == "zero":
                obs, dflt = [[0.0]], None
            else:
                n = rng.choice([4, 10])
                obs, dflt = [[float(x) for x in np.linspace(0, 1, n + 1)], None, [0.123456789, 0.5]], [k / 8 for k in range(0, 9, 2)]
            specs.append({"stratum": "S2", "kind": kind, "D": D, "mod": mod, "dt": float(dt), "obs": obs, "default": dflt,
                          "route": "pulserdata" if D <= 1500 and D / dt <= 1500 else "fn"})
    return specs


def s3_specs(ctx: Ctx) -> list[dict]:
    """Long sequences (one ulp of a time near the end exceeds 1e-12 ns above 8192 ns) whose evaluation times coincide
    with multiples of dt mathematically but not bit for bit: dt = D/n, times k/n written in several float forms."""
    import numpy as np

    rng = ctx.rng
    if ctx.quick:
        durs = [8200, 8800, 9600, 10000, 12000, 16000, 20000] + [rng.randrange(8193, 20001) for _ in range(8)]
    else:
        durs = list(range(8200, 20001, 50)) + [rng.randrange(8193, 20001) for _ in range(200)]
    specs = []
    for j, D in enumerate(durs):
        for n in (7, 10, 13, 16) if not ctx.quick else (10, (7, 13, 16)[j % 3]):
            for form in ("div", "linspace", "arange", "mulinv"):
                ev = [eval_float(form, q, n) for q in range(n + 1)]
                how = (j + n) % 3
                obs, dflt = ([ev], None) if how == 0 else ([None], ev) if how == 1 else ([ev[::2], ev[1::2]], None)
                for dt in (D / n, float(D // n) if D % n == 0 else D / (2 * n)):
                    specs.append({"stratum": "S3", "kind": form, "D": D, "mod": False, "dt": float(dt), "obs": obs, "default": dflt,
                                  "route": "pulserdata" if (ctx.quick and D == 16000 and n == 10 and form == "linspace") else "fn"})
    return specs


# ------------------------------------------------------------------------------------------------
def s4_specs(ctx: Ctx) -> list[dict]:
    """Evaluation times clearly apart from (>= 2e-3 ns), but close to, a multiple of a LARGE dt: a merge tolerance that
    grows with dt (instead of with the duration only) swallows them."""
    rng = ctx.rng
    specs = []
    durs = [6000, 8000, 10000] if ctx.quick else [4000, 5000, 6000, 7500, 8000, 9000, 10000]
    for j, D in enumerate(durs):
        for div in (2, 3, 4):
            dt = D / div
            if dt < 2000:
                continue
            for sign in (1, -1):
                k = rng.randrange(1, div) if div > 1 else 0
                delta = sign * rng.choice([2e-3, 1.5e-3 + 0.4e-6 * dt, 0.9e-6 * dt])
                if abs(delta) < 2e-3:
                    delta = sign * 2e-3
                t = (k * dt + delta) / D
                ev = sorted({t, 1.0} | ({k * dt / D} if (j + div) % 2 else set()))
                how = (j + div) % 3
                obs, dflt = ([ev], None) if how == 0 else ([None], ev) if how == 1 else ([[ev[0]], ev[1:] or [1.0]], None)
                specs.append({"stratum": "S4", "kind": "near-multiple", "D": D, "mod": False, "dt": float(dt), "obs": obs, "default": dflt, "route": "fn"})
    return specs


def tlc_data(ctx: Ctx, cases: list[dict], name: str) -> dict[int, set]:
    """Hand recorded cases to TLC (TimeGridData.tla); returns {id: set of failing clauses}."""
    verdicts: dict[int, set] = {}
    chunk = 6000
    for c0 in range(0, len(cases), chunk):
        part = cases[c0:c0 + chunk]
        f = ctx.work / f"{name}_{c0}.json"
        f.write_text(json.dumps(part))
        res = run_tlc("TimeGridData", "TimeGridData.cfg", workdir=ctx.work, name=f"{name}_{c0}", workers=1, env={"TRACE_FILE": str(f)})
        if not res["ok"]:
            raise MachineryError(f"TimeGridData run {name} did not complete, see {res['outfile']}")
        ctx.add_tlc(res)
        for t in printed_tuples(res["out"], "V"):
            verdicts[t[1]] = set(t[2]["__set__"]) if isinstance(t[2], dict) else set(t[2])
        for c in part:
            if c["id"] not in verdicts:
                raise MachineryError(f"no TLC verdict for case {c['id']} in {name}")
    ctx.traces_validated += len(cases)
    return verdicts


CLAUSE_KEY = {
    "StartsAt0": "target-times:not-starting-at-0",
    "ContainsMultiples": "target-times:missing-multiple-of-dt",
    "ContainsEvalTimes": "target-times:missing-evaluation-time",
    "InsideSequence": "target-times:outside-sequence",
    "OneStepPerInterval": "steps:not-one-step-per-interval",
    "RunsAsRequested": "runs:not-as-often-as-requested",
}


def classify(clause: str, T: list[float], Tq: list[int], Deff: int) -> str:
    if clause == "StrictlyIncreasing":
        dup = any(a == b for a, b in zip(Tq, Tq[1:]))
        dec = any(a > b for a, b in zip(Tq, Tq[1:]))
        if dec:
            return "target-times:not-sorted"
        assert dup
        return "target-times:near-duplicate-points"
    if clause == "EndsAtD":
        return "target-times:end-above-duration" if T and T[-1] > Deff else "target-times:not-ending-at-duration"
    return CLAUSE_KEY[clause]


class Reporter:
    """At most CAP replay files per violation key; totals go into the evidence."""
    CAP = 3

    def __init__(self, ctx: Ctx):
        self.ctx = ctx
        self.counts: dict[str, int] = {}

    def violation(self, key: str, what: str, replay: Any) -> None:
        self.counts[key] = self.counts.get(key, 0) + 1
        if self.counts[key] <= self.CAP:
            self.ctx.violation(key, what, replay)


def run(ctx: Ctx) -> None:
    ctx.level = "model_checking"
    rep = Reporter(ctx)
    ctx.assumptions += [
        "floating-point rounding is modelled as an adversarial residue on at most MaxRound results (TimeGrid.tla); the real lists are what decides a violation",
        "points of time are compared at a resolution of 1e-6 ns; generated inputs keep different intended points >= 1e-3 ns apart (cases in the grey zone are skipped and counted)",
        "Pulser's Sequence.get_duration, EmulationConfig / Observable validation, HamiltonianData.noisy_samples (reps) are trusted; hooks seq_yield, sv_new, sv_evolve, mps_new, mps_init, mps_step_done",
        "TLC, Python fractions",
    ]
    procs = int(os.environ.get("VERIF_PROCS", "16"))

    # ---------------------------------------------------------------- (1) model checking
    r_exact = run_tlc("MCTimeGrid", None, workdir=ctx.work, name="code_exact", workers=WORKERS, coverage=True,
                      cfg_text=cfg_text("cScnFull", "cExact", 0, "code", True, INVS, drift_inv=True))
    ctx.add_tlc(r_exact)
    if r_exact["violated"]:
        ctx.notes.append(f"TimeGrid code/exact violates {r_exact['violated']}: the construction is wrong even in exact arithmetic (reproduced on the real lists below if real)")
    zero = [a for a in (r_exact.get("coverage_zero") or []) if a.startswith("Code") or a == "Init"]
    if zero:
        ctx.notes.append(f"code/exact: actions never taken: {zero}")
    scenarios = []
    model_targets = {}
    for t in printed_tuples(r_exact["out"], "G"):
        _, D, dt, ev, plan, targets = t
        evs = tuple(sorted(ev["__set__"]))
        scenarios.append((D, dt, evs))
        model_targets[(D, dt, evs)] = [v[0] for v in targets]
    scenarios = sorted(set(scenarios))
    if len(scenarios) < 500:
        raise MachineryError(f"only {len(scenarios)} scenarios printed by TLC")
    ctx.log(f"TLC code/exact: {r_exact['distinct']} states, {len(scenarios)} scenarios, violated={r_exact['violated']}")

    float_cex = {}
    for inv in ctx.pick(["InvStrictlyIncreasing", "InvEndsAtD"], ["InvStrictlyIncreasing", "InvEndsAtD", "others"]):
        r = run_tlc("MCTimeGrid", None, workdir=ctx.work, name=f"code_float_{inv}", workers=WORKERS,
                    cfg_text=cfg_text(ctx.pick("cScnTiny", "cScnSmall"), "cFloat", 1, "code", False,
                                      [inv] if inv != "others" else ["InvStartsAt0", "InvContainsMultiples", "InvContainsEvalTimes", "InvInsideSequence"]))
        ctx.add_tlc(r)
        if r["violated"]:
            st = parse_counterexample(r["out"])
            last = st[-1]["vars"] if st else {}
            float_cex[r["violated"][0][1]] = {"sc": last.get("sc"), "plan": last.get("plan"), "targets": last.get("targets")}
    ctx.coverage["model_code_under_rounding_violates"] = sorted(float_cex)
    ctx.log(f"TLC code/float(1 rounding): violated {sorted(float_cex)}")
    r_m = run_tlc("MCTimeGrid", None, workdir=ctx.work, name="merged_float", workers=WORKERS, coverage=True,
                  cfg_text=cfg_text(ctx.pick("cScnTiny", "cScnSmall"), "cFloat", ctx.pick(1, 2), "merged", False, INVS))
    ctx.add_tlc(r_m)
    if r_m["violated"]:
        ctx.notes.append(f"merged construction violates {r_m['violated']} in the model")
    ctx.log(f"TLC merged/float: {r_m['distinct']} states, violated={r_m['violated']}")

    # ---------------------------------------------------------------- (2) binding C: real lists
    specs = s1_specs(ctx, scenarios) + s2_specs(ctx) + s3_specs(ctx) + s4_specs(ctx)
    for i, s in enumerate(specs):
        s["id"] = i + 1
    ctx.log(f"{len(specs)} grid cases")
    n = max(1, len(specs) // (procs * 4))
    chunks = [specs[i:i + n] for i in range(0, len(specs), n)]
    results = [r for ch in pmap(grid_chunk, chunks, procs=procs) for r in ch]
    cases = []
    info = {}
    n_grey = n_invalid = 0
    for spec, res in zip(specs, results):
        if "invalid" in res:
            n_invalid += 1
            continue
        Deff = res["Deff"]
        req = requested_union(spec)
        M, E = tg.intended(Deff, spec["dt"], req)
        if not tg.well_separated(set(M) | set(E) | {Fraction(Deff)}):
            n_grey += 1
            continue
        for route in ("T_sd", "T_fn"):
            if route not in res:
                continue
            T = res[route]
            if route == "T_fn" and "T_sd" in res and res["T_sd"] == T:
                continue   # identical list, already a case
            Tq, Mq, Eq, Dq = tg.project([T, M, E, [Deff]])
            cid = len(cases) + 1
            cases.append({"id": cid, "d": Dq[0], "T": Tq, "M": sorted(set(Mq)), "E": sorted(set(Eq)),
                          "hasSteps": False, "steps": [], "hasRuns": False, "reps": [], "runs": []})
            info[cid] = (spec, res, route, T, Tq, Mq, Eq, Dq[0])
        if "sd_raises" in res and "T_fn" in res:
            info[("raise", spec["id"])] = (spec, res)
    verdicts = tlc_data(ctx, cases, "lists")
    n_bad = 0
    drift_extra = 0
    classes_seen: dict[str, int] = {}
    for c in cases:
        spec, res, route, T, Tq, Mq, Eq, Dq = info[c["id"]]
        py = tg.failing(Tq, Dq, Mq, Eq)
        if py != verdicts[c["id"]]:
            raise MachineryError(f"TLC and the Python twin disagree on case {c['id']}: {verdicts[c['id']]} vs {py}")
        coincide = bool(set(Eq) & set(Mq))
        enddiv = len(Mq) >= 2 and Mq[-1] == Dq
        ctx.case(("list", spec["stratum"], spec["D"], spec["mod"], repr(spec["dt"]), json.dumps(spec["obs"]), json.dumps(spec["default"]), route),
                 nontrivial=len(T) > 2, sample={"spec": {k: spec[k] for k in ("D", "dt", "obs", "default", "mod")}, "target_times": T[:12]})
        cls = ("eval-on-grid" if coincide else "eval-off-grid") + ("+dt-divides" if enddiv else "+dt-not-dividing") + ("+mod" if spec["mod"] else "")
        classes_seen[cls] = classes_seen.get(cls, 0) + 1
        for clause in sorted(verdicts[c["id"]]):
            n_bad += 1
            key = classify(clause, T, Tq, res["Deff"])
            rep.violation(key, f"target times of the real code violate {clause} (duration {res['Deff']} ns, dt {spec['dt']!r}, route {route})",
                          {"spec": spec, "duration": res["Deff"], "target_times": T if len(T) < 60 else T[:20] + ["..."] + T[-20:],
                           "how": "emu_base.pulser_adapter._get_target_times(sequence, config, dt) / PulserData(...).get_sequences() -> SequenceData.target_times",
                           "raises_downstream": res.get("sd_raises")})
        if not verdicts[c["id"]] and set(Tq) != set(Mq) | set(Eq) | {Dq}:
            drift_extra += 1
        if not verdicts[c["id"]] and route == "T_sd" and res.get("rows") is not None and res["rows"] != len(T) - 1:
            rep.violation("steps:drive-rows-differ-from-intervals", "SequenceData has a different number of drive rows than intervals", {"spec": spec, "rows": res["rows"], "n": len(T)})
    # SequenceData could not be produced although the list is fine
    undecided: dict[str, int] = {}
    undecided_sample: dict[str, Any] = {}
    for k, v in info.items():
        if isinstance(k, tuple) and k[0] == "raise":
            spec, res = v
            T = res["T_fn"]
            M, E = tg.intended(res["Deff"], spec["dt"], requested_union(spec))
            Tq, Mq, Eq, Dq = tg.project([T, M, E, [res["Deff"]]])
            if not tg.failing(Tq, Dq[0], Mq, Eq):
                # not decided by C21: the list is fine, something else (e.g. drive interpolation of a 1 ns sequence) fails
                undecided[res["sd_raises"]] = undecided.get(res["sd_raises"], 0) + 1
                undecided_sample.setdefault(res["sd_raises"], {k: spec[k] for k in ("D", "dt", "obs", "default", "mod")})
    if undecided:
        ctx.coverage["get_sequences_raises_although_list_is_fine"] = {"counts": undecided, "samples": undecided_sample}
        ctx.notes.append(f"PulserData.get_sequences raises although _get_target_times gives a correct list (not decided by C21): {undecided}")
    if drift_extra:
        ctx.model_drift(f"{drift_extra} real lists satisfy the requirement but contain points that are neither multiples of dt, nor the end, nor requested times")
    # model drift: S1 lists vs the exact model
    n_s1 = n_s1_same = 0
    for c in cases:
        spec, res, route, T, Tq, Mq, Eq, Dq = info[c["id"]]
        if spec["stratum"] != "S1" or verdicts[c["id"]]:
            continue
        D, dt, ev = spec["model"]
        mt = model_targets[(D, dt, tuple(ev))]
        real_ticks = [round(t / spec["scale"]) for t in T]
        n_s1 += 1
        n_s1_same += real_ticks == mt
    ctx.coverage["binding_C"] = {"cases": len(cases), "failing_clauses": n_bad, "grey_zone_skipped": n_grey, "rejected_by_pulser": n_invalid,
                                 "classes": classes_seen, "S1_lists_equal_to_exact_model": [n_s1_same, n_s1]}
    if n_s1 and n_s1_same != n_s1:
        ctx.model_drift(f"{n_s1 - n_s1_same} of {n_s1} requirement-satisfying real lists differ from the exact-arithmetic model list")
    ctx.log(f"binding C: {len(cases)} lists, {n_bad} failing clauses, grey {n_grey}, invalid {n_invalid}")
    for need in ("eval-on-grid+dt-divides", "eval-off-grid+dt-not-dividing", "eval-on-grid+dt-not-dividing"):
        if not classes_seen.get(need):
            ctx.notes.append(f"vacuity: no real case of class {need}")

    # ---------------------------------------------------------------- (3) binding B: steps and runs
    rng = ctx.rng
    good = [info[c["id"]][0] for c in cases if not verdicts[c["id"]] and info[c["id"]][2] == "T_sd" and len(info[c["id"]][3]) <= 80]
    rng.shuffle(good)
    sspecs = []
    for backend, cnt in (("sv", ctx.pick(90, 900)), ("mps", ctx.pick(12, 120)), ("dmrg", ctx.pick(5, 40))):
        pool = [g for g in good if backend == "sv" or len(requested_union(g)) < 40]
        if backend != "sv":
            pool = [g for g in pool if g["D"] / g["dt"] <= 25]
        for g in pool[:cnt]:
            sspecs.append(dict(g, backend=backend))
        good = good[cnt // 2:]
    # noise trajectories: runs per trajectory
    for j in range(ctx.pick(6, 30)):
        sspecs.append({"stratum": "reps", "D": rng.choice([8, 20, 33]), "mod": False, "dt": rng.choice([2.0, 5.0, 10.0]), "obs": [[1.0]], "default": None,
                       "backend": "sv" if j % 3 else "mps", "natoms": 4, "noise": {"state_prep_error": rng.choice([0.1, 0.25])},
                       "ntraj": rng.choice([1, 3, 4, 7]), "seed": j})
    for i, s in enumerate(sspecs):
        s["id"] = i + 1
    sres = pmap(steps_case, sspecs, procs=procs)
    scases = []
    sinfo = {}
    run_raises: dict[str, int] = {}
    for spec, res in zip(sspecs, sres):
        if "invalid" in res:
            ctx.notes.append(f"steps case rejected: {res['invalid']}")
            continue
        if "raises" in res:
            # the grid of this input is fine (checked above); why the run raises is another property's business
            run_raises[res["raises"]] = run_raises.get(res["raises"], 0) + 1
            continue
        if "yielded" in res and res["yielded"] != sum(res["requested_reps"]):
            rep.violation("runs:not-as-often-as-requested:adapter", f"PulserData.get_sequences yields {res['yielded']} SequenceData, Pulser requests {res['requested_reps']} repetitions",
                          {"spec": spec, "requested_reps": res["requested_reps"], "yielded": res["yielded"]})
            continue
        if not res.get("runs"):
            raise MachineryError(f"no seq_yield / *_new events recorded for {spec} (hooks missing?)")
        # group runs into trajectories: consecutive yields with the same reps / bad atoms
        groups = []
        for r in res["runs"]:
            if groups and groups[-1][0] == (r["reps"], r["bad"]) and groups[-1][1] < r["reps"]:
                groups[-1][1] += 1
            else:
                groups.append([(r["reps"], r["bad"]), 1])
        reps = [g[0][0] for g in groups]
        nrun = [g[1] for g in groups]
        total_expected = spec.get("ntraj", 1)
        for ri, r in enumerate(res["runs"]):
            if r["T"] is None:
                raise MachineryError(f"run without sv_new/mps_new event in {spec}")
            M, E = tg.intended(res["Deff"], spec["dt"], requested_union(spec))
            flat = [x for st in r["steps"] for x in st]
            if any(x != x for x in flat):
                raise MachineryError("mps_step_done without mps_init")
            Tq, Mq, Eq, Dq, Sq = tg.project([r["T"], M, E, [res["Deff"]], flat])
            cid = len(scases) + 1
            last = ri == len(res["runs"]) - 1
            scases.append({"id": cid, "d": Dq[0], "T": Tq, "M": sorted(set(Mq)), "E": sorted(set(Eq)), "hasSteps": True,
                           "steps": [[Sq[2 * i], Sq[2 * i + 1]] for i in range(len(Sq) // 2)],
                           "hasRuns": last, "reps": reps + ([total_expected] if last else []), "runs": nrun + ([sum(nrun)] if last else [])})
            sinfo[cid] = (spec, res, r)
    if run_raises:
        ctx.coverage["runs_raising_although_grid_is_fine"] = run_raises
        ctx.notes.append(f"runs that raise although their time grid is fine (not decided by C21): {run_raises}")
    if len(scases) < len(sspecs) // 2:
        raise MachineryError(f"only {len(scases)} of {len(sspecs)} step cases produced a run: {run_raises}")
    sver = tlc_data(ctx, scases, "steps")
    for c in scases:
        spec, res, r = sinfo[c["id"]]
        ctx.case(("steps", spec["backend"], spec["D"], repr(spec["dt"]), json.dumps(spec["obs"]), spec.get("ntraj", 1), c["id"]), nontrivial=len(c["T"]) > 2)
        for clause in sorted(sver[c["id"]]):
            key = classify(clause, r["T"], c["T"], res["Deff"]) if clause in ("StrictlyIncreasing", "EndsAtD") else CLAUSE_KEY[clause]
            rep.violation(f"{key}:{spec['backend']}" if clause in ("OneStepPerInterval", "RunsAsRequested") else key,
                          f"{spec['backend']} run violates {clause}", {"spec": spec, "target_times": r["T"], "steps": r["steps"], "reps": c["reps"], "runs": c["runs"]})
    ctx.coverage["violations_per_key"] = dict(rep.counts)
    ctx.coverage["binding_B"] = {"runs": len(scases), "by_backend": {b: sum(1 for c in scases if sinfo[c["id"]][0]["backend"] == b) for b in ("sv", "mps", "dmrg")},
                                 "multi_trajectory_cases": sum(1 for s in sspecs if s.get("ntraj", 1) > 1)}
    ctx.log(f"binding B: {len(scases)} runs validated")
    ctx.coverage["rule"] = ("one case per real target-time list: (stratum, duration, modulation, dt, observable time lists, default times, route); S1 = every TLC scenario "
                            "(D<=12 units, 8 dt values, <=2 evaluation points of a 7-point pool) x scale x float form; S2 = durations 1..10000 x dt list x evaluation kinds; "
                            "non-trivial = more than one interval; plus one case per backend run for steps / runs per trajectory")
    ctx.coverage["exhaustive"] = False
