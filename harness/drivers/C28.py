"""C28 - noiseless evolution conserves norm, and energy when the drive is constant.

Binding B with ConserveTrace.tla: per-step events carry whether the values the stepper / MPO received are
the same as in the previous step (compared at the point of use), evaluation events carry the norm atom and
whether energy / second moment equal the previous evaluation's within the budget; TLC derives the constant
windows and checks the implication over every pair of consecutive evaluations.  No dense reference: this is
the property that scales (emu-mps chains / ladders up to 20 atoms, emu-sv up to 12-14).
"""
from __future__ import annotations

import numpy as np

from harness.core import Ctx, MachineryError
from harness.pool import pmap
from harness.traces import validate_batch


def worker(job: dict) -> dict:
    import random
    import torch
    from emu_base import _verif
    from harness.gen import seqs
    from harness.svrun import make_observables

    random.seed(job["seed"])
    torch.manual_seed(job["seed"])
    out = {"id": job["id"], "error": None, "stage": "build"}
    ev: list = []
    try:
        seq = seqs.build_sequence(job["seq"])
        n = len(seq.register.qubit_ids)
        ospec = [{"k": "energy", "times": job["times"]}, {"k": "energy_second_moment", "times": job["times"]}]
        if job.get("with_state"):
            ospec.append({"k": "state", "times": job["times"]})
        obs = make_observables(ospec)
        out["stage"] = "run"
        _verif.reset()
        _verif.set_sink(ev)
        try:
            if job["backend"] == "sv":
                from emu_sv import SVBackend, SVConfig
                res = SVBackend(seq, config=SVConfig(dt=job["dt"], krylov_tolerance=job["tol"], observables=obs, log_level=100, gpu=False)).run()
            else:
                from emu_mps import MPSBackend, MPSConfig
                res = MPSBackend(seq, config=MPSConfig(dt=job["dt"], precision=job["precision"], max_bond_dim=job.get("max_bond_dim", 1024),
                                                       observables=obs, log_level=100, optimize_qubit_ordering=job.get("reorder", True))).run()
        finally:
            _verif.set_sink(None)
        out["stage"] = "project"
        # per-step values at the point of use
        rows, mats, norms = [], [], {0: 1.0}
        if job["backend"] == "sv":
            cur_mat = None
            for e in ev:
                if e["ev"] == "sv_step":
                    rows.append((e["omega"], e["delta"], e["phi"], e["dt"] * 0 + 0))
                    mats.append(e["matrix"])
                elif e["ev"] == "sv_evolve":
                    norms[int(e["k"]) + 1] = float(e["norm"])
            T = [x for x in next(e for e in ev if e["ev"] == "sv_new")["target_times"]]
        else:
            cur_mat = None
            pending = None
            for e in ev:
                if e["ev"] == "h_make":
                    cur_mat = e["matrix"]
                elif e["ev"] == "h_update":
                    pending = (e["omega"], e["delta"], e["phi"])
                elif e["ev"] == "mps_update_h" and e["noisy"] and pending is not None:
                    # the (noisy = evolution) Hamiltonian of step e.ts
                    while len(rows) <= e["ts"]:
                        rows.append(None)
                        mats.append(None)
                    rows[e["ts"]] = pending
                    mats[e["ts"]] = cur_mat
                elif e["ev"] == "mps_fill":
                    T = next(x for x in ev if x["ev"] == "mps_new")["target_times"]
                    for i, t in enumerate(T):
                        if abs(t - e["cur"]) < 1e-9:
                            norms[i] = float(e["norm"])
            T = next(x for x in ev if x["ev"] == "mps_new")["target_times"]
        K = len(T) - 1
        if len(rows) < K or any(r is None for r in rows[:K]):
            # the per-step hook events are not all there (a refactoring moved / dropped an update): take the rows and matrices
            # from the adapter's data (only their step-to-step equality and their scale are used here)
            from emu_base import PulserData
            cfg_ = SVConfig(dt=job["dt"], observables=obs, log_level=100, gpu=False) if job["backend"] == "sv" else \
                MPSConfig(dt=job["dt"], observables=obs, log_level=100)
            d_ = next(iter(PulserData(sequence=seq, config=cfg_, dt=job["dt"]).get_sequences()))
            Td = [float(t) for t in d_.target_times]
            rows = [(d_.omega[k].real.tolist(), d_.delta[k].real.tolist(), d_.phi[k].real.tolist()) for k in range(len(Td) - 1)]
            mats = [torch.as_tensor(d_.interaction_matrix(0.5 * (Td[k] + Td[k + 1]))).tolist() for k in range(len(Td) - 1)]
            out["rows_from_adapter"] = True
            if len(rows) < K:
                raise RuntimeError("missing per-step hook events")
        # scale of H: sum of |coefficients|
        def hscale(r, m):
            om, de, _ = (np.abs(np.asarray(x, float)) for x in r[:3])
            U = np.abs(np.asarray(m, float))
            return float(om.sum() / 2 + de.sum() + np.triu(U, 1).sum()) + 1e-12
        hn = max(hscale(rows[k], mats[k]) for k in range(K))
        tindex = {round(t / T[-1], 12): i for i, t in enumerate(T)}
        E = {tindex[round(float(t), 12)]: float(np.real(v)) for t, v in zip(res.get_result_times("energy"), res.energy) if round(float(t), 12) in tindex}
        E2 = {tindex[round(float(t), 12)]: float(np.real(v)) for t, v in zip(res.get_result_times("energy_second_moment"), res.energy_second_moment) if round(float(t), 12) in tindex}
        S = {}
        if job.get("with_state") and "state" in res.get_result_tags():
            for t, v in zip(res.get_result_times("state"), res.state):
                if round(float(t), 12) in tindex:
                    S[tindex[round(float(t), 12)]] = float(v.norm())
        events = []
        prev = None
        worst = 0.0
        worst_norm = 0.0
        for k in range(K + 1):
            if k in E:
                steps_between = (k - prev) if prev is not None else 0
                if job["backend"] == "sv":
                    b_state = 10.0 * job["tol"] * max(steps_between, 1) + 1e-13
                    b_norm = 10.0 * job["tol"] * max(k, 1) + 1e-12
                    extra2 = 0.0
                else:
                    b_state = 5.0 * max(steps_between, 1) * 2 * max(n - 1, 1) * job["precision"] + 1e-9
                    b_norm = max(k, 1) * 2 * max(n - 1, 1) * job["precision"] + 1e-9
                    extra2 = 4e-5 * hn**2
                bE = 2 * hn * b_state + 1e-9 * hn
                bE2 = 2 * hn**2 * b_state + extra2 + 1e-9 * hn**2
                if job.get("heavy_truncation"):
                    bE = bE2 = float("inf")   # a binding bond cap / loose precision voids the conservation budget; only the norm is demanded
                eqE = prev is None or abs(E[k] - E[prev]) <= bE
                eqE2 = prev is None or k not in E2 or prev not in E2 or abs(E2[k] - E2[prev]) <= bE2
                if prev is not None:
                    worst = max(worst, abs(E[k] - E[prev]) / bE)
                nrm = norms.get(k)
                norm_ok = nrm is None or abs(nrm - 1.0) <= b_norm or bool(job.get("heavy_truncation"))
                if k in S:   # the REPORTED state must be normalised (the emulators normalise what they hand to observables)
                    norm_ok = norm_ok and abs(S[k] - 1.0) <= 1e-8
                    worst_norm = max(worst_norm, abs(S[k] - 1.0))
                events.append({"ev": "eval", "k": k, "normOK": bool(norm_ok), "hasE": True, "eqE": bool(eqE), "hasE2": k in E2, "eqE2": bool(eqE2)})
                prev = k
            if k < K:
                same = k > 0 and rows[k][:3] == rows[k - 1][:3] and mats[k] == mats[k - 1]
                events.append({"ev": "step", "k": k, "same": bool(same)})
        out["trace"] = events
        out["margin"] = worst
        out["norm_margin"] = worst_norm
        out["n"], out["K"] = n, K
        out["stage"] = "done"
    except BaseException as e:  # noqa
        import traceback
        out["error"] = f"{type(e).__name__}: {e}"
        out["tb"] = traceback.format_exc()[-1500:]
    return out


def make_jobs(ctx: Ctx, count: int) -> list[dict]:
    from harness.gen import seqs
    rng = ctx.rng
    jobs = []
    for i in range(count):
        backend = "sv" if i % 2 == 0 else "mps"
        if backend == "sv":
            n = rng.choice([2, 3, 5, 8] + ([10] if ctx.quick else [10, 12, 13]))
        else:
            n = rng.choice([2, 3, 5, 8] + ([12] if ctx.quick else [12, 16, 20]))
        layout = rng.choice(["line", "ladder", "zigzag"]) if n > 2 else "line"
        spacing = rng.uniform(7.0, 10.0) if n > 8 else rng.uniform(5.5, 9.0)
        style = ["constant", "two_windows", "constant_local", "three_windows"][i % 4]
        d = rng.choice([40, 60, 100])
        om, de = rng.uniform(1.0, 8.0), rng.uniform(-6.0, 6.0)
        if style in ("constant", "constant_local"):
            amp, det = {"k": "const", "d": d, "v": om}, {"k": "const", "d": d, "v": de}
        elif style == "two_windows":
            amp = {"k": "composite", "parts": [{"k": "const", "d": d // 2, "v": om}, {"k": "const", "d": d - d // 2, "v": rng.uniform(1.0, 8.0)}]}
            det = {"k": "const", "d": d, "v": de}
        else:
            third = d // 3
            amp = {"k": "const", "d": d, "v": om}
            det = {"k": "composite", "parts": [{"k": "const", "d": third, "v": de}, {"k": "const", "d": third, "v": -de}, {"k": "const", "d": d - 2 * third, "v": de + 1.0}]}
        spec = seqs.simple_spec(n, layout, spacing, amp, det, phase=rng.choice([0.0, 0.9]))
        if style == "constant_local":
            ids = [f"q{j}" for j in range(n)]
            w = [rng.uniform(0.1, 1.0) for _ in ids]
            spec["dmm"] = {"weights": {q: x / sum(w) for q, x in zip(ids, w)}}
            spec["ops"].insert(0, {"op": "dmm", "wf": {"k": "const", "d": d, "v": -rng.uniform(1.0, 8.0)}})
        dt = float(rng.choice([2, 5, 10]))
        if n >= 12:
            dt = 10.0
        nst = int(d // dt)
        ks = sorted(set([0, nst] + rng.sample(range(1, nst), min(4, nst - 1))))
        times = [min(1.0, k * dt / d) for k in ks]
        heavy = backend == "mps" and n >= 5 and i % 3 == 1
        jobs.append({"id": i + 1, "backend": backend, "seq": spec, "dt": dt, "times": times, "tol": rng.choice([1e-8, 1e-10, 1e-12]),
                     "precision": (rng.choice([1e-5, 1e-7]) if n <= 8 else 1e-5) if not (heavy and i % 2) else 1e-2,
                     "max_bond_dim": (1024 if n <= 12 else 32) if not heavy else rng.choice([2, 3]), "reorder": i % 3 != 0,
                     "with_state": (i % 4 in (1, 2)), "heavy_truncation": heavy,
                     "seed": ctx.seed * 7919 + i, "strata": {"backend": backend, "n": n, "style": style, "layout": layout, "dt": dt, "heavy_truncation": heavy}})
    return jobs


def run(ctx: Ctx) -> None:
    ctx.level = "exploration"
    ctx.assumptions += [
        "budgets: emu-sv 10*tol per step on the state, times 2||H|| (energy) / 2||H||^2 (second moment); emu-mps 5*steps*2(N-1)*precision on the state, second moment additionally 4e-5*||H||^2 (H@H compressed at the package default precision); ||H|| bounded by the sum of |coefficients|",
        "piecewise-constant Pulser waveforms are interpolated by the emulators, so steps adjacent to a jump of the drive differ from both plateaus; windows are derived by TLC from the values the steppers actually received",
    ]
    n = ctx.pick(48, 400)
    jobs = make_jobs(ctx, n)
    results = pmap(worker, jobs)
    nfb = sum(1 for r in results if r.get("rows_from_adapter"))
    if nfb:
        ctx.model_drift(f"per-step hook events (h_update / mps_update_h with the evolution Hamiltonian) incomplete in {nfb} runs: constant windows taken from the adapter's rows instead")
    traces, meta = [], {}
    worst = 0.0
    for job, r in zip(jobs, results):
        ctx.case(tuple(sorted((k, str(v)) for k, v in job["strata"].items())), nontrivial=True, sample={"strata": job["strata"], "margin": r.get("margin")})
        if r["error"]:
            if r["stage"] == "build":
                ctx.notes.append(f"scenario {job['id']} not built: {r['error'][:100]}")
                continue
            if r["stage"] == "run":
                ctx.violation(f"conserve:run-raised:{r['error'].split(':')[0]}", f"real run raised: {r['error'][:300]}", job)
                continue
            raise MachineryError(f"worker failed ({r['stage']}): {r['error']}\n{r.get('tb')}")
        worst = max(worst, r["margin"])
        tr = {"id": len(traces) + 1, "events": r["trace"]}
        traces.append(tr)
        meta[tr["id"]] = (job, r)
    verdicts = validate_batch(ctx, "ConserveTrace", traces, "conserve")
    nwin = 0
    for tr in traces:
        v = verdicts[tr["id"]]
        job, r = meta[tr["id"]]
        if v[0] == "REJECT":
            ctx.violation(f"conserve:{job['backend']}:{v[2]}", f"{job['backend']} run {job['strata']}: {v[2]} at event {v[1]}", {"job": job, "events": tr["events"]})
    import re
    ctx.coverage["worst_energy_margin"] = round(worst, 4)
    ctx.coverage["rule"] = "one case per scenario (backend, atoms, drive style, layout, dt); every pair of consecutive evaluation times inside a constant window is an energy-conservation obligation"
