"""Real multi-trajectory runs for C34 (pool-safe).  The per-run Results are captured by a harness-level
wrapper around Backend._run_from_sequence_data (installed in the worker process; /repo untouched);
hook events seq_yield / aggregate are collected in-process."""
from __future__ import annotations

import logging
from collections import Counter
from typing import Any

import numpy as np


def noise_model(kind: str):
    from pulser import NoiseModel

    kw: dict = {}
    if "spam" in kind:
        kw.update(state_prep_error=0.08, p_false_pos=0.03, p_false_neg=0.05)
    if "amplitude" in kind:
        kw["amp_sigma"] = 0.1
    if "detuning" in kind:
        kw["detuning_sigma"] = 0.5
    if "register" in kind:
        kw.update(temperature=50.0, trap_waist=1.0, trap_depth=150.0, disable_doppler=True)
    if "relaxation" in kind:
        kw["relaxation_rate"] = 1.5
    if "dephasing" in kind:
        kw["dephasing_rate"] = 1.0
    return NoiseModel(**kw) if kw else None


def _plain(v: Any) -> Any:
    if isinstance(v, Counter):
        return {"__counter__": dict(v)}
    if hasattr(v, "detach"):
        v = v.detach().cpu().resolve_conj().numpy()
    if isinstance(v, np.ndarray):
        return np.real_if_close(v).astype(float).tolist() if not np.iscomplexobj(np.real_if_close(v)) else [[float(x.real), float(x.imag)] for x in v.reshape(-1)]
    if isinstance(v, (int, float, np.floating, np.integer)):
        return float(v)
    if isinstance(v, complex):
        return [v.real, v.imag]
    if isinstance(v, dict):
        return {str(k): _plain(x) for k, x in v.items()}
    return repr(v)


def project(res) -> dict:
    """tag -> {time: value} for every stored result."""
    out = {"atom_order": [str(q) for q in res.atom_order], "tags": {}}
    for tag in res.get_result_tags():
        times = res.get_result_times(tag)
        out["tags"][tag] = [[float(t), _plain(res.get_result(tag, t))] for t in times]
    try:
        out["methods"] = {tag: res._aggregation_methods[res._tagmap[tag]].name for tag in res._tagmap}
    except Exception:
        out["methods"] = {}
    return out


def run_scenario(sc: dict) -> dict:
    """sc: {backend, noise, n, natoms, shots, seed}"""
    import contextlib
    import io
    import random
    import warnings

    warnings.filterwarnings("ignore")
    logging.getLogger("emulators").setLevel(logging.CRITICAL)
    import torch
    from pulser.backend import BitStrings, CorrelationMatrix, Energy, Occupation

    from emu_base import _verif
    from harness.gen import seqs

    out: dict = {"sc": sc}
    np.random.seed(sc["seed"])
    torch.manual_seed(sc["seed"])
    random.seed(sc["seed"])
    amp = {"k": "const", "d": 40, "v": 25.0}
    det = {"k": "const", "d": 40, "v": 3.0}
    seq = seqs.build_sequence(seqs.simple_spec(sc["natoms"], "line", 7.0, amp, det))
    nm = noise_model(sc["noise"])
    obs = [BitStrings(evaluation_times=[1.0], num_shots=sc["shots"]), Occupation(evaluation_times=[0.5, 1.0]),
           CorrelationMatrix(evaluation_times=[1.0]), Energy(evaluation_times=[1.0])]
    kw: dict = dict(dt=20.0, observables=obs, log_level=logging.CRITICAL, n_trajectories=sc["n"])
    if nm is not None:
        kw["noise_model"] = nm
    if sc["backend"] == "sv":
        from emu_sv import SVBackend as B
        from emu_sv import SVConfig

        cfg = SVConfig(gpu=False, **kw)
    else:
        from emu_mps import MPSBackend as B
        from emu_mps import MPSConfig

        cfg = MPSConfig(num_gpus_to_use=0, **kw)
    captured: list = []
    orig = B.__dict__["_run_from_sequence_data"]
    orig_fn = orig.__func__ if isinstance(orig, staticmethod) else orig

    def wrapper(sd, c):
        r = orig_fn(sd, c)
        captured.append(project(r))
        ev.append({"ev": "verif_run_captured"})
        return r

    ev: list = []
    _verif.set_sink(ev)
    B._run_from_sequence_data = staticmethod(wrapper)
    try:
        with contextlib.redirect_stdout(io.StringIO()):
            res = B(seq, config=cfg).run()
        out["aggregated"] = project(res)
    except BaseException as ex:  # noqa: BLE001
        if isinstance(ex, (KeyboardInterrupt, SystemExit)):
            raise
        out["raised"] = f"{type(ex).__name__}: {str(ex)[:200]}"
    finally:
        B._run_from_sequence_data = orig
        _verif.set_sink(None)
    out["per_run"] = captured
    out["events"] = [{k: v for k, v in e.items() if k in ("ev", "reps", "bad_atoms", "n", "backend")} for e in ev
                     if e["ev"] in ("seq_yield", "aggregate", "verif_run_captured")]
    return out
