"""C04 - backends reject what they cannot emulate instead of returning wrong results.

(1) TLC: EmuPipeline.tla, Part D.  Mechanism = the checks of the code in the code's order (Pulser's
    noise support table, the adapter's operator checks, channel sampling, SVBackendImpl.__init__/first
    step, create_impl / DMRGBackendImpl / MPSBackendImpl.__init__ / init); requirement =
    AcceptedMeansImplemented over the full table backend x basis x Lindblad class x stochastic class x
    solver x initial state x atom-count class (2688 rows).
(2) Binding A: every row (quick: all rows with <= 2 non-default factors plus the rows the model flags,
    thorough: all rows) becomes a real 1-2 atom, 48 ns sequence run on the real backend.  The
    REQUIREMENT is evaluated on the real outcome: an exception (any class), or Results whose final
    occupation equals the dense reference for the Hamiltonian Pulser defines for that basis (time
    evolution, or the ground state of the last step for the DMRG solver).  The real decision (raise /
    implementation class) is compared with the model's (mechanism identification; mismatch = drift).
"""
from __future__ import annotations

import json

import numpy as np

from harness.core import Ctx, MachineryError
from harness.drivers._pipeline_rows import TOL, run_row
from harness.pool import pmap
from harness.tlc import printed_tuples, run_tlc

DEFAULT = {"basis": "gr", "lind": "none", "stoch": "none", "init": False, "n": 2}
ALGO_IMPL = {"unitary": "EvolveStateVector", "lindblad": "EvolveDensityMatrix", "tdvp": "MPSBackendImpl",
             "jumps": "NoisyMPSBackendImpl", "dmrg": "DMRGBackendImpl"}
VARIANTS = [(False, False), (True, True), (True, False), (False, True)]


def cfg_text(sv_check: bool, dmrg_first: bool, log: bool) -> str:
    b = lambda x: "TRUE" if x else "FALSE"
    t = f"""SPECIFICATION Spec
CONSTANTS
  Part = "D"
  SVBasisCheck = {b(sv_check)}
  DMRGFirst = {b(dmrg_first)}
  MaxTraj = 1
  MaxReps = 1
  Vals <- cVals2
  Shots = 1
  LoopKind = "reps"
  Versions <- cNoVersions
INVARIANT RejectBeforeResult
"""
    t += "ACTION_CONSTRAINT LogRow\n" if log else "INVARIANT AcceptedMeansImplemented\n"
    return t


def nondefault(r: dict) -> int:
    return sum(r[k] != v for k, v in DEFAULT.items()) + (r["solver"] == "dmrg")


def rowkey(r: dict) -> str:
    return json.dumps([r[k] for k in ("backend", "basis", "lind", "stoch", "solver", "init", "n")])


def judge(res: dict) -> dict:
    """Requirement on the real outcome."""
    row = res["row"]
    if res["outcome"] == "raise":
        return {"ok": True, "what": "raised"}
    if "ref_error" in res:
        raise MachineryError(f"reference failed for {row}: {res['ref_error']}")
    ref = res["ref"]
    if ref["kind"] is None:
        return {"ok": False, "key": f"{row['backend']}:{row['basis']}:results-for-unsupported-basis",
                "what": f"results returned for a sequence in the {row['basis']} basis, which the backend does not implement"}
    if res.get("occ") is None:
        return {"ok": False, "key": f"{row['backend']}:{row['basis']}:results-without-observable", "what": f"Results lack the requested occupation: {res.get('occ_error')}"}
    tol = TOL[row["backend"]]
    want = ("ground_" if row["solver"] == "dmrg" else "evolve_") + ref["kind"]
    occ = np.asarray(res["occ"], dtype=float)
    errs = {k: float(np.abs(occ - np.asarray(v)).max()) for k, v in ref.items() if k.startswith(("evolve_", "ground_")) and len(v) == len(occ)}
    if len(occ) != row["n"]:
        return {"ok": False, "key": f"{row['backend']}:{row['basis']}:wrong-atom-count", "what": "occupation has the wrong length", "errs": errs}
    if errs[want] <= tol:
        return {"ok": True, "what": "results", "err": errs[want], "tol": tol, "discriminates": {k: v > 10 * tol for k, v in errs.items() if k != want}}
    best = min(errs, key=errs.get)
    match = best if errs[best] <= tol else "nothing"
    return {"ok": False, "key": f"{row['backend']}:{row['basis']}:{row['solver']}:results-match-{match}-instead-of-{want}",
            "what": f"{row['backend']} returned results for a {row['basis']} sequence (solver {row['solver']}, implementation {res.get('impl')}) whose occupation "
                    f"differs from Pulser's Hamiltonian for that request by {errs[want]:.3g} (tolerance {tol:g}); they match {match}",
            "errs": errs}


def model_decision(o: dict) -> tuple:
    if o["kind"] == "reject":
        return ("raise", None)
    return ("results", ALGO_IMPL[o["algo"]])


def real_decision(res: dict) -> tuple:
    if res["outcome"] == "raise":
        return ("raise", None)
    return ("results", res.get("impl"))


def run(ctx: Ctx) -> None:
    ctx.level = "model_checking"
    ctx.assumptions += [
        "the Hamiltonian Pulser defines: ground-rydberg -> Rydberg (C6 n_i n_j), XY -> exchange with the C3 coefficients only (pulser-core 1.9.1 also stacks a C6 slice for XY whose operator form lives in pulser-simulation, not installed: it is NOT part of the reference, emu-mps ignores it too); digital / mixed bases: no emulator implements them, any Results is a violation",
        "noise types are instantiated with negligible magnitudes (rates 1e-7/us, sigmas 1e-7, preparation error 1e-9) so that the noiseless evolution (or ground state) is the reference within the tolerance; the property is about WHICH Hamiltonian / algorithm is run, not about noise magnitudes",
        "DMRG rows: the reference is the ground state of the last step's Hamiltonian; with one atom the XY and Rydberg Hamiltonians coincide (stated in the spec as SameDynamics)",
        "row scenarios: 1 or 2 atoms 6 um apart, constant 12 rad/us resonant pulse of 48 ns, dt = 12 ns; tolerance 2e-5 (emu-sv) / 4e-3 (emu-mps) on the final occupation",
        "TLC, numpy / scipy dense reference, Pulser's sampler",
    ]
    # ---- (1) TLC
    tables: dict = {}

    def table(sv_check: bool, dmrg_first: bool) -> dict:
        k = (sv_check, dmrg_first)
        if k not in tables:
            log = run_tlc("MCEmuPipeline", None, workdir=ctx.work, name=f"log_{int(sv_check)}{int(dmrg_first)}", cfg_text=cfg_text(sv_check, dmrg_first, True), workers=4, coverage=True)
            ctx.add_tlc(log)
            rows = printed_tuples(log["out"], "ROW")
            if len(rows) != 2688:
                raise MachineryError(f"expected 2688 rows from TLC, got {len(rows)}")
            zero = [a for a in (log.get("coverage_zero") or []) if a in ("PulserCheck", "AdapterOps", "Sampling", "SVInit", "SVRun", "MPSCreate", "MPSNew", "MPSInit")]
            if zero:
                raise MachineryError(f"spec actions never taken: {zero}")
            tables[k] = {rowkey(r[1]): (r[1], r[2], r[3]) for r in rows}
        return tables[k]

    t0 = table(False, False)
    mc = run_tlc("MCEmuPipeline", None, workdir=ctx.work, name="mc_asfound", cfg_text=cfg_text(False, False, False), workers=4)
    ctx.add_tlc(mc)
    bad0 = [k for k, v in t0.items() if v[2] is False]
    if bool(bad0) != bool(mc["violated"]):
        raise MachineryError("TLC invariant result inconsistent with logged verdicts")
    ctx.log(f"TLC, mechanism as found: {len(t0)} rows, AcceptedMeansImplemented fails on {len(bad0)} rows; violated: {[v[1] for v in mc['violated']]}")
    mc2 = run_tlc("MCEmuPipeline", None, workdir=ctx.work, name="mc_intended", cfg_text=cfg_text(True, True, False), workers=4)
    ctx.add_tlc(mc2)
    if mc2["violated"]:
        raise MachineryError("intended mechanism (SV basis check, DMRG gate first) violates the requirement in the model: specification inconsistent")
    ctx.coverage["model_verdicts"] = {"as_found": {"rows": len(t0), "requirement_fails": len(bad0), "violated": [v[1] for v in mc["violated"]]}, "intended": {"violated": []}}

    # ---- (2) binding A
    allrows = [v[0] for v in t0.values()]
    if ctx.quick:
        sel = [r for r in allrows if nondefault(r) <= 2 or (t0[rowkey(r)][2] is False and nondefault(r) <= 3)]
    else:
        sel = allrows
    sel.sort(key=rowkey)
    ctx.log(f"running {len(sel)} rows on the real backends")
    results = pmap(run_row, sel, chunksize=4)
    real = {rowkey(r["row"]): r for r in results}
    verdicts = {}
    nviol = 0
    worst = 0.0
    stats = {"raise": 0, "results": 0}
    for k, res in real.items():
        if res.get("harness_error"):
            raise MachineryError(f"scenario construction failed for {res['row']}: {res['harness_error']}")
        v = judge(res)
        verdicts[k] = v
        stats[res["outcome"]] += 1
        if v["ok"] and v["what"] == "results":
            worst = max(worst, v["err"] / v["tol"])
            if res["row"]["n"] >= 2 and not all(v["discriminates"].values()):
                same = [x for x, d in v["discriminates"].items() if not d]
                # references that coincide with the expected one cannot be told apart on this scenario
                ctx.coverage.setdefault("indistinguishable_references", {})[k] = same
        if not v["ok"]:
            nviol += 1
            ctx.violation(v["key"], v["what"], {"row": res["row"], "outcome": {x: res.get(x) for x in ("outcome", "impl", "occ", "ref")}, "errors_vs_references": v.get("errs"),
                                               "how": "harness.drivers._pipeline_rows.run_row(row)"})
        ctx.case(("row", k), nontrivial=True,
                 sample={"row": res["row"], "outcome": res["outcome"], "exc": res.get("exc"), "impl": res.get("impl"), "requirement_holds": v["ok"]} if res["row"]["basis"] != "gr" or res["outcome"] == "results" else None)
        ctx.traces_validated += 1
    ctx.coverage["worst_margin_err_over_tol"] = round(worst, 4)
    ctx.coverage["real_outcomes"] = stats
    ctx.log(f"real outcomes: {stats}; requirement fails on {nviol} rows; worst err/tol among accepted-correct rows {worst:.3g}")

    # mechanism identification / drift
    matched = None
    diffs = {}
    for var in VARIANTS:
        t = table(*var)
        d = [(real[k]["row"], model_decision(t[k][1]), real_decision(real[k]), real[k].get("exc")) for k in real if model_decision(t[k][1]) != real_decision(real[k])]
        # requirement verdicts must agree as well wherever the decisions agree
        dv = [(real[k]["row"], t[k][2], verdicts[k]["ok"]) for k in real if model_decision(t[k][1]) == real_decision(real[k]) and t[k][2] != verdicts[k]["ok"]]
        diffs[var] = (d, dv)
        if not d and not dv:
            matched = var
            break
    ctx.coverage["mechanism_identified"] = None if matched is None else {"SVBasisCheck": matched[0], "DMRGFirst": matched[1]}
    if matched is None:
        d, dv = diffs[VARIANTS[0]]
        if d:
            ctx.model_drift(f"real dispatch differs from EmuPipeline.tla (as found) on {len(d)} rows, e.g. row={d[0][0]} model={d[0][1]} real={d[0][2]} ({d[0][3]})")
        if dv and not d:
            raise MachineryError(f"model and real code take the same decision but the verdicts differ (oracle too weak or model requirement wrong): {dv[:3]}")
        if dv:
            ctx.notes.append(f"verdict differences next to dispatch drift: {dv[:3]}")
    else:
        ctx.log(f"mechanism identified: SVBasisCheck={matched[0]} DMRGFirst={matched[1]} (decision and verdict equal on all {len(real)} rows run)")
        if matched != (False, False):
            ctx.notes.append(f"the code no longer follows the as-found dispatch; it matches SVBasisCheck={matched[0]}, DMRGFirst={matched[1]}")
    ctx.coverage["rows_run"] = len(sel)
    ctx.coverage["rule"] = ("one case per table row (backend, basis, Lindblad class, stochastic class, solver, initial state, atom-count class) instantiated as a real run; "
                            "quick: rows with <= 2 non-default factors + model-flagged rows with <= 3; thorough: all 2688 rows; every row is non-trivial (distinct input class)")
    ctx.coverage["exhaustive"] = not ctx.quick
    ctx.coverage["distinct_violation_keys"] = sorted(set(ctx.violation_keys))
