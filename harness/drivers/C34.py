"""C34 - multi-trajectory results aggregate all simulated trajectories.

(1) TLC: EmuPipeline.tla, Part R.  Mechanism = PulserData.get_sequences (for each trajectory: for _ in
    range(reps): yield) + Backend.run (one simulation per yielded SequenceData, Results.aggregate);
    environment = Pulser's trajectory generator (any split of n_trajectories into repetition counts);
    requirement AllTrajectoriesAggregated (+ termination).  The seeded loop `range(reps - 1)` must be
    rejected by TLC (non-vacuity).
(2) Binding B: real runs of both backends with n_trajectories 1..8 (thorough: up to 50), shot-to-shot
    noise (SPAM, amplitude, detuning, register) and trajectory-invariant noise (Lindblad only, SPAM only,
    none).  Hook events seq_yield / aggregate and the per-run Results (captured by a harness wrapper
    around Backend._run_from_sequence_data) form a trace; numeric atoms (aggregated mean == average of
    the per-run values, aggregated counter == sum of per-run counters) are recomputed independently by
    the harness; EmuPipelineTrace.tla validates every trace.
"""
from __future__ import annotations

import itertools
from collections import Counter

import numpy as np

from harness.core import Ctx, MachineryError
from harness.drivers._traj_runs import run_scenario
from harness.pool import pmap
from harness.tlc import run_tlc
from harness.traces import validate_batch

SKIP_METHODS = {"SKIP", "SKIP_WARN"}


def cfg_text(loop: str, maxtraj: int, maxreps: int, live: bool) -> str:
    t = f"""SPECIFICATION {"FairSpec" if live else "Spec"}
CONSTANTS
  Part = "R"
  SVBasisCheck = FALSE
  DMRGFirst = FALSE
  MaxTraj = {maxtraj}
  MaxReps = {maxreps}
  Vals <- cVals2
  Shots = 2
  LoopKind = "{loop}"
  Versions <- cNoVersions
INVARIANT AllTrajectoriesAggregated
INVARIANT RunsNeverExceed
"""
    if live:
        t += "PROPERTY Terminates\n"
    return t


def arr(v):
    if isinstance(v, dict) and "__counter__" in v:
        return Counter({k: int(x) for k, x in v["__counter__"].items()})
    return np.asarray(v, dtype=float)


def to_trace(i: int, r: dict) -> tuple[dict, dict]:
    """Project one real run onto the event alphabet of EmuPipelineTrace; numeric atoms computed here."""
    sc = r["sc"]
    evs = [{"ev": "start", "n": sc["n"], "shots": sc["shots"]}]
    prev = None
    done = 0
    for e in r["events"]:
        if e["ev"] == "seq_yield":
            sig = (e["reps"], tuple(e["bad_atoms"]))
            first = prev != sig or done >= e["reps"]
            done = 1 if first else done + 1
            prev = sig
            evs.append({"ev": "yield", "reps": int(e["reps"]), "first": bool(first)})
        elif e["ev"] == "verif_run_captured":
            evs.append({"ev": "run"})
        elif e["ev"] == "aggregate":
            evs.append({"ev": "aggregate", "k": int(e["n"])})
    info: dict = {}
    if "aggregated" in r:
        agg = r["aggregated"]
        per = r["per_run"]
        n = len(per)
        counts = 0
        mean_ok = bag_ok = tags_ok = skip_absent = order_ok = True
        worst = 0.0
        if per:
            order_ok = all(p["atom_order"] == agg["atom_order"] for p in per)
            methods = per[0]["methods"]
            common = set(per[0]["tags"])
            for p in per[1:]:
                common &= set(p["tags"])
            expect_tags = {t for t in common if methods.get(t) not in SKIP_METHODS} if n > 1 else set(per[0]["tags"])
            tags_ok = set(agg["tags"]) == expect_tags
            if n > 1:
                skip_absent = not any(methods.get(t) in SKIP_METHODS for t in agg["tags"])
            for tag in agg["tags"]:
                if tag not in common or methods.get(tag) not in ("MEAN", "BAG_UNION"):
                    continue
                for k, (t, v) in enumerate(agg["tags"][tag]):
                    vals = [arr(p["tags"][tag][k][1]) for p in per if len(p["tags"][tag]) > k and p["tags"][tag][k][0] == t]
                    if len(vals) != n:
                        tags_ok = False
                        continue
                    a = arr(v)
                    if isinstance(a, Counter):
                        tot = Counter()
                        for c in vals:
                            tot.update(c)
                        counts += sum(a.values())
                        if a != tot:
                            bag_ok = False
                    elif methods.get(tag) == "MEAN":
                        m = np.mean(np.stack(vals), axis=0)
                        d = float(np.max(np.abs(a - m))) if a.shape == m.shape else float("inf")
                        scale = max(1.0, float(np.max(np.abs(m))))
                        worst = max(worst, d / scale)
                        if not d <= 1e-10 * scale:
                            mean_ok = False
        evs.append({"ev": "returned", "counts": int(counts), "meanOK": bool(mean_ok), "bagOK": bool(bag_ok), "skipAbsent": bool(skip_absent),
                    "orderOK": bool(order_ok), "tagsOK": bool(tags_ok)})
        info = {"worst_mean_dev": worst, "runs": n, "distinct_runs": len({str(p["tags"].get("occupation")) + str(p["tags"].get("bitstrings")) for p in per})}
    return {"id": i, "events": evs}, info


def run(ctx: Ctx) -> None:
    ctx.level = "model_checking"
    ctx.assumptions += [
        "Pulser's trajectory generator (HamiltonianData.noisy_samples) returns repetition counts that add up to n_trajectories (environment of the model; checked on every real trace: 'repetitions-do-not-add-up')",
        "per-run Results are observed through a harness-level wrapper around Backend._run_from_sequence_data in the worker process (no change to /repo); a run path that bypassed that method would show up as 'run-without-yield' / 'simulations-run-differ'",
        "mean-aggregated = observables whose pulser aggregation method is MEAN (occupation, correlation_matrix, energy here); tolerance 1e-10 relative; shots per run = num_shots of the BitStrings observable",
        "trajectory blocks are recognised from (reps, bad_atoms) of consecutive seq_yield events",
        "TLC; numpy",
    ]
    # ---- (1) model
    mt, mr = ctx.pick((3, 3), (4, 4))
    mc = run_tlc("MCEmuPipeline", None, workdir=ctx.work, name="mc_R", cfg_text=cfg_text("reps", mt, mr, True), workers=4, coverage=True)
    ctx.add_tlc(mc)
    if mc["violated"]:
        raise MachineryError(f"run-loop model violates its requirement: {mc['violated']}")
    zero = [a for a in (mc.get("coverage_zero") or []) if a in ("NextTrajectory", "RunOne", "Aggregate")]
    if zero:
        raise MachineryError(f"spec actions never taken: {zero}")
    st = run_tlc("MCEmuPipeline", None, workdir=ctx.work, name="mc_R_seeded", cfg_text=cfg_text("reps-1", 2, 2, False), workers=4)
    if not st["violated"]:
        raise MachineryError("seeded loop defect range(reps-1) not detected by AllTrajectoriesAggregated (vacuous requirement)")
    sb = run_tlc("MCEmuPipeline", None, workdir=ctx.work, name="mc_R_batched", cfg_text=cfg_text("reps+batched2", 3, 1, False), workers=4)
    if not sb["violated"]:
        raise MachineryError("mechanism variant 'mean of batch means' not rejected by AllTrajectoriesAggregated (vacuous requirement)")
    ctx.log(f"TLC Part R: {mc['distinct']} states, requirement + termination hold; seeded loop defect rejected ({st['violated'][0][1]}); "
            f"batched aggregation rejected ({sb['violated'][0][1]})")

    # ---- (2) real runs
    ns_q = [1, 2, 3, 5, 8]
    scen = []
    sid = 0

    def add(backend, noise, n, natoms, shots):
        nonlocal sid
        sid += 1
        scen.append({"backend": backend, "noise": noise, "n": n, "natoms": natoms, "shots": shots, "seed": ctx.seed * 1000 + sid})

    sv_noises = ["none", "spam", "amplitude", "detuning", "register", "relaxation", "spam+dephasing", "spam+amplitude+detuning"]
    mps_noises = ["none", "spam", "amplitude", "relaxation", "spam+amplitude", "detuning+dephasing"]
    if ctx.quick:
        for noise, n in itertools.product(sv_noises, ns_q):
            add("sv", noise, n, 3, 20)
        for noise, n in itertools.product(mps_noises, [1, 3]):
            add("mps", noise, n, 3, 10)
        # the upper part of the statement's range (n_trajectories up to 50; counts that are not round numbers), on small registers
        add("mps", "amplitude", 40, 2, 5)
        add("mps", "spam", 33, 2, 5)
        add("sv", "amplitude", 50, 2, 7)
        add("sv", "spam", 37, 3, 7)
    else:
        for noise, n in itertools.product(sv_noises, [1, 2, 3, 5, 8, 13, 21, 34, 50]):
            add("sv", noise, n, 3, 20)
            add("sv", noise, n, 2, 7)
        for noise, n in itertools.product(mps_noises, [1, 2, 3, 5, 8, 16]):
            add("mps", noise, n, 3, 10)
        for noise in ("spam", "relaxation", "amplitude"):
            add("mps", noise, 50, 2, 5)
    scen.sort(key=lambda s: -(s["n"] * (12 if s["backend"] == "mps" else 1)))
    ctx.log(f"running {len(scen)} multi-trajectory scenarios on the real backends")
    results = pmap(run_scenario, scen)
    traces, infos, metas = [], {}, {}
    for i, r in enumerate(results, start=1):
        sc = r["sc"]
        if "raised" in r:
            # a run that raises returns no results at all: nothing to aggregate (other properties own the reason)
            ctx.notes.append(f"scenario {sc} raised {r['raised']}")
            ctx.case(("raised", sc["backend"], sc["noise"], sc["n"]), nontrivial=False)
            continue
        tr, info = to_trace(i, r)
        traces.append(tr)
        infos[i] = info
        metas[i] = r
    if not traces:
        raise MachineryError("no multi-trajectory run completed")
    if not any(e["ev"] == "yield" for t in traces for e in t["events"]):
        raise MachineryError("no seq_yield hook events recorded (hook missing)")
    verdicts = validate_batch(ctx, "EmuPipelineTrace", traces, "traj")
    worst = 0.0
    for tr in traces:
        i = tr["id"]
        sc = metas[i]["sc"]
        v = verdicts[i]
        worst = max(worst, infos[i].get("worst_mean_dev", 0.0))
        ctx.case(("traj", sc["backend"], sc["noise"], sc["n"], sc["natoms"]), nontrivial=sc["n"] > 1 and infos[i].get("distinct_runs", 1) >= 1,
                 sample={"scenario": sc, "events": tr["events"][:7] + tr["events"][-2:], "distinct_per_run_results": infos[i].get("distinct_runs")} if sc["n"] in (3, 4) else None)
        if v[0] == "REJECT":
            ctx.violation(f"{sc['backend']}:{v[2]}", f"{sc['backend']} run with n_trajectories={sc['n']} ({sc['noise']} noise): trace rejected at event {v[1]}: {v[2]}",
                          {"scenario": sc, "trace": tr, "how": "harness.drivers._traj_runs.run_scenario(scenario)"})
    ctx.coverage["worst_mean_deviation_rel"] = worst
    ctx.coverage["scenarios"] = len(scen)
    ctx.coverage["rule"] = ("one case per real run (backend, noise kind, n_trajectories, atoms); non-trivial when n_trajectories > 1; "
                            "model: every split of n_trajectories into repetition counts with <= MaxTraj trajectories x <= MaxReps repetitions and per-run values in {0,1}")
    ctx.coverage["exhaustive"] = False
    ctx.coverage["distinct_violation_keys"] = sorted(set(ctx.violation_keys))
