"""Shared machinery of the C07 / C08 drivers (Krylov exponential / Lanczos ground-state search).

Real-code side: every function here that touches emu_base runs the REAL kernels with a recording
`op` (dense matrix from harness.ref.krylov_ref applied to whatever tensor shape the kernel passes),
logs the observed control path as a KrylovTrace event list and fills the numeric atoms with the
independent reference.  Nothing of the kernels is re-implemented here.
"""
from __future__ import annotations

import math
import os
import warnings
from typing import Any

import numpy as np

from harness.core import Ctx, MachineryError
from harness.ref import krylov_ref as kr
from harness.tlc import printed_tuples, run_tlc
from harness.traces import validate_batch

TLC_WORKERS = int(os.environ.get("VERIF_TLC_WORKERS", "2"))
MAXDIM_BOUND = 6
MAXR_BOUND = 3
ALL_ATOMS = {"accurate": True, "unit": True, "rayleigh": True, "variational": True, "residOK": True}

EXP_MUTANTS = {
    "exp-breakdown-reports-unconverged": "ExpHonest",
    "exp-exhaustion-reports-converged": "ExpHonest",
    "exp-wrapper-never-raises": "ExpPublic",
    "exp-no-confirmation": "ExpHonest",          # the estimate of the code before the repair 6f8c88a
}
MIN_MUTANTS = {
    "min-keeps-worst-residual": "MinSound",
    "min-energy-of-latest-iteration": "MinSound",
    "min-exhaustion-reports-converged": "MinSound",
}


# ===================================================================================== TLC side
def model_cfg(fn: str, mut: str = "none", live: bool = True) -> str:
    invs = ["ExpHonest", "ExpPublic", "ExpShape"] if fn == "exp" else ["MinSound", "MinPublic", "MinShape"]
    txt = f"""SPECIFICATION Spec
CONSTANTS
  Mut = "{mut}"
  Fn = "{fn}"
  MaxDimBound = {MAXDIM_BOUND}
  MaxRestartsBound = {MAXR_BOUND}
  Levels = 3
  TolLevel = 1
"""
    if mut != "none":
        invs = invs[:2]        # a mutant must be refuted by a REQUIREMENT invariant, not by the mechanism-level shape facts
    txt += "".join(f"INVARIANT {i}\n" for i in invs)
    if mut == "none":
        txt += "INVARIANT PathLog\n"
        if live:
            txt += "PROPERTY Terminates\n"
    return txt


def model_check(ctx: Ctx, fn: str) -> set[tuple]:
    """TLC: mechanism |= requirement over every control path (and every residual order pattern);
    returns the set of model control paths (maxdim, maxr, kind, restarts, iterations, conv, bd, outcome)."""
    res = run_tlc("Krylov", None, workdir=ctx.work, name=f"mc_{fn}", cfg_text=model_cfg(fn), coverage=True, workers=TLC_WORKERS)
    ctx.add_tlc(res)
    if res["violated"]:
        # the model of the CODE violates the requirement: the real-code exploration below must show it
        ctx.log(f"TLC: Krylov.tla ({fn}) violates {res['violated']}")
        ctx.notes.append(f"TLC reports the {fn} model violates {res['violated']}")
    pref = "Exp" if fn == "exp" else "Min"
    zero = [a for a in res.get("coverage_zero", []) if a.startswith(pref) and a.endswith("Step")]
    if zero:
        raise MachineryError(f"vacuity: Krylov.tla actions never taken for Fn={fn}: {zero}")
    paths = set()
    for t in printed_tuples(res["out"], "P"):
        _, f, m, R, kind, r, iters, conv, bd, outcome = t
        paths.add((m, R, kind, r, iters, bool(conv), bool(bd), outcome))
    if not paths and not res["violated"]:
        raise MachineryError("TLC printed no control paths")
    kinds = {p[2] for p in paths}
    if not res["violated"] and kinds != {"breakdown", "converged", "exhausted"}:
        raise MachineryError(f"vacuity: exit kinds reached in the model: {kinds}")
    ctx.coverage[f"model_paths_{fn}"] = len(paths)
    ctx.log(f"TLC Krylov[{fn}]: {res['distinct']} distinct states, {len(paths)} control paths, violated={res['violated']}")
    return paths


def model_mutants(ctx: Ctx, fn: str) -> None:
    """Self-test of the specification: every seeded departure of the mechanism must be refuted by TLC."""
    muts = EXP_MUTANTS if fn == "exp" else MIN_MUTANTS
    caught = {}
    for mut, inv in muts.items():
        res = run_tlc("Krylov", None, workdir=ctx.work, name=f"mut_{mut}", cfg_text=model_cfg(fn, mut), workers=1)
        ctx.add_tlc(res)
        names = [x[1] for x in res["violated"]]
        caught[mut] = names
        if inv not in names:
            raise MachineryError(f"specification self-test: mutant {mut} is not refuted by {inv} (TLC: {res['violated']})")
    ctx.coverage["spec_mutants_refuted"] = caught


# ===================================================================================== real code: exponential
def _shape_for(spec: dict, o: dict, n: int) -> tuple:
    sh = spec.get("shape", "flat")
    if sh == "matrix" and o.get("d"):
        return (o["d"], o["d"])
    if sh == "split":
        for a in (2, 3, 4, 5):
            if n % a == 0 and n // a > 1:
                return (a, n // a)
    if sh == "mps" and n % 4 == 0 and n >= 8:
        return (n // 4, 2, 2)
    return (n,)


def run_exp(spec: dict) -> dict:
    """One call of the real krylov_exp_impl / krylov_exp on the instance `spec`; trace + atoms + margins."""
    import torch
    from emu_base import _verif
    import importlib
    ke = importlib.import_module("emu_base.math.krylov_exp")

    warnings.filterwarnings("ignore")
    o = kr.build_exp(spec)
    a_np, v_np = o["A"], o["v"]
    n = a_np.shape[0]
    a_t = torch.from_numpy(a_np)
    shape = _shape_for(spec, o, n)
    v_t = torch.from_numpy(v_np.copy()).reshape(shape)
    api, maxdim = spec["api"], int(spec["maxdim"])
    tol, ntol = float(spec["tol"]), float(spec["ntol"])
    herm = bool(spec["herm_flag"])
    nops = 0

    def op(x: "torch.Tensor") -> "torch.Tensor":
        nonlocal nops
        nops += 1
        return (a_t @ x.reshape(-1)).reshape(x.shape)

    events: list[dict] = [{"ev": "call", "fn": "exp", "api": api, "maxdim": maxdim, "maxr": 0}]
    sink: list[dict] = []
    _verif.set_sink(sink)
    exc = None
    vec = None
    rec = None
    try:
        if api == "impl":
            r = ke.krylov_exp_impl(op, v_t.clone(), is_hermitian=herm, exp_tolerance=tol, norm_tolerance=ntol, max_krylov_dim=maxdim)
            rec = {"converged": bool(r.converged), "breakdown": bool(r.happy_breakdown), "iters": int(r.iteration_count), "restarts": 0}
            vec = r.result
        else:
            vec = ke.krylov_exp(op, v_t.clone(), exp_tolerance=tol, norm_tolerance=ntol, is_hermitian=herm, max_krylov_dim=maxdim)
    except Exception as ex:  # noqa: BLE001 - anything the code under test raises is an observation
        exc = type(ex).__name__
    finally:
        _verif.set_sink(None)
    hook_missing = False
    if api == "public":
        hk = [e for e in sink if e.get("ev") == "kry_exit"]
        if hk:
            h = hk[-1]
            rec = {"converged": bool(h["converged"]), "breakdown": bool(h["breakdown"]), "iters": int(h["iters"]), "restarts": 0}
        elif exc is None or exc == "RecursionError":
            hook_missing = True
    events += [{"ev": "op"}] * nops
    if rec is not None:
        events.append({"ev": "exit", **rec})
    norm_v = float(np.linalg.norm(v_np))
    atom = None
    if vec is not None and exc is None:
        ref, unc = kr.exp_action(o)
        res_np = vec.detach().resolve_conj().numpy().reshape(-1)
        atom = kr.atom_accurate(res_np, ref, unc, tol, o["normA"], norm_v)
        if tuple(vec.shape) != tuple(shape):
            atom["accurate"] = False
            atom["shape_changed"] = [list(vec.shape), list(shape)]
        events.append({"ev": "result" if api == "impl" else "return", **ALL_ATOMS, "accurate": bool(atom["accurate"])})
    elif exc is not None:
        events.append({"ev": "raise", "exc": exc})
    kind = None
    if rec is not None:
        kind = "breakdown" if rec["breakdown"] else ("converged" if rec["converged"] else "exhausted")
    outcome = "none" if api == "impl" and exc is None else ("raised" if exc else "returned")
    return {
        "fn": "exp", "spec": spec, "events": events, "hook_missing": hook_missing, "exc": exc, "rec": rec, "nops": nops,
        "kind": kind, "outcome": outcome, "atom": atom, "normA": o["normA"], "normv": norm_v, "dim": n,
        # slot 3: operator applications beyond the iteration count (1 = a confirming application)
        "path": (maxdim, 0, kind, nops - rec["iters"], rec["iters"], rec["converged"], rec["breakdown"]) if rec else None,
    }


def run_exp_chunk(specs: list[dict]) -> list[dict]:
    return [run_exp(s) for s in specs]


def gen_exp_spec(rng: np.random.Generator, seed: int) -> dict:
    cls = str(rng.choice(["herm", "nonherm", "lindblad", "rydberg", "chain"], p=[0.3, 0.22, 0.23, 0.15, 0.1]))
    spec: dict[str, Any] = {"fn": "exp", "cls": cls, "seed": int(seed), "cplx": bool(rng.random() < 0.8),
                            "spectrum": str(rng.choice(kr.SPECTRA))}
    if cls == "lindblad":
        d = int(rng.choice([1, 2, 3, 4, 5, 6, 8, 10, 12, 16], p=[.05, .2, .15, .15, .1, .1, .1, .05, .05, .05]))
        spec["dim"] = d * d
        spec["scale"] = float(10 ** rng.uniform(-3, 1.2))
        spec["gamma"] = float(rng.choice([0.0, 0.05, 1.0, 5.0]))
    elif cls == "rydberg":
        spec["dim"] = 2 ** int(rng.integers(1, 9))
        spec["scale"] = float(10 ** rng.uniform(-3.3, -1.3))             # dt in us
    elif cls == "chain":
        spec["dim"] = int(rng.integers(2, 9))
        spec["scale"] = float(10 ** rng.uniform(-2, 1.5))
        spec["spectrum"] = "chain"
    else:
        spec["dim"] = int(rng.choice([1, 2, 3, 4, 6, 8, 16, 32, 64, 128, 256], p=[.04, .1, .1, .1, .1, .12, .14, .12, .08, .06, .04]))
        spec["scale"] = float(10 ** rng.uniform(-3, 1.75))
        spec["gamma"] = float(rng.choice([0.0, 0.05, 1.0, 5.0]))
    tol = float(10 ** rng.uniform(-12, -4))
    spec["tol"] = tol
    # norm_tolerance: equal to exp_tolerance (what emu-sv / emu-mps pass) or below it
    spec["ntol"] = tol if rng.random() < 0.5 else float(max(1e-14, tol * 10 ** rng.uniform(-4, 0)))
    spec["maxdim"] = int(rng.choice([1, 2, 3, 4, 6, 8, 12, 20, 40, 100], p=[.05, .05, .05, .05, .08, .1, .12, .15, .15, .2]))
    spec["herm_flag"] = bool(cls in ("herm", "rydberg", "chain") and rng.random() < 0.8)
    spec["api"] = "impl" if rng.random() < 0.6 else "public"
    u = rng.random()
    if u < 0.5:
        spec["vkind"] = "random"
    elif u < 0.7:
        spec["vkind"] = "invariant"
        spec["k"] = int(rng.integers(1, 9))
    elif u < 0.82:
        spec["vkind"] = "hidden"
        spec["k"] = int(rng.integers(1, 4))
        spec["delta"] = float(10 ** rng.uniform(-13, -2))
    elif u < 0.99:
        spec["vkind"] = "basis"
        spec["basis_random"] = bool(rng.random() < 0.5)
    else:
        spec["vkind"] = "zero"
    if cls == "chain":
        spec["vkind"] = "basis"
        spec["basis_random"] = bool(rng.random() < 0.3)
    spec["vnorm"] = 1.0 if rng.random() < 0.5 else float(10 ** rng.uniform(-3, 3))
    spec["shape"] = str(rng.choice(["flat", "matrix", "split", "mps"]))
    return spec


# --------------------------------------------------------------------- binding A: realise model paths (exp)
def realise_exp_path(task: dict) -> dict:
    """Find an instance on which the REAL kernel takes the model control path `task['path']`."""
    m, _R, kind, extra, iters = task["path"][:5]
    api, seed = task["api"], task["seed"]
    tried: list[dict] = []
    hit = None
    base = {"fn": "exp", "api": api, "maxdim": m, "cplx": True, "spectrum": "uniform", "vnorm": 1.0, "shape": "flat", "gamma": 1.0}
    classes = ["herm", "nonherm", "lindblad"]
    for attempt in range(6):
        cls = classes[(seed + attempt) % 3]
        dimc = {"herm": 16, "nonherm": 16, "lindblad": 16}[cls]
        sp = dict(base, cls=cls, seed=seed * 100 + attempt, herm_flag=(cls == "herm" and attempt % 2 == 0))
        if kind == "breakdown":
            # invariant subspace of dimension `iters`: happy breakdown at iteration `iters`
            sp.update(dim=max(iters, [iters, iters + 3, dimc][attempt % 3]), vkind="invariant", k=iters, scale=4.0, tol=1e-12, ntol=1e-12)
            if cls == "lindblad":
                d = max(2, math.isqrt(sp["dim"] - 1) + 1)
                sp["dim"] = d * d
            r = run_exp(sp)
            tried.append(r)
            if r["path"] and (r["kind"], r["rec"]["iters"]) == (kind, iters):
                hit = r
                break
        elif kind == "exhausted" and extra == 1:
            # false alarm of the cheap estimate at the LAST allowed iteration: weakly coupled chains
            # m equal weak couplings c with c^(m+1)/(m+1)! just below tol, then a strongly detuned last site:
            # the cheap estimate (|op(q_{m-1})| ~ c) passes at iteration m, the confirmed one (|op(q_m)| ~ 30) does not
            tolx = 1e-9
            for k, f in enumerate((0.3, 0.1, 0.6, 0.03, 0.9, 0.01)):
                c = (f * tolx * math.factorial(m + 1)) ** (1.0 / (m + 1))
                spc = dict(base, cls="chain", spectrum="chain", seed=seed * 1000 + attempt * 40 + k, herm_flag=(attempt % 2 == 0),
                           dim=m + 2, vkind="basis", scale=1.0, tol=tolx, ntol=1e-13,
                           couplings=[c] * m + [0.5], diag=[0.0] * m + [30.0, 0.0])
                r = run_exp(spc)
                if r["path"] and r["kind"] == kind and r["path"][3] == 1:
                    hit = r
                    break
            tried.append(hit if hit is not None else r)
            if hit is not None:
                break
        elif kind == "exhausted":
            sp.update(dim=dimc * 4 if cls != "lindblad" else 36, vkind="random", scale=25.0 if cls != "lindblad" else 8.0, tol=1e-10, ntol=1e-10)
            r = run_exp(sp)
            tried.append(r)
            if r["path"] and r["kind"] == kind and r["path"][3] == 0:
                hit = r
                break
        else:
            # convergence at exactly iteration `iters`: bisection on the scale (dt)
            sp.update(dim=dimc, vkind="random", tol=1e-8, ntol=1e-13)
            lo, hi = math.log10(1e-12), math.log10(30.0)
            for _ in range(48):
                mid = 0.5 * (lo + hi)
                r = run_exp(dict(sp, scale=10 ** mid))
                if r["path"] is None:
                    tried.append(r)
                    break
                if (r["kind"], r["rec"]["iters"]) == (kind, iters):
                    hit = r
                    break
                if r["kind"] == "exhausted" or (r["kind"] == "converged" and r["rec"]["iters"] > iters):
                    hi = mid
                else:
                    lo = mid
            if hit is not None:
                tried.append(hit)
                break
            tried.append(r)
    return {"task": task, "hit": hit is not None, "results": tried}


# ===================================================================================== real code: ground state
def run_min(spec: dict) -> dict:
    import torch
    from emu_base import _verif
    import importlib
    km = importlib.import_module("emu_base.math.krylov_energy_min")

    warnings.filterwarnings("ignore")
    b = kr.build_min(spec)
    h_np, v_np = b["H"], b["v"]
    n = h_np.shape[0]
    h_t = torch.from_numpy(h_np)
    shape = _shape_for(spec, {}, n)
    v_t = torch.from_numpy(v_np.copy()).reshape(shape)
    api, maxdim = spec["api"], int(spec["maxdim"])
    # tolerances below the rounding floor of the operator are outside the claim (see notes): clamp unless asked not to
    tol = float(spec["tol"])
    if not spec.get("raw_tol"):
        tol = max(tol, 16 * kr.EPS * b["normH"])
    ntol = float(spec["ntol"])
    maxr = int(spec["maxr"]) if api == "impl" else int(km.DEFAULT_MAX_RESTARTS)
    nops = 0

    def op(x: "torch.Tensor") -> "torch.Tensor":
        nonlocal nops
        nops += 1
        return (h_t @ x.reshape(-1)).reshape(x.shape)

    events: list[dict] = [{"ev": "call", "fn": "min", "api": api, "maxdim": maxdim, "maxr": maxr}]
    sink: list[dict] = []
    _verif.set_sink(sink)
    exc = None
    psi = None
    energy = None
    rec = None
    try:
        if api == "impl":
            r = km.krylov_energy_minimization_impl(op, v_t.clone(), residual_tolerance=tol, norm_tolerance=ntol,
                                                   max_krylov_dim=maxdim, max_restarts=maxr)
            rec = {"converged": bool(r.converged), "breakdown": bool(r.happy_breakdown), "iters": int(r.iteration_count), "restarts": int(r.restart_count)}
            psi, energy = r.ground_state, float(r.ground_energy)
        else:
            psi, energy = km.krylov_energy_minimization(op, v_t.clone(), norm_tolerance=ntol, residual_tolerance=tol, max_krylov_dim=maxdim)
            energy = float(energy)
    except Exception as ex:  # noqa: BLE001
        exc = type(ex).__name__
    finally:
        _verif.set_sink(None)
    hook_missing = False
    if api == "public":
        hk = [e for e in sink if e.get("ev") == "kmin_exit"]
        if hk:
            h = hk[-1]
            rec = {"converged": bool(h["converged"]), "breakdown": bool(h["breakdown"]), "iters": int(h["iters"]), "restarts": int(h["restarts"])}
        elif exc is None or exc == "RecursionError":
            hook_missing = True
    events += [{"ev": "op"}] * nops
    if rec is not None:
        events.append({"ev": "exit", **rec})
    atom = None
    if psi is not None and exc is None:
        psi_np = psi.detach().resolve_conj().numpy().reshape(-1)
        atom = kr.atoms_min(b, psi_np, energy, tol)
        if tuple(psi.shape) != tuple(shape):
            atom["unit"] = False
            atom["shape_changed"] = [list(psi.shape), list(shape)]
        events.append({"ev": "result" if api == "impl" else "return", **ALL_ATOMS,
                       **{k: bool(atom[k]) for k in ("unit", "rayleigh", "variational", "residOK")}})
    elif exc is not None:
        events.append({"ev": "raise", "exc": exc})
    kind = None
    if rec is not None:
        kind = "breakdown" if rec["breakdown"] else ("converged" if rec["converged"] else "exhausted")
    outcome = "none" if api == "impl" and exc is None else ("raised" if exc else "returned")
    return {
        "fn": "min", "spec": spec, "events": events, "hook_missing": hook_missing, "exc": exc, "rec": rec, "nops": nops,
        "kind": kind, "outcome": outcome, "atom": atom, "normH": b["normH"], "tol_used": tol, "dim": n, "energy": energy,
        "path": (maxdim, maxr, kind, rec["restarts"], rec["iters"], rec["converged"], rec["breakdown"]) if rec else None,
    }


def run_min_chunk(specs: list[dict]) -> list[dict]:
    return [run_min(s) for s in specs]


def gen_min_spec(rng: np.random.Generator, seed: int) -> dict:
    spec: dict[str, Any] = {"fn": "min", "seed": int(seed), "cplx": bool(rng.random() < 0.7)}
    u = rng.random()
    if u < 0.12:
        spec["cls"] = "rydberg"
        spec["dim"] = 2 ** int(rng.integers(1, 8))
        spec["spectrum"] = "rydberg"
        spec["cplx"] = True
    elif u < 0.14:
        spec["spectrum"] = "zero"
        spec["dim"] = int(rng.choice([1, 2, 5]))
    else:
        spec["spectrum"] = str(rng.choice(kr.SPECTRA))
        spec["dim"] = int(rng.choice([1, 2, 3, 4, 6, 8, 16, 32, 64, 128], p=[.04, .08, .08, .1, .1, .12, .14, .14, .12, .08]))
    spec["hnorm"] = float(10 ** rng.uniform(-2, 3))
    spec["tol"] = float(10 ** rng.uniform(-12, -4))
    spec["ntol"] = float(10 ** rng.uniform(-14, -6))
    spec["api"] = "impl" if rng.random() < 0.75 else "public"
    if spec["api"] == "impl":
        spec["maxdim"] = int(rng.choice([1, 2, 3, 5, 8, 12, 30, 100], p=[.06, .08, .1, .12, .14, .15, .2, .15]))
        spec["maxr"] = int(rng.choice([0, 1, 2, 3, 5]))
    else:
        spec["maxdim"] = int(rng.choice([1, 2, 3, 5, 8, 12]))
        spec["maxr"] = 100
    u = rng.random()
    if u < 0.55:
        spec["vkind"] = "random"
    elif u < 0.75:
        spec["vkind"] = "invariant"                    # k = 1: an eigenvector (immediate breakdown)
        spec["k"] = int(rng.integers(1, 7))
    elif u < 0.87:
        spec["vkind"] = "hidden"
        spec["k"] = int(rng.integers(1, 3))
        spec["delta"] = float(10 ** rng.uniform(-13, -2))
    else:
        spec["vkind"] = "basis"
        spec["basis_random"] = bool(rng.random() < 0.5)
    spec["vnorm"] = 1.0 if rng.random() < 0.5 else float(10 ** rng.uniform(-3, 3))
    spec["shape"] = str(rng.choice(["flat", "split", "mps"]))
    return spec


# --------------------------------------------------------------------- binding A: realise model paths (min)
def sweep_min(task: dict) -> list[dict]:
    """All control paths the REAL search takes on one operator for (maxdim, maxr) while the two
    tolerances sweep their whole range (convergence sweep; breakdown sweep), plus invariant-subspace
    starts (breakdown in the first cycle) and a hard clustered operator (exhaustion)."""
    m, R, seed = task["m"], task["R"], task["seed"]
    out: list[dict] = []
    base = {"fn": "min", "api": "impl", "maxdim": m, "maxr": R, "cplx": True, "hnorm": 1.0, "vnorm": 1.0, "shape": "flat", "raw_tol": True}
    ngrid = task.get("ngrid", 28)
    for spec_kind, dim in (("uniform", 24), ("gapped", 12), ("wide", 40)):
        sp = dict(base, spectrum=spec_kind, dim=dim, seed=seed, vkind="random")
        seen: dict[tuple, dict] = {}
        for t in np.logspace(-12, 0.3, ngrid):                      # convergence sweep
            r = run_min(dict(sp, tol=float(t), ntol=1e-14))
            seen.setdefault(r["path"], r)
        for t in np.logspace(-12, -0.05, ngrid):                    # breakdown sweep (residual test switched off); norm_tolerance < |v| = 1
            r = run_min(dict(sp, tol=0.0, ntol=float(t)))
            seen.setdefault(r["path"], r)
        out += list(seen.values())
    for k in range(1, m + 1):                                        # invariant subspace of dimension k
        r = run_min(dict(base, spectrum="uniform", dim=max(k, 12), seed=seed + k, vkind="invariant", k=k, tol=1e-13, ntol=1e-10))
        out.append(r)
    out.append(run_min(dict(base, spectrum="clustered", dim=64, seed=seed, vkind="random", tol=1e-13, ntol=1e-14)))
    return out


# ===================================================================================== in-situ runs
def insitu_run(task: dict) -> dict:
    """One real emu-sv / emu-mps run; the kry_exit / kmin_exit hook events become an in-situ trace."""
    import torch
    from emu_base import _verif
    from pulser.backend import Occupation

    from harness.gen import seqs

    warnings.filterwarnings("ignore")
    torch.manual_seed(int(task.get("seed", 0)))
    spec = seqs.simple_spec(task["n"], task.get("layout", "line"), task.get("spacing", 7.0), task["amp"], task["det"], task.get("phase", 0.0))
    seq = seqs.build_sequence(spec)
    sink: list[dict] = []
    _verif.reset()
    _verif.set_sink(sink)
    exc = None
    try:
        if task["backend"] == "sv":
            import emu_sv
            cfg = emu_sv.SVConfig(dt=task["dt"], observables=[Occupation(evaluation_times=[1.0])], log_level=50, **task.get("cfg", {}))
            emu_sv.SVBackend(seq, config=cfg).run()
        else:
            import emu_mps
            kw = dict(task.get("cfg", {}))
            if task["backend"] == "dmrg":
                kw["solver"] = emu_mps.Solver.DMRG
            cfg = emu_mps.MPSConfig(dt=task["dt"], observables=[Occupation(evaluation_times=[1.0])], log_level=50, **kw)
            emu_mps.MPSBackend(seq, config=cfg).run()
    except Exception as ex:  # noqa: BLE001
        exc = type(ex).__name__
    finally:
        _verif.set_sink(None)
    fn = "min" if task["backend"] == "dmrg" else "exp"
    maxdim = int(task.get("cfg", {}).get("max_krylov_dim", 100))
    events: list[dict] = [{"ev": "insitu"}]
    for e in sink:
        if e.get("ev") == "kry_exit":
            events.append({"ev": "xexit", "fn": "exp", "maxdim": int(e["maxdim"]), "maxr": 0, "iters": int(e["iters"]),
                           "converged": bool(e["converged"]), "breakdown": bool(e["breakdown"]), "restarts": 0})
        elif e.get("ev") == "kmin_exit":
            events.append({"ev": "xexit", "fn": "min", "maxdim": maxdim, "maxr": 100, "iters": int(e["iters"]),
                           "converged": bool(e["converged"]), "breakdown": bool(e["breakdown"]), "restarts": int(e["restarts"])})
    nexit = len(events) - 1
    events.append({"ev": "run", "fn": fn, "outcome": "raised" if exc else "returned", "exc": exc or ""})
    stats = {
        "n_exit": nexit,
        "n_breakdown": sum(1 for e in events if e.get("ev") == "xexit" and e["breakdown"]),
        "n_nonconverged": sum(1 for e in events if e.get("ev") == "xexit" and not e["converged"]),
        "max_iters": max([e["iters"] for e in events if e.get("ev") == "xexit"], default=0),
    }
    return {"fn": fn, "spec": task, "events": events, "exc": exc, "stats": stats, "insitu": True}


# ===================================================================================== verdicts
def judge(ctx: Ctx, prefix: str, results: list[dict], name: str, strict: bool = True) -> dict:
    """Validate the recorded executions with KrylovTrace.tla: requirement clauses -> violations,
    mechanism clauses (strict pass) -> model drift.  Returns counts."""
    for r in results:
        if r.get("hook_missing"):
            raise MachineryError(f"hook event kry_exit / kmin_exit missing for a public-API call: {r['spec']}")
    traces = [{"id": i + 1, "events": r["events"]} for i, r in enumerate(results)]
    verdicts = validate_batch(ctx, "KrylovTrace", traces, name)
    nviol = 0
    ok_ids = [i for i in range(len(results)) if verdicts[i + 1][0] == "ACCEPT"]

    def badness(i: int) -> float:
        a = results[i].get("atom") or {}
        return -float(a.get("ratio") or max(a.get("m_ray") or 0, a.get("m_var") or 0, a.get("m_res") or 0, a.get("m_unit") or 0) or 0)

    # worst case of every kind first: the replay file kept per key is the most telling one
    for i in sorted((i for i in range(len(results)) if verdicts[i + 1][0] != "ACCEPT"), key=badness):
        r = results[i]
        v = verdicts[i + 1]
        clause = v[2]
        if not clause.startswith("req:"):
            raise MachineryError(f"trace {i + 1} of {name} malformed: {v} spec={r['spec']}")
        cls = r["spec"].get("cls") or r["spec"].get("spectrum") or r["spec"].get("backend", "?")
        # canonical key: clause, operator class, and WHERE on the control path it happened
        where = ""
        if r.get("rec"):
            it = r["rec"]["iters"]
            where = ":" + (r.get("kind") or "?") + ("@1" if it == 1 else "@>1")
        if prefix == "kexp" and "accurate" in clause and r.get("atom"):
            # how far beyond the budget: the Expokit estimate is known to under-report marginally for large dt*|H|
            where += ":marginal" if r["atom"]["ratio"] <= 3.0 else ":gross"
        key = f"{prefix}:{clause[4:]}{where}" + (f":{r['exc']}" if r.get("exc") and "raise" in clause else "")
        nviol += 1
        counts = ctx.coverage.setdefault("violations_by_key", {})
        counts[key] = counts.get(key, 0) + 1
        if counts[key] > 2:
            continue        # counted above; Ctx keeps one replay per key, and every NEW key must still get printed
        extra = ""
        if r.get("atom") and r["atom"].get("ratio") is not None:
            extra = f"; error {r['atom']['err']:.3g} = {r['atom']['ratio']:.3g} x budget"
        ctx.violation(key, f"{name}: real execution ({cls}, dim {r.get('dim')}) rejected by KrylovTrace at event {v[1]}: {clause}{extra}",
                      {"spec": r["spec"], "record": r.get("rec"), "exception": r.get("exc"), "atom": r.get("atom"),
                       "op_calls": r.get("nops"), "how": f"./check {ctx.pid} --replay <this file>"})
    ndrift = 0
    if strict and ok_ids:
        sub = [{"id": i + 1, "events": results[i]["events"]} for i in ok_ids]
        before = ctx.traces_validated
        sv = validate_batch(ctx, "KrylovTrace", sub, name + "_strict", cfg="KrylovTraceStrict.cfg")
        ctx.traces_validated = before                       # same traces, second reading: do not count twice
        for i in ok_ids:
            v = sv[i + 1]
            if v[0] == "REJECT":
                ndrift += 1
                if ndrift <= 3:
                    ctx.model_drift(f"{name}: {v[2]} at event {v[1]} on {results[i]['spec']} (record {results[i].get('rec')}, op calls {results[i].get('nops')})")
    return {"violations": nviol, "drift": ndrift, "n": len(results)}


def chunks(xs: list, k: int) -> list[list]:
    return [xs[i:i + k] for i in range(0, len(xs), k)]
