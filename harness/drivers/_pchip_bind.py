"""Shared binding code of C20 / C22 / C30: evaluates the REQUIREMENT of C20 on what the real
PCHIP1D returns for one data set, against the exact rational reference (harness/ref/pchip_exact.py).

Budget (DESIGN 3.3): the statement names no tolerance, so equality means "up to the rounding of a
float64 evaluation": |impl - exact| <= RELTOL * term_scale(q) + ABSFLOOR, where term_scale is the sum of
the magnitudes of the terms the evaluation has to combine (values, slopes x t, incl. the cancellation
inside the three-point end formula).  RELTOL = 256 eps ~ 5.7e-14.
"""
from __future__ import annotations

from fractions import Fraction as F
from typing import Any, Sequence

from harness.ref.pchip_exact import ExactPchip, end_case, interior_case, sgn

EPS = 2.0 ** -52
RELTOL = 256 * EPS
ABSFLOOR = 1e-290
GRID = 16


def fr(v) -> F:
    """TLC rational <<n, d>> (parsed as [n, d]) -> Fraction."""
    return F(v[0], v[1])


def site_of(ref: ExactPchip, i: int, outside: bool) -> str:
    """Canonical name of where a failing evaluation sits (for violation keys)."""
    n = ref.n
    if n == 2:
        return "two-point" + ("-extrapolation" if outside else "")
    is_end = i == 0 or i == n - 2
    flat_end = False
    if i == 0 and ref.m[0] == 0 and ref.m[1] != 0:
        flat_end = True
    if i == n - 2 and ref.m[-1] == 0 and ref.m[-2] != 0:
        flat_end = True
    # an end interval NEXT to ... is also affected by a wrong end slope only through its own end knot
    if outside:
        return "extrapolation-flat-end" if flat_end else "extrapolation"
    if flat_end:
        return "flat-end-interval"
    return "end-interval" if is_end else "interior-interval"


def magnitude_class(ref: ExactPchip) -> str:
    """'extreme' when a product of two secants (the code's sign tests) leaves the double range."""
    ms = [abs(float(m)) for m in ref.m if m != 0]
    if not ms:
        return "moderate"
    lo, hi = min(ms), max(ms)
    if lo * lo < 1e-300 or hi * hi > 1e300 or lo < 1e-150 or hi > 1e150:
        return "extreme"
    return "moderate"


def evaluate_real(x: Sequence[float], y: Sequence[float], queries: Sequence[float]):
    """Run the real PCHIP1D; returns (values at queries, error string | None)."""
    import torch
    from emu_base.math.pchip_torch import PCHIP1D

    try:
        p = PCHIP1D(torch.tensor(list(x), dtype=torch.float64), torch.tensor(list(y), dtype=torch.float64))
        v = p(torch.tensor(list(queries), dtype=torch.float64))
        return [float(a) for a in v], None
    except Exception as ex:  # the code under test raised on valid data
        return None, f"{type(ex).__name__}: {ex}"


def real_slopes(x: Sequence[float], y: Sequence[float]):
    import torch
    from emu_base.math import pchip_torch as pt

    xs = torch.tensor(list(x), dtype=torch.float64)
    ys = torch.tensor(list(y), dtype=torch.float64)
    h = xs[1:] - xs[:-1]
    delta = (ys[1:] - ys[:-1]) / h
    return [float(v) for v in pt._pchip_derivatives(h, delta)]


def check_dataset(x: Sequence[float], y: Sequence[float], outside: Sequence[float] = (), extra_inside: Sequence[float] = (),
                  max_intervals: int | None = None, rng=None) -> dict[str, Any]:
    """Requirement of C20 on the real PCHIP1D for data (x, y) [floats, exact inputs of both sides].
    Returns {'failures': [(clause, site, detail)], 'margin': worst err/budget, 'n_eval': int, 'ref': ExactPchip}."""
    ref = ExactPchip(x, y)
    n = ref.n
    fails: list[tuple[str, str, dict]] = []
    # ---- query plan
    ivs = list(range(n - 1))
    if max_intervals is not None and len(ivs) > max_intervals:
        keep = {0, 1, n - 3, n - 2}
        # always keep intervals adjacent to flat pieces and turning points, sample the rest
        interesting = [i for i in ivs if ref.m[i] == 0 or (i > 0 and sgn(ref.m[i - 1]) != sgn(ref.m[i]))]
        rng.shuffle(interesting)
        keep |= set(interesting[: max_intervals // 2])
        rest = [i for i in ivs if i not in keep]
        rng.shuffle(rest)
        keep |= set(rest[: max(0, max_intervals - len(keep))])
        ivs = sorted(i for i in keep if 0 <= i < n - 1)
    qs: list[float] = []
    plan: list[tuple] = []  # (kind, interval, k)
    knots = range(n)
    if max_intervals is not None and n > 4 * max_intervals:
        knots = sorted({0, 1, n - 2, n - 1} | set(ivs) | {i + 1 for i in ivs} | set(rng.sample(range(n), 2 * max_intervals)))
    for j in knots:
        qs.append(float(x[j]))
        plan.append(("knot", j, 0))
    for i in ivs:
        x0, x1 = float(x[i]), float(x[i + 1])
        for k in range(GRID + 1):
            q = x0 + (x1 - x0) * (k / GRID) if k < GRID else x1
            if k == 0:
                q = x0
            qs.append(q)
            plan.append(("grid", i, k))
    for q in extra_inside:
        qs.append(float(q))
        plan.append(("inside", -1, 0))
    for q in outside:
        qs.append(float(q))
        plan.append(("outside", -1, 0))
    # C1 probes at interior knots (one-sided difference quotients)
    c1_knots = [j for j in range(1, n - 1) if (j - 1 in ivs or j in ivs)]
    c1_e = {}
    for j in c1_knots:
        e = min(float(x[j]) - float(x[j - 1]), float(x[j + 1]) - float(x[j])) * 2.0 ** -10
        c1_e[j] = e
        qs += [float(x[j]) - e, float(x[j]) + e]
        plan += [("c1l", j, 0), ("c1r", j, 0)]
    vals, err = evaluate_real(x, y, qs)
    if err is not None:
        return {"failures": [("raises", "constructor-or-call", {"error": err})], "margin": float("inf"), "n_eval": 0, "ref": ref}
    worst = 0.0
    knot_val = {}
    grid_val: dict[int, list] = {}
    c1 = {}
    for (kind, i, k), q, v in zip(plan, qs, vals):
        qf = F(q)
        exact = ref(qf)
        budget = RELTOL * float(ref.term_scale(qf)) + ABSFLOOR
        if v != v or v in (float("inf"), float("-inf")):
            iv = ref.interval(qf)
            fails.append(("non-finite", site_of(ref, iv, kind == "outside" or qf < ref.x[0] or qf > ref.x[-1]), {"q": q, "value": repr(v)}))
            continue
        e = abs(F(v) - exact)
        m = float(e) / budget
        if m <= 1.0:
            worst = max(worst, m)
        iv = ref.interval(qf)
        is_out = qf < ref.x[0] or qf > ref.x[-1]
        if kind == "knot":
            knot_val[i] = v
            if m > 1.0:
                # which side's cubic produced it is the lookup's business; report by knot position
                site = "first-knot" if i == 0 else "last-knot" if i == n - 1 else "interior-knot"
                fails.append(("knot-mismatch", site, {"knot": i, "x": q, "value": v, "datum": float(y[i]), "err": float(e), "budget": budget}))
            continue
        if kind == "grid":
            grid_val.setdefault(i, []).append((k, q, v, budget))
        if kind in ("c1l", "c1r"):
            c1.setdefault(i, {})[kind] = (q, v, budget)
        if m > 1.0:
            fails.append(("differs-from-standard", site_of(ref, iv, is_out),
                          {"q": q, "value": v, "standard": float(exact), "err": float(e), "budget": budget, "interval": iv}))
    # ---- shape on the real values: monotone + bounded per interval
    for i, lst in grid_val.items():
        lst.sort()
        s = sgn(ref.m[i])
        lo, hi = min(ref.y[i], ref.y[i + 1]), max(ref.y[i], ref.y[i + 1])
        site = site_of(ref, i, False)
        bad_mono = None
        bad_rng = None
        for a in range(len(lst)):
            k, q, v, b = lst[a]
            if F(v) < lo - F(b) or F(v) > hi + F(b):
                d_ = float(max(lo - F(v), F(v) - hi))
                if bad_rng is None or d_ > bad_rng["excess"]:
                    bad_rng = {"q": q, "value": v, "lo": float(lo), "hi": float(hi), "excess": d_, "budget": b, "interval": i}
            if a + 1 < len(lst):
                k2, q2, v2, b2 = lst[a + 1]
                step = v2 - v
                if (s == 0 and abs(step) > b + b2) or (s != 0 and s * step < -(b + b2)):
                    d_ = abs(step)
                    if bad_mono is None or d_ > bad_mono["step"]:
                        bad_mono = {"q0": q, "q1": q2, "v0": v, "v1": v2, "secant_sign": s, "step": d_, "budget": b + b2, "interval": i}
        if bad_mono:
            fails.append(("not-monotone", site, bad_mono))
        if bad_rng:
            fails.append(("out-of-range", site, bad_rng))
    # ---- C1 at interior knots (observable level)
    for j, dct in c1.items():
        if "c1l" not in dct or "c1r" not in dct or j not in knot_val:
            continue
        e = c1_e[j]
        (ql, vl, bl), (qr, vr, br) = dct["c1l"], dct["c1r"]
        sl = (knot_val[j] - vl) / e
        sr = (vr - knot_val[j]) / e
        # second-derivative bound of the standard cubics next to the knot + rounding of the quotients
        curv = 0.0
        for i in (j - 1, j):
            curv += float((6 * abs(ref.m[i]) + 4 * abs(ref.d[i]) + 4 * abs(ref.d[i + 1])) / ref.h[i])
        tol = e * curv + 4 * (bl + br) / e + 1e-280
        if abs(sl - sr) > tol and abs(sl - sr) > 1e-9 * (abs(sl) + abs(sr)):
            fails.append(("c1-jump", "interior-knot", {"knot": j, "x": float(x[j]), "left_slope": sl, "right_slope": sr, "tol": tol}))
    # one entry per (clause, site): the worst one
    best: dict[tuple[str, str], tuple] = {}
    for c, st, det in fails:
        sev = float(det.get("err", det.get("excess", det.get("step", 0.0))) or 0.0)
        if (c, st) not in best or sev > best[(c, st)][0]:
            best[(c, st)] = (sev, det)
    fails = [(c, st, det) for (c, st), (sev, det) in best.items()]
    return {"failures": fails, "margin": worst, "n_eval": len(qs), "ref": ref}


def dataset_classes(ref: ExactPchip) -> set[str]:
    """Strata a data set exercises (for the coverage / vacuity accounting)."""
    out = set()
    n = ref.n
    if n == 2:
        return {"n2"}
    out.add("first:" + end_case(ref.h[0], ref.h[1], ref.m[0], ref.m[1]))
    out.add("last:" + end_case(ref.h[-1], ref.h[-2], ref.m[-1], ref.m[-2]))
    for i in range(1, n - 1):
        out.add("interior:" + interior_case(ref.m[i - 1], ref.m[i]))
    return out
