"""C23 - Interactions follow the register, the cutoff, the user matrix and the SLM schedule.

(1) TLC: Interaction.tla -- mechanism = get_sequences (source selection, cutoff, SLM rows/columns),
    _InteractionMatrixCallable and the query time of every backend step; requirement = symmetric,
    source, cutoff exact, masked before / full after the SLM end, query inside the own step, steps
    entirely before / after the end use the right matrix.  All magnitude-class assignments, mask subsets,
    SLM end positions, both interaction types and both query rules (N = 3; N = 4 in the thorough tier).
    Three seeded mutants of the mechanism are rejected by TLC (self-test of the requirement).
(2) Binding A: every TLC scenario is realised on the real code (register geometry / user matrix and
    cutoff realising the classes, real SLM mask and pulses) and SequenceData.interaction_matrix(t) is
    queried at 0, inside the mask, just before / at / just after its end, later, at and after the end
    of the sequence; compared entry by entry with the matrix the requirement prescribes (symbolic
    entries instantiated from the independent reference C/r^6, C3/r^3 and the user's numbers).
(3) Binding B: both backends are run on the scenarios; the matrix actually handed to the stepper
    (sv_step) / used to build the MPO (h_make) in each step and the query times (sv_evolve, mps_imat)
    are checked against the step-level requirement; the sequence of matrices used is compared with the
    model (drift).  A user matrix with a non-zero diagonal must give the same results as without.
"""
from __future__ import annotations

import itertools
import json
import math
import os
from typing import Any

from harness.core import Ctx, MachineryError
from harness.pool import pmap
from harness.tlc import printed_tuples, run_tlc

WORKERS = int(os.environ.get("VERIF_TLC_WORKERS", "16"))
INVS = ["InvSymmetric", "InvFullMatrix", "InvMaskedMatrix", "InvDirect", "InvQueryInside", "InvStepMatrix"]
TICK_NS = 10          # one model tick = 10 ns
T_REGULAR = [0, 2, 4, 6]
T_IRREGULAR = [0, 1, 2, 4, 5, 6]     # off-grid evaluation times at 10 ns (before every SLM end) and 50 ns (after it unless the mask lasts to the end)


def cfg_text(n: int, scn: str, variant: str, log: bool) -> str:
    t = f"""SPECIFICATION Spec
CONSTANTS
  N = {n}
  Scenarios <- {scn}
  Variant = "{variant}"
  LogResult = {"TRUE" if log else "FALSE"}
"""
    for i in INVS:
        t += f"INVARIANT {i}\n"
    if log:
        t += "INVARIANT Log\n"
    return t


# ------------------------------------------------------------------------------------------------
# python twin of the REQUIREMENT operators of Interaction.tla (cross-checked against TLC's output for N = 3)
def upairs(n: int) -> list[tuple[int, int]]:
    return [(i, j) for i in range(1, n + 1) for j in range(i + 1, n + 1)]


def exp_full(sc: dict) -> dict:
    n = sc["N"]
    out = {}
    for i in range(1, n + 1):
        for j in range(1, n + 1):
            if i != j:
                u = (min(i, j), max(i, j))
                out[(i, j)] = ("z", 0, 0) if sc["cls"][u] == "below" else ("c" if sc["custom"] else "r", u[0], u[1])
    return out


def exp_masked(sc: dict) -> dict:
    f = exp_full(sc)
    return {p: (("z", 0, 0) if p[0] in sc["mask"] or p[1] in sc["mask"] else v) for p, v in f.items()}


# ------------------------------------------------------------------------------------------------
NEAR = {(1, 2): 6.0, (1, 3): 6.5, (2, 3): 7.0}
FAR = {(1, 2): 10.0, (1, 3): 10.5, (2, 3): 11.0}
CVAL = {"above": {(1, 2): 3.0, (1, 3): -4.5, (2, 3): 6.25, (1, 4): -2.5, (2, 4): 8.0, (3, 4): 2.000001},
        "equal": {(1, 2): 2.0, (1, 3): -2.0, (2, 3): 2.0, (1, 4): -2.0, (2, 4): 2.0, (3, 4): -2.0},
        "below": {(1, 2): 0.5, (1, 3): -1.25, (2, 3): 1.5, (1, 4): 1.999999, (2, 4): -0.001, (3, 4): 1e-12}}
C_CUTOFF = 2.0


def realise(sc: dict, rng) -> dict | None:
    """Real inputs realising a model scenario (N = 3 from TLC; N = 4 generated here)."""
    n = sc["N"]
    spec: dict[str, Any] = {"N": n, "htype": sc["htype"], "backend": sc["backend"], "mask": sorted(sc["mask"])}
    if sc["custom"]:
        m = [[0.0] * n for _ in range(n)]
        for u in upairs(n):
            v = CVAL[sc["cls"][u]][u]
            m[u[0] - 1][u[1] - 1] = m[u[1] - 1][u[0] - 1] = v
        spec["custom"] = m
        spec["cutoff"] = C_CUTOFF
        spec["coords"] = [[7.0 * i, 1.5 * (i % 2)] for i in range(n)]
    else:
        spec["custom"] = None
        if n == 3:
            d = {u: (FAR if sc["cls"][u] == "below" else NEAR)[u] for u in upairs(3)}
            x = (d[(1, 3)] ** 2 + d[(1, 2)] ** 2 - d[(2, 3)] ** 2) / (2 * d[(1, 2)])
            y = math.sqrt(d[(1, 3)] ** 2 - x * x)
            spec["coords"] = [[0.0, 0.0], [d[(1, 2)], 0.0], [round(x, 3), round(y, 3)]]   # pulser stores coordinates with 6 decimals
        else:
            spec["coords"] = sc["coords"]
        spec["cutoff"] = None      # chosen by the worker between the classes, from the reference matrix
        spec["below"] = [list(u) for u in upairs(n) if sc["cls"][u] == "below"]
        spec["cut_choice"] = rng.random()
    e = sc["slmEnd"]
    if not sc["mask"]:
        spec["pulses"] = [30, 30]
    elif e == 6:
        spec["pulses"] = [60]
    else:
        spec["pulses"] = [e * TICK_NS, 60 - e * TICK_NS]
    spec["dt"] = 20.0
    spec["eval"] = sorted({t / 6 for t in sc["T"] if t % 2 == 1} | {1.0})   # off-grid target times come from evaluation times
    spec["slm_end"] = float(e * TICK_NS)
    return spec


def ref_matrix(coords: list, htype: str) -> list[list[float]]:
    import pulser

    n = len(coords)
    c = pulser.MockDevice.interaction_coeff if htype == "ising" else pulser.MockDevice.interaction_coeff_xy
    k = 6 if htype == "ising" else 3
    U = [[0.0] * n for _ in range(n)]
    for i in range(n):
        for j in range(n):
            if i != j:
                r = math.hypot(coords[i][0] - coords[j][0], coords[i][1] - coords[j][1])
                U[i][j] = c / r ** k
    return U


def build(spec: dict):
    import pulser

    reg = pulser.Register({f"q{i}": c for i, c in enumerate(spec["coords"])})
    seq = pulser.Sequence(reg, pulser.MockDevice)
    xy = spec["htype"] == "xy"
    seq.declare_channel("ch", "mw_global" if xy else "rydberg_global")
    if spec["mask"]:
        seq.config_slm_mask([f"q{i - 1}" for i in spec["mask"]])
    for d in spec["pulses"]:
        seq.add(pulser.Pulse.ConstantPulse(d, 1.5, 0.0 if xy else 0.5, 0.0), "ch")
    return seq


def imat_case(spec: dict) -> dict:
    import warnings

    import numpy as np
    import torch
    from pulser.backend import Occupation

    from emu_base import _verif
    from emu_base.pulser_adapter import PulserData

    torch.manual_seed(0)
    out: dict[str, Any] = {"id": spec["id"]}
    try:
        seq = build(spec)
        U = ref_matrix(spec["coords"], spec["htype"])
        cutoff = spec["cutoff"]
        if cutoff is None:
            below = [abs(U[a - 1][b - 1]) for a, b in spec["below"]]
            above = [abs(U[i][j]) for i in range(spec["N"]) for j in range(i + 1, spec["N"]) if [i + 1, j + 1] not in spec["below"]]
            if below and above:
                if max(below) >= min(above) * 0.999:
                    out["invalid"] = "classes not realisable by one cutoff"
                    return out
                cutoff = math.sqrt(max(below) * min(above))
            elif below:
                cutoff = 2.0 * max(below)
            else:
                cutoff = 0.0 if spec["cut_choice"] < 0.5 else 0.5 * min(above)
        out["cutoff"] = cutoff
        out["U"] = U
        kw: dict[str, Any] = {}
        if spec["custom"] is not None:
            kw["interaction_matrix"] = np.array(spec["custom"])
        obs = [Occupation(evaluation_times=spec.get("eval", [1.0]))]
        with warnings.catch_warnings():
            warnings.simplefilter("ignore")
            if spec["backend"] == "sv":
                from emu_sv import SVBackend, SVConfig

                cfg = SVConfig(dt=spec["dt"], observables=obs, interaction_cutoff=cutoff, log_level=100, **kw)
                be = SVBackend(seq, config=cfg)
            else:
                from emu_mps import MPSBackend, MPSConfig

                cfg = MPSConfig(dt=spec["dt"], observables=obs, interaction_cutoff=cutoff, log_level=100, optimize_qubit_ordering=False, **kw)
                be = MPSBackend(seq, config=cfg)
    except Exception as ex:
        out["invalid"] = f"{type(ex).__name__}: {ex}"[:300]
        return out
    # ---- direct queries
    try:
        with warnings.catch_warnings():
            warnings.simplefilter("ignore")
            pd = PulserData(sequence=seq, config=cfg, dt=spec["dt"])
            sds = list(pd.get_sequences())
        sd = sds[0]
        out["slm_end_code"] = float(pd.slm_end_time)
        out["T"] = [float(t) for t in sd.target_times]
        traj = next(iter(pd.hamiltonian.noisy_samples)).trajectory.interaction_matrix.as_tensor()
        out["pulser"] = (traj[0] if traj.ndim == 3 else traj).tolist()
        e = spec["slm_end"]
        D = out["T"][-1]
        qt = [0.0, D / 7, D, D + 5.0, 0.5 * D + 0.123]
        if e > 0:
            qt += [0.5 * e, e - 1e-9, e, e + 1e-9, math.nextafter(e, 0.0), math.nextafter(e, 1e9)]
        out["direct"] = [[t, sd.interaction_matrix(t).tolist()] for t in sorted(set(qt))]
        # the callable must not hand out its internal storage in a way that lets one query change another
        out["direct_again"] = [[t, sd.interaction_matrix(t).tolist()] for t in sorted(set(qt))]
    except Exception as ex:
        out["direct_raises"] = f"{type(ex).__name__}: {ex}"[:300]
    # ---- run
    ev: list = []
    _verif.set_sink(ev)
    try:
        with warnings.catch_warnings():
            warnings.simplefilter("ignore")
            be.run()
    except Exception as ex:
        out["raises"] = f"{type(ex).__name__}: {ex}"[:300]
    finally:
        _verif.set_sink(None)
    steps = []
    if spec["backend"] == "sv":
        mats = [e["matrix"] for e in ev if e["ev"] == "sv_step"]
        evo = [e for e in ev if e["ev"] == "sv_evolve"]
        for m, e in zip(mats, evo):
            steps.append({"k": e["k"], "dt": float(e["dt"]), "tq": float(e["tq"]), "matrix": m})
        out["n_sv_step"] = len(mats)
        out["n_sv_evolve"] = len(evo)
    else:
        cur = None
        lastq = None
        open_ = None
        for e in ev:
            if e["ev"] == "h_make":
                cur = e["matrix"]
            elif e["ev"] == "mps_imat":
                lastq = float(e["tq"])
            elif e["ev"] == "mps_init":
                open_ = {"a": float(e["cur"]), "b": float(e["tgt"]), "tq": lastq, "matrix": cur}
            elif e["ev"] == "mps_step_done":
                if open_ is not None:
                    steps.append(open_)
                open_ = None if e["finished"] else {"a": float(e["cur"]), "b": float(e["tgt"]), "tq": lastq, "matrix": cur}
    out["steps"] = steps
    out["n_events"] = len(ev)
    return out


def diag_case(spec: dict) -> dict:
    """Same run with and without a diagonal in the user matrix."""
    import warnings

    import numpy as np
    import torch
    from pulser.backend import CorrelationMatrix, Occupation

    out: dict[str, Any] = {"id": spec["id"]}
    vals = []
    try:
        for with_diag in (False, True):
            torch.manual_seed(0)
            seq = build(spec)
            m = np.array(spec["custom"], dtype=float)
            if with_diag:
                m = m + np.diag(spec["diag"])
            obs = [Occupation(evaluation_times=[0.5, 1.0]), CorrelationMatrix(evaluation_times=[1.0])]
            with warnings.catch_warnings():
                warnings.simplefilter("ignore")
                if spec["backend"] == "sv":
                    from emu_sv import SVBackend, SVConfig

                    res = SVBackend(seq, config=SVConfig(dt=spec["dt"], observables=obs, interaction_matrix=m, interaction_cutoff=spec["cutoff"], log_level=100)).run()
                else:
                    from emu_mps import MPSBackend, MPSConfig

                    res = MPSBackend(seq, config=MPSConfig(dt=spec["dt"], observables=obs, interaction_matrix=m, interaction_cutoff=spec["cutoff"], log_level=100)).run()
            vals.append([float(np.real(x)) for t in (0.5, 1.0) for x in np.asarray(res.get_result("occupation", t)).reshape(-1)]
                        + [float(np.real(x)) for x in np.asarray(res.get_result("correlation_matrix", 1.0)).reshape(-1)])
        out["diff"] = max(abs(a - b) for a, b in zip(*vals))
        out["scale"] = max(abs(a) for a in vals[0])
    except Exception as ex:
        out["raises"] = f"{type(ex).__name__}: {ex}"[:300]
    return out


# ------------------------------------------------------------------------------------------------
def numeric(sym: tuple, spec: dict, res: dict) -> float:
    kind, i, j = sym
    if kind == "z":
        return 0.0
    if kind == "c":
        return float(spec["custom"][i - 1][j - 1])
    return float(res["U"][i - 1][j - 1])


def compare(exp: dict, got: list, sc: dict, spec: dict, res: dict, phase: str) -> list[tuple[str, Any]]:
    """Entry-wise comparison of a real matrix with the prescribed symbolic one -> [(reason, witness)]."""
    n = sc["N"]
    bad = []
    if len(got) != n or any(len(r) != n for r in got):
        return [("wrong-shape", [len(got)])]
    for i in range(1, n + 1):
        if got[i - 1][i - 1] != 0.0:
            bad.append(("diagonal-nonzero", [i, got[i - 1][i - 1]]))
        for j in range(1, n + 1):
            if i == j:
                continue
            if got[i - 1][j - 1] != got[j - 1][i - 1]:
                bad.append(("asymmetric", [i, j, got[i - 1][j - 1], got[j - 1][i - 1]]))
            e = exp[(i, j)]
            g = got[i - 1][j - 1]
            u = (min(i, j), max(i, j))
            cls = sc["cls"][u]
            if e[0] == "z":
                if g != 0.0:
                    reason = "below-cutoff-entry-kept" if cls == "below" else "masked-entry-not-zero"
                    bad.append((reason, [i, j, g]))
                continue
            want = numeric(e, spec, res)
            if e[0] == "c":
                ok = g == want                      # "unchanged": bit for bit
            else:
                # pulser rounds DISTANCES to 6 decimals (<= 1e-6 relative on C/r^6 for r >= 4 um): reference within 1e-5,
                # and exactly the number pulser's own trajectory matrix holds ("unchanged")
                ok = abs(g - want) <= 1e-5 * abs(want) and g == res["pulser"][i - 1][j - 1]
            if not ok:
                if g == 0.0:
                    masked_atom = i in sc["mask"] or j in sc["mask"]
                    reason = ("masked-entry-zero-after-slm-end" if masked_atom and phase == "full" else
                              "entry-equal-to-cutoff-zeroed" if cls == "equal" else "entry-above-cutoff-zeroed")
                else:
                    other = res["U"][i - 1][j - 1] if e[0] == "c" else (spec["custom"][i - 1][j - 1] if spec["custom"] else None)
                    reason = "wrong-source" if other is not None and abs(g - other) <= 1e-5 * abs(other) else "entry-changed"
                bad.append((reason, [i, j, g, want]))
    return bad


PRIORITY = ["wrong-shape", "asymmetric", "diagonal-nonzero", "wrong-source", "entry-changed", "below-cutoff-entry-kept", "entry-equal-to-cutoff-zeroed",
            "entry-above-cutoff-zeroed", "masked-entry-not-zero", "masked-entry-zero-after-slm-end"]


def main_reason(bad: list, sc: dict) -> str:
    """One canonical reason per wrong matrix: entries of pairs WITHOUT a masked atom are judged first
    (they separate source / cutoff faults from SLM faults)."""
    unmasked = [b for b in bad if len(b[1]) >= 2 and b[1][0] not in sc["mask"] and b[1][1] not in sc["mask"]]
    pool = unmasked or bad
    for r in PRIORITY:
        if any(b[0] == r for b in pool):
            return r
    return pool[0][0]


class Reporter:
    CAP = 3

    def __init__(self, ctx: Ctx):
        self.ctx = ctx
        self.counts: dict[str, int] = {}

    def violation(self, key: str, what: str, replay: Any) -> None:
        self.counts[key] = self.counts.get(key, 0) + 1
        if self.counts[key] <= self.CAP:
            self.ctx.violation(key, what, replay)


def sc_key(sc: dict) -> str:
    return json.dumps([sc["N"], sc["custom"], sc["htype"], sorted((list(k), v) for k, v in sc["cls"].items()), sorted(sc["mask"]), sc["slmEnd"], sc["backend"], list(sc["T"])])


def register_noise_cases(ctx: Ctx, count: int) -> None:
    """Register (position) noise: every noise trajectory has its own shaken register, and without a user matrix the
    interaction matrix of trajectory k must come from THAT register (then cutoff, then SLM mask).  Pulser's per-trajectory
    matrix is the trusted source of the shaken geometry."""
    import numpy as np
    import pulser
    import torch
    from emu_base.pulser_adapter import PulserData
    from emu_sv import SVConfig
    from pulser.backend import Occupation
    from pulser.devices import MockDevice
    from pulser.noise_model import NoiseModel

    rng = ctx.rng
    for c in range(count):
        n = rng.choice([3, 4, 5])
        xy = c % 2 == 1
        coords = [(6.5 * i + rng.uniform(-0.4, 0.4), rng.uniform(-0.4, 0.4) + (5.5 if i % 2 else 0.0)) for i in range(n)]
        reg = pulser.Register.from_coordinates(coords, prefix="q")
        seq = pulser.Sequence(reg, MockDevice)
        seq.declare_channel("ch", "mw_global" if xy else "rydberg_global")
        masked = sorted(rng.sample(range(n), rng.randint(0, n - 1)))
        if masked:
            seq.config_slm_mask([f"q{j}" for j in masked])
        seq.add(pulser.Pulse.ConstantPulse(100, 3.0, 0.0, 0.0), "ch")
        seq.add(pulser.Pulse.ConstantPulse(100, 3.0, 1.0, 0.0), "ch")
        ntraj = rng.choice([2, 3, 4])
        cutoff = rng.choice([0.0, 0.0, 1.0, 5.0])
        noise = NoiseModel(temperature=rng.choice([30.0, 50.0]), trap_waist=1.0, trap_depth=150.0, disable_doppler=True)
        np.random.seed(ctx.seed * 1009 + c)
        torch.manual_seed(ctx.seed * 1009 + c)
        try:
            cfg = SVConfig(dt=10, observables=[Occupation(evaluation_times=[1.0])], noise_model=noise, n_trajectories=ntraj, interaction_cutoff=cutoff, log_level=100)
            data = PulserData(sequence=seq, config=cfg, dt=10)
            trajs = []
            for smp in data.hamiltonian.noisy_samples:
                trajs += [smp.trajectory] * smp.reps
            sds = list(data.get_sequences())
        except Exception as ex:   # pulser API of another version: nothing to decide
            ctx.notes.append(f"register-noise case {c} could not be built: {type(ex).__name__}: {ex}")
            continue
        slm_end = float(seq._slm_mask_time[1]) if masked and len(seq._slm_mask_time) > 1 else 0.0
        wants = []
        for tr in trajs:
            m = torch.as_tensor(tr.interaction_matrix.as_tensor(), dtype=torch.float64)
            m = (m[0] if m.ndim == 3 else m).clone()
            m[m.abs() < cutoff] = 0.0
            wants.append(m)
        distinct = len({tuple(np.round(w.flatten().tolist(), 9)) for w in wants})
        ctx.case(("register-noise", c, n, xy, tuple(masked), cutoff, ntraj), nontrivial=distinct > 1,
                 sample={"register_noise": True, "n": n, "xy": xy, "masked": masked, "cutoff": cutoff, "trajectories": ntraj, "distinct_matrices": distinct})
        if len(sds) != len(trajs):
            continue    # the number of simulated trajectories is C21's / C34's subject
        for k, (sd, want_full) in enumerate(zip(sds, wants)):
            want_masked = want_full.clone()
            for j in masked:
                want_masked[j, :] = 0.0
                want_masked[:, j] = 0.0
            for t in ([0.0, 0.5 * slm_end] if slm_end > 0 else []) + [slm_end + 5.0, 195.0]:
                want = want_masked if t < slm_end else want_full
                got = torch.as_tensor(sd.interaction_matrix(t), dtype=torch.float64)
                ok = got.shape == want.shape and torch.equal(got, got.T) and not bool(got.diagonal().any()) and torch.allclose(got, want, rtol=1e-9, atol=1e-12)
                if not ok:
                    other = [k2 for k2, w2 in enumerate(wants) if k2 != k and got.shape == w2.shape and torch.allclose(got if t >= slm_end else got, (w2 if t >= slm_end else got), rtol=1e-9, atol=1e-12)]
                    ctx.violation("imat:register-noise:trajectory-matrix-not-from-its-own-register",
                                  f"{'XY' if xy else 'ising'} {n} atoms, trajectory {k} of {ntraj}, t={t}: the interaction matrix is not the one of this trajectory's (shaken) register after cutoff {cutoff} and mask {masked}",
                                  {"coords": coords, "xy": xy, "masked": masked, "cutoff": cutoff, "n_trajectories": ntraj, "trajectory": k, "t": t,
                                   "got": got.tolist(), "want": want.tolist(), "seed": ctx.seed * 1009 + c})
                    break


def run(ctx: Ctx) -> None:
    ctx.level = "model_checking"
    rep = Reporter(ctx)
    ctx.assumptions += [
        "entries are modelled by their magnitude class relative to the cutoff; the numbers come from the independent reference (C6/r^6, C3/r^3 with the device coefficients, default magnetic field) and from the user matrix",
        "pulser Register / Sequence.config_slm_mask / _slm_mask_time / HamiltonianData trajectory matrix are trusted; register noise: per-trajectory matrices against Pulser's own shaken-register matrix",
        "the diagonal is not modelled: register matrices must have an exactly zero diagonal, a diagonal in a user matrix must be without effect on both backends",
        "a step that straddles the SLM end may use either matrix; a direct query at exactly the SLM end is not decided (the step-level requirement decides what the backends need)",
        "hooks sv_step (matrix handed to the stepper), sv_evolve, mps_imat, h_make, mps_init, mps_step_done",
    ]
    procs = int(os.environ.get("VERIF_PROCS", "16"))
    rng = ctx.rng

    # ---------------------------------------------------------------- (1) TLC
    r = run_tlc("MCInteraction", None, workdir=ctx.work, name="code_n3", workers=WORKERS, coverage=True, cfg_text=cfg_text(3, "cScn", "code", True))
    ctx.add_tlc(r)
    if r["violated"]:
        ctx.notes.append(f"Interaction.tla (code) violates {r['violated']}")
    zero = [a for a in (r.get("coverage_zero") or []) if a in ("Pick", "TakeSource", "ApplyCutoff", "ApplyMask", "Step", "Advance", "NextTrajectory")]
    if zero:
        ctx.notes.append(f"actions never taken: {zero}")
    model: dict[str, dict] = {}
    for t in printed_tuples(r["out"], "I"):
        _, custom, htype, cls, mask, slm_end, backend, tt, k, tq2, used, efull, emasked = t
        clsd = {tuple(json.loads(kk)): v for kk, v in cls["__fn__"].items()}
        sc = {"N": 3, "custom": custom, "htype": htype, "cls": clsd, "mask": set(mask["__set__"]), "slmEnd": slm_end, "backend": backend, "T": list(tt)}
        key = sc_key(sc)
        m = model.setdefault(key, {"sc": sc, "steps": {}})
        m["steps"][k] = (tq2, used)
        m["efull"] = {tuple(json.loads(kk)): tuple(v) for kk, v in efull["__fn__"].items()}
        m["emasked"] = {tuple(json.loads(kk)): tuple(v) for kk, v in emasked["__fn__"].items()}
    if len(model) < 6000:
        raise MachineryError(f"only {len(model)} scenarios printed by TLC")
    for m in model.values():   # the python twin of the requirement operators must agree with TLC
        if exp_full(m["sc"]) != m["efull"] or exp_masked(m["sc"]) != m["emasked"]:
            raise MachineryError(f"python twin of ExpFull / ExpMasked disagrees with TLC on {m['sc']}")
    ctx.log(f"TLC code N=3: {r['distinct']} states, {len(model)} scenarios, violated={r['violated']}")
    mutants = {}
    for v in ("cut_le", "slm_le", "rows", "cache_first"):
        rm = run_tlc("MCInteraction", None, workdir=ctx.work, name=f"mutant_{v}", workers=WORKERS, cfg_text=cfg_text(3, "cScn", v, False))
        ctx.add_tlc(rm)
        mutants[v] = [x[1] for x in rm["violated"]]
        if not rm["violated"]:
            ctx.notes.append(f"vacuity: the requirement of Interaction.tla does not reject the seeded mechanism mutant {v}")
    ctx.coverage["spec_mutants_rejected_by"] = mutants
    if not ctx.quick:
        r4 = run_tlc("MCInteraction", None, workdir=ctx.work, name="code_n4", workers=WORKERS, cfg_text=cfg_text(4, "cScn4", "code", False), timeout=3000)
        ctx.add_tlc(r4)
        ctx.log(f"TLC code N=4: {r4['distinct']} states, violated={r4['violated']}")
        if r4["violated"]:
            ctx.notes.append(f"Interaction.tla N=4 violates {r4['violated']}")

    # ---------------------------------------------------------------- (2)+(3) real code
    keys = sorted(model)
    order = list(range(len(keys)))
    rng.shuffle(order)
    n3 = ctx.pick(900, len(keys))
    chosen = []
    # every mps scenario costs ~0.5 s: quick takes a third of them
    for i in order:
        sc = model[keys[i]]["sc"]
        if len(chosen) >= n3:
            break
        if ctx.quick and sc["backend"] == "mps" and rng.random() < 0.6:
            continue
        chosen.append(keys[i])
    cases = []
    for kk in chosen:
        sc = model[kk]["sc"]
        sp = realise(sc, rng)
        cases.append((sc, sp, kk))
    # N = 4: generated here (random geometry or user matrix), requirement from the python twin
    n4_target = len(cases) + ctx.pick(120, 1500)
    for _ in range(20000):
        if len(cases) >= n4_target:
            break
        custom = rng.random() < 0.5
        up = upairs(4)
        coords = [[round(rng.uniform(0, 14), 3), round(rng.uniform(0, 14), 3)] for _ in range(4)]
        if min(math.hypot(a[0] - b[0], a[1] - b[1]) for a, b in itertools.combinations(coords, 2)) < 4.5:
            continue
        htype = rng.choice(["ising", "xy"])
        if custom:
            cls = {u: rng.choice(["below", "equal", "above"]) for u in up}
        else:
            U = ref_matrix(coords, htype)
            mags = sorted(U[a - 1][b - 1] for a, b in up)
            nb = rng.randint(0, 6)
            if 0 < nb < 6 and mags[nb - 1] >= 0.98 * mags[nb]:
                continue
            thr = -1.0 if nb == 0 else mags[nb - 1]
            cls = {u: ("below" if U[u[0] - 1][u[1] - 1] <= thr else "above") for u in up}
        mask = set(a for a in range(1, 5) if rng.random() < 0.4)
        sc = {"N": 4, "custom": custom, "htype": htype, "cls": cls, "mask": mask, "slmEnd": rng.choice([2, 3, 6]) if mask else 0,
              "backend": "sv" if rng.random() < 0.75 else "mps", "coords": coords, "T": rng.choice([T_REGULAR, T_IRREGULAR])}
        cases.append((sc, realise(sc, rng), None))
    for i, (sc, sp, kk) in enumerate(cases):
        sp["id"] = i + 1
    ctx.log(f"{len(cases)} real scenarios ({sum(1 for c in cases if c[0]['backend'] == 'mps')} mps)")
    results = pmap(imat_case, [c[1] for c in cases], procs=procs, chunksize=4)

    n_direct = n_steps = n_invalid = 0
    at_end = {"masked": 0, "full": 0, "other": 0}
    drift_steps = 0
    undecided_runs: dict[str, int] = {}
    sv_refuses_xy = 0
    tq_outside = 0
    margins = 0.0
    for (sc, spec, kk), res in zip(cases, results):
        if "invalid" in res:
            n_invalid += 1
            continue
        ef, em = exp_full(sc), exp_masked(sc)
        e_ns = float(sc["slmEnd"] * TICK_NS)
        pub = {"N": sc["N"], "htype": sc["htype"], "backend": sc["backend"], "custom": spec["custom"], "cutoff": res.get("cutoff"), "coords": spec["coords"],
               "slm_mask": [f"q{i - 1}" for i in sorted(sc["mask"])], "pulses_ns": spec["pulses"], "dt": spec["dt"], "classes": {f"{k[0]}-{k[1]}": v for k, v in sc["cls"].items()}}
        ctx.case(("scn", sc_key(sc) if kk else json.dumps([pub["coords"], pub["custom"], pub["slm_mask"], pub["pulses_ns"], pub["htype"], pub["backend"]])),
                 nontrivial=True, sample={"scenario": pub, "direct_t0": (res.get("direct") or [[None, None]])[0][1]})
        if "direct_raises" in res:
            rep.violation("direct:raises:" + res["direct_raises"].split(":")[0], "PulserData / get_sequences raises on a valid input: " + res["direct_raises"], {"scenario": pub})
        else:
            if abs(res["slm_end_code"] - e_ns) > 0:
                # the SLM end the code works with differs from Pulser's schedule
                rep.violation("slm-end-time-wrong", f"PulserData.slm_end_time = {res['slm_end_code']} but the mask ends at {e_ns}", {"scenario": pub})
            if len(res["T"]) != len(sc["T"]) or any(abs(x - t * TICK_NS) > 1e-9 for x, t in zip(res["T"], sc["T"])):
                raise MachineryError(f"the scenario was meant to have target times {[t * TICK_NS for t in sc['T']]}, the real ones are {res['T']} (C21 decides the grid)")
            if res["direct"] != res["direct_again"]:
                rep.violation("direct:query-not-repeatable", "two identical queries of SequenceData.interaction_matrix return different matrices", {"scenario": pub})
            for t, got in res["direct"]:
                n_direct += 1
                if t < e_ns:
                    exp, phase = em, "masked"
                elif t > e_ns:
                    exp, phase = ef, "full"
                else:
                    which = "masked" if not compare(em, got, sc, spec, res, "masked") else "full" if not compare(ef, got, sc, spec, res, "full") else "other"
                    if em != ef:
                        at_end[which] += 1
                    if which == "other":
                        rep.violation("direct:neither-masked-nor-full-at-slm-end", "at the SLM end the matrix is neither the masked nor the full one", {"scenario": pub, "t": t, "got": got})
                    continue
                bad = compare(exp, got, sc, spec, res, phase)
                if bad:
                    other_ok = em != ef and not compare(ef if phase == "masked" else em, got, sc, spec, res, "full" if phase == "masked" else "masked")
                    reason = ("full-matrix-before-slm-end" if phase == "masked" else "masked-matrix-after-slm-end") if other_ok else main_reason(bad, sc)
                    rep.violation(f"direct:{reason}", f"SequenceData.interaction_matrix({t!r}) ({phase} phase, SLM end {e_ns}): {reason}: {bad[:4]}",
                                  {"scenario": pub, "t": t, "got": got, "expected_symbolic": {f"{p[0]},{p[1]}": list(v) for p, v in exp.items()}, "reference_register_matrix": res["U"]})
        # ---- steps
        if "raises" in res:
            if sc["htype"] == "xy" and sc["backend"] == "sv" and res["raises"].startswith("NotImplementedError"):
                sv_refuses_xy += 1      # emu-sv does not emulate XY sequences (C04): only the direct queries apply
            else:
                undecided_runs[res["raises"][:80]] = undecided_runs.get(res["raises"][:80], 0) + 1
            continue
        steps = res["steps"]
        tns = [float(t * TICK_NS) for t in sc["T"]]
        if len(steps) != len(tns) - 1:
            raise MachineryError(f"{len(steps)} steps recorded for {pub} (hooks sv_step / sv_evolve / h_make / mps_step_done missing?)")
        names = []
        for i, st in enumerate(steps):
            a, b = tns[i], tns[i + 1]       # the i-th matrix handed to the stepper / MPO belongs to the i-th interval of the grid
            n_steps += 1
            fam = sc["backend"]
            if st["tq"] is None or st["matrix"] is None:
                raise MachineryError(f"step without query time / matrix in {pub}")
            if not (a <= st["tq"] <= b):
                # the hooks compute this time themselves (it is not the value handed to the callable): drift indicator only,
                # the verdict is taken from the matrix at the point of use below
                tq_outside += 1
            bm = compare(em, st["matrix"], sc, spec, res, "masked")
            bf = compare(ef, st["matrix"], sc, spec, res, "full")
            name = "both" if not bm and not bf else "masked" if not bm else "full" if not bf else "other"
            names.append(name)
            need = "masked" if b <= e_ns else "full" if a >= e_ns else "either"
            ok = name != "other" and (need == "either" or name in (need, "both"))
            if not ok:
                if name in ("masked", "full"):
                    reason = "full-matrix-before-slm-end" if need == "masked" else "masked-matrix-after-slm-end"
                else:
                    reason = main_reason(bm if need == "masked" else bf if need == "full" else (bm if len(bm) <= len(bf) else bf), sc)
                rep.violation(f"step:{fam}:{reason}", f"step {i} [{a},{b}] of {fam} (SLM end {e_ns}, query at {st['tq']}) uses a matrix that is not the {need} one: {reason}",
                              {"scenario": pub, "step": i, "used": st["matrix"], "tq": st["tq"]})
        if kk is not None:
            ms = model[kk]["steps"]
            mnames = [ms[i + 1][1] for i in range(len(tns) - 1)]
            mtq = [ms[i + 1][0] * TICK_NS / 2 for i in range(len(tns) - 1)]
            if names != mnames or [st["tq"] for st in steps] != mtq:
                drift_steps += 1
                if drift_steps <= 3:
                    ctx.model_drift(f"{sc['backend']} steps use {names} at {[st['tq'] for st in steps]}; the model says {mnames} at {mtq} (scenario {pub['slm_mask']}, end {e_ns})")
            ctx.traces_validated += 1
    ctx.coverage["binding"] = {"scenarios": len(cases) - n_invalid, "direct_queries": n_direct, "steps_checked": n_steps, "not_realisable": n_invalid,
                               "direct_query_exactly_at_slm_end_returns": at_end, "step_sequences_differing_from_model": drift_steps,
                               "runs_raising_undecided": undecided_runs, "xy_scenarios_refused_by_emu_sv": sv_refuses_xy,
                               "hook_query_times_outside_own_step": tq_outside,
                               "irregular_grid_scenarios": sum(1 for c in cases if len(c[0]["T"]) > 4)}
    if tq_outside:
        ctx.model_drift(f"{tq_outside} steps whose hook-reported query time lies outside the step")
    if undecided_runs:
        ctx.notes.append(f"runs that raise (their steps are not decided here): {undecided_runs}")
    ctx.log(f"binding: {ctx.coverage['binding']}")
    if n_direct < 1000 or n_steps < 300:
        raise MachineryError(f"too little observed: {n_direct} direct queries, {n_steps} steps")

    # ---------------------------------------------------------------- user matrix with a diagonal
    dspecs = []
    for j in range(ctx.pick(6, 30)):
        n = 3
        m = [[0.0] * n for _ in range(n)]
        for u in upairs(n):
            m[u[0] - 1][u[1] - 1] = m[u[1] - 1][u[0] - 1] = rng.choice([1, -1]) * rng.uniform(0.5, 9.0)
        dspecs.append({"id": j + 1, "N": n, "htype": "ising", "backend": "sv" if j % 2 == 0 else "mps", "mask": [], "custom": m, "diag": [rng.uniform(-20, 20) for _ in range(n)],
                       "cutoff": rng.choice([0.0, 1.0]), "coords": [[7.0 * i, 0.0] for i in range(n)], "pulses": [60], "dt": 20.0})
    dres = pmap(diag_case, dspecs, procs=procs)
    worst = 0.0
    for sp, rr in zip(dspecs, dres):
        if "raises" in rr:
            ctx.notes.append(f"diagonal case raises: {rr['raises']}")
            continue
        ctx.case(("diag", sp["backend"], json.dumps(sp["custom"]), json.dumps(sp["diag"])), nontrivial=True)
        tol = 1e-9 if sp["backend"] == "sv" else 1e-6
        worst = max(worst, rr["diff"] / tol)
        if rr["diff"] > tol:
            rep.violation(f"user-matrix-diagonal-has-effect:{sp['backend']}", f"a diagonal in the user interaction matrix changes the results of {sp['backend']} by {rr['diff']}", {"spec": sp})
    ctx.coverage["diagonal_effect_worst_margin"] = worst
    ctx.coverage["violations_per_key"] = dict(rep.counts)
    register_noise_cases(ctx, ctx.pick(12, 80))
    ctx.coverage["rule"] = ("one case per realised scenario: (N, user matrix or register, interaction type, magnitude class of every pair, SLM mask subset, SLM end position, backend); "
                            "N = 3: scenarios enumerated by TLC (all in the thorough tier), N = 4: random geometry / user matrices judged by the python twin of the requirement; "
                            "each case = 5..11 direct queries + 3 backend steps")
    ctx.coverage["exhaustive"] = not ctx.quick
