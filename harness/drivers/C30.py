"""C30 - emu-sv gradients equal finite differences of the emulated results and are finite.

(1) TLC: PchipGrad.tla - abstract-domain reading {NEG, ZERO, POS, PINF, NINF, NAN} of the forward and the
    reverse (autograd) pass of the PCHIP slope computation, one instruction per arithmetic node, all sign
    patterns of the neighbouring secants x upstream gradient; requirement GradFinite / ForwardFinite.
    Mechanisms: "interior-code" (as written), "interior-guarded" (candidate repair), "end" (end slopes).
(2) Binding A: every abstract pattern is concretised (several magnitudes, uniform / non-uniform widths,
    incl. the exact-cancellation pair) and run through the real `_pchip_derivatives` with torch.autograd;
    the real outcome must be among the outcomes TLC enumerated for that pattern (which mechanism the code
    follows is identified that way); the REQUIREMENT (finite; equal to finite differences wherever the
    interpolant is differentiable in the probed direction) is evaluated on the real PCHIP1D.
(3) Exploration (binding B): gradients of losses through single EvolveStateVector steps, through real emu-sv
    runs (per-step omega / delta / phi rows, interaction matrix, initial state) and through Pulser
    sequences whose waveform parameters are torch tensors, against Richardson-extrapolated central finite
    differences of the SAME real forward computation.  1-6 atoms, zero / non-zero / mixed phases,
    occupation / correlation / energy / state losses at final and intermediate times.
"""
from __future__ import annotations

import json
import logging
import math

from harness.core import Ctx, MachineryError
from harness.pool import pmap
from harness.tlc import printed_tuples, run_tlc

FIN = ("NEG", "ZERO", "POS")
PROGS = ["interior-code", "interior-guarded", "end", "end-standard"]


def cfg_text(which: str, inv: bool, log: bool) -> str:
    t = f"""SPECIFICATION Spec
CONSTANTS
  Which = "{which}"
  LogCases = {"TRUE" if log else "FALSE"}
"""
    if inv:
        t += "INVARIANT ForwardFinite\nINVARIANT GradFinite\n"
    if log:
        t += "ACTION_CONSTRAINT LogStep\n"
    return t


def abstract(v: float) -> str:
    if v != v:
        return "NAN"
    if v == float("inf"):
        return "PINF"
    if v == float("-inf"):
        return "NINF"
    return "POS" if v > 0 else "NEG" if v < 0 else "ZERO"


# ----------------------------------------------------------------------------------- (2) PCHIP level
CONC = {"NEG": [-1.0, -0.4], "ZERO": [0.0], "POS": [1.0, 2.5]}
WIDTHS = [(1.0, 1.0), (1.0, 2.0), (0.5, 3.0)]


def concretise(a: str, b: str) -> list:
    out = []
    for hl, hr in WIDTHS:
        for x in CONC[a]:
            for y in CONC[b]:
                out.append((x, y, hl, hr))
    if {a, b} == {"NEG", "POS"}:  # exact cancellation w_l/dl + w_r/dr = 0
        s = 1.0 if a == "POS" else -1.0
        out += [(s * 1.0, -s * 1.0, 1.0, 1.0), (s * 5.0, -s * 4.0, 1.0, 2.0), (s * 2.0, -s * 2.0, 3.0, 3.0)]
    return out


def real_slope_grad(kind: str, dl: float, dr: float, hl: float, hr: float, g: float):
    """Real _pchip_derivatives on 3 knots; gradient of g * d[node] w.r.t. the two secants."""
    import torch
    from emu_base.math import pchip_torch as pt

    delta = torch.tensor([dl, dr], dtype=torch.float64, requires_grad=True)
    h = torch.tensor([hl, hr], dtype=torch.float64)
    if kind == "interior":
        node = pt._pchip_derivatives(h, delta)[1]
    else:  # the end node in isolation (through _pchip_derivatives it shares the graph with the interior node)
        node = pt._limit_endpoint(pt._endpoint_slope(delta[0], delta[1], h[0], h[1]), delta[0], delta[1])
    (gr,) = torch.autograd.grad(node, delta, grad_outputs=torch.tensor(g, dtype=torch.float64), allow_unused=True)
    if gr is None:
        gr = torch.zeros(2, dtype=torch.float64)
    return float(node), float(gr[0]), float(gr[1])


def pchip_fd_cases(rng) -> list:
    """(name, x, y, queries, direction) for the value-level AD-vs-FD comparison on the real PCHIP1D."""
    cases = []
    for name, y in [("flat-run", [0.0, 1.0, 1.0, 1.0, 2.0, 3.0]), ("constant", [2.0] * 6), ("symmetric-peak", [0.0, 1.0, 3.0, 1.0, 0.0]),
                    ("triangle", [0.0, 1.0, 0.0]), ("ramp", [0.0, 1.0, 2.0, 3.0, 4.0]), ("flat-then-ramp", [1.0, 1.0, 2.0, 4.0]),
                    ("smooth", [math.sin(0.7 * i) * 3 for i in range(8)]), ("zigzag", [0.0, 2.0, 1.0, 3.0, 0.5, 2.5]),
                    ("plateau-top", [0.0, 0.5, 2.0, 2.0, 0.5, 0.0]), ("random", [rng.uniform(-3, 3) for _ in range(7)])]:
        n = len(y)
        for grid in ("unit", "nonuniform"):
            x = [float(i) for i in range(n)] if grid == "unit" else [0.0] + [sum(0.5 + (j * 0.37) % 1.3 for j in range(i)) for i in range(1, n)]
            qs = [x[0] + (x[-1] - x[0]) * f for f in (0.07, 0.31, 0.5, 0.77, 0.93)] + [x[-1] + 0.4, x[0] - 0.3]
            for dname, v in [("scale", list(y)), ("shift", [1.0] * n), ("single", [1.0 if i == n // 2 else 0.0 for i in range(n)]),
                             ("random", [rng.uniform(-1, 1) for _ in range(n)])]:
                cases.append((f"{name}/{grid}/{dname}", x, y, qs, v))
    return cases


def pchip_fd_worker(case) -> dict:
    import torch
    from emu_base.math.pchip_torch import PCHIP1D

    name, x, y, qs, v = case
    xt = torch.tensor(x, dtype=torch.float64)
    qt = torch.tensor(qs, dtype=torch.float64)
    w = torch.tensor([1.0 + 0.3 * i for i in range(len(qs))], dtype=torch.float64)
    vt = torch.tensor(v, dtype=torch.float64)

    def f(yy):
        return (PCHIP1D(xt, yy)(qt) * w).sum()

    yt = torch.tensor(y, dtype=torch.float64, requires_grad=True)
    r = {"name": name, "fail": None, "differentiable": None}
    try:
        (gr,) = torch.autograd.grad(f(yt), yt)
    except Exception as ex:
        r["fail"] = ("raises", f"{type(ex).__name__}: {str(ex)[:150]}")
        return r
    if not bool(torch.isfinite(gr).all()):
        r["fail"] = ("nonfinite", {"grad": [repr(float(a)) for a in gr]})
        return r
    ad = float((gr * vt).sum())
    e = 1e-6
    with torch.no_grad():
        f0, fp, fm = float(f(yt)), float(f(yt + e * vt)), float(f(yt - e * vt))
    plus, minus, cen = (fp - f0) / e, (f0 - fm) / e, (fp - fm) / (2 * e)
    scale = float(w.sum()) * (1.0 + float(vt.abs().max()))
    # AD can only be held to FD where the map y -> P is differentiable AT y (no secant exactly zero, no end
    # slope exactly on a limiter boundary), or along directions every branch agrees on (shift / scale: the
    # interpolant is shift-equivariant and homogeneous of degree 1 branch by branch).  Elsewhere: finite only.
    from fractions import Fraction as F

    from harness.ref.pchip_exact import ExactPchip

    ref = ExactPchip(x, y)
    regular = all(m != 0 for m in ref.m)
    if regular and ref.n > 2:
        for (h0, h1, m0, m1) in ((ref.h[0], ref.h[1], ref.m[0], ref.m[1]), (ref.h[-1], ref.h[-2], ref.m[-1], ref.m[-2])):
            d0 = ((2 * h0 + h1) * m0 - h0 * m1) / (h0 + h1)
            if d0 == 0 or abs(d0) == 3 * abs(m0):
                regular = False
    direction = name.split("/")[-1]
    r["differentiable"] = (regular or direction in ("shift", "scale")) and abs(plus - minus) <= 1e-4 * scale
    r["ad"], r["fd"] = ad, cen
    if r["differentiable"] and abs(ad - cen) > 1e-5 * scale:
        r["fail"] = ("mismatch", {"ad": ad, "fd_central": cen, "fd_plus": plus, "fd_minus": minus})
    return r


# ----------------------------------------------------------------------------------- (3) emu-sv level
def _dense_free_rand(gen, *shape):
    import torch

    return torch.rand(*shape, generator=gen, dtype=torch.float64)


FD_TOL = 1e-12  # krylov_tolerance of every forward evaluation that enters a finite difference


def _compare(ad: float, fun, eps: float, noise_L: float, floor: float):
    """AD value against central differences of `fun` at THREE step sizes (4 eps, 2 eps, eps) and their two
    Richardson extrapolations r1 (coarse pair), r2 (fine pair).  Budget =
        1e-5 relative  +  4 |r2 - r1|  (truncation / a kink inside the stencil / noise show up as disagreement)
      + 4 noise_L / eps  (noise_L = bound on the error of ONE forward value: 10 * krylov_tol * steps * Lipschitz
                          constant of the loss in the state; a central difference divides it by the step)
      + floor.
    Alarm only if the AD value is outside the budget of BOTH extrapolations.  Returns (fd, budget, err)."""
    c4 = (fun(4 * eps) - fun(-4 * eps)) / (8 * eps)
    c2 = (fun(2 * eps) - fun(-2 * eps)) / (4 * eps)
    c1 = (fun(eps) - fun(-eps)) / (2 * eps)
    r1 = (4 * c2 - c4) / 3.0
    r2 = (4 * c1 - c2) / 3.0
    budget = 1e-5 * max(abs(ad), abs(r2)) + 4 * abs(r2 - r1) + 4 * noise_L / eps + floor
    return r2, budget, min(abs(ad - r2), abs(ad - r1))


def classify_exc(ex: Exception) -> str:
    s = str(ex)
    if "modified by an inplace operation" in s:
        return "state-modified-in-place"
    if "argument 'alpha' must be Number" in s:
        return "hamiltonian-application-not-differentiable"
    if "support the deepcopy protocol" in s:
        return "state-result-deepcopy"
    if "did not converge" in s:
        return "krylov-not-converged"
    return type(ex).__name__


def step_worker(item: dict) -> dict:
    """One EvolveStateVector step: AD vs FD for omegas, deltas, phis, interaction matrix, input state."""
    import torch
    from emu_sv.time_evolution import EvolveStateVector

    torch.set_num_threads(1)
    gen = torch.Generator().manual_seed(item["seed"])
    n, tol, dt = item["n"], item["tol"], item["dt"]
    om = _dense_free_rand(gen, n) * 12.0
    de = (_dense_free_rand(gen, n) - 0.5) * 20.0
    if item["phase"] == "zero":
        ph = torch.zeros(n, dtype=torch.float64)
    elif item["phase"] == "nonzero":
        ph = (_dense_free_rand(gen, n) - 0.5) * 6.0
    else:
        ph = (_dense_free_rand(gen, n) - 0.5) * 6.0
        ph[0] = 0.0
    if item.get("omega_zero"):
        om[0] = 0.0
    U = _dense_free_rand(gen, n, n) * 8.0
    U = torch.triu(U, 1)
    U = U + U.T
    psi = torch.randn(2 ** n, generator=gen, dtype=torch.float64) + 1j * torch.randn(2 ** n, generator=gen, dtype=torch.float64)
    if item["state"] == "ground":
        psi = torch.zeros(2 ** n, dtype=torch.complex128)
        psi[0] = 1.0
    psi = (psi / psi.norm()).to(torch.complex128)
    rvec = torch.randn(2 ** n, generator=gen, dtype=torch.float64) + 1j * torch.randn(2 ** n, generator=gen, dtype=torch.float64)
    rvec = rvec / rvec.norm()
    wts = _dense_free_rand(gen, 2 ** n)
    P = {"omega": om, "delta": de, "phi": ph, "U": U, "state_re": psi.real.clone(), "state_im": psi.imag.clone()}

    def loss_of(out):
        if item["loss"] == "overlap-real":
            return torch.vdot(rvec.to(out.dtype), out).real
        if item["loss"] == "overlap-abs2":
            return torch.vdot(rvec.to(out.dtype), out).abs() ** 2
        return (wts * (out.real ** 2 + out.imag ** 2)).sum()

    def forward(p, grad: bool):
        state = torch.complex(p["state_re"], p["state_im"])
        out, _ = EvolveStateVector.apply(dt, p["omega"].to(torch.complex128) if item["complex_params"] else p["omega"],
                                         p["delta"].to(torch.complex128) if item["complex_params"] else p["delta"],
                                         p["phi"].to(torch.complex128) if item["complex_params"] else p["phi"], p["U"], state,
                                         tol if grad else FD_TOL, [])
        return loss_of(out)

    # one forward value is off by at most 10 * tol * |psi| (C07's budget); the losses are 1- or 2-Lipschitz in the state
    lip = {"overlap-real": 1.0, "overlap-abs2": 2.0}.get(item["loss"], 2.0)
    noise_L = 10 * FD_TOL * lip * 2.0  # |psi| <= 1 at the base point, <= 2 with a perturbed (unnormalised) input state

    r = {"id": item["id"], "fails": [], "checked": 0, "worst": 0.0, "skipped": None}
    leaves = {k: v.clone().requires_grad_(True) for k, v in P.items()}
    try:
        L = forward(leaves, True)
        grads = torch.autograd.grad(L, list(leaves.values()), allow_unused=True)
    except Exception as ex:
        r["fails"].append(("raises", classify_exc(ex), {"error": f"{type(ex).__name__}: {str(ex)[:200]}", "context": "single step"}))
        return r
    grads = dict(zip(leaves, grads))
    for name, g in grads.items():
        if g is None:
            r["fails"].append(("missing", name, {"context": "single step"}))
            continue
        if not bool(torch.isfinite(g).all()):
            r["fails"].append(("nonfinite", name, {"context": "single step"}))
            continue
        for trial in range(2):
            v = torch.randn(P[name].shape, generator=gen, dtype=torch.float64)
            if name == "U":
                v = torch.triu(v, 1)
                v = v + v.T  # the Hamiltonian reads U[i, j] for i < j only; perturb symmetrically, compare with the upper-triangle gradient
                ad = float((g * torch.triu(v, 1)).sum()) + float((g * torch.tril(v, -1)).sum())
            else:
                ad = float((g * v).sum())
            if trial == 1 and name in ("omega", "delta", "phi"):
                v = torch.zeros_like(v)
                v[0] = 1.0
                ad = float(g[0])

            def fun(s, name=name, v=v):
                q = {k: t.clone() for k, t in P.items()}
                q[name] = q[name] + s * v
                with torch.no_grad():
                    return float(forward(q, False))

            try:
                fd, budget, err = _compare(ad, fun, 1e-2, noise_L, 1e-8)
            except Exception as ex:
                r["skipped"] = f"forward failed without autograd: {type(ex).__name__}"
                continue
            r["checked"] += 1
            r["worst"] = max(r["worst"], err / budget)
            if err > budget:
                r["fails"].append(("mismatch", name, {"ad": ad, "fd": fd, "budget": budget, "context": "single step", "loss": item["loss"]}))
    return r


OBS_LOSSES = {
    # name: (observable tags, times selector, family)
    "occ-final": (["occupation"], "final", "state-observable"),
    "occ-all-times": (["occupation"], "all", "state-observable"),
    "occ-mid-only": (["occupation"], "mid", "state-observable"),
    "corr-final": (["correlation_matrix"], "final", "state-observable"),
    "corr-all-times": (["correlation_matrix"], "all", "state-observable"),
    "energy-final": (["energy"], "final", "energy-observable"),
    "energy-all-times": (["energy"], "all-but-0", "energy-observable"),
    "energy-with-t0": (["energy"], "all", "energy-observable"),
    "energy-variance-final": (["energy_variance"], "final", "energy-observable"),
    "energy-second-moment-final": (["energy_second_moment"], "final", "energy-observable"),
    "state-final": (["state"], "final", "state-result"),
    "zero-upstream": (["occupation"], "final", "state-observable"),
}


def _observables(tags, times):
    from emu_sv import CorrelationMatrix, Energy, EnergySecondMoment, EnergyVariance, Occupation, StateResult

    cls = {"occupation": Occupation, "correlation_matrix": CorrelationMatrix, "energy": Energy, "energy_variance": EnergyVariance,
           "energy_second_moment": EnergySecondMoment, "state": StateResult}
    return [cls[t](evaluation_times=times) for t in tags]


def _loss_from_results(res, lossname: str, gen_seed: int, n: int, const=None):
    import torch

    tags, _, _ = OBS_LOSSES[lossname]
    gen = torch.Generator().manual_seed(gen_seed)
    total = 0.0
    wsum = 0.0  # sum of |weights| (Lipschitz bookkeeping of the loss)
    for tag in tags:
        vals = getattr(res, tag)
        for v in vals:
            if tag == "state":
                d = v.data
                rv = torch.randn(d.shape, generator=gen, dtype=torch.float64) + 1j * torch.randn(d.shape, generator=gen, dtype=torch.float64)
                total = total + torch.vdot(rv.to(d.dtype), d).real
                wsum += float(rv.norm())
            else:
                v = torch.as_tensor(v)
                w = torch.rand(v.shape, generator=gen, dtype=torch.float64) + 0.5
                total = total + (w * v).sum()
                wsum += float(w.sum())
    if lossname == "zero-upstream":
        o = torch.as_tensor(res.occupation[-1])
        c = o.detach() if const is None else const
        total = ((o - c) ** 2).sum()  # exactly zero upstream gradient at the base point
        wsum = 2.0 * o.numel()
    return total, wsum


def run_worker(item: dict) -> dict:
    """A real emu-sv run from SequenceData whose rows / interaction matrix / initial state require grad."""
    import torch
    from emu_base import HamiltonianType, SequenceData
    from emu_sv import StateVector, SVBackend, SVConfig

    torch.set_num_threads(1)
    gen = torch.Generator().manual_seed(item["seed"])
    n, K, tol = item["n"], item["steps"], item["tol"]
    tt = [0.0]
    for k in range(K):
        tt.append(tt[-1] + float(item["dts"][k % len(item["dts"])]))
    T = tt[-1]
    om = _dense_free_rand(gen, K, n) * 10.0
    de = (_dense_free_rand(gen, K, n) - 0.5) * 16.0
    if item["phase"] == "zero":
        ph = torch.zeros(K, n, dtype=torch.float64)
    else:
        ph = (_dense_free_rand(gen, K, n) - 0.5) * 5.0
        if item["phase"] == "mixed":
            ph[:, 0] = 0.0
            ph[0, :] = 0.0
    if item.get("flat"):
        om[1:3] = om[1]
        de[:] = de[0]
    U = _dense_free_rand(gen, n, n) * 6.0
    U = torch.triu(U, 1)
    U = U + U.T
    psi0 = None
    if item["init"] != "default":
        psi0 = torch.randn(2 ** n, generator=gen, dtype=torch.float64) + 1j * torch.randn(2 ** n, generator=gen, dtype=torch.float64)
        psi0 = (psi0 / psi0.norm()).to(torch.complex128)
    tags, sel, family = OBS_LOSSES[item["loss"]]
    times = {"final": [1.0], "all": [t / T for t in tt], "all-but-0": [t / T for t in tt[1:]], "mid": [tt[K // 2] / T]}[sel]
    P = {"omega": om, "delta": de, "U": U}
    if item["phase"] != "zero" or item.get("phi_requires_grad"):
        P["phi"] = ph
    if psi0 is not None:
        P["state_re"], P["state_im"] = psi0.real.clone(), psi0.imag.clone()

    def forward(p, const=None, tol_use=FD_TOL):
        phi = p.get("phi", ph)
        init = None
        if psi0 is not None:
            init = StateVector(torch.complex(p["state_re"], p["state_im"]), gpu=False)
        cfg = SVConfig(observables=_observables(tags, times), log_level=logging.ERROR, gpu=False, krylov_tolerance=tol_use, initial_state=init)
        Umat = p["U"]
        sd = SequenceData(omega=p["omega"].to(torch.complex128), delta=p["delta"].to(torch.complex128), phi=phi.to(torch.complex128),
                          interaction_matrix=lambda t: Umat, qubit_ids=tuple(f"q{i}" for i in range(n)), bad_atoms=(False,) * n,
                          lindblad_ops=[], state_prep_error=0.0, target_times=tt, eigenstates=["r", "g"], hamiltonian_type=HamiltonianType.Rydberg)
        res = SVBackend._run_from_sequence_data(sd, cfg)
        lossv, wsum = _loss_from_results(res, item["loss"], item["seed"] + 1, n, const)
        return lossv, res, wsum

    r = {"id": item["id"], "fails": [], "checked": 0, "worst": 0.0, "skipped": None, "sample": None}
    ctxt = f"emu-sv run, loss {item['loss']}, phase {item['phase']}, init {item['init']}"
    # does the plain forward work at all?  (otherwise it is some other property's subject)
    try:
        with torch.no_grad():
            base, res0, wsum = forward({k: v.clone() for k, v in P.items()})
        const = torch.as_tensor(res0.occupation[-1]).clone() if item["loss"] == "zero-upstream" else None
    except Exception as ex:
        if classify_exc(ex) in ("state-result-deepcopy",):
            pass
        r["skipped"] = f"forward without autograd failed: {type(ex).__name__}: {str(ex)[:100]}"
        return r
    leaves = {k: v.clone().requires_grad_(True) for k, v in P.items()}
    try:
        L, _, _ = forward(leaves, const, tol)
        grads = torch.autograd.grad(L, list(leaves.values()), allow_unused=True)
    except Exception as ex:
        cls = classify_exc(ex)
        if item["loss"] == "zero-upstream" and cls == "krylov-not-converged":
            cls = "zero-upstream-gradient"
        r["fails"].append(("raises", cls, {"error": f"{type(ex).__name__}: {str(ex)[:200]}", "context": ctxt, "family": family}))
        return r
    grads = dict(zip(leaves, grads))
    # differentiation is linear: the gradient of c * loss is c times the gradient of the loss, however small c is (a loss in
    # small units, a tiny weight in a sum); an absolute threshold on the upstream gradient breaks this silently.  Measured on
    # the unchanged tree: at c = 1e-12 the relative deviation reaches 3.5e-2 (the backward Krylov tolerance is not relative to the
    # upstream gradient), so only a gross departure (> 50 %, or a gradient that vanishes altogether) is a violation
    if item["loss"] != "zero-upstream" and item["id"] % 2 == 0:
        small = 1e-12
        leaves2 = {k: v.clone().requires_grad_(True) for k, v in P.items()}
        try:
            L2, _, _ = forward(leaves2, const, tol)
            g2 = torch.autograd.grad(small * L2, list(leaves2.values()), allow_unused=True)
            for (name, ga), gb in zip(grads.items(), g2):
                if ga is None or gb is None:
                    continue
                scale = float(ga.abs().max())
                dev = float((gb - small * ga).abs().max())
                r["checked"] += 1
                if scale > 0:
                    r["lin_worst"] = max(r.get("lin_worst", 0.0), dev / (small * scale))
                if scale > 0 and (dev > 0.5 * small * scale or not bool(gb.abs().max() > 0)):
                    r["fails"].append(("mismatch", "scaled-loss", {"param": name, "direction": "all", "ad": float(gb.abs().max()), "fd": small * scale,
                                                                    "budget": 0.5 * small * scale, "context": ctxt + f"; gradient of {small} * loss is not {small} * gradient of the loss"}))
        except Exception as ex:
            r["fails"].append(("raises", classify_exc(ex), {"error": f"{type(ex).__name__}: {str(ex)[:200]}", "context": ctxt + "; scaled loss", "family": family}))
    # error bound of ONE forward loss value: every step adds at most 10 * tol to the state (C07), the loss is
    # Lipschitz in the state with constant 2 * (sum of weights) * |observable| (|H| <= hb for the energy family)
    hb = float((om.abs().sum(dim=1) + de.abs().sum(dim=1)).max() + torch.triu(U, 1).abs().sum()) * 1.5 + 1.0
    obs_norm = {"energy": hb, "energy_variance": 2 * hb * hb, "energy_second_moment": 2 * hb * hb}.get(tags[0], 1.0)
    noise_L = 10 * FD_TOL * K * 2.0 * wsum * obs_norm * 2.0
    r["sample"] = {"loss": float(L), "n": n, "steps": K, "grad_omega_row0": None if grads["omega"] is None else [float(a) for a in grads["omega"][0]]}
    for name, g in grads.items():
        if g is None:
            g = torch.zeros_like(P[name])
        if not bool(torch.isfinite(g).all()):
            r["fails"].append(("nonfinite", name, {"context": ctxt, "family": family}))
            continue
        for trial in range(2):
            v = torch.randn(P[name].shape, generator=gen, dtype=torch.float64)
            if name == "U":
                v = torch.triu(v, 1)
                v = v + v.T
            elif trial == 1 and v.ndim == 2:
                keep = K - 1 if item["loss"].endswith("final") else K // 2
                m = torch.zeros_like(v)
                m[keep] = 1.0
                v = v * m  # the row of one step (for energies: the step whose Hamiltonian is measured)
            ad = float((g * v).sum())

            def fun(s, name=name, v=v):
                q = {k: t.clone() for k, t in P.items()}
                q[name] = q[name] + s * v
                with torch.no_grad():
                    return float(forward(q, const)[0])

            try:
                fd, budget, err = _compare(ad, fun, 1e-2, noise_L, 1e-8 * max(1.0, abs(float(base))))
            except Exception as ex:
                r["skipped"] = f"forward failed without autograd: {type(ex).__name__}"
                continue
            r["checked"] += 1
            r["worst"] = max(r["worst"], err / budget)
            if err > budget:
                r["fails"].append(("mismatch", family, {"param": name, "direction": "one-step-row" if trial else "random", "ad": ad, "fd": fd,
                                                        "budget": budget, "context": ctxt}))
    return r


def pulser_worker(item: dict) -> dict:
    """A Pulser sequence whose waveform parameters are torch tensors, run through SVBackend.run()."""
    import pulser
    import torch
    from emu_sv import Occupation, SVBackend, SVConfig

    torch.set_num_threads(1)
    n, dt, kind = item["n"], item["dt"], item["kind"]
    base = [torch.tensor(v, dtype=torch.float64) for v in item["params"]]
    w = torch.tensor([1.0 + 0.5 * i for i in range(n)], dtype=torch.float64)

    def build(p):
        reg = pulser.Register({f"q{i}": [7.0 * i, 0.0] for i in range(n)})
        seq = pulser.Sequence(reg, pulser.MockDevice)
        seq.declare_channel("ryd", "rydberg_global")
        d = item["duration"]
        a, dd, b = p
        if kind == "constant":
            seq.add(pulser.Pulse.ConstantPulse(d, a, dd, item["phase"]), "ryd")
        elif kind == "ramp":
            seq.add(pulser.Pulse(pulser.RampWaveform(d, a, b), pulser.RampWaveform(d, dd, -dd), item["phase"]), "ryd")
        elif kind == "blackman":
            seq.add(pulser.Pulse(pulser.BlackmanWaveform(d, a), pulser.RampWaveform(d, dd, b), item["phase"]), "ryd")
        elif kind == "blackman-constant-detuning":
            seq.add(pulser.Pulse(pulser.BlackmanWaveform(d, a), pulser.ConstantWaveform(d, dd), item["phase"]), "ryd")
        elif kind == "composite":
            d1 = d // 2
            amp = pulser.CompositeWaveform(pulser.RampWaveform(d1, 0.0 * a, a), pulser.ConstantWaveform(d - d1, a))
            det = pulser.CompositeWaveform(pulser.ConstantWaveform(d1, dd), pulser.RampWaveform(d - d1, dd, b))
            seq.add(pulser.Pulse(amp, det, item["phase"]), "ryd")
        elif kind == "two-pulses":
            seq.add(pulser.Pulse(pulser.RampWaveform(d, a, b), pulser.ConstantWaveform(d, dd), item["phase"]), "ryd")
            seq.add(pulser.Pulse(pulser.ConstantWaveform(d, b), pulser.RampWaveform(d, dd, 0.0 * dd), 0.0), "ryd")
        return seq

    def forward(p):
        seq = build(p)
        cfg = SVConfig(observables=[Occupation(evaluation_times=[1.0])], log_level=logging.ERROR, gpu=False, dt=dt, krylov_tolerance=1e-12)
        res = SVBackend(seq, config=cfg).run()
        return (torch.as_tensor(res.occupation[-1]) * w).sum()

    r = {"id": item["id"], "fails": [], "checked": 0, "worst": 0.0, "skipped": None, "sample": None}
    try:
        with torch.no_grad():
            base_val = float(forward([b.clone() for b in base]))
    except Exception as ex:
        r["skipped"] = f"forward without autograd failed: {type(ex).__name__}: {str(ex)[:100]}"
        return r
    leaves = [b.clone().requires_grad_(True) for b in base]
    try:
        L = forward(leaves)
        grads = torch.autograd.grad(L, leaves, allow_unused=True)
    except Exception as ex:
        if "numpy() on Tensor that requires grad" in str(ex):
            r["skipped"] = "pulser cannot sample this waveform from tensors that require grad"
            return r
        r["fails"].append(("raises", classify_exc(ex), {"error": f"{type(ex).__name__}: {str(ex)[:200]}", "context": f"pulser waveform {kind}"}))
        return r
    r["sample"] = {"kind": kind, "params": item["params"], "grad": [None if g is None else float(g) for g in grads]}
    used = {"constant": [0, 1], "ramp": [0, 1, 2], "blackman": [0, 1, 2], "blackman-constant-detuning": [0, 1], "composite": [0, 1, 2], "two-pulses": [0, 1, 2]}[kind]
    pnames = ["amplitude", "detuning", "second"]
    from pulser.sampler import sampler

    # ---- Pulser's own part of the chain: its samples and their Jacobian w.r.t. the waveform parameters.
    # The emulators answer for d(result)/d(samples); Pulser answers for d(samples)/d(parameter).  Where Pulser's
    # autograd Jacobian disagrees with the finite differences of Pulser's own samples (e.g. RampWaveform clips its
    # samples to [start, stop]: a last sample one ulp outside gets gradient 0 although its value follows `stop`),
    # an end-to-end AD-vs-FD difference says nothing about the emulators: that parameter is skipped end-to-end
    # (counted) and covered by the sample-level comparison below.
    def samples_of(p):
        cs = sampler.sample(build(p)).channel_samples["ryd"]
        return cs.amp.as_tensor(), cs.det.as_tensor(), cs.phase.as_tensor()

    with torch.no_grad():
        a0, d0, ph0 = samples_of([b.clone() for b in base])
    T = a0.numel()
    nsteps = int(math.ceil(T / dt)) + 1
    noise_L = 10 * FD_TOL * nsteps * 2.0 * float(w.sum())
    floor = 1e-8 * max(1.0, abs(base_val))
    jac_fd = {}
    consistent = {}
    try:
        la, ld, _ = samples_of(leaves)
        for i in used:
            e = 1e-4
            qp = [b.clone() for b in base]
            qm = [b.clone() for b in base]
            qp[i] = qp[i] + e
            qm[i] = qm[i] - e
            with torch.no_grad():
                ap, dp, _ = samples_of(qp)
                am, dm, _ = samples_of(qm)
            jac_fd[i] = ((ap - am) / (2 * e), (dp - dm) / (2 * e))
            ja = torch.zeros(T, dtype=torch.float64)
            jd = torch.zeros(T, dtype=torch.float64)
            for j in range(T):
                for src, dst in ((la, ja), (ld, jd)):
                    if src.requires_grad:
                        (gj,) = torch.autograd.grad(src[j], leaves[i], retain_graph=True, allow_unused=True)
                        dst[j] = 0.0 if gj is None else float(gj)
            dev = max(float((ja - jac_fd[i][0]).abs().max()), float((jd - jac_fd[i][1]).abs().max()))
            consistent[i] = dev <= 1e-6 * (1.0 + float(jac_fd[i][0].abs().max()) + float(jac_fd[i][1].abs().max()))
            if not consistent[i]:
                r.setdefault("pulser_jacobian_inconsistent", []).append({"kind": kind, "param": pnames[i], "max_dev": dev})
    except Exception as ex:  # Pulser-side sampling problem: end-to-end comparison cannot be attributed
        r["skipped"] = f"pulser sampling Jacobian unavailable: {type(ex).__name__}: {str(ex)[:80]}"
        return r
    # ---- end to end: AD w.r.t. the waveform parameters vs finite differences (where Pulser's Jacobian is consistent)
    for i in used:
        g = grads[i]
        g = torch.tensor(0.0, dtype=torch.float64) if g is None else g
        pname = pnames[i]
        if not bool(torch.isfinite(g)):
            cause = {"constant": "flat-segment", "composite": "flat-segment", "two-pulses": "flat-segment", "blackman-constant-detuning": "flat-segment",
                     "blackman": "symmetric-or-flat-peak"}.get(kind, "other")
            r["fails"].append(("nonfinite", f"waveform-param:{cause}", {"kind": kind, "param": pname, "grad": repr(float(g)), "duration": item["duration"], "dt": dt}))
            continue
        if not consistent[i]:
            continue

        def fun(s, i=i):
            q = [b.clone() for b in base]
            q[i] = q[i] + s
            with torch.no_grad():
                return float(forward(q))

        ad = float(g)
        fd, budget, err = _compare(ad, fun, 1e-2, noise_L, floor)
        r["checked"] += 1
        r["worst"] = max(r["worst"], err / budget)
        if err > budget:
            r["fails"].append(("mismatch", "waveform-param", {"kind": kind, "param": pname, "ad": ad, "fd": fd, "budget": budget}))
    # ---- sample level: the emulators' own part.  The same drive given as CustomWaveforms of tensors; AD w.r.t. the
    # samples, contracted with the TRUE tangent of each waveform parameter (finite differences of Pulser's samples),
    # vs finite differences of the emulated result along that tangent.
    segs = []
    start = 0
    for j in range(1, T + 1):
        if j == T or float(ph0[j]) != float(ph0[start]):
            segs.append((start, j, float(ph0[start])))
            start = j

    def forward_samples(ya, yd):
        reg = pulser.Register({f"q{i}": [7.0 * i, 0.0] for i in range(n)})
        seq = pulser.Sequence(reg, pulser.MockDevice)
        seq.declare_channel("ryd", "rydberg_global")
        for (s0, s1, phv) in segs:
            seq.add(pulser.Pulse(pulser.CustomWaveform(ya[s0:s1]), pulser.CustomWaveform(yd[s0:s1]), phv), "ryd")
        cfg = SVConfig(observables=[Occupation(evaluation_times=[1.0])], log_level=logging.ERROR, gpu=False, dt=dt, krylov_tolerance=FD_TOL)
        res = SVBackend(seq, config=cfg).run()
        return (torch.as_tensor(res.occupation[-1]) * w).sum()

    ya0 = a0.detach().clone().clamp(min=0.0)
    yd0 = d0.detach().clone()
    try:
        with torch.no_grad():
            same = abs(float(forward_samples(ya0, yd0)) - base_val) <= 1e-9 * max(1.0, abs(base_val))
        if not same or any(s1 - s0 < 1 for s0, s1, _ in segs):
            r["sample_level"] = "skipped: the CustomWaveform re-build does not reproduce the run"
            return r
        lya, lyd = ya0.clone().requires_grad_(True), yd0.clone().requires_grad_(True)
        ga, gd = torch.autograd.grad(forward_samples(lya, lyd), (lya, lyd), allow_unused=True)
    except Exception as ex:
        if "numpy() on Tensor that requires grad" in str(ex) or "pulser" in type(ex).__module__:
            r["sample_level"] = f"skipped: pulser refuses tensor CustomWaveforms ({type(ex).__name__})"
            return r
        r["fails"].append(("raises", classify_exc(ex), {"error": f"{type(ex).__name__}: {str(ex)[:200]}", "context": f"pulser CustomWaveform samples of {kind}"}))
        return r
    ga = torch.zeros(T, dtype=torch.float64) if ga is None else ga
    gd = torch.zeros(T, dtype=torch.float64) if gd is None else gd
    if not bool(torch.isfinite(ga).all() and torch.isfinite(gd).all()):
        r["fails"].append(("nonfinite", "waveform-samples", {"kind": kind, "duration": item["duration"], "dt": dt}))
        return r
    for i in used:
        va, vd = jac_fd[i]
        if bool(((ya0 == 0) & (va != 0)).any()):
            continue  # the tangent would push a zero amplitude below zero on one side (clamp kink): not a smooth direction
        ad = float((ga * va).sum() + (gd * vd).sum())

        def fun(s, va=va, vd=vd):
            with torch.no_grad():
                return float(forward_samples((ya0 + s * va).clamp(min=0.0), yd0 + s * vd))

        fd, budget, err = _compare(ad, fun, 1e-2, noise_L, floor)
        r["checked"] += 1
        r["worst"] = max(r["worst"], err / budget)
        if err > budget:
            r["fails"].append(("mismatch", "waveform-samples", {"kind": kind, "param_tangent": pnames[i], "ad": ad, "fd": fd, "budget": budget}))
    return r


def dispatch(item: dict) -> dict:
    try:
        return {"step": step_worker, "run": run_worker, "pulser": pulser_worker}[item["stratum"]](item)
    except Exception as ex:  # harness-side surprise: report as skipped with the reason, the driver decides
        import traceback

        return {"id": item["id"], "fails": [], "checked": 0, "worst": 0.0, "skipped": f"HARNESS: {type(ex).__name__}: {ex} {traceback.format_exc()[-400:]}", "sample": None}


def gen_items(rng, quick: bool) -> list:
    items = []
    i = 0
    # single steps
    ns = [1, 2, 3, 4] if quick else [1, 2, 3, 4, 5, 6]
    for n in ns:
        for phase in ("zero", "nonzero", "mixed"):
            for loss in (("overlap-real", "probabilities") if quick else ("overlap-real", "overlap-abs2", "probabilities")):
                items.append({"stratum": "step", "id": i, "n": n, "phase": phase, "loss": loss, "tol": rng.choice([1e-10, 1e-12]),
                              "dt": rng.choice([0.01, 0.05, 0.3]), "state": rng.choice(["random", "random", "ground"]), "seed": rng.randrange(1 << 30),
                              "omega_zero": rng.random() < 0.3, "complex_params": rng.random() < 0.5})
                i += 1
    # runs
    losses = list(OBS_LOSSES)
    combos = []
    for loss in losses:
        for phase in ("zero", "nonzero"):
            combos.append((loss, phase, "default"))
    combos += [("occ-final", "mixed", "default"), ("occ-final", "nonzero", "given"), ("corr-final", "zero", "given"), ("occ-all-times", "mixed", "given"),
               ("energy-final", "mixed", "default")]
    reps = 1 if quick else 3
    for rep in range(reps):
        for loss, phase, init in combos:
            n = rng.choice([1, 2, 3] if quick else [1, 2, 3, 4, 5, 6])
            items.append({"stratum": "run", "id": i, "n": n, "steps": rng.choice([3, 4, 6]), "dts": rng.choice([[10.0], [4.0, 7.5], [1.0, 0.5, 2.5]]),
                          "phase": phase, "loss": loss, "init": init, "tol": rng.choice([1e-10, 1e-12]), "seed": rng.randrange(1 << 30),
                          "flat": rng.random() < 0.3, "phi_requires_grad": rng.random() < 0.5})
            i += 1
    # pulser waveform parameters
    kinds = ["constant", "ramp", "blackman", "blackman-constant-detuning", "composite", "two-pulses"]
    for rep in range(1 if quick else 3):
        for kind in kinds:
            for dur in ((20, 21) if kind.startswith("blackman") else (16,)):
                items.append({"stratum": "pulser", "id": i, "kind": kind, "n": rng.choice([1, 2, 3]), "duration": dur + 4 * rep, "dt": rng.choice([1.0, 2.5, 10.0]),
                              "params": [rng.uniform(3, 9), rng.uniform(-6, 6), rng.uniform(1, 4)], "phase": rng.choice([0.0, 0.8])})
                i += 1
    return items


# ----------------------------------------------------------------------------------- main
FOUND: dict = {}
WHAT = {
    "nonfinite": "an automatic-differentiation gradient is not finite",
    "raises": "obtaining the gradient raises",
    "mismatch": "the automatic-differentiation gradient differs from the finite-difference derivative of the emulated result",
    "missing": "no gradient reaches a differentiable input",
}


def collect(fails: list, origin: str, replay) -> None:
    for clause, site, det in fails:
        key = f"grad:{clause}:{site}"
        e = FOUND.setdefault(key, {"count": 0, "example": None})
        e["count"] += 1
        if e["example"] is None:
            e["example"] = (clause, site, det, origin, replay)


def flush(ctx: Ctx) -> None:
    ctx.coverage["failing_cases_per_key"] = {k: v["count"] for k, v in FOUND.items()}
    for key in sorted(FOUND):
        clause, site, det, origin, replay = FOUND[key]["example"]
        ctx.violation(key, f"{WHAT[clause]} ({site}; {origin}; {FOUND[key]['count']} cases in this run): {json.dumps(det)[:400]}",
                      {"detail": det, "origin": origin, "input": replay,
                       "how": "harness.drivers.C30.dispatch(item) for emu-sv strata; harness.drivers.C30.pchip_fd_worker(case) / real_slope_grad(...) for the interpolation level"})
    FOUND.clear()


def run(ctx: Ctx) -> None:
    ctx.level = "model_checking"
    ctx.assumptions += [
        "PchipGrad.tla: the abstract domain ignores overflow / underflow of finite non-zero magnitudes; torch.autograd's rules for div / where / abs are transcribed by hand and CHECKED every run against the real autograd on concretised patterns",
        "model checking covers only the finiteness clause on the interpolation's slope computation (the only data-dependent divisions); equality with finite differences is explored, not proved",
        "finite differences: central differences at three steps (4e-2, 2e-2, 1e-2) of the same real forward computation at krylov_tolerance 1e-12 and their two Richardson extrapolations; budget 1e-5 relative + 4 x their disagreement + 4 x (10 tol x steps x Lipschitz constant of the loss) / step + 1e-8 x max(1,|loss|); an alarm needs the AD value outside the budget of BOTH extrapolations",
        "Pulser's differentiable sampling is trusted only where its autograd Jacobian agrees with finite differences of its own samples (RampWaveform's clip to [start, stop] drops the gradient of an end sample); elsewhere the end-to-end comparison is skipped (counted) and the emulators' part is compared at sample level (CustomWaveform tensors, tangent of each waveform parameter)",
        "runs use krylov_tolerance 1e-10 / 1e-12; cases whose forward pass fails WITHOUT autograd are skipped (other properties' subject); Pulser waveforms Pulser itself cannot sample from tensors (InterpolatedWaveform) are out of scope",
        "TLC, torch.autograd, Pulser's differentiable sampling",
    ]
    if ctx.replay:
        rp = json.loads(open(ctx.replay).read())["replay"]["input"]
        ctx.case(("replay", 0))
        ctx.case(("replay", 1))
        if isinstance(rp, dict) and "stratum" in rp:
            collect(dispatch(rp)["fails"], "replay", rp)
        elif isinstance(rp, dict) and "pattern" in rp:
            out = real_slope_grad(*rp["concrete"])
            if any(abstract(v) not in FIN for v in out):
                collect([("nonfinite", f"pchip:{rp['class']}", {"out": [repr(v) for v in out]})], "replay", rp)
        else:
            r = pchip_fd_worker(tuple(rp))
            if r["fail"]:
                collect([(r["fail"][0], "pchip", r["fail"][1] if isinstance(r["fail"][1], dict) else {"error": r["fail"][1]})], "replay", rp)
        flush(ctx)
        return
    # ---------------- (1) TLC: abstract interpretation of forward + reverse pass
    model: dict = {}
    verdict: dict = {}
    for which in PROGS:
        res = run_tlc("PchipGrad", None, workdir=ctx.work, name=f"mc_{which}", cfg_text=cfg_text(which, True, True), coverage=True)
        ctx.add_tlc(res)
        verdict[which] = [v[1] for v in res["violated"]]
        if res.get("coverage_zero") and not res["violated"]:
            ctx.notes.append(f"{which}: spec actions never taken: {res['coverage_zero']}")
        out = res["out"]
        if res["violated"]:
            ctx.log(f"TLC: abstract mechanism '{which}' violates {verdict[which]} (to be reproduced on the real autograd)")
            out = run_tlc("PchipGrad", None, workdir=ctx.work, name=f"log_{which}", cfg_text=cfg_text(which, False, True))["out"]
        for t in printed_tuples(out, "G"):
            model.setdefault(which, {}).setdefault(tuple(t[2]), set()).add((t[3], t[4], t[5]))
        if len(model.get(which, {})) != 27:
            raise MachineryError(f"TLC did not enumerate the 27 sign patterns of {which}: {len(model.get(which, {}))}")
        ctx.log(f"{which}: {res.get('distinct')} states, violated={verdict[which]}")
    if verdict["interior-guarded"] or verdict["end"] or verdict["end-standard"]:
        raise MachineryError(f"the guarded interior / the end-slope program violate finiteness in the abstract domain: {verdict}")
    # ---------------- (2) binding A: concretise every pattern on the real autograd
    from harness.ref.pchip_exact import interior_case

    inside = {"interior-code": 0, "interior-guarded": 0, "end": 0, "end-standard": 0}
    total = {"interior": 0, "end": 0}
    first_out = {"interior-code": None, "interior-guarded": None, "end": None, "end-standard": None}
    nonfinite_patterns = set()
    for kind in ("interior", "end"):
        for a in FIN:
            for b in FIN:
                for gname, g in (("NEG", -1.5), ("ZERO", 0.0), ("POS", 1.0)):
                    for conc in concretise(a, b):
                        dl, dr, hl, hr = conc
                        try:
                            out = real_slope_grad(kind, dl, dr, hl, hr, g)
                        except Exception as ex:
                            collect([("raises", f"pchip:{type(ex).__name__}", {"pattern": [a, b, gname], "concrete": list(conc)})], "abstract pattern on real autograd", None)
                            continue
                        ab = tuple(abstract(v) for v in out)
                        total[kind] += 1
                        ctx.case(("pattern", kind, a, b, gname, conc), nontrivial=True,
                                 sample={"kind": kind, "pattern": [a, b, gname], "concrete": list(conc), "real": [repr(v) for v in out]})
                        ctx.traces_validated += 1
                        for which in (("interior-code", "interior-guarded") if kind == "interior" else ("end", "end-standard")):
                            if ab in model[which][(a, b, gname)]:
                                inside[which] += 1
                            elif first_out[which] is None:
                                first_out[which] = {"pattern": [a, b, gname], "concrete": list(conc), "real": list(ab), "model": sorted(model[which][(a, b, gname)])}
                        if any(v not in FIN for v in ab):
                            cls = {"one-flat": "zero-secant", "flat-flat": "zero-secant", "opposite": "cancelling-secants",
                                   "opposite-equal": "cancelling-secants"}.get(interior_case(dl, dr), "other") if kind == "interior" else "end-slope"
                            nonfinite_patterns.add((kind, a, b))
                            collect([("nonfinite", f"pchip:{cls}", {"pattern": [a, b, gname], "secants": [dl, dr], "widths": [hl, hr], "upstream": g,
                                                                     "slope": repr(out[0]), "grad_secants": [repr(out[1]), repr(out[2])]})],
                                    "abstract pattern concretised on the real _pchip_derivatives",
                                    {"pattern": [a, b, gname], "class": cls, "concrete": [kind, dl, dr, hl, hr, g]})
    mech = "interior-guarded" if inside["interior-guarded"] == total["interior"] else "interior-code" if inside["interior-code"] == total["interior"] else None
    ctx.coverage["binding_A"] = {"concretised_patterns": total, "real_within_model_outcomes": inside, "mechanism_identified": mech,
                                 "patterns_with_nonfinite_real_gradient": sorted(map(list, nonfinite_patterns))}
    ctx.log(f"binding A: {total} concretisations; real outcome within the model's outcomes: {inside}; mechanism: {mech}")
    if mech is None:
        ctx.model_drift(f"the real autograd of _pchip_derivatives matches neither abstract interior program, e.g. {first_out['interior-code']}")
    elif mech == "interior-code" and not nonfinite_patterns:
        raise MachineryError("TLC says the code's program yields NAN gradients, the real autograd agrees with that program, yet no concretisation is non-finite")
    end_mech = "end" if inside["end"] == total["end"] else "end-standard" if inside["end-standard"] == total["end"] else None
    ctx.coverage["binding_A"]["end_mechanism_identified"] = end_mech
    if end_mech is None:
        ctx.model_drift(f"the real autograd of the end slope is outside both abstract end programs' outcomes, e.g. {first_out['end']} / {first_out['end-standard']}")
    # value-level AD vs FD on the real PCHIP1D
    cases = pchip_fd_cases(ctx.rng)
    nd = 0
    for c, r in zip(cases, [pchip_fd_worker(c) for c in cases]):
        ctx.case(("pchip-fd", c[0]), nontrivial=True)
        nd += bool(r["differentiable"])
        if r["fail"]:
            clause, det = r["fail"]
            nm = c[0].split("/")[0]
            cls = {"flat-run": "zero-secant", "constant": "zero-secant", "flat-then-ramp": "zero-secant", "plateau-top": "zero-secant",
                   "symmetric-peak": "cancelling-secants", "triangle": "cancelling-secants"}.get(nm, nm)
            collect([(clause, f"pchip:{cls}", det if isinstance(det, dict) else {"error": det})], f"PCHIP1D value gradient, data {c[0]}", list(c))
    ctx.coverage["pchip_value_cases"] = {"cases": len(cases), "differentiable_in_direction": nd}
    # ---------------- (3) emu-sv strata
    items = gen_items(ctx.rng, ctx.quick)
    results = pmap(dispatch, items)
    strata: dict[str, int] = {}
    skipped: dict[str, int] = {}
    worst = 0.0
    checked = 0
    pj: list = []
    sl_skipped: dict[str, int] = {}
    for it, r in zip(items, results):
        pj += r.get("pulser_jacobian_inconsistent", [])
        if r.get("sample_level"):
            sl_skipped[r["sample_level"][:80]] = sl_skipped.get(r["sample_level"][:80], 0) + 1
        if r.get("skipped") and str(r["skipped"]).startswith("HARNESS"):
            raise MachineryError(f"harness error in stratum {it['stratum']}: {r['skipped']}")
        tag = it["stratum"] + ":" + (it.get("loss") or it.get("kind")) + ":" + str(it.get("phase", ""))
        if r.get("skipped"):
            skipped[f"{tag}: {r['skipped'][:70]}"] = skipped.get(f"{tag}: {r['skipped'][:70]}", 0) + 1
        strata[tag] = strata.get(tag, 0) + 1
        ctx.case(("sv", it["stratum"], it["id"], it.get("loss") or it.get("kind"), it.get("phase"), it.get("n")), nontrivial=True, sample=r.get("sample"))
        checked += r["checked"]
        ctx.coverage["scaled_loss_worst_relative_deviation"] = max(ctx.coverage.get("scaled_loss_worst_relative_deviation", 0.0), r.get("lin_worst", 0.0))
        if not r["fails"]:
            worst = max(worst, r["worst"])
        if r["fails"]:
            collect(r["fails"], f"{it['stratum']} stratum: " + ", ".join(f"{k}={it[k]}" for k in ("n", "loss", "kind", "phase", "init", "dt", "steps") if k in it), it)
    ctx.coverage["sv_strata"] = strata
    ctx.coverage["sv_skipped"] = skipped
    ctx.coverage["directional_derivatives_compared"] = checked
    ctx.coverage["pulser_sampling_jacobian_inconsistent_with_its_own_samples"] = {"count": len(pj), "examples": pj[:4]}
    ctx.coverage["sample_level_skipped"] = sl_skipped
    ctx.coverage["worst_margin_err_over_budget_on_passing_cases"] = worst
    if checked < 50:
        raise MachineryError(f"vacuity: only {checked} directional derivatives compared")
    ctx.coverage["rule"] = ("abstract: one case per (node kind, sign pattern of the two secants, upstream sign, concretisation); value level: one case per (data shape, grid, direction); "
                            "emu-sv: one case per generated (stratum, atoms, phase class, loss, parameter set)")
    ctx.coverage["exhaustive"] = True
    flush(ctx)
