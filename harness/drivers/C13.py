"""C13 - every reported observable equals its definition on the normalised state, in its physical range.

(1) TLC: Observables.tla part 1 -- the dispatch installed by MPSConfig / SVConfig.monkeypatch_observables
    (order of the isinstance tests, `choose` on the state class), which state classes each implementation
    accepts, what each backend does to its state before the callbacks (fill_results normalises, emu-sv
    passes its state as it is) against the requirement DispatchTotal / ReportedIsDefinition / InRange, for
    every cell (backend x observable x representation x norm class x canonical x dark padding).  TLC prints
    its verdict for every cell.
(2) Binding A: every cell is instantiated on random states (2-8 atoms), random Hamiltonian parameters and
    dark masks, through the REAL backends: MPSBackendImpl.fill_results (state swapped in by the harness, so
    unnormalised / non-canonical states reach it) and SVBackendImpl._apply_observables (state supplied as
    config.initial_state); the values found in the real Results are compared with the reference
    definitions (harness/ref, numpy) on the NORMALISED state and with the physical ranges.
    A cell the real code gets wrong is a VIOLATION whatever the model says; model verdict != real verdict
    is model drift.
"""
from __future__ import annotations

import logging
import math
import os
import warnings

import numpy as np

from harness.core import Ctx, MachineryError
from harness.drivers import _mpsops as M
from harness.pool import pmap
from harness.ref import dense, tn
from harness.tlc import printed_tuples, run_tlc

OBS = ["occupation", "correlation_matrix", "energy", "energy_second_moment", "energy_variance", "fidelity", "expectation",
       "entanglement_entropy", "bitstrings"]
RANGE_SLACK = 1e-9


def cfg_cells(variant: str) -> str:
    return f"""SPECIFICATION CSpec
CONSTANTS
  MaxShots = 4
  BatchSize = 32
  MaxAtoms = 3
  Variant = "{variant}"
  LogCells = TRUE
INVARIANT DispatchTotal
INVARIANT ReportedIsDefinition
INVARIANT InRange
"""


# ------------------------------------------------------------------------------------------ scenarios
def rand_operations(rng, n: int, letters: str, hermitian: bool = True):
    """A random FullOp; Hermitian by construction when asked (so that <O> is real and bounded)."""
    ops = []
    for _ in range(int(rng.integers(1, 4))):
        sites = list(rng.permutation(n))
        to = []
        for _q in range(int(rng.integers(1, 3))):
            if not sites:
                break
            t = int(sites.pop())
            a, b = rng.choice(list(letters), size=2)
            z = complex(rng.normal(), rng.normal())
            q = {a + a: float(rng.normal())} if a == b else {a + b: z, b + a: z.conjugate()}
            to.append((q, {t}))
        ops.append((float(rng.normal()), to))
    return ops


def definitions(psi_or_rho: np.ndarray, H: np.ndarray, n: int, d: int, target: np.ndarray, O: np.ndarray | None, bond: int | None) -> dict:
    """Reference values on an already NORMALISED vector / density matrix."""
    s = psi_or_rho
    out = {"occupation": dense.occupation(s, n, d), "correlation_matrix": dense.correlation(s, n, d)}
    e = dense.expect(H, s).real
    e2 = dense.expect(H @ H, s).real
    out["energy"] = e
    out["energy_second_moment"] = e2
    out["energy_variance"] = e2 - e * e
    if s.ndim == 1:
        out["fidelity"] = abs(np.vdot(target, s)) ** 2
    else:
        out["fidelity"] = np.trace(target.conj().T @ s)
    if O is not None:
        out["expectation"] = dense.expect(O, s)
    if bond is not None and s.ndim == 1:
        out["entanglement_entropy"] = dense.entanglement_entropy(s, bond, n, d)
    return out


def compare(tag: str, got: dict, ref: dict, budgets: dict, n: int, d: int, bond, acc: dict, rep: dict, key_prefix: str, expect_scaled: bool) -> dict:
    """-> per observable verdict 'ok' | 'wrong' | 'range' | 'raised'."""
    verdict = {}
    for o, r in ref.items():
        if o not in got:
            continue
        g = got[o]
        if isinstance(g, str):
            verdict[o] = "raised"
            continue
        g = np.asarray(g)
        r = np.asarray(r)
        try:
            err = float(np.abs(g.astype(complex) - r.astype(complex)).max())
        except Exception:
            err = float("inf")
        bud = budgets.get(o, 1e-9)
        k = f"C13:{tag}:{o}"
        if not expect_scaled:
            acc["margins"][k] = max(acc["margins"].get(k, 0.0), err / bud)
        acc["checks"][k] = acc["checks"].get(k, 0) + 1
        ok = err <= bud
        # physical ranges, on the REPORTED value
        rng_ok = True
        gr = np.real(g.astype(complex))
        if o in ("occupation", "correlation_matrix", "fidelity"):
            rng_ok = bool((gr >= -RANGE_SLACK).all() and (gr <= 1 + RANGE_SLACK).all())
        elif o == "energy_variance":
            rng_ok = bool((gr >= -max(RANGE_SLACK, bud)).all())
        elif o == "entanglement_entropy":
            cap = math.log(d) * min(bond + 1, n - bond - 1)
            rng_ok = bool((gr >= -RANGE_SLACK).all() and (gr <= cap + RANGE_SLACK).all())
        verdict[o] = "ok" if ok and rng_ok else ("wrong" if not ok else "range")
        if not ok:
            rep2 = dict(rep, observable=o, reported=np.asarray(g).tolist() if g.size <= 16 else "large", reference=np.asarray(r).tolist() if r.size <= 16 else "large")
            acc["violations"].append({"prop": "C13", "key": f"{key_prefix}:{o}:differs-from-definition", "what":
                                      f"{tag}: reported {o} differs from its definition on the normalised state by {err:.3e} (budget {bud:.1e})", "n": n, "params": rep2, "path": []})
        elif not rng_ok:
            acc["violations"].append({"prop": "C13", "key": f"{key_prefix}:{o}:outside-physical-range", "what": f"{tag}: reported {o} leaves its physical range", "n": n, "params": rep, "path": []})
    return verdict


def _res(results, tag: str):
    try:
        v = results.get_result(tag, 0.0) if hasattr(results, "get_result") else getattr(results, tag)[0]
    except Exception:
        v = getattr(results, tag)[0]
    return v


def _num(v):
    import torch

    if isinstance(v, torch.Tensor):
        return M.tnp(v)
    if isinstance(v, (list, tuple)):
        return np.array([[complex(_sc(x)) for x in row] if isinstance(row, (list, tuple)) else complex(_sc(row)) for row in v])
    return np.asarray(v)


def _sc(x):
    import torch

    return x.item() if isinstance(x, torch.Tensor) else x


def mps_scenario(task: dict) -> dict:
    import torch
    from emu_mps import MPS, MPO, MPSConfig
    from emu_mps.mps_backend_impl import create_impl
    from emu_mps.observables import EntanglementEntropy
    from pulser.backend import BitStrings, CorrelationMatrix, Energy, EnergySecondMoment, EnergyVariance, Expectation, Fidelity, Occupation

    torch.set_num_threads(1)
    logging.getLogger("emulators").setLevel(logging.ERROR)
    acc = M.new_acc()
    acc["cells"] = {}
    rng = np.random.default_rng(task["seed"])
    torch.manual_seed(task["seed"] % (2**31))
    for it in range(task["count"]):
        scaled, canonical, dark = task["norm"] == "scaled", task["canonical"], task["dark"]
        d = 2 if dark else int(rng.choice([2, 2, 3]))
        n = int(rng.integers(3 if dark else 2, (task["max_n"] if d == 2 else min(task["max_n"], 5)) + 1))  # dense reference: 3^5 = 243
        if dark:
            ngood = int(rng.integers(2, n))
            mask = np.ones(n, dtype=bool)
            mask[rng.choice(n, size=ngood, replace=False)] = False   # True = badly prepared
        else:
            ngood, mask = n, np.zeros(n, dtype=bool)
        good = ~mask
        letters = "gr" if d == 2 else "grx"
        eig = M.EIG[d]
        data, prm = M.make_sequence_data(rng, n, 1, 10.0, dim=d, bad=(mask if dark else None), scale=float(rng.choice([1.0, 0.3])))
        bond = int(rng.integers(0, n - 1))
        tgt_amp = {"".join(rng.choice(list(letters), size=n)): complex(rng.normal(), rng.normal()) for _ in range(3)}
        target = MPS.from_state_amplitudes(eigenstates=eig, amplitudes=tgt_amp)
        opr = rand_operations(rng, n, letters)
        obs_op = MPO.from_operator_repr(eigenstates=eig, n_qudits=n, operations=opr)
        T = [0.0]
        obs = [Occupation(evaluation_times=T), CorrelationMatrix(evaluation_times=T), Energy(evaluation_times=T), EnergyVariance(evaluation_times=T),
               EnergySecondMoment(evaluation_times=T), Fidelity(target, evaluation_times=T), Expectation(obs_op, evaluation_times=T),
               EntanglementEntropy(bond, evaluation_times=T), BitStrings(evaluation_times=T, num_shots=50)]
        rep = {"backend": "mps", "seed": task["seed"], "iteration": it, "n": n, "dim": d, "norm": task["norm"], "canonical": canonical,
               "bad_atoms": mask.tolist(), "bond": bond, "max_bond_dim": None}
        tag = f"mps:{task['norm']}:{'canonical' if canonical else 'noncanonical'}:{'dark' if dark else 'nodark'}"
        try:
            with warnings.catch_warnings():
                warnings.simplefilter("ignore")
                # a binding bond-dimension cap: the held state sits AT the cap, so any observable that truncates an intermediate
                # (H|psi>, H@H) with the run's own settings departs from its definition
                cap = int(rng.choice([1024, 1024, 2, 3, 4]))
                cfg = MPSConfig(dt=10.0, precision=1e-9, max_bond_dim=cap, observables=obs, optimize_qubit_ordering=False, log_level=logging.ERROR)
            impl = create_impl(data, cfg)
            impl.init_dark_qubits()
            impl.init_initial_state(None)
            impl.init_noiseless_hamiltonian()
            # the state the backend holds at the time of the report: arbitrary norm, arbitrary gauge
            fs = M.rand_factors(rng, ngood, d, int(rng.integers(1, 9)) if cap == 1024 else cap, float(rng.choice([1.0, 0.5])))
            v = dense.mps_to_vec(fs)
            sc = (float(rng.choice([0.2, 0.7, 1.9, 5.0])) if scaled else 1.0) / np.linalg.norm(v)
            fs[int(rng.integers(0, ngood))] *= sc
            st = MPS([torch.tensor(f) for f in fs], precision=1e-9, max_bond_dim=cap, eigenstates=eig, num_gpus_to_use=0)
            if canonical:
                st.orthogonalize(int(rng.integers(0, ngood)))
            held = M.mps_vec(st)
            impl.state = st
            impl.fill_results()
            res = impl.results
            got = {}
            for o in OBS[:-1]:
                try:
                    got[o] = _num(_res(res, o))
                except Exception as ex:
                    got[o] = f"missing: {ex}"
            after = M.mps_vec(impl.state)
        except Exception as ex:
            acc["violations"].append({"prop": "C13", "key": f"mps:fill_results:raises:{'dark' if dark else 'nodark'}", "what": f"{tag}: fill_results raised {type(ex).__name__}: {ex}", "n": n, "params": rep, "path": []})
            continue
        # reference on the normalised, padded state
        psi_good = held / np.linalg.norm(held)
        full = psi_good.reshape([d] * ngood)
        for i in range(n):
            if mask[i]:
                full = np.expand_dims(full, i)
                pad = [(0, 0)] * full.ndim
                pad[i] = (0, d - 1)
                full = np.pad(full, pad)
        psi = full.reshape(-1)
        g = good.astype(float)
        H = dense.hamiltonian(prm["omega"][0] * g, prm["delta"][0] * g, prm["phi"][0], prm["U"] * np.outer(g, g), "rydberg", d)
        tvec = tn.vec_from_amplitudes(eig, tgt_amp)
        O = tn.mat_from_operations(eig, n, opr)
        ref = definitions(psi, H, n, d, tvec, O, bond)
        hn = float(np.linalg.norm(H, 2))
        h2f = float(np.linalg.norm(H @ H))
        e2bud = (n - 1) * (1e-5 + 1e-6 * h2f) + 1e-9 * (1 + hn * hn)     # H @ H is truncated at DEFAULT_PRECISION
        budgets = {"energy": 1e-9 * (1 + hn), "energy_second_moment": e2bud, "energy_variance": e2bud + 1e-9 * (1 + hn * hn),
                   "expectation": 1e-9 * (1 + float(np.linalg.norm(O, 2))), "entanglement_entropy": 1e-8}
        ver = compare(tag, got, ref, budgets, n, d, bond, acc, rep, f"mps:{'dark' if dark else 'nodark'}", False)
        for o, vv in ver.items():
            acc["cells"].setdefault(("mps", o, "MPS", task["norm"], canonical, dark), []).append(vv)
        if np.linalg.norm(after - held) > 1e-10 * max(1.0, np.linalg.norm(held)):
            acc["violations"].append({"prop": "C13", "key": "mps:fill_results:changes-held-state", "what": f"{tag}: fill_results changed the state the backend holds", "n": n, "params": rep, "path": []})
        acc["transitions"] += 1
    return acc


def sv_scenario(task: dict) -> dict:
    import torch
    from emu_sv import DenseOperator, DensityMatrix, StateVector, SVConfig
    from emu_sv.sv_backend_impl import SVBackendImpl
    from pulser.backend import BitStrings, CorrelationMatrix, Energy, EnergySecondMoment, EnergyVariance, Expectation, Fidelity, Occupation

    torch.set_num_threads(1)
    logging.getLogger("emulators").setLevel(logging.ERROR)
    acc = M.new_acc()
    acc["cells"] = {}
    rng = np.random.default_rng(task["seed"])
    torch.manual_seed(task["seed"] % (2**31))
    kind = task["kind"]
    for it in range(task["count"]):
        scaled = task["norm"] == "scaled"
        n = int(rng.integers(2, (task["max_n"] if kind == "StateVector" else min(task["max_n"], 6)) + 1))
        eig = ("r", "g")
        lind = []
        if kind == "DensityMatrix":
            for _ in range(int(rng.integers(1, 3))):
                lind.append(torch.tensor(0.3 * (rng.normal(size=(2, 2)) + 1j * rng.normal(size=(2, 2)))))
        data, prm = M.make_sequence_data(rng, n, 1, 10.0, dim=2, lindblad=lind, scale=float(rng.choice([1.0, 0.3])))
        v = rng.normal(size=2**n) + 1j * rng.normal(size=2**n)
        v /= np.linalg.norm(v)
        sc = float(rng.choice([0.3, 0.8, 1.7, 4.0])) if scaled else 1.0
        tvec = rng.normal(size=2**n) + 1j * rng.normal(size=2**n)
        tvec /= np.linalg.norm(tvec)
        opr = rand_operations(rng, n, "gr")
        T = [0.0]
        rep = {"backend": "sv", "kind": kind, "seed": task["seed"], "iteration": it, "n": n, "norm": task["norm"], "scale": sc}
        tag = f"sv:{kind}:{task['norm']}"
        try:
            if kind == "StateVector":
                init = StateVector(torch.tensor(v * sc), gpu=False)
                target = StateVector(torch.tensor(tvec), gpu=False)
                normalised = v
                tref = tvec
            else:
                w = rng.normal(size=2**n) + 1j * rng.normal(size=2**n)
                w /= np.linalg.norm(w)
                p = float(rng.uniform(0.2, 0.8))
                rho = p * np.outer(v, v.conj()) + (1 - p) * np.outer(w, w.conj())
                init = DensityMatrix(torch.tensor(rho * sc), gpu=False)
                sigma = np.outer(tvec, tvec.conj())
                target = DensityMatrix(torch.tensor(sigma), gpu=False)
                normalised = rho
                tref = sigma
            obs = [Occupation(evaluation_times=T), CorrelationMatrix(evaluation_times=T), Energy(evaluation_times=T), EnergyVariance(evaluation_times=T),
                   EnergySecondMoment(evaluation_times=T), Fidelity(target, evaluation_times=T), BitStrings(evaluation_times=T, num_shots=50)]
            if kind == "StateVector":
                obs.append(Expectation(DenseOperator.from_operator_repr(eigenstates=eig, n_qudits=n, operations=opr), evaluation_times=T))
            with warnings.catch_warnings():
                warnings.simplefilter("ignore")
                cfg = SVConfig(dt=10.0, observables=obs, initial_state=init, gpu=False, log_level=logging.ERROR)
            impl = SVBackendImpl(cfg, data)
            impl._apply_observables(0)
            res = impl.results
            got = {}
            for o in OBS[:-1]:
                if o == "entanglement_entropy" or (o == "expectation" and kind != "StateVector"):
                    continue
                try:
                    got[o] = _num(_res(res, o))
                except Exception as ex:
                    got[o] = f"missing: {ex}"
        except Exception as ex:
            acc["violations"].append({"prop": "C13", "key": f"sv:{kind}:apply_observables:raises", "what": f"{tag}: _apply_observables raised {type(ex).__name__}: {ex}", "n": n, "params": rep, "path": []})
            continue
        H = dense.hamiltonian(prm["omega"][0], prm["delta"][0], prm["phi"][0], prm["U"], "rydberg", 2)
        O = tn.mat_from_operations(eig, n, opr) if kind == "StateVector" else None
        ref = definitions(normalised, H, n, 2, tref, O, None)
        hn = float(np.linalg.norm(H, 2))
        budgets = {"energy": 1e-9 * (1 + hn), "energy_second_moment": 1e-9 * (1 + hn * hn), "energy_variance": 1e-9 * (1 + hn * hn),
                   "expectation": 1e-9 * (1 + (float(np.linalg.norm(O, 2)) if O is not None else 0.0))}
        before = len(acc["violations"])
        ver = compare(tag, got, ref, budgets, n, 2, None, acc, rep, f"sv:{kind}:{task['norm']}-state", scaled)
        if scaled:
            # one canonical key for the whole family: the state is not normalised before the callbacks
            bad = [o for o, vv in ver.items() if vv != "ok"]
            del acc["violations"][before:]
            if bad:
                acc["violations"].append({"prop": "C13", "key": "sv:initial-state-not-normalised:observables-scaled-by-norm", "what":
                                          f"emu-sv reports {', '.join(sorted(bad))} of an unnormalised {kind} scaled by its norm / trace (e.g. occupations up to "
                                          f"{float(np.max(np.real(got['occupation']))):.3f}); the definition is on the normalised state", "n": n, "params": rep, "path": []})
        for o, vv in ver.items():
            acc["cells"].setdefault(("sv", o, kind, task["norm"], True, False), []).append(vv)
        acc["transitions"] += 1
    return acc


def _dispatch(t):
    return mps_scenario(t) if t["backend"] == "mps" else sv_scenario(t)


# ------------------------------------------------------------------------------------------ driver
def run(ctx: Ctx) -> None:
    ctx.level = "exploration"
    ctx.assumptions += [
        "Observables.tla part 1 transcribes monkeypatch_observables (both configs), emu_sv.utils.choose and the normalisation step of fill_results / "
        "_apply_observables; model verdicts are compared cell by cell with the verdicts measured on the real backends (mismatch = drift)",
        "definitions: numpy reference (harness/ref/dense.py, tn.py) on the normalised state; Hamiltonian of that time = dense Rydberg Hamiltonian of the "
        "step's drive row and interaction matrix, dark atoms absent (identity) -- a wrong MPO / sparse Hamiltonian (C05 / C06) would also show here",
        "MPS second moment / variance: H @ H is truncated at DEFAULT_PRECISION by an eigh-of-Gram split, budget (n-1)*(1e-5 + 1e-6*|H^2|_F); all others 1e-9 relative; ranges 1e-9",
        "dark-atom padding only with 2-level atoms (3-level padding is C25's subject); expectation on density matrices and entropy on emu-sv are documented refusals",
        "random states / parameters are seeded samples, not a proof",
    ]
    def cells_of(variant: str):
        r = run_tlc("Observables", None, workdir=ctx.work, name=f"cells_{variant}", cfg_text=cfg_cells(variant), workers=2, extra=["-continue"], timeout=600)
        cs = {}
        for t in printed_tuples(r["out"], "CELL"):
            _, b, o, kind, norm, can, dark, impl, acc_, cls = t
            cs[(b, o, kind, norm, can == "canonical", dark == "dark")] = {"impl": impl, "accepts": acc_ == "accepts", "ok": cls == "one"}
        if len(cs) < 50:
            raise MachineryError(f"TLC printed only {len(cs)} cells for {variant}")
        return r, cs

    # two transcriptions of the emu-sv mechanism: the state is passed as it is ("code", what the tree did when the
    # specification was written) or normalised first ("sv_normalises", the candidate repair).  The one that matches
    # the measured behaviour is the mechanism model of THIS tree; TLC decides the requirement for both.
    models = {}
    for variant in ("code", "sv_normalises"):
        r, cs = cells_of(variant)
        ctx.add_tlc(r)
        models[variant] = {"res": r, "cells": cs}
    if not models["code"]["res"]["violated"] or models["sv_normalises"]["res"]["violated"]:
        raise MachineryError("specification self-test: 'code' must refute ReportedIsDefinition on unnormalised emu-sv states, 'sv_normalises' must satisfy it")
    r2 = run_tlc("Observables", None, workdir=ctx.work, name="cells_fill_unnormalised", cfg_text=cfg_cells("fill_unnormalised").replace("LogCells = TRUE", "LogCells = FALSE"),
                 workers=2, extra=["-continue"], timeout=600)
    if not r2["violated"]:
        raise MachineryError("specification self-test: mutant fill_unnormalised satisfies the requirement")
    # ---- binding A
    rng = np.random.default_rng([ctx.seed, 13])
    count = ctx.pick(4, 20)
    max_n = ctx.pick(6, 8)
    tasks = []
    for norm in ("unit", "scaled"):
        for canonical in (True, False):
            for dark in (False, True):
                for _ in range(ctx.pick(1, 3)):
                    tasks.append({"backend": "mps", "norm": norm, "canonical": canonical, "dark": dark, "count": count, "max_n": max_n, "seed": int(rng.integers(0, 2**31))})
        for kind in ("StateVector", "DensityMatrix"):
            for _ in range(ctx.pick(1, 3)):
                tasks.append({"backend": "sv", "kind": kind, "norm": norm, "count": count, "max_n": max_n, "seed": int(rng.integers(0, 2**31))})
    accs = pmap(_dispatch, tasks)
    real_cells: dict = {}
    for a in accs:
        for k, v in a.pop("cells").items():
            real_cells.setdefault(k, []).extend(v)
    acc = M.merge(accs)
    seen_keys = set()
    for v in acc["violations"]:
        ctx.violation(v["key"], v["what"], {"scenario": v["params"], "how": "harness.drivers.C13.mps_scenario / sv_scenario with this seed and iteration"})
        seen_keys.add(v["key"])
    # cell by cell: model verdict vs real verdict, for the transcription that matches this tree
    def mismatches(cs):
        out = []
        for k, m in sorted(cs.items()):
            rv = real_cells.get(k)
            if k[1] == "bitstrings" or rv is None:
                continue
            if all(x == "ok" for x in rv) != (m["ok"] and m["accepts"]):
                out.append(k)
        return out

    mm = {v: mismatches(models[v]["cells"]) for v in models}
    variant = min(mm, key=lambda v: len(mm[v]))
    cells = models[variant]["cells"]
    ctx.coverage["model"] = {"cells": len(cells), "mechanism_variant_matching_this_tree": variant,
                             "violated_invariants": {v: sorted({x[1] for x in models[v]["res"]["violated"]}) for v in models},
                             "cells_refuted_by_model": len([k for k, v in cells.items() if not (v["ok"] and v["accepts"])]),
                             "implementations": sorted({v["impl"] for v in cells.values()})}
    for k in mm[variant]:
        ctx.model_drift(f"cell {k}: model ({variant}) and the real backend disagree on whether the reported value is the definition")
    n_cells = 0
    for k, m in sorted(cells.items()):
        if k[1] == "bitstrings":
            continue  # C15's subject
        rv = real_cells.get(k)
        if rv is None:
            ctx.notes.append(f"cell {k} not instantiated")
            continue
        n_cells += 1
        ctx.case(("cell",) + k, nontrivial=True, sample={"cell": k, "instances": len(rv), "model_ok": m["ok"], "real_ok": all(x == "ok" for x in rv)} if n_cells % 17 == 0 else None)
    ctx.evaluations += acc["transitions"]
    ctx.traces_validated += acc["transitions"]
    ctx.coverage["cells_instantiated"] = n_cells
    ctx.coverage["scenarios"] = acc["transitions"]
    wm, ck = {}, {}
    for k, v in acc["margins"].items():
        kk = k.split(":")[1] + ":" + k.split(":")[-1]
        wm[kk] = max(wm.get(kk, 0.0), v)
    for k, v in acc["checks"].items():
        kk = k.split(":")[1] + ":" + k.split(":")[-1]
        ck[kk] = ck.get(kk, 0) + v
    ctx.coverage["worst_margin_err_over_budget"] = {k: float(f"{v:.3g}") for k, v in sorted(wm.items())}
    ctx.coverage["checks"] = dict(sorted(ck.items()))
    ctx.coverage["rule"] = ("one case per table cell (backend, observable, representation, norm class, canonical, dark padding) printed by TLC and instantiated on "
                            f"{count}+ random scenarios through the real backend; a cell is non-trivial when at least one real Results value was compared with its definition")
    ctx.coverage["exhaustive"] = False
