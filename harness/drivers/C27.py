"""C27 - a loadable autosave always survives a crash during autosaving.

(C) The file-system operations of the real save_simulation are RECORDED (audit events open /
    os.rename / os.remove, i.e. whatever API the code uses) for the first saves of a real run and
    handed to TLC as the protocol constant of Autosave.tla; TLC explores a crash before / after every
    operation and in the middle of the write and prints its prediction for every crash point.
(A) Real fault injection: for the 2nd and 3rd save, a crash is injected at EVERY crash point of the
    real code (exception raised from the audit hook before the operation executes; mid-write crash
    raised while the snapshot is being pickled); afterwards the advertised file must exist, unpickle
    and `MPSBackend.resume` must run to completion.  A VIOLATION is raised only for a real crash point
    that leaves no loadable snapshot under the advertised name.
"""
from __future__ import annotations

import json
import os
import pickle
from pathlib import Path

from harness import fsaudit
from harness.core import Ctx, MachineryError
from harness.smallruns import observables, small_spec
from harness.gen import seqs
from harness.tlc import printed_tuples, run_tlc


def _cfg(kind: str, dt: float = 10.0):
    from emu_mps import MPSConfig, Solver
    import pulser

    kw = dict(dt=dt, log_level=100, observables=observables(["occupation", "energy"], [0.0, 1 / 3, 2 / 3, 1.0]), optimize_qubit_ordering=False)
    if kind == "dmrg":
        kw["solver"] = Solver.DMRG
    if kind == "noisy":
        kw["noise_model"] = pulser.NoiseModel(relaxation_rate=0.5, dephasing_rate=0.3)
    return MPSConfig(**kw)


def _run_real(workdir: Path, kind: str, crash_op: int | None = None, midwrite_save: int | None = None, crash_after_save: int | None = None):
    """One real run in `workdir` with forced autosave.  Returns dict(ops, events, crashed, results, base)."""
    import random
    import torch
    from emu_base import _verif
    from emu_mps import MPSBackend
    from emu_mps.mps_backend_impl import MPSBackendImpl

    workdir.mkdir(parents=True, exist_ok=True)
    old = os.getcwd()
    os.chdir(workdir)
    os.environ["PASQAL_IO_EMULATORS_VERIF_AUTOSAVE"] = "always"
    if crash_after_save is not None:
        os.environ["PASQAL_IO_EMULATORS_VERIF_CRASH_AFTER_SAVE"] = str(crash_after_save)
    else:
        os.environ.pop("PASQAL_IO_EMULATORS_VERIF_CRASH_AFTER_SAVE", None)
    ev: list = []
    _verif.reset()
    _verif.set_sink(ev)
    random.seed(1234)
    torch.manual_seed(1234)
    seq = seqs.build_sequence(small_spec(3, 30))
    orig_getstate = MPSBackendImpl.__getstate__
    state = {"pickles": 0}

    def getstate(self):  # harness-level wrapper: crash while the snapshot is being written
        state["pickles"] += 1
        if midwrite_save is not None and state["pickles"] == midwrite_save:
            raise _verif.VerifCrash("injected crash in the middle of the snapshot write")
        return orig_getstate(self)

    MPSBackendImpl.__getstate__ = getstate
    ops = fsaudit.start(str(workdir), crash_at=crash_op, exc=_verif.VerifCrash)
    out = {"crashed": False, "results": None, "error": None}
    try:
        out["results"] = MPSBackend(seq, config=_cfg(kind)).run()
    except _verif.VerifCrash as e:
        out["crashed"] = True
        out["error"] = str(e)
    finally:
        fsaudit.stop()
        MPSBackendImpl.__getstate__ = orig_getstate
        _verif.set_sink(None)
        os.environ.pop("PASQAL_IO_EMULATORS_VERIF_AUTOSAVE", None)
        os.environ.pop("PASQAL_IO_EMULATORS_VERIF_CRASH_AFTER_SAVE", None)
        os.chdir(old)
    out["ops"] = list(ops)
    out["events"] = ev
    news = [e for e in ev if e["ev"] == "mps_new"]
    saves = [e for e in ev if e["ev"] == "save"]
    out["base"] = saves[0]["file"] if saves else None
    out["n_saves_completed"] = len(saves)
    return out


def _split_saves(run: dict) -> list[list[dict]]:
    """Group recorded fs ops into saves, using the `save` hook events as delimiters: the audit list
    and the event list are both in program order; we re-run the bookkeeping with a marker."""
    return run["saves"]


def _record_protocol(ctx: Ctx, kind: str) -> tuple[list[list[dict]], str, dict]:
    """Run once, uninterrupted, and attribute every fs op to the save during which it happened."""
    from emu_base import _verif

    # interleave: we wrap _verif.after_save (called at the end of each completed save) to mark boundaries
    marks: list[int] = []
    orig_after = _verif.after_save

    def after():
        marks.append(fsaudit.count())
        return orig_after()

    _verif.after_save = after
    try:
        run = _run_real(ctx.work / f"record_{kind}", kind)
    finally:
        _verif.after_save = orig_after
    if run["crashed"] or run["results"] is None:
        raise MachineryError("uninterrupted reference run did not finish")
    if not marks:
        raise MachineryError("no autosave happened (hook `save` / forced autosave control missing?)")
    ops = run["ops"]
    saves = []
    start = 0
    for m in marks:
        saves.append(ops[start:m])
        start = m
    tail = ops[start:]
    run["tail_ops"] = tail
    return saves, run["base"], run


def _to_spec_ops(save_ops: list[tuple], names: dict) -> list[dict]:
    """audit ops -> spec ops; every create gets its `finish` right before the next operation."""
    def nm(p: str) -> str:
        if p not in names:
            names[p] = f"f{len(names)}"
        return names[p]

    out: list[dict] = []
    pending = None
    for (op, src, dst) in save_ops:
        if pending is not None:
            out.append({"op": "finish", "src": pending, "dst": pending})
            pending = None
        if op == "create":
            out.append({"op": "create", "src": nm(dst), "dst": nm(dst)})
            pending = nm(dst)
        elif op == "rename":
            out.append({"op": "rename", "src": nm(src), "dst": nm(dst)})
        elif op == "remove":
            out.append({"op": "remove", "src": nm(dst), "dst": nm(dst)})
        else:
            out.append({"op": "other", "src": nm(src) if src else "none", "dst": nm(dst) if dst else "none"})
    if pending is not None:
        out.append({"op": "finish", "src": pending, "dst": pending})
    return out


def _resume_ok(base: str, ref_results) -> tuple[bool, str]:
    """The advertised file must exist, unpickle and resume to completion."""
    import torch
    from emu_mps import MPSBackend

    p = Path(base)
    if not p.is_file():
        return False, "advertised autosave file is missing"
    try:
        with open(p, "rb") as f:
            pickle.load(f)
    except BaseException as e:  # truncated pickle etc.
        return False, f"advertised autosave file does not unpickle: {type(e).__name__}"
    old = os.getcwd()
    os.chdir(p.parent)
    try:
        res = MPSBackend.resume(p)
    except BaseException as e:
        return False, f"resume raised {type(e).__name__}: {e}"
    finally:
        os.chdir(old)
    try:
        a = torch.stack(list(res.occupation))
        b = torch.stack(list(ref_results.occupation))
        if a.shape != b.shape or not torch.allclose(a, b, atol=1e-6):
            return True, "resumed-but-different"  # C26's subject; C27 only needs loadability
    except Exception:
        pass
    return True, "ok"


def run(ctx: Ctx) -> None:
    ctx.level = "fault_enumeration"
    ctx.assumptions += [
        "file model: open-for-write truncates and leaves a partial file until closed; rename/replace is atomic; a crash loses nothing already on disk (no power-loss reordering)",
        "file-system operations are observed through Python audit events (open, os.rename, os.remove); native code writing files would be invisible",
        "mid-write crash is injected while the snapshot object is pickled (MPSBackendImpl.__getstate__)",
    ]
    kinds = ["tdvp"] if ctx.quick else ["tdvp", "dmrg", "noisy"]
    for kind in kinds:
        saves_raw, base, ref = _record_protocol(ctx, kind)
        names: dict = {os.path.abspath(base): "base"}
        n_use = min(3, len(saves_raw))
        saves = [_to_spec_ops(s, names) for s in saves_raw[:n_use]]
        ctx.sample({"kind": kind, "save_2_protocol": saves[1] if len(saves) > 1 else saves[0]})
        if n_use < 3:
            raise MachineryError(f"{kind}: fewer than 3 autosaves in the reference run")
        if any(not s for s in saves):
            raise MachineryError(f"{kind}: a completed save performed no visible file-system operation")
        proto = ctx.work / f"proto_{kind}.json"
        proto.write_text(json.dumps({"base": "base", "saves": saves}))
        # ---- TLC on the recorded protocol
        res_inv = run_tlc("Autosave", "Autosave.cfg", workdir=ctx.work, name=f"inv_{kind}", env={"PROTO_FILE": str(proto)}, workers=4, coverage=True)
        ctx.add_tlc(res_inv)
        res_tab = run_tlc("Autosave", "Autosave_table.cfg", workdir=ctx.work, name=f"table_{kind}", env={"PROTO_FILE": str(proto)}, workers=1)
        if res_tab["violated"]:
            # SaveAdvertisesNew fails on the recorded protocol: a completed save does not leave the new snapshot under the advertised name
            ctx.violation("autosave:completed-save-does-not-advertise-new-snapshot",
                          "after a completed save the advertised name does not hold the new complete snapshot (recorded protocol, TLC)", {"kind": kind, "saves": saves})
        pred = {}
        for t in printed_tuples(res_tab["out"], "CRASH"):
            _, k, pc, first, st, v, ok = t
            pred[(k, pc)] = bool(ok)
        model_bad = sorted(k for k, ok in pred.items() if not ok and k[0] >= 2)
        ctx.log(f"{kind}: recorded {[len(s) for s in saves]} ops per save; TLC: {res_inv['distinct']} states, invariant "
                f"{'VIOLATED ' + str(res_inv['violated']) if res_inv['violated'] else 'holds'}; predicted-unsafe crash points {model_bad}")
        # ---- real fault injection at every crash point of saves 2 and 3
        ops_before = [0]
        for s in saves_raw:
            ops_before.append(ops_before[-1] + len(s))
        for k in (2, 3):
            sp = saves[k - 1]
            raw_index = 0  # index among this save's RAW (audited) ops
            for pc in range(1, len(sp) + 2):
                label_prev = "start-of-save" if pc == 1 else f"{sp[pc-2]['op']}({sp[pc-2]['src']}->{sp[pc-2]['dst']})"
                label_next = "end-of-save" if pc == len(sp) + 1 else f"{sp[pc-1]['op']}({sp[pc-1]['src']}->{sp[pc-1]['dst']})"
                wd = ctx.work / f"inj_{kind}_{k}_{pc}"
                if pc == len(sp) + 1:
                    run = _run_real(wd, kind, crash_after_save=k)
                elif sp[pc - 1]["op"] == "finish":
                    run = _run_real(wd, kind, midwrite_save=k)
                    if not run["crashed"]:
                        ctx.notes.append(f"{kind}: mid-write crash point of save {k} could not be injected (snapshot not written via __getstate__)")
                        continue
                else:
                    run = _run_real(wd, kind, crash_op=ops_before[k - 1] + raw_index + 1)
                    raw_index += 1
                if not run["crashed"]:
                    raise MachineryError(f"{kind}: crash injection at save {k} pc {pc} did not fire")
                ok, why = _resume_ok(str(Path(wd) / Path(base).name), ref["results"])
                # advertised name inside this run's own directory: take it from its own events
                if run["base"]:
                    ok, why = _resume_ok(run["base"], ref["results"])
                p = pred.get((k, pc))
                ctx.case(("crash", kind, k, pc), sample={"kind": kind, "save": k, "crash_after": label_prev, "crash_before": label_next, "real_loadable": ok, "model_loadable": p})
                ctx.traces_validated += 1
                if not ok:
                    ctx.violation(f"autosave:crash-window:after {label_prev} before {label_next}",
                                  f"crash during autosave #{k} after {label_prev} and before {label_next} leaves no loadable snapshot under the advertised name ({why})",
                                  {"kind": kind, "save": k, "pc": pc, "protocol": sp, "why": why, "model_predicted_loadable": p})
                if p is not None and p != ok:
                    ctx.model_drift(f"{kind}: save {k} pc {pc}: Autosave.tla predicts loadable={p}, real code loadable={ok}")
        # the run's end: autosave removed (C26 checks it too)
    ctx.coverage["rule"] = "one case per (solver kind, save number in {2,3}, crash point = position between two recorded file-system operations incl. mid-write and after the save)"
    ctx.coverage["exhaustive"] = True
