"""C27 - a loadable autosave always survives a crash during autosaving.

(C) A real run (child process) RECORDS what save_simulation does to the file system: every file-system
    operation (audit events open / os.rename / os.remove -- whatever API the code uses) and, at every bytecode
    instruction of save_simulation, the on-disk size of every file in the run directory (so the moment the
    snapshot is COMPLETELY on disk is observed, not assumed).  The recorded operation list of the first three
    saves becomes the protocol constant of Autosave.tla; TLC explores a crash between any two operations and
    in the middle of the write and prints its prediction for every crash point.
(A) Real fault injection by PROCESS DEATH: for the 2nd and 3rd save a child process is killed with os._exit
    (no unwinding, no flushing) immediately before and immediately after every recorded operation, in the
    middle of the write and right after the save; afterwards the advertised file must exist, unpickle and
    `MPSBackend.resume` must run to completion.  A VIOLATION is raised only for a real crash point that leaves
    no loadable snapshot under the advertised name.
"""
from __future__ import annotations

import json
import os
import pickle
import subprocess
import sys
from pathlib import Path

from harness.core import ROOT, Ctx, MachineryError
from harness.pool import pmap
from harness.smallruns import observables
from harness.tlc import printed_tuples, run_tlc


SCENARIO = "12,60"   # atoms, duration: snapshot sizes cross the buffered-write boundaries, a hundred saves


def _cfg(kind: str, dt: float = 10.0):
    from emu_mps import MPSConfig, Solver
    import pulser

    # observables at every step: the results stored in the snapshot grow, so snapshot sizes cross the buffered-write
    # boundaries of the I/O layer during the run
    dur = int(os.environ.get("C27_SCENARIO", SCENARIO).split(",")[1])
    nst = int(dur // dt)
    times = [min(1.0, i * dt / dur) for i in range(nst + 1)]
    kw = dict(dt=dt, log_level=100, observables=observables(["occupation", "energy", "correlation_matrix"], times), optimize_qubit_ordering=False)
    if kind == "dmrg":
        kw["solver"] = Solver.DMRG
    if kind == "noisy":
        kw["noise_model"] = pulser.NoiseModel(relaxation_rate=0.5, dephasing_rate=0.3)
    return MPSConfig(**kw)


def _child(kind: str, workdir: Path, mode: str, n: int | None = None, timeout: int = 1800) -> int:
    env = dict(os.environ)
    env["C27_SCENARIO"] = SCENARIO
    env["PYTHONPATH"] = str(ROOT) + os.pathsep + env.get("PYTHONPATH", "")
    env["OMP_NUM_THREADS"] = "1"
    cmd = [sys.executable, "-m", "harness.c27_child", kind, str(workdir), mode] + ([str(n)] if n is not None else [])
    p = subprocess.run(cmd, cwd=str(ROOT), env=env, capture_output=True, text=True, timeout=timeout)
    if p.returncode not in (0, 77, 78):
        raise MachineryError(f"C27 child failed rc={p.returncode}: {p.stderr[-1500:]}")
    return p.returncode


def kill_worker(job: dict) -> dict:
    """Kill a real run right before instruction `n` of save_simulation, then try to resume from the advertised file."""
    import torch

    wd = Path(job["dir"])
    mode = job.get("mode", "kill")
    rc = _child(job["kind"], wd, mode, job["n"])
    out = {"job": job, "killed": rc == (77 if mode == "kill" else 78), "ok": None, "why": None}
    if not out["killed"]:
        return out
    base = None
    evf = wd / "events.ndjson"
    if evf.exists():
        for line in evf.read_text().splitlines():
            try:
                e = json.loads(line)
            except Exception:
                continue
            if e.get("ev") == "save":
                base = e["file"]
    if base is None:
        out["ok"], out["why"] = False, "no completed save recorded before the kill"
        return out
    out["base"] = base
    p = Path(base)
    if not p.is_file():
        out["ok"], out["why"] = False, "advertised autosave file is missing"
        return out
    try:
        with open(p, "rb") as f:
            pickle.load(f)
    except BaseException as e:  # noqa
        out["ok"], out["why"] = False, f"advertised autosave file does not unpickle: {type(e).__name__}: {e} (size {p.stat().st_size})"
        return out
    old = os.getcwd()
    os.chdir(p.parent)
    try:
        from emu_mps import MPSBackend

        res = MPSBackend.resume(p)
        occ = [[float(x) for x in v] for v in res.occupation]
        out["ok"], out["why"] = True, "ok"
        out["occupation"] = occ
    except BaseException as e:  # noqa
        out["ok"], out["why"] = False, f"resume raised {type(e).__name__}: {e}"
    finally:
        os.chdir(old)
    return out


def _protocol(records: list[dict], base_name: str) -> tuple[list[list[dict]], list[list[tuple]], dict]:
    """Per save: spec ops (with `finish` placed where the data was observed to be completely on disk) and the
    kill points [(instruction counter, label)]."""
    ticks = [r for r in records if "tag" in r]
    fsops = [r for r in records if "fsop" in r]
    nsaves = max(t["save"] for t in ticks)
    names: dict = {base_name: "base"}

    def nm(x: str) -> str:
        if x not in names:
            names[x] = f"f{len(names)}"
        return names[x]

    saves_spec, saves_kill = [], []
    open_renames: set = set()
    incomplete: set = set()
    for k in range(1, nsaves + 1):
        tk = [t for t in ticks if t["save"] == k]
        ops = [o for o in fsops if o["save"] == k and tk[0]["n"] <= o["n"] < tk[-1]["n"]]
        first_next = next((t["n"] for t in ticks if t["save"] == k + 1), tk[-1]["n"] + 1)
        # final size of the snapshot written in this save: size of the advertised file when the next save starts / run ends
        end_fs = next((t["fs"] for t in ticks if t["n"] == first_next), tk[-1]["fs"])
        items = []   # (position, spec op)
        # several operations can fall into one instruction (a C helper, an uninstrumented function): keep their recorded order
        same: dict = {}
        for o in ops:
            o["pos"] = float(o["n"]) + 0.001 * same.get(o["n"], 0)
            same[o["n"]] = same.get(o["n"], 0) + 1
        for o in ops:
            if o["fsop"] == "create":
                items.append((o["pos"], {"op": "create", "src": nm(o["dst"]), "dst": nm(o["dst"])}))
                # follow the file through renames to find its final size, then the first tick at which it has that size
                cur = o["dst"]
                chain = [(o["n"], cur)]
                for o2 in ops:
                    if o2["pos"] > o["pos"] and o2["fsop"] == "rename" and o2["src"] == cur:
                        cur = o2["dst"]
                        chain.append((o2["n"], cur))
                final = end_fs.get(cur)
                if final is None:
                    continue

                def name_at(n: int) -> str:
                    c = chain[0][1]
                    for (nn, nmx) in chain:
                        if nn < n:
                            c = nmx
                    return c
                fin = None
                for t in ticks:
                    if t["n"] > o["n"] and t["fs"].get(name_at(t["n"])) == final:
                        fin = t["n"]
                        break
                if fin is None:
                    fin = first_next
                # a rename performed while the writer still holds the file open moves a file whose data may still be buffered
                for o2 in ops:
                    if o2["fsop"] == "rename" and o2.get("src_open") and o2["pos"] > o["pos"]:
                        # completion = the writer closes the file: first instruction at which no descriptor points to it any more
                        closed = next((t["n"] for t in ticks if t["n"] > o2["n"] and name_at(t["n"]) not in t.get("open", [])), first_next)
                        fin = max(fin, closed)
                        open_renames.add(k)
                        # did this very save leave data unwritten at the rename? (then a real kill can show the loss)
                        after = next((t for t in ticks if t["n"] == o2["n"] + 1), None)
                        if after is not None and after["fs"].get(o2["dst"]) != final:
                            incomplete.add(k)
                items.append((fin - 0.5, {"op": "finish", "src": nm(name_at(fin)), "dst": nm(name_at(fin))}))
            elif o["fsop"] == "rename":
                items.append((o["pos"], {"op": "rename", "src": nm(o["src"]), "dst": nm(o["dst"])}))
            elif o["fsop"] == "remove":
                items.append((o["pos"], {"op": "remove", "src": nm(o["dst"]), "dst": nm(o["dst"])}))
        items.sort(key=lambda x: x[0])
        # a finish that lands after a rename of the file concerns the NEW name (the rename moved a partial file)
        spec_ops = [it[1] for it in items]
        saves_spec.append(spec_ops)
        kills = []
        for pos, op in items:
            if op["op"] == "finish":
                continue
            n = int(pos)
            kills.append((n, f"before {op['op']}({op['src']}->{op['dst']})"))
            kills.append((n + 1, f"after {op['op']}({op['src']}->{op['dst']})"))
        gs = [t["n"] for t in tk if t["tag"] == "getstate"]
        if gs:
            kills.append((gs[0], "mid-write (snapshot being pickled)"))
        kills.append((first_next, "after the save returned"))
        # pc of a kill point = number of spec ops whose position is < n, + 1
        out = []
        for n, label in sorted(set(kills)):
            pc = sum(1 for pos, _ in items if pos < n) + 1
            out.append((n, label, pc))
        saves_kill.append(out)
    names["__incomplete_at_rename__"] = sorted(incomplete)
    return saves_spec, saves_kill, names


def run(ctx: Ctx) -> None:
    ctx.level = "fault_enumeration"
    ctx.assumptions += [
        "file model of Autosave.tla: open-for-write truncates and leaves a partial file until its data is on disk; rename/replace is atomic and moves whatever the file holds; a process death loses exactly the data not yet written to the file (no power-loss reordering)",
        "file-system operations are observed through Python audit events (open, os.rename, os.remove); the completion of the write is observed as the first instruction of save_simulation at which the file has its final size",
        "crash = os._exit in a child process immediately before a chosen bytecode instruction of save_simulation (before / after every file operation, mid-write, after the save)",
    ]
    kinds = ["tdvp"] if ctx.quick else ["tdvp", "dmrg", "noisy"]
    jobs = []
    plans = {}
    for kind in kinds:
        rec_dir = ctx.work / f"record_{kind}"
        rc = _child(kind, rec_dir, "record")
        if rc != 0:
            raise MachineryError(f"{kind}: recording run did not finish (rc={rc})")
        records = [json.loads(l) for l in (rec_dir / "record.jsonl").read_text().splitlines()]
        final = [r for r in records if r.get("final")]
        if not final:
            raise MachineryError(f"{kind}: recording run produced no results")
        base = None
        for line in (rec_dir / "events.ndjson").read_text().splitlines():
            e = json.loads(line)
            if e.get("ev") == "save":
                base = os.path.basename(e["file"])
                break
        if base is None:
            raise MachineryError(f"{kind}: no autosave happened (forced-autosave control / `save` hook missing?)")
        saves, kills, names = _protocol(records, base)
        if len(saves) < 3 or any(not s for s in saves[:3]):
            raise MachineryError(f"{kind}: fewer than 3 recorded saves with visible file-system operations")
        # distinct protocol shapes among all saves (operation order incl. the observed completion of the write)
        shapes: dict = {}
        for k, sp in enumerate(saves, start=1):
            if k >= 2 and sp:
                shapes.setdefault(json.dumps(sp), []).append(k)
        chosen = {2, 3}
        for ks in shapes.values():
            step = max(1, len(ks) // 5)
            chosen |= set(ks[::step][:6])
        inc = [k for k in names.pop("__incomplete_at_rename__", []) if k >= 2]
        chosen |= set(inc[:: max(1, len(inc) // 4)][:4])      # saves whose data was observed incomplete at the rename
        chosen = sorted(chosen)
        chosen = [k for k in chosen if k <= len(saves)]
        ctx.coverage.setdefault("protocol_shapes", {})[kind] = {"saves_recorded": len(saves), "distinct_shapes": len(shapes), "saves_injected": chosen}
        ctx.sample({"kind": kind, "save_2_protocol": saves[1], "distinct_shapes": [json.loads(x) for x in list(shapes)[:3]]})
        # TLC on a protocol made of: the first save, then one representative save per chosen index (renumbered 2..)
        sel = [saves[0]] + [saves[k - 1] for k in chosen]
        proto = ctx.work / f"proto_{kind}.json"
        proto.write_text(json.dumps({"base": "base", "saves": sel}))
        res_inv = run_tlc("Autosave", "Autosave.cfg", workdir=ctx.work, name=f"inv_{kind}", env={"PROTO_FILE": str(proto)}, workers=4, coverage=True)
        ctx.add_tlc(res_inv)
        res_tab = run_tlc("Autosave", "Autosave_table.cfg", workdir=ctx.work, name=f"table_{kind}", env={"PROTO_FILE": str(proto)}, workers=1)
        if res_tab["violated"]:
            # the MODEL of the recorded protocol says so; only a real kill that leaves nothing loadable is a violation (R1):
            # the recording may have missed where the write completed
            ctx.model_drift(f"{kind}: in the recorded protocol a completed save does not leave the new complete snapshot under the advertised name (TLC, Autosave_table)")
        pred = {}
        for t in printed_tuples(res_tab["out"], "CRASH"):
            _, kk, pc, first, st, v, ok = t
            if kk >= 2:
                pred[(chosen[kk - 2], pc)] = bool(ok)
        model_bad = sorted(k for k, ok in pred.items() if not ok)
        ctx.log(f"{kind}: {len(saves)} saves recorded, {len(shapes)} distinct protocol shape(s); TLC {res_inv['distinct']} states, AdvertisedLoadable "
                f"{'VIOLATED' if res_inv['violated'] else 'holds'}; predicted-unsafe crash points {model_bad}")
        plans[kind] = (saves, kills, pred, final[0]["occupation"])
        for k in chosen:
            for (n, label, pc) in kills[k - 1]:
                jobs.append({"kind": kind, "save": k, "n": n, "label": label, "pc": pc, "dir": str(ctx.work / f"kill_{kind}_{k}_{n}")})
        # the other kind of crash: an exception inside the save (interrupt, out of memory, failing write) unwinds the stack, so
        # with-blocks close files and finally-clauses run before the process ends; injected at the same points of two saves
        for k in chosen[:2]:
            for (n, label, pc) in kills[k - 1]:
                if label != "after the save returned":
                    jobs.append({"kind": kind, "save": k, "n": n, "label": label, "pc": pc, "mode": "raise", "dir": str(ctx.work / f"raise_{kind}_{k}_{n}")})
    results = pmap(kill_worker, jobs)
    for r in results:
        j = r["job"]
        saves, kills, pred, ref_occ = plans[j["kind"]]
        if not r["killed"]:
            raise MachineryError(f"{j['kind']}: kill point {j['n']} ({j['label']}) was never reached")
        p = pred.get((j["save"], j["pc"])) if j.get("mode", "kill") == "kill" else None     # the model's crash is a process death
        if j["label"] == "after the save returned":
            p = True if p is None else p
        ctx.case((j.get("mode", "kill"), j["kind"], j["save"], j["n"]), sample={"kind": j["kind"], "save": j["save"], "crash": j["label"], "real_loadable": r["ok"], "model_loadable": p})
        ctx.traces_validated += 1
        if not r["ok"]:
            how = "process death" if j.get("mode", "kill") == "kill" else "exception raised"
            ctx.violation(f"autosave:crash-window:{j['label']}" + ("" if j.get("mode", "kill") == "kill" else ":exception"),
                          f"{how} during autosave #{j['save']} {j['label']} leaves no loadable snapshot under the advertised name ({r['why']})",
                          {"kind": j["kind"], "save": j["save"], "instruction": j["n"], "protocol": saves[j["save"] - 1], "why": r["why"], "model_predicted_loadable": p})
        else:
            import numpy as np

            if not np.allclose(np.asarray(r["occupation"]), np.asarray(ref_occ), atol=1e-6) and j["kind"] != "noisy":
                ctx.notes.append(f"{j['kind']}: resumed results differ from the uninterrupted run after a kill {j['label']} (C26's subject)")
        if p is not None and p != bool(r["ok"]):
            ctx.model_drift(f"{j['kind']}: save {j['save']} {j['label']}: Autosave.tla predicts loadable={p}, real code loadable={r['ok']}")
    ctx.coverage["rule"] = "one case per (solver kind, save = 2, 3 and one representative of every distinct recorded protocol shape, kill point = before / after every recorded file-system operation, mid-write, after the save); kill = os._exit of a child process"
    ctx.coverage["exhaustive"] = True
