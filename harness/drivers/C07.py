"""C07 - Krylov exponentiation is accurate and honest about convergence.

(1) TLC: Krylov.tla with Fn="exp" (mechanism KrylovFn = transcription of krylov_exp_impl / krylov_exp;
    the environment decides every floating-point test) |= ExpHonest / ExpPublic / ExpShape / Terminates
    for every control path with max_krylov_dim <= 6; the seeded mutants of the mechanism must be refuted.
(2) Binding A: every control path TLC printed (happy breakdown at iteration k, convergence at k,
    exhaustion; impl and public entry point) is REALISED on the real functions (invariant subspaces,
    bisection on dt, max_krylov_dim below need); paths the real code takes must be model paths.
(3) Binding B: every real execution (path realisations, a stratified random exploration over the
    operator classes / dimensions / spectra / tolerances / max_krylov_dim of the property's quantifier,
    in-situ kry_exit events of real emu-sv / emu-mps runs incl. forced non-convergence) is a trace
    validated by KrylovTrace.tla; the atom `accurate` comes from the dense reference
    (|result - exp(A)v| <= 10 tol |v| + 64 eps |A| |v|).
"""
from __future__ import annotations

import json

import numpy as np

from harness.core import Ctx, MachineryError
from harness.drivers import krylov_common as kc
from harness.pool import pmap


def insitu_tasks(ctx: Ctx) -> list[dict]:
    amp = {"k": "const", "d": 200, "v": 6.0}
    det = {"k": "ramp", "d": 200, "v0": -5.0, "v1": 5.0}
    tasks = [
        {"backend": "sv", "n": 3, "dt": 10, "amp": amp, "det": det, "cfg": {}},
        {"backend": "sv", "n": 5, "dt": 10, "amp": amp, "det": det, "layout": "ring", "cfg": {"krylov_tolerance": 1e-6}},
        {"backend": "sv", "n": 4, "dt": 10, "amp": amp, "det": det, "cfg": {"max_krylov_dim": 3}},          # too small: must raise
        {"backend": "mps", "n": 3, "dt": 10, "amp": amp, "det": det, "cfg": {}},
        {"backend": "mps", "n": 4, "dt": 20, "amp": amp, "det": det, "cfg": {"max_krylov_dim": 2}},         # too small: must raise
    ]
    if not ctx.quick:
        tasks += [
            {"backend": "sv", "n": 7, "dt": 5, "amp": {"k": "blackman", "d": 300, "area": 3.14}, "det": {"k": "const", "d": 300, "v": 2.0}, "cfg": {}},
            {"backend": "sv", "n": 6, "dt": 25, "amp": amp, "det": det, "layout": "ladder", "cfg": {"max_krylov_dim": 8}},
            {"backend": "mps", "n": 5, "dt": 10, "amp": amp, "det": det, "cfg": {"precision": 1e-6}},
            {"backend": "mps", "n": 4, "dt": 10, "amp": amp, "det": det, "layout": "ring", "cfg": {"max_krylov_dim": 5}},
        ]
    return tasks


def run(ctx: Ctx) -> None:
    ctx.level = "model_checking"
    ctx.assumptions += [
        "KrylovFn.tla transcribes the CONTROL flow of krylov_exp_impl / krylov_exp; every floating-point test is an environment choice; "
        "the link to accuracy is the stated numeric assumption A-EST, which is exactly what is checked on the real code against the reference",
        "exhaustive only for max_krylov_dim <= 6 (control paths); larger dimensions are covered by trace validation of real executions",
        "reference: scipy.linalg.expm, scipy.sparse.linalg.expm_multiply, numpy eigh (mutual disagreement added to the budget); "
        "budget 10*tol*|v| + 64*eps*|A|_2*|v|; norm_tolerance <= exp_tolerance (the emulators pass them equal)",
        "TLC, the in-process hook event kry_exit (public entry point's view of the result record)",
    ]
    if ctx.replay:
        rp = json.loads(open(ctx.replay).read())
        spec = rp["replay"]["spec"]
        res = [kc.insitu_run(spec)] if "backend" in spec else [kc.run_exp(spec)]
        out = kc.judge(ctx, "kexp", res, "replay")
        ctx.case(("replay", json.dumps(spec, sort_keys=True)), sample={"spec": spec, "record": res[0].get("rec"), "atom": res[0].get("atom")})
        ctx.case(("replay-verdict", out["violations"]))
        ctx.coverage["rule"] = "replay of one recorded instance"
        return

    # (1) model checking
    model_paths = kc.model_check(ctx, "exp")
    kc.model_mutants(ctx, "exp")

    # (2) realise every model control path on the real functions (impl and public)
    tasks = []
    for i, p in enumerate(sorted(model_paths)):
        for api in ("impl", "public"):
            tasks.append({"path": list(p), "api": api, "seed": ctx.seed * 7919 + i})
    rz = pmap(kc.realise_exp_path, tasks)
    real_results: list[dict] = []
    missed = []
    for t in rz:
        real_results += t["results"]
        if not t["hit"]:
            missed.append((t["task"]["path"], t["task"]["api"]))
    seen_paths = set()
    for r in real_results:
        if r["path"] is not None and r["spec"]["maxdim"] <= kc.MAXDIM_BOUND:
            m, R, kind, rr, iters, conv, bd = r["path"]
            seen_paths.add((m, R, kind, rr, iters, conv, bd))
    model_core = {p[:7] for p in model_paths}
    ctx.coverage["binding_A"] = {
        "model_paths": len(model_core), "realised_on_real_code": len(model_core & seen_paths),
        "tasks": len(tasks), "tasks_missed": len(missed), "real_paths_outside_model": len(seen_paths - model_core),
    }
    ctx.log(f"binding A: {len(model_core & seen_paths)}/{len(model_core)} model paths realised on the real code; "
            f"{len(missed)} (path, api) tasks missed; {len(seen_paths - model_core)} real paths outside the model")
    if missed:
        ctx.notes.append(f"model control paths the search did not realise on the real code: {missed[:6]} (of {len(missed)})")
    if not {"breakdown", "converged", "exhausted"} <= {p[2] for p in (model_core & seen_paths)}:
        ctx.model_drift(f"exit kinds realised on the real code: {sorted({p[2] for p in (model_core & seen_paths)})}")
    if seen_paths - model_core:
        ctx.model_drift(f"real control paths that Krylov.tla does not have: {sorted(seen_paths - model_core)[:4]}")

    # (3a) stratified random exploration
    n = ctx.pick(1200, 24000)
    rng = np.random.default_rng([ctx.seed, 7])
    specs = [kc.gen_exp_spec(rng, ctx.seed * 1_000_003 + i) for i in range(n)]
    # cheap instances first / expensive ones spread: sort chunks round-robin by dimension
    order = sorted(range(n), key=lambda i: -specs[i]["dim"])
    nchunk = max(16, n // 40)
    chunked = [[specs[i] for i in order[c::nchunk]] for c in range(nchunk)]
    rand_results = [r for ch in pmap(kc.run_exp_chunk, chunked) for r in ch]

    # (3b) in-situ
    situ = pmap(kc.insitu_run, insitu_tasks(ctx))
    forced = [s for s in situ if s["spec"].get("cfg", {}).get("max_krylov_dim", 100) <= 3]
    if not any(s["exc"] == "RecursionError" for s in forced):
        ctx.notes.append("in-situ: no run with a too small max_krylov_dim raised (non-convergence path not seen in situ)")
    ctx.coverage["in_situ"] = [{"backend": s["spec"]["backend"], "cfg": s["spec"].get("cfg"), "outcome": s["exc"] or "returned", **s["stats"]} for s in situ]

    # verdicts
    j1 = kc.judge(ctx, "kexp", real_results, "paths")
    j2 = kc.judge(ctx, "kexp", rand_results, "random")
    for s in situ:
        broken = s["exc"] not in (None, "RecursionError") or s["stats"]["n_exit"] == 0
        if broken and ctx.n_violations + ctx.n_known > 0:
            # the kernel already violates the property on direct calls: an in-situ run that dies is a consequence
            ctx.notes.append(f"in-situ run {s['spec']['backend']} {s['spec'].get('cfg')} ended with {s['exc']} after {s['stats']['n_exit']} Krylov exits")
        elif broken:
            raise MachineryError(f"in-situ run unusable (exception {s['exc']}, {s['stats']['n_exit']} kry_exit events): {s['spec']}")
    situ = [s for s in situ if s["exc"] in (None, "RecursionError") and s["stats"]["n_exit"] > 0]
    j3 = kc.judge(ctx, "kexp", situ, "insitu")
    ctx.coverage["trace_verdicts"] = {"paths": j1, "random": j2, "insitu": j3}

    # evidence: cases, margins, strata
    worst = {"ratio": 0.0}
    strata: dict[str, int] = {}
    n_ref_unreliable = 0
    for r in real_results + rand_results:
        sp = r["spec"]
        nontrivial = r["dim"] >= 2 and sp.get("vkind") != "zero" and r["rec"] is not None
        key = (sp["cls"], sp["dim"], sp.get("spectrum"), sp["seed"], sp["maxdim"], sp["api"], round(np.log10(sp["tol"]), 3), round(np.log10(sp["scale"]), 4))
        ctx.case(key, nontrivial=nontrivial)
        st = f"{sp['cls']}/{r['kind']}/{sp['api']}/herm={sp['herm_flag']}"
        strata[st] = strata.get(st, 0) + 1
        a = r.get("atom")
        if a and r["rec"] and r["rec"]["converged"]:
            if a["unc"] > 0.1 * a["budget"]:
                n_ref_unreliable += 1
            if a["ratio"] > worst["ratio"]:
                worst = {"ratio": a["ratio"], "err": a["err"], "budget": a["budget"], "ratio_to_10tol": a.get("ratio_stmt"), "spec": sp, "record": r["rec"]}
    for s in situ:
        ctx.case(("insitu", json.dumps(s["spec"], sort_keys=True)), nontrivial=True)
    ctx.coverage["strata"] = dict(sorted(strata.items()))
    ctx.coverage["worst_margin_err_over_budget"] = worst
    ctx.coverage["reference_uncertainty_above_10pct_of_budget"] = n_ref_unreliable
    ex = next((r for r in rand_results if r["kind"] == "converged" and r["dim"] >= 16), rand_results[0])
    ctx.sample({"spec": ex["spec"], "record": ex["rec"], "op_calls": ex["nops"], "atom": ex["atom"], "events_head": ex["events"][:3], "events_tail": ex["events"][-2:]})
    ex = next((r for r in real_results if r["kind"] == "breakdown"), real_results[0])
    ctx.sample({"realised_path": ex["path"], "spec": ex["spec"], "record": ex["rec"], "atom": ex["atom"]})
    ex = next((r for r in rand_results if r["outcome"] == "raised"), None)
    if ex:
        ctx.sample({"spec": ex["spec"], "record": ex["rec"], "outcome": ex["outcome"], "exception": ex["exc"]})
    if situ:
        ctx.sample({"in_situ": situ[0]["spec"], "stats": situ[0]["stats"], "events_head": situ[0]["events"][:3]})
    ctx.coverage["rule"] = (
        "TLC: all control paths for max_krylov_dim <= 6 (exhaustive); real code: one case per instance "
        "(operator class, dimension, spectrum, seed, tolerance, dt scale, max_krylov_dim, entry point); non-trivial = dimension >= 2, "
        "non-zero start vector and a result record was produced; every case is one KrylovTrace-validated execution"
    )
    ctx.coverage["exhaustive"] = False
