"""C22 - per-step drive values are the interpolated Pulser samples; the amplitude is never negative.

(1) TLC: DriveSampling.tla over PchipFn.tla (exact rationals): midpoints, knots 0..T-1, interval lookup
    with clamping, extrapolation beyond T-1, amplitude clamp, column <-> atom.  Named mechanism variants
    (ClampMode last|all, ColumnMode filtered|all, PchipVariant code|standard); requirement ColumnIsAtom,
    MidpointValue, AmplitudeNonNegative on EVERY (grid, kind, sample vector, register) over the constants.
(2) Binding A: every enumerated case is replayed into the real `_extract_omega_delta_phi` (duck-typed samples
    object); the requirement is evaluated on the real rows against the exact Fraction reference; the real
    rows tell which mechanism variant the code implements (none => model drift).
(3) Exploration on real Pulser sequences of every waveform kind through PulserData(...).get_sequences():
    local / global channels, DMM maps, dt below and above 1 ns, evaluation times inside the last ns,
    amplitude / detuning noise; reference = harness/gen/seqs.py (Pulser's own sampler + scipy PCHIP, clamp);
    for small systems the rows at the POINT OF USE (sv_step events of a real emu-sv run) are compared too.
"""
from __future__ import annotations

import json
import logging
import math
from fractions import Fraction as F

from harness.core import Ctx, MachineryError
from harness.pool import pmap
from harness.tlc import printed_tuples, run_tlc

VARIANTS = [  # (ClampMode, ColumnMode, PchipVariant); the first is the code as read, the second the reference design
    ("last", "filtered", "code"),
    ("all", "all", "standard"),
    ("all", "filtered", "code"), ("all", "all", "code"), ("last", "filtered", "standard"),
    ("last", "all", "code"), ("all", "filtered", "standard"), ("last", "all", "standard"),
]
INVS = ["ColumnIsAtom", "MidpointValue", "AmplitudeNonNegative"]


def cfg_text(T: int, grids: str, amp: str, det: str, regs: str, var, inv: bool, log: bool, extra_inv: str = "") -> str:
    t = f"""SPECIFICATION Spec
CONSTANTS
  T = {T}
  Grids <- {grids}
  AmpVals <- {amp}
  DetVals <- {det}
  Registers <- {regs}
  ClampMode = "{var[0]}"
  ColumnMode = "{var[1]}"
  PchipVariant = "{var[2]}"
  LogCases = {"TRUE" if log else "FALSE"}
"""
    if inv:
        t += "".join(f"INVARIANT {i}\n" for i in INVS)
    if extra_inv:
        t += f"INVARIANT {extra_inv}\n"
    if log:
        t += "ACTION_CONSTRAINT LogStep\n"
    return t


def fr(v) -> F:
    return F(v[0], v[1])


def parse_cases(out: str) -> dict:
    """{(tt, kind, atoms, driven, sig): rows[c][k]}"""
    cases = {}
    for t in printed_tuples(out, "S"):
        tt = tuple(fr(v) for v in t[1])
        kind = t[2]
        atoms = tuple(t[3][0])
        driven = tuple(sorted(t[3][1]["__set__"])) if isinstance(t[3][1], dict) else tuple(sorted(t[3][1]))
        sig = tuple(fr(v) for v in t[4])
        rows = tuple(tuple(fr(v) for v in col) for col in t[5])
        cases[(tt, kind, atoms, driven, sig)] = rows
    return cases


# ----------------------------------------------------------------------------------- duck-typed samples
class DuckSamples:
    """What _extract_omega_delta_phi needs from pulser.sampler.SequenceSamples (the repository's own tests use a mock)."""

    def __init__(self, per_atom: dict, duration: int):
        self._d = per_atom
        self.max_duration = duration

    def to_nested_dict(self, all_local: bool = False, samples_type: str = "array") -> dict:
        import torch

        return {"Local": {"ground-rydberg": {q: {k: torch.tensor(v, dtype=torch.float64) for k, v in d.items()} for q, d in self._d.items()}}}


def wanted_rows(tt, kind, atoms, driven, sig):
    """The statement's prescription in exact rationals: {quantity: [[value per step] per atom]}."""
    from harness.ref.pchip_exact import ExactPchip

    T = len(sig)
    mids = [(tt[k] + tt[k + 1]) / 2 for k in range(len(tt) - 1)]
    out = {}
    for qty in ("amp", "det", "phase"):
        cols = []
        for p, a in enumerate(atoms, start=1):
            active = a in driven and ((qty == "amp") == (kind == "amp"))
            if not active:
                cols.append([F(0)] * len(mids))
                continue
            y = [p * v for v in sig]
            ref = ExactPchip(list(range(T)), y)
            vals = [ref(m) for m in mids]
            if qty == "amp":
                vals = [max(v, F(0)) for v in vals]
            cols.append(vals)
        out[qty] = cols
    return out, mids


def replay_chunk(chunk: list) -> list:
    """chunk of (tt, kind, atoms, driven, sig) in Fractions -> real rows + requirement verdicts."""
    import torch
    from emu_base.pulser_adapter import _extract_omega_delta_phi

    res = []
    for tt, kind, atoms, driven, sig in chunk:
        T = len(sig)
        per_atom = {}
        for p, a in enumerate(atoms, start=1):
            if a not in driven:
                continue
            y = [float(p * v) for v in sig]
            z = [0.0] * T
            per_atom[a] = {"amp": y if kind == "amp" else z, "det": y if kind != "amp" else z, "phase": y if kind != "amp" else z}
        ttf = [float(v) for v in tt]
        r = {"fails": [], "rows": None, "shape": None}
        try:
            om, de, ph = _extract_omega_delta_phi(DuckSamples(per_atom, T), tuple(atoms), ttf)
            real = {"amp": om.real.tolist(), "det": de.real.tolist(), "phase": ph.real.tolist()}  # [k][col]
            ncol = om.shape[1]
            r["shape"] = list(om.shape)
            imag = max(float(om.imag.abs().max()) if om.numel() else 0.0, float(de.imag.abs().max()) if de.numel() else 0.0)
        except Exception as ex:
            r["fails"].append(("raises", f"{type(ex).__name__}: {ex}", {}))
            res.append(r)
            continue
        want, mids = wanted_rows(tt, kind, atoms, driven, sig)
        r["rows"] = real["amp"] if kind == "amp" else real["det"]
        if ncol != len(atoms):
            r["fails"].append(("columns", "untargeted-atom-dropped", {"columns": ncol, "atoms": len(atoms), "driven": list(driven)}))
        scale = 1.0 + max(abs(float(v)) for v in sig) * len(atoms)
        for qty in ("amp", "det", "phase"):
            for p in range(min(ncol, len(atoms))):
                for k in range(len(mids)):
                    v = real[qty][k][p]
                    w = want[qty][p][k]
                    yv = [float((p + 1) * s_) for s_ in sig]
                    i = min(max(int(math.floor(float(mids[k]))), 0), T - 2)
                    flat_end = T >= 3 and ((i == 0 and yv[0] == yv[1] != yv[2]) or (i == T - 2 and yv[-1] == yv[-2] != yv[-3]))
                    if qty == "amp" and v < 0:
                        where = "after-last-sample" if mids[k] > T - 1 else ("flat-end-interval" if flat_end else "inside")
                        r["fails"].append(("amp-negative", where, {"step": k, "mid": float(mids[k]), "atom": atoms[p], "value": v}))
                    elif abs(v - float(w)) > 1e-12 * scale:
                        if ncol != len(atoms):
                            continue  # already reported as a column defect
                        r["fails"].append(("value-mismatch", "flat-end-interval" if flat_end else qty,
                                           {"qty": qty, "step": k, "mid": float(mids[k]), "atom": atoms[p], "value": v, "wanted": float(w)}))
        if imag > 0:
            r["fails"].append(("value-mismatch", "imaginary-part", {"imag": imag}))
        res.append(r)
    return res


def chunks(lst, k):
    return [lst[i:i + k] for i in range(0, len(lst), k)]


# ----------------------------------------------------------------------------------- real Pulser sequences
def amp_wf(rng, kind: str, d: int) -> dict:
    if kind == "const":
        return {"k": "const", "d": d, "v": rng.choice([1.0, 6.283, 12.0])}
    if kind == "ramp-down":
        return {"k": "ramp", "d": d, "v0": rng.uniform(5, 12), "v1": rng.choice([0.0, 0.5, 2.0])}
    if kind == "ramp-up":
        return {"k": "ramp", "d": d, "v0": rng.choice([0.0, 1.0]), "v1": rng.uniform(4, 12)}
    if kind == "blackman":
        return {"k": "blackman", "d": d, "area": rng.uniform(0.5, 3.14)}
    if kind == "interp":
        return {"k": "interp", "d": d, "values": [rng.choice([0.0, 1.0]), rng.uniform(2, 9), rng.uniform(0, 9), rng.choice([0.0, 3.0])]}
    if kind == "custom-flat-end":
        v = [rng.uniform(1, 8) for _ in range(d)]
        v[-1] = v[-2] = rng.choice([0.0, 0.0, 2.0])
        if rng.random() < 0.5:
            v[0] = v[1]
        return {"k": "custom", "values": v}
    if kind == "custom-steep-end":
        v = [rng.uniform(4, 8) for _ in range(d)]
        v[-2], v[-1] = 3.0, 0.2
        return {"k": "custom", "values": v}
    if kind == "composite":
        d1 = max(2, d // 2)
        return {"k": "composite", "parts": [{"k": "ramp", "d": d1, "v0": 0.0, "v1": 7.0}, {"k": "const", "d": d - d1, "v": 7.0}]}
    raise ValueError(kind)


def det_wf(rng, kind: str, d: int) -> dict:
    if kind == "const":
        return {"k": "const", "d": d, "v": rng.choice([0.0, -4.0, 3.0])}
    if kind == "ramp":
        return {"k": "ramp", "d": d, "v0": rng.uniform(-9, -1), "v1": rng.uniform(1, 9)}
    if kind == "interp":
        return {"k": "interp", "d": d, "values": [rng.uniform(-8, 8) for _ in range(rng.choice([3, 4, 5]))]}
    if kind == "custom":
        return {"k": "custom", "values": [rng.choice([-2.0, 0.0, 0.0, 5.0, rng.uniform(-5, 5)]) for _ in range(d)]}
    if kind == "composite":
        d1 = max(2, d // 3)
        return {"k": "composite", "parts": [{"k": "const", "d": d1, "v": -5.0}, {"k": "ramp", "d": d - d1, "v0": -5.0, "v1": 6.0}]}
    raise ValueError(kind)


AMP_KINDS = ["const", "ramp-down", "ramp-up", "blackman", "interp", "custom-flat-end", "custom-steep-end", "composite"]
DET_KINDS = ["const", "ramp", "interp", "custom", "composite"]
CHANNELS = ["global", "local-one", "local-all", "global+local", "global+dmm"]
DTS = [0.25, 0.5, 1.0, 2.5, 3.0, 10.0, 13.0, 1000.0]
NOISES = ["none", "none", "amplitude", "detuning", "both"]


def gen_sequences(rng, n: int) -> list:
    from harness.gen import seqs

    out = []
    for c in range(n):
        ak = AMP_KINDS[c % len(AMP_KINDS)]
        dk = DET_KINDS[(c // len(AMP_KINDS)) % len(DET_KINDS)] if c >= len(AMP_KINDS) else DET_KINDS[c % len(DET_KINDS)]
        ch = CHANNELS[(c // 3) % len(CHANNELS)]
        dt = DTS[(c // 2) % len(DTS)] if c >= 16 else DTS[c % len(DTS)]
        noise = NOISES[(c // 7) % len(NOISES)]
        natoms = rng.choice([1, 2, 3, 4]) if ch != "local-one" else rng.choice([2, 3, 4])
        d = rng.choice([4, 5, 8, 13, 24, 40])
        if dt <= 0.5:
            d = min(d, 13)
        coords = seqs.LAYOUTS[rng.choice(["line", "ladder"])](natoms, rng.uniform(6.5, 9.0))
        ids = [f"q{i}" for i in range(natoms)]
        if rng.random() < 0.3:
            ids = list(reversed(ids))  # register order != lexical order
        spec: dict = {"coords": coords, "ids": ids, "channels": {}, "ops": []}
        pulse = {"amp": amp_wf(rng, ak, d), "det": det_wf(rng, dk, d), "phase": rng.choice([0.0, 0.7, 3.0])}
        dd = seqs.wf_duration(pulse["amp"])
        if ch in ("global", "global+local", "global+dmm"):
            spec["channels"]["ryd"] = "rydberg_global"
            spec["ops"].append({"op": "add", "ch": "ryd", "pulse": pulse})
        if ch == "global+dmm":
            w = [rng.choice([0.0, 0.25, 0.5, 1.0]) for _ in ids]
            if sum(w) == 0:
                w[0] = 1.0
            tot = sum(w)
            spec["dmm"] = {"weights": {q: wi / tot for q, wi in zip(ids, w)}}
            spec["ops"].append({"op": "dmm", "wf": {"k": "ramp", "d": dd, "v0": -rng.uniform(1, 9), "v1": rng.choice([0.0, -2.0])}})
        if ch in ("local-one", "local-all", "global+local"):
            spec["channels"]["loc"] = "rydberg_local"
            tgt = rng.choice(ids)
            spec["initial_target"] = {"loc": tgt}
            p2 = {"amp": amp_wf(rng, AMP_KINDS[(c + 3) % len(AMP_KINDS)], d), "det": det_wf(rng, DET_KINDS[(c + 1) % len(DET_KINDS)], d), "phase": rng.choice([0.0, 1.1])}
            if ch == "global+local":
                p2 = pulse if rng.random() < 0.3 else p2
            spec["ops"].append({"op": "add", "ch": "loc", "pulse": p2 if ch != "local-one" else pulse})
            if ch == "local-all":
                for q in ids:
                    if q != tgt:
                        spec["ops"].append({"op": "target", "q": q, "ch": "loc"})
                        spec["ops"].append({"op": "add", "ch": "loc", "pulse": pulse})
        ev = rng.choice(["end", "last-ns-half", "last-ns-quarter", "mid"])
        out.append({"id": c, "spec": spec, "dt": dt, "noise": noise, "eval": ev, "amp": ak, "det": dk, "ch": ch, "n": natoms,
                    "run_sv": natoms <= 3 and c % 4 == 0 and dt >= 1.0})
    return out


def seq_worker(item: dict) -> dict:
    """Build the sequence, call the real adapter, compare with the independent reference."""
    import numpy as np
    import torch
    from pulser.noise_model import NoiseModel

    from emu_base import PulserData
    from emu_sv import Occupation, SVConfig
    from harness.gen import seqs

    torch.set_num_threads(1)
    r = {"id": item["id"], "fails": [], "skipped": None, "rows": 0, "traj": 0, "beyond": 0, "sv": 0, "sample": None}
    try:
        seq = seqs.build_sequence(item["spec"])
    except Exception as ex:  # generator produced something Pulser refuses: not the emulator's business
        r["skipped"] = f"pulser refused the sequence: {type(ex).__name__}: {str(ex)[:120]}"
        return r
    T = seq.get_duration()
    if T < 3:
        r["skipped"] = "duration < 3 ns"
        return r
    ev = {"end": [1.0], "last-ns-half": [(T - 0.5) / T, 1.0], "last-ns-quarter": [(T - 0.25) / T, 1.0], "mid": [0.5, 1.0]}[item["eval"]]
    nm = {"none": None, "amplitude": NoiseModel(amp_sigma=0.1), "detuning": NoiseModel(detuning_sigma=0.7),
          "both": NoiseModel(amp_sigma=0.05, detuning_sigma=0.4)}[item["noise"]]
    ntraj = 3 if nm is not None else None
    logging.getLogger("emulators").setLevel(logging.ERROR)
    try:
        cfg = SVConfig(dt=item["dt"], observables=[Occupation(evaluation_times=ev)], log_level=logging.ERROR, gpu=False,
                       noise_model=nm, n_trajectories=ntraj)
        pd = PulserData(sequence=seq, config=cfg, dt=item["dt"])
        tts = list(pd.target_times)
    except Exception as ex:
        r["skipped"] = f"config / time grid refused: {type(ex).__name__}: {str(ex)[:120]}"  # C21 / C33 territory
        return r
    if any(b - a < 1e-6 for a, b in zip(tts, tts[1:])) or tts[0] != 0.0 or abs(tts[-1] - T) > 1e-9:
        r["skipped"] = "time grid with near-duplicate points (C21's subject)"
        return r
    qids = list(seq.register.qubit_ids)
    try:
        if nm is None:
            local, basis, dur = seqs.pulser_local_samples(seq)  # independent path: pulser's sampler
            refs = [local]
        else:
            refs = []
            for s in pd.hamiltonian.noisy_samples:  # Pulser's noisy samples of each trajectory (trusted base)
                d = s.samples.to_nested_dict(all_local=True)["Local"]
                keys = [k for k in d if d[k]]
                refs.append(d[keys[0]])
        datas = list(pd.get_sequences())
    except Exception as ex:
        r["fails"].append(("raises", f"{type(ex).__name__}: {str(ex)[:200]}", {}))
        return r
    if nm is None:
        refs = refs * len(datas)
    mids = [0.5 * (a + b) for a, b in zip(tts, tts[1:])]
    r["beyond"] = sum(1 for m in mids if m > T - 1)
    for ti, (sd, local) in enumerate(zip(datas, refs)):
        r["traj"] += 1
        om, de, ph = seqs.ref_rows(local, qids, tts, T)
        real = {"amp": sd.omega, "det": sd.delta, "phase": sd.phi}
        want = {"amp": om, "det": de, "phase": ph}
        ncol = sd.omega.shape[1]
        r["rows"] += sd.omega.shape[0]
        if ncol != len(qids):
            r["fails"].append(("columns", "untargeted-atom-dropped",
                               {"columns": ncol, "atoms": len(qids), "driven": [q for q in qids if q in local], "register": qids}))
            continue
        for qty in ("amp", "det", "phase"):
            a = real[qty].real.detach().numpy()
            w = want[qty]
            if float(real[qty].imag.abs().max()) > 0:
                r["fails"].append(("value-mismatch", "imaginary-part", {"qty": qty}))
            scale = 1.0 + max((float(np.max(np.abs(np.real(np.asarray(local[q][qty], dtype=complex))))) for q in qids if q in local), default=0.0)
            diff = np.abs(a - w)
            if qty == "amp" and (a < 0).any():
                k, p = np.unravel_index(np.argmin(a), a.shape)
                ya = np.real(np.asarray(local[qids[p]]["amp"], dtype=complex)) if qids[p] in local else np.zeros(T)
                ia = min(max(int(math.floor(mids[k])), 0), T - 2)
                fe = (ia == 0 and ya[0] == ya[1] != ya[2]) or (ia == T - 2 and ya[-1] == ya[-2] != ya[-3])
                where = "after-last-sample" if mids[k] > T - 1 else ("flat-end-interval" if fe else "inside")
                r["fails"].append(("amp-negative", where, {"step": int(k), "mid": mids[k], "atom": qids[p], "value": float(a[k, p]), "T": T, "traj": ti,
                                                           "last_samples": [float(np.real(v)) for v in np.asarray(local[qids[p]]["amp"])[-3:]] if qids[p] in local else None}))
                diff = np.where(a < 0, 0.0, diff)
            if (diff > 1e-9 * scale).any():
                k, p = np.unravel_index(np.argmax(diff), diff.shape)
                y = np.real(np.asarray(local[qids[p]][qty], dtype=complex)) if qids[p] in local else np.zeros(T)
                i = min(max(int(math.floor(mids[k])), 0), T - 2)
                flat_end = (i == 0 and y[0] == y[1] != y[2]) or (i == T - 2 and y[-1] == y[-2] != y[-3])
                r["fails"].append(("value-mismatch", "flat-end-interval" if flat_end else qty,
                                   {"qty": qty, "step": int(k), "mid": mids[k], "atom": qids[p], "value": float(a[k, p]), "wanted": float(w[k, p]), "T": T, "traj": ti,
                                    "samples_near": [float(v) for v in y[max(0, i - 1): i + 3]]}))
        if r["sample"] is None:
            r["sample"] = {"T": T, "steps": len(mids), "omega_row0": [float(v) for v in real["amp"].real[0]], "ref_row0": [float(v) for v in om[0]]}
        # point of use (R3): the rows a real emu-sv run hands to its stepper
        if item["run_sv"] and ti == 0 and not r["fails"]:
            from emu_base import _verif
            from emu_sv import SVBackend

            evs: list = []
            _verif.set_sink(evs)
            try:
                SVBackend._run_from_sequence_data(sd, cfg)
            except Exception as ex:
                r["skipped"] = f"emu-sv run failed ({type(ex).__name__}) - other properties' subject"
                evs = []
            finally:
                _verif.set_sink(None)
            steps = [e for e in evs if e["ev"] == "sv_step"]
            if steps:
                if len(steps) != len(mids):
                    r["fails"].append(("point-of-use", "step-count", {"steps": len(steps), "rows": len(mids)}))
                else:
                    for k, e in enumerate(steps):
                        used = {"amp": np.real(np.asarray(e["omega"], dtype=float)), "det": np.real(np.asarray(e["delta"], dtype=float)),
                                "phase": np.real(np.asarray(e["phi"], dtype=float))}
                        for qty in used:
                            sc = 1.0 + float(np.max(np.abs(want[qty])))
                            if used[qty].shape != want[qty][k].shape or (np.abs(used[qty] - want[qty][k]) > 1e-9 * sc).any():
                                r["fails"].append(("point-of-use", qty, {"step": k, "used": used[qty].tolist(), "wanted": want[qty][k].tolist()}))
                                break
                    r["sv"] = len(steps)
    return r


def guess_variant() -> tuple:
    """Three discriminating probes of the real adapter; the answer only ORDERS the TLC runs."""
    one = (("a",), ("a",))
    try:
        r = replay_chunk([((F(0), F(1), F(2), F(5, 2), F(3)), "amp", *one, (F(0), F(1), F(0))),
                          ((F(0), F(1), F(2), F(3)), "det", ("a", "b"), ("b",), (F(1), F(0), F(1))),
                          ((F(0), F(1), F(2), F(3)), "det", *one, (F(0), F(0), F(1)))])
        clamp = "last" if r[0]["rows"][2][0] < 0 else "all"
        cols = "filtered" if r[1]["shape"][1] == 1 else "all"
        pv = "code" if abs(r[2]["rows"][0][0]) > 1e-9 else "standard"
        return (clamp, cols, pv)
    except Exception:
        return VARIANTS[0]


# ----------------------------------------------------------------------------------- main
FOUND: dict = {}
WHAT = {
    "amp-negative": "a per-step amplitude handed to the solver is negative",
    "value-mismatch": "a per-step drive value differs from the shape-preserving interpolation of Pulser's samples at the step midpoint",
    "columns": "the drive arrays do not have one column per atom of the register (atoms Pulser does not drive are dropped, columns shift)",
    "raises": "the adapter raises on a valid sequence",
    "point-of-use": "the rows the emu-sv stepper receives differ from the interpolated samples",
}


def collect(fails: list, origin: str, replay: dict) -> None:
    for clause, site, det in fails:
        key = f"drive:{clause}:{site}" if clause != "raises" else "drive:raises"
        e = FOUND.setdefault(key, {"count": 0, "example": None, "origins": {}})
        e["count"] += 1
        o = "pulser-sequences" if origin.startswith("Pulser") else "exhaustive-cases"
        e["origins"][o] = e["origins"].get(o, 0) + 1
        if e["example"] is None:
            e["example"] = (clause, site, det, origin, replay)


def flush(ctx: Ctx) -> None:
    ctx.coverage["failing_cases_per_key"] = {k: v["origins"] for k, v in FOUND.items()}
    for key in sorted(FOUND):
        clause, site, det, origin, replay = FOUND[key]["example"]
        ctx.violation(key, f"{WHAT[clause]} ({site}; {origin}; failing cases in this run: {FOUND[key]['origins']}): {json.dumps(det)[:300]}",
                      {"detail": det, "origin": origin, "input": replay,
                       "how": "exhaustive cases: harness.drivers.C22.replay_chunk([(tt, kind, atoms, driven, sig)]); sequences: harness.drivers.C22.seq_worker(item)"})
    FOUND.clear()


def run(ctx: Ctx) -> None:
    ctx.level = "model_checking"
    ctx.assumptions += [
        "DriveSampling.tla / PchipFn.tla transcribe _extract_omega_delta_phi and pchip_torch.py; which variant the code implements is CHECKED every run by comparing the real rows with the rows TLC printed",
        "exhaustive only for T <= 5 samples, the listed grids (dt 1/4 .. 7, evaluation times in the last ns) and small sample alphabets",
        "real sequences: Pulser's sampler / HamiltonianData.noisy_samples / Sequence API are trusted; reference rows = scipy PCHIP of those samples at the midpoints of the emulator's own target times, clamped at 0, tolerance 1e-9 x (1 + max |sample|)",
        "the time grid itself is C21's subject: cases whose grid has near-duplicate points or that Pulser / the config refuses are skipped (counted)",
        "TLC, Python fractions, scipy",
    ]
    if ctx.replay:
        rp = json.loads(open(ctx.replay).read())["replay"]["input"]
        ctx.case(("replay", 0))
        ctx.case(("replay", 1))
        if "spec" in rp:
            r = seq_worker(rp)
        else:
            r = replay_chunk([(tuple(F(v) for v in rp["tt"]), rp["kind"], tuple(rp["atoms"]), tuple(rp["driven"]), tuple(F(v) for v in rp["sig"]))])[0]
        collect(r["fails"], "replay", rp)
        flush(ctx)
        return
    # ---------------- (1) TLC + (2) binding A
    plans = [("values_T3", 3, ctx.pick("cGrids3q", "cGrids3"), "cAmp", "cDet", "cRegSingle"),
             ("values_T4", 4, ctx.pick("cGrids4q", "cGrids4"), "cAmp", "cDet", "cRegSingle"),
             ("columns_T3", 3, "cGrids3q", "cAmp2", "cDet2", "cRegMulti")]
    if not ctx.quick:
        plans.append(("values_T5", 5, "cGrids5q", "cAmpWide", "cDetWide", "cRegSingle"))
    total_cases = 0
    beyond_cases = 0
    guess = guess_variant()
    ctx.log(f"probe of the real adapter suggests mechanism variant {guess} (only orders the TLC runs)")
    for pname, T, grids, amp, det, regs in plans:
        # the reference design must satisfy the requirement (design result)
        ref = run_tlc("MCDriveSampling", None, workdir=ctx.work, name=f"ref_{pname}", cfg_text=cfg_text(T, grids, amp, det, regs, VARIANTS[1], True, True),
                      coverage=(pname == "columns_T3"))
        ctx.add_tlc(ref)
        if ref["violated"]:
            raise MachineryError(f"the reference design (clamp all rows, all atoms, standard PCHIP) violates {ref['violated']} on {pname}")
        if ref.get("coverage_zero"):
            ctx.notes.append(f"{pname}: spec actions never taken: {ref['coverage_zero']}")
        # the probed variant first, then the code as read and the reference design; a code that follows none of
        # these three is reported as drift without trying the remaining combinations (each costs a TLC run)
        order = [guess] + [v for v in VARIANTS[:2] if v != guess]
        matched = None
        real_results = None
        cases = None
        tried = []
        for var in order:
            res = ref if var == VARIANTS[1] else run_tlc("MCDriveSampling", None, workdir=ctx.work, name=f"mc_{pname}_{'_'.join(var)}",
                                                          cfg_text=cfg_text(T, grids, amp, det, regs, var, True, True))
            out = res["out"]
            if res["violated"]:
                out = run_tlc("MCDriveSampling", None, workdir=ctx.work, name=f"log_{pname}_{'_'.join(var)}", cfg_text=cfg_text(T, grids, amp, det, regs, var, False, True))["out"]
            cs = parse_cases(out)
            if not cs:
                raise MachineryError("TLC printed no cases")
            if cases is None:
                cases = sorted(cs, key=lambda k: (k[1], k[2], k[3], [float(v) for v in k[0]], [float(v) for v in k[4]]))
                real_results = [r for ch in pmap(replay_chunk, chunks(cases, 300)) for r in ch]
            n_match = 0
            first_diff = None
            for k, r in zip(cases, real_results):
                model_rows = cs[k]  # [col][step]
                rr = r["rows"]  # [step][col]
                ok = rr is not None and len(rr) == len(model_rows[0]) if model_rows else rr is not None
                if ok:
                    for c, col in enumerate(model_rows):
                        for s, v in enumerate(col):
                            if c >= len(rr[s]) or abs(rr[s][c] - float(v)) > 1e-12 * (1 + abs(float(v))):
                                ok = False
                                break
                        if not ok:
                            break
                    if ok and rr and len(rr[0]) != len(model_rows):
                        ok = False
                if ok:
                    n_match += 1
                elif first_diff is None:
                    first_diff = {"case": [[str(v) for v in k[0]], k[1], k[2], k[3], [str(v) for v in k[4]]], "model": [[str(v) for v in col] for col in model_rows], "real": rr}
            tried.append({"variant": list(var), "violated": [v[1] for v in res["violated"]], "real_matches": f"{n_match}/{len(cases)}"})
            ctx.log(f"{pname} variant {var}: {res.get('distinct')} states, TLC violated={[v[1] for v in res['violated']]}, real code matches {n_match}/{len(cases)}")
            if var != VARIANTS[1]:
                ctx.add_tlc(res)
            if n_match == len(cases):
                matched = (var, res)
                break
        ctx.coverage.setdefault("binding_A", {})[pname] = {"cases": len(cases), "variants_tried": tried, "mechanism_identified": list(matched[0]) if matched else None}
        n_real_viol = 0
        for k, r in zip(cases, real_results):
            tt, kind, atoms, driven, sig = k
            total_cases += 1
            mids = [(tt[i] + tt[i + 1]) / 2 for i in range(len(tt) - 1)]
            beyond = any(m > len(sig) - 1 for m in mids)
            beyond_cases += beyond
            ctx.case((pname, [str(v) for v in tt], kind, atoms, driven, [str(v) for v in sig]), nontrivial=any(v != 0 for v in sig),
                     sample={"target_times": [str(v) for v in tt], "kind": kind, "samples": [str(v) for v in sig], "real_rows": r["rows"]})
            ctx.traces_validated += 1
            if r["fails"]:
                n_real_viol += 1
                collect(r["fails"], f"TLC-enumerated case of {pname}",
                        {"tt": [str(v) for v in tt], "kind": kind, "atoms": list(atoms), "driven": list(driven), "sig": [str(v) for v in sig]})
        ctx.coverage["binding_A"][pname]["cases_violating_requirement_on_real_code"] = n_real_viol
        if matched is None:
            ctx.model_drift(f"{pname}: the real _extract_omega_delta_phi follows none of the mechanism variants of DriveSampling.tla: {tried}")
        else:
            if matched[1]["violated"] and n_real_viol == 0:
                raise MachineryError(f"{pname}: TLC says mechanism {matched[0]} violates the requirement, the replay of the same cases on the real code found nothing")
    ctx.coverage["cases_with_midpoint_beyond_last_sample"] = beyond_cases
    if beyond_cases == 0:
        raise MachineryError("vacuity: no enumerated grid has a midpoint beyond the last Pulser sample")
    # ---------------- (3) real Pulser sequences
    items = gen_sequences(ctx.rng, ctx.pick(160, 1600))
    results = pmap(seq_worker, items, chunksize=4)
    strata: dict[str, int] = {}
    skipped: dict[str, int] = {}
    nrows = nbeyond = nsv = 0
    for it, r in zip(items, results):
        if r["skipped"]:
            skipped[r["skipped"][:60]] = skipped.get(r["skipped"][:60], 0) + 1
            if not r["fails"] and r["traj"] == 0:
                continue
        for tag in (f"amp:{it['amp']}", f"det:{it['det']}", f"ch:{it['ch']}", f"dt:{it['dt']}", f"noise:{it['noise']}", f"eval:{it['eval']}"):
            strata[tag] = strata.get(tag, 0) + 1
        nrows += r["rows"]
        nbeyond += r["beyond"]
        nsv += r["sv"]
        ctx.case(("seq", it["id"], it["amp"], it["det"], it["ch"], it["dt"], it["noise"], it["eval"]), nontrivial=True, sample=r["sample"] and {**r["sample"], "amp": it["amp"], "ch": it["ch"], "dt": it["dt"]})
        if r["fails"]:
            collect(r["fails"], f"Pulser sequence amp={it['amp']} det={it['det']} channels={it['ch']} dt={it['dt']} noise={it['noise']} eval={it['eval']}", it)
    need = [f"amp:{k}" for k in AMP_KINDS] + [f"det:{k}" for k in DET_KINDS] + [f"ch:{k}" for k in CHANNELS] + [f"dt:{d}" for d in DTS] + \
           ["noise:amplitude", "noise:detuning", "eval:last-ns-half", "eval:last-ns-quarter"]
    missing = [t for t in need if not strata.get(t)]
    ctx.coverage["sequence_strata"] = strata
    ctx.coverage["sequences_skipped"] = skipped
    ctx.coverage["sequence_rows_compared"] = nrows
    ctx.coverage["sequence_steps_beyond_last_sample"] = nbeyond
    ctx.coverage["sv_steps_compared_at_point_of_use"] = nsv
    if missing:
        raise MachineryError(f"vacuity: sequence strata never exercised: {missing} (skipped: {skipped})")
    if nbeyond == 0:
        raise MachineryError("vacuity: no step midpoint beyond the last Pulser sample in any sequence")
    ctx.coverage["rule"] = ("exhaustive: one case per TLC-enumerated (target-time grid, amp|det, register, sample vector), non-trivial when a sample is non-zero, each replayed "
                            "into the real _extract_omega_delta_phi; sequences: one case per generated Pulser sequence (waveform kinds x channel layout x dt x noise x evaluation time)")
    ctx.coverage["exhaustive"] = True
    flush(ctx)
