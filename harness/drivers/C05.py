"""C05 - the emu-mps MPO Hamiltonian equals the dense Rydberg / XY Hamiltonian.

(1) TLC: MPOAutomaton.tla.  Mechanism = index-level transcription of emu_mps/hamiltonian.py (masks,
    nonzero() order, running counters, bond-dimension arithmetic; Rydberg and XY) and the named-channel
    reference; requirement = MPOPathBag!PathBagOK (the bag of root-to-sink path products is exactly
    {T_k} (+) {U_ij N_i N_j} / {2 U_ij (SX SX + SY SY)}) after make_H and after each of two update_H,
    for EVERY interaction pattern: all 2^(N(N-1)/2) patterns, N <= 5 (quick) / 6 (thorough), plus two
    2^15-pattern slices of N = 7 (thorough).
(2) Binding C: the real make_H / update_H factors are recorded for every pattern N <= 4 (quick) / 5
    (thorough) + samples of N = 6, 7, every block projected onto the alphabet (U_ij generic reals so the
    monomial is recoverable, unknown blocks opaque) and MPORecorded.tla evaluates the SAME requirement on
    the recorded automaton.  The recorded index-level automaton is also compared with the factors TLC
    prints for the mechanism model (equal => the exhaustive model result transfers; else model drift).
(3) The statement itself: the real factors are contracted densely (ref/dense.py: mpo_to_mat) and
    compared with dense.hamiltonian for all patterns N <= 5 (quick) / 6 (thorough) + N = 7 samples,
    Rydberg / XY, dim 2 / 3, random signs, random complex noise block, after make_H, after update_H and
    after a second update_H.  A VIOLATION is raised only on a dense mismatch / an exception of the real
    code on a valid input; a recorded automaton TLC rejects while the dense comparison agrees is drift.
"""
from __future__ import annotations

import contextlib
import io
import json
import math
from concurrent.futures import ThreadPoolExecutor
from pathlib import Path

import numpy as np

from harness.core import Ctx, MachineryError
from harness.pool import pmap
from harness.ref import dense, ham_sparse
from harness.tlc import printed_tuples, run_tlc

SXm = np.array([[0, 0.5], [0.5, 0]], dtype=complex)
SYm = np.array([[0, -0.5j], [0.5j, 0]], dtype=complex)
NNm = np.array([[0, 0], [0, 1]], dtype=complex)


def pairs(n: int) -> list[tuple[int, int]]:
    return [(i, j) for i in range(n) for j in range(i + 1, n)]


def emb(op: np.ndarray, dim: int) -> np.ndarray:
    z = np.zeros((dim, dim), dtype=complex)
    z[:2, :2] = op
    return z


def cplx_to_json(m: np.ndarray) -> list:
    return [[[float(v.real), float(v.imag)] for v in row] for row in m]


def cplx_from_json(m: list) -> np.ndarray:
    return np.array([[complex(v[0], v[1]) for v in row] for row in m], dtype=complex)


# ------------------------------------------------------------------------------------------- cases
def candidates(n: int, U: np.ndarray, E: list) -> list[tuple[float, list, int]]:
    cand = []
    monos = [((), 1.0)] + [((p,), U[p]) for p in E] + [((p, q), U[p] * U[q]) for a, p in enumerate(E) for q in E[a:]]
    for u, v in monos:
        for m in (1, 2, 4, -1, -2, -4):
            cand.append((m * v, [list(x) for x in u], m))
    return cand


def draw(kind: str, dim: int, n: int, bits: int, seed: int, stratum: str = "generic", need_unique: bool = True) -> dict:
    """JSON-able case.  U_ij generic reals of random sign on the pattern `bits` (bit q <-> q-th pair in
    lexicographic order); two generations of drives + noise block."""
    P = pairs(n)
    E = [P[q] for q in range(len(P)) if (bits >> q) & 1]
    rng = np.random.default_rng([seed, n, bits, dim, 1 if kind == "xy" else 0, sum(map(ord, stratum))])
    for _ in range(50):
        U = np.zeros((n, n))
        for (i, j) in E:
            v = float(rng.choice([-1.0, 1.0]) * rng.uniform(0.5, 1.5))
            if stratum == "cancel":
                # small alphabet of both signs: row sums, sums across a cut and products cancel EXACTLY in floating point
                v = float(rng.choice([-2.0, -1.0, -0.5, 0.5, 1.0, 2.0]))
            if stratum == "wide":
                v *= float(10.0 ** rng.integers(-3, 4))
            U[i, j] = U[j, i] = v
        if not need_unique or stratum in ("wide", "cancel"):
            break
        vals = sorted(c[0] for c in candidates(n, U, E))
        if stratum == "wide" or all(b - a > 1e-7 for a, b in zip(vals, vals[1:])):
            break
    drives = []
    for g in range(2):
        om = rng.uniform(0.5, 3.0, n) * rng.choice([-1.0, 1.0], n)
        de = rng.uniform(-3.0, 3.0, n)
        ph = rng.uniform(-math.pi, math.pi, n)
        noise = rng.normal(size=(dim, dim)) + 1j * rng.normal(size=(dim, dim))
        if stratum == "special":  # zero phases / some zero amplitudes / no noise
            ph = np.zeros(n) if g == 0 else ph
            om = om * rng.integers(0, 2, n)
            noise = noise * 0 if g == 1 else noise
        drives.append({"omega": om.tolist(), "delta": de.tolist(), "phi": ph.tolist(), "noise": cplx_to_json(noise)})
    return {"kind": kind, "dim": dim, "n": n, "bits": bits, "stratum": stratum, "E": [list(p) for p in E], "U": U.tolist(), "drives": drives}


def sensitive(n: int, E: list) -> tuple[bool, bool]:
    """Strata statistic only: does some keep-loop meet a closed channel BEFORE a kept one (the situation
    in which a wrong keep-mask / counter shifts a later channel)?"""
    S = {tuple(p) for p in E}
    inter = lambda a, b: (min(a, b), max(a, b)) in S
    mid = n // 2
    left = right = False
    for s in range(1, mid):
        cur = [i for i in range(s) if any(inter(i, c) for c in range(s, n))]
        keep = [any(inter(i, c) for c in range(s + 1, n)) for i in cur]
        left |= any((not keep[a]) and any(keep[a + 1:]) for a in range(len(cur)))
    for s in range(mid + 1, n - 1):
        cur = [j for j in range(s + 1, n) if any(inter(j, c) for c in range(0, s + 1))]
        keep = [any(inter(j, c) for c in range(0, s)) for j in cur]
        right |= any((not keep[a]) and any(keep[a + 1:]) for a in range(len(cur)))
    return left, right


# ------------------------------------------------------------------------------------------- projection
def project(fs: list[np.ndarray], case: dict, gen: int) -> dict:
    """Real factors -> automaton over the alphabet of MPOPathBag.tla (edges l, r, op, u, m, g)."""
    n, dim = case["n"], case["dim"]
    U = np.array(case["U"])
    E = [tuple(p) for p in case["E"]]
    cand = candidates(n, U, E)
    basis = {"I": np.eye(dim, dtype=complex), "N": emb(NNm, dim), "SX": emb(SXm, dim), "SY": emb(SYm, dim)}
    tref = []
    for g in range(gen):
        d = case["drives"][g]
        noise = cplx_from_json(d["noise"])
        tref.append([dense.drive_local(d["omega"][s], d["delta"][s], d["phi"][s], dim) + noise for s in range(n)])
    F, dims = [], []
    for s, f in enumerate(fs):
        edges = []
        dims.append([int(f.shape[0]), int(f.shape[-1])])
        for l in range(f.shape[0]):
            for r in range(f.shape[-1]):
                B = f[l, :, :, r]
                if not B.any():
                    continue
                e = None
                for g in range(gen, 0, -1):
                    if np.abs(B - tref[g - 1][s]).max() <= 1e-12 * (1 + np.abs(B).max()):
                        e = {"l": l, "r": r, "op": "T", "u": [], "m": 1, "g": g}
                        break
                if e is None:
                    for name, M in basis.items():
                        c = np.vdot(M, B) / np.vdot(M, M)
                        if np.abs(B - c * M).max() <= 1e-13 * max(1.0, abs(c)):
                            hit = [cd for cd in cand if abs(c - cd[0]) <= 1e-10 * max(1.0, abs(cd[0]))]
                            if len(hit) == 1:
                                e = {"l": l, "r": r, "op": name, "u": hit[0][1], "m": hit[0][2], "g": 0}
                            break
                if e is None:
                    e = {"l": l, "r": r, "op": f"X{s}_{l}_{r}", "u": [], "m": 1, "g": 0}
                edges.append(e)
        F.append(edges)
    return {"ns": n, "kind": case["kind"], "gen": gen, "E": case["E"], "F": F, "dims": dims}


# ------------------------------------------------------------------------------------------- the real code
def run_case(case: dict, want_auto: bool = False) -> dict:
    import torch
    from emu_base import HamiltonianType
    from emu_mps.hamiltonian import make_H, update_H

    kind, dim, n = case["kind"], case["dim"], case["n"]
    U = np.array(case["U"])
    out = {"fail": [], "margin": 0.0, "auto": [], "stages": 0}
    ht = HamiltonianType.Rydberg if kind == "rydberg" else HamiltonianType.XY
    tag = f"mpo:{kind}:dim{dim}"
    sink = io.StringIO()

    hint = ham_sparse.interaction_part(U, kind, dim)

    def compare(stage: str, gen: int) -> bool:
        fs = [f.detach().cpu().numpy() for f in H.factors]
        if gen == 0:
            ref = np.asarray(hint.toarray())
            scale = 1.0 + np.abs(U).sum()
        else:
            d = case["drives"][gen - 1]
            noise = cplx_from_json(d["noise"])
            ref = np.asarray((hint + ham_sparse.local_part(d["omega"], d["delta"], d["phi"], dim, noise)).toarray())
            scale = 1.0 + np.abs(U).sum() + np.abs(d["omega"]).sum() + np.abs(d["delta"]).sum() + n * np.abs(noise).sum()
        try:
            M = dense.mpo_to_mat(fs)
            ok_shape = M.shape == ref.shape
        except Exception as ex:  # factors that cannot be contracted (bond mismatch ...)
            out["fail"].append((f"{tag}:{stage}:factors-do-not-contract", f"{type(ex).__name__}: {str(ex)[:120]}"))
            return False
        if not ok_shape:
            out["fail"].append((f"{tag}:{stage}:wrong-shape", f"{M.shape} vs {ref.shape}"))
            return False
        err = float(np.abs(M - ref).max())
        budget = 1e-12 * scale
        out["margin"] = max(out["margin"], err / budget)
        out["stages"] += 1
        okd = err <= budget
        if not okd:
            k = np.unravel_index(np.argmax(np.abs(M - ref)), M.shape)
            out["fail"].append((f"{tag}:{stage}:dense-mismatch", f"max |MPO - H| = {err:.3e} at entry {tuple(int(x) for x in k)} (budget {budget:.1e})"))
        if want_auto:
            rec = project(fs, case, gen)
            rec["dense_ok"] = okd
            rec["stage"] = stage
            out["auto"].append(rec)
        return okd

    try:
        with contextlib.redirect_stdout(sink):
            H = make_H(interaction_matrix=torch.tensor(U, dtype=torch.float64), hamiltonian_type=ht, dim=dim, num_gpus_to_use=0)
    except Exception as ex:
        out["fail"].append((f"{tag}:make_H:raises-{type(ex).__name__}", f"make_H raised {type(ex).__name__} on a valid interaction matrix: " + (str(ex)[:160] or "(MPO constructor: neighbouring bond dimensions differ)")))
        return out
    compare("make_H", 0)
    for g in (1, 2):
        d = case["drives"][g - 1]
        try:
            with contextlib.redirect_stdout(sink):
                update_H(
                    hamiltonian=H,
                    omega=torch.tensor(d["omega"], dtype=torch.complex128),
                    delta=torch.tensor(d["delta"], dtype=torch.complex128),
                    phi=torch.tensor(d["phi"], dtype=torch.complex128),
                    noise=torch.tensor(cplx_from_json(d["noise"]), dtype=torch.complex128),
                )
        except Exception as ex:
            out["fail"].append((f"{tag}:update_H#{g}:raises-{type(ex).__name__}", f"update_H raised {type(ex).__name__}: {str(ex)[:160]}"))
            return out
        compare(f"update_H#{g}", g)
    return out


def chunk_worker(arg: tuple) -> dict:
    """One chunk of the dense sweep: (kind, dim, n, [bits...], seed, stratum)."""
    import torch

    torch.set_num_threads(1)
    kind, dim, n, bits_list, seed, stratum = arg
    res = {"n_cases": 0, "stages": 0, "margin": 0.0, "fails": {}, "sens": [0, 0], "nonempty": 0}
    for bits in bits_list:
        case = draw(kind, dim, n, bits, seed, stratum, need_unique=False)
        o = run_case(case, False)
        res["n_cases"] += 1
        res["stages"] += o["stages"]
        res["margin"] = max(res["margin"], o["margin"])
        sl, sr = sensitive(n, case["E"])
        res["sens"][0] += sl
        res["sens"][1] += sr
        res["nonempty"] += bits != 0
        for key, what in o["fail"]:
            cur = res["fails"].get(key)
            if cur is None:
                res["fails"][key] = {"count": 1, "what": what, "case": case}
            else:
                cur["count"] += 1
                if len(case["E"]) < len(cur["case"]["E"]):
                    cur["what"], cur["case"] = what, case
    return res


def auto_worker(arg: tuple) -> list:
    import torch

    torch.set_num_threads(1)
    out = []
    for (kind, dim, n, bits, seed) in arg:
        case = draw(kind, dim, n, bits, seed, "generic")
        o = run_case(case, True)
        out.append({"case": case, "fail": o["fail"], "auto": o["auto"], "margin": o["margin"]})
    return out


def final_coverage_zero(res: dict) -> list:
    """Actions never taken according to the LAST coverage snapshot of a TLC run (run_tlc's `coverage_zero`
    also counts the intermediate snapshots TLC prints every minute, where late actions still show 0)."""
    import re as _re

    out = res.get("out", "")
    k = out.rfind("The coverage statistics at")
    if k < 0:
        return sorted(res.get("coverage_zero") or [])
    zero = []
    for line in out[k:].splitlines():
        m = _re.match(r"^<(\w+) line \d+, col \d+ to line \d+, col \d+ of module \w+>: (\d+):(\d+)", line.strip())
        if m and int(m.group(3)) == 0:
            zero.append(m.group(1))
    return sorted(set(zero))


# ------------------------------------------------------------------------------------------- TLC side
INV = ["InRange", "NoOverwrite", "BondsFit", "SlotFree", "PathBag"]


def cfg_text(ns: int, kind: str, constr: str, free: str, agree: bool, log: bool) -> str:
    t = f"""SPECIFICATION Spec
CONSTANTS
  NS = {ns}
  Kind = "{kind}"
  Construction = "{constr}"
  FreePairs <- {free}
  FixedPairs <- cNone
"""
    for i in INV + (["FormsAgree"] if agree else []):
        t += f"INVARIANT {i}\n"
    if log:
        t += "ACTION_CONSTRAINT LogMake\n"
    return t


def model_factors(out: str) -> dict:
    """{frozenset(E): [(ld, rd, frozenset(edges))...]} from the LogMake lines."""
    res = {}
    for t in printed_tuples(out, "F"):
        E = frozenset(tuple(p) for p in t[1]["__set__"])
        fac = []
        for f in t[2]:
            edges = frozenset((a["l"], a["r"], a["op"], tuple(tuple(p) for p in a["u"]), a["m"]) for a in f["as"]["__set__"] if a["op"] != "Z")
            fac.append((f["ld"], f["rd"], edges))
        res[E] = fac
    return res


def real_factors(rec: dict) -> list:
    return [(d[0], d[1], frozenset((e["l"], e["r"], e["op"], tuple(tuple(p) for p in e["u"]), e["m"]) for e in F))
            for d, F in zip(rec["dims"], rec["F"])]


def run(ctx: Ctx) -> None:
    import os

    ctx.level = "model_checking"
    ctx.assumptions += [
        "MPOAutomaton.tla (index construction) is a transcription of emu_mps/hamiltonian.py; its faithfulness is CHECKED every run for all patterns N<=4 (quick) / N<=5 (thorough): the automaton recorded from the real make_H equals, index by index, the factors TLC prints",
        "symbolic U_ij: bag equality is operator equality for generic interaction values (no accidental cancellation); the dense comparison uses generic random values of both signs",
        "independent dense reference harness/ref/dense.py (Pulser convention carried to level order g,r[,x]); numpy; TLC",
        "exhaustive in pattern space for N<=5 (quick) / N<=6 (thorough); N=7 by two 2^15-pattern slices in TLC and random samples on the real code; N>7 not covered",
    ]
    procs = int(os.environ.get("VERIF_PROCS", "16"))
    tlc_workers = max(2, min(8, procs // 2))
    seed = ctx.seed

    # ---------------------------------------------------------------- replay of one stored case
    if ctx.replay:
        rp = json.loads(Path(ctx.replay).read_text())
        case = rp["replay"]["case"] if "case" in rp.get("replay", {}) else rp["replay"]
        o = run_case(case, False)
        ctx.case(("replay", case["kind"], case["dim"], case["n"], case["bits"]), sample=case)
        ctx.case(("replay-stages", o["stages"]))
        for key, what in o["fail"]:
            ctx.violation(key, what, {"case": case})
        ctx.coverage["rule"] = "replay of one stored case"
        return

    # ---------------------------------------------------------------- (1) TLC: mechanism |= requirement
    jobs = []
    nmax = ctx.pick(5, 6)
    for ns in range(2, nmax + 1):
        for kind in ("rydberg", "xy"):
            jobs.append((f"idx_{kind}_{ns}", cfg_text(ns, kind, "index", "cAll", ns <= 4, False)))
        jobs.append((f"named_rydberg_{ns}", cfg_text(ns, "rydberg", "named", "cAll", ns <= 4, False)))
    if not ctx.quick:
        for kind in ("rydberg", "xy"):
            jobs.append((f"idx_{kind}_7_right", cfg_text(7, kind, "index", "cTouchRight", False, False)))
            jobs.append((f"idx_{kind}_7_left", cfg_text(7, kind, "index", "cTouchLeft", False, False)))
    nlog = ctx.pick(4, 5)
    for ns in range(2, nlog + 1):
        for kind in ("rydberg", "xy"):
            jobs.append((f"log_{kind}_{ns}", cfg_text(ns, kind, "index", "cAll", False, True)))

    def tlc_job(j):
        heavy = int(j[0].split("_")[2]) >= 5
        return run_tlc("MCMPOAutomaton", None, workdir=ctx.work, name=j[0], cfg_text=j[1], workers=(tlc_workers if heavy else 2),
                       coverage=not j[0].startswith("log_"), timeout=3000)

    # heavy ones first; a few JVMs at a time
    jobs.sort(key=lambda j: -int(j[0].split("_")[2]))
    with ThreadPoolExecutor(max_workers=max(2, procs // 3)) as ex:
        results = list(ex.map(tlc_job, jobs))
    model = {}
    model_bad = []
    for j, res in zip(jobs, results):
        if j[0].startswith("log_"):
            _, kind, ns = j[0].split("_")
            model[(kind, int(ns))] = model_factors(res["out"])
            if len(model[(kind, int(ns))]) != 2 ** (int(ns) * (int(ns) - 1) // 2):
                raise MachineryError(f"TLC printed {len(model[(kind, int(ns))])} factor lists for {j[0]}")
            continue
        res["coverage_zero"] = final_coverage_zero(res)
        ctx.add_tlc(res)
        if res["violated"]:
            model_bad.append((j[0], res["violated"]))
            ctx.log(f"TLC: the mechanism model violates {res['violated']} in {j[0]} (see {res['outfile']})")
        if final_coverage_zero(res):
            ctx.notes.append(f"{j[0]}: spec actions never taken: {final_coverage_zero(res)}")
        ctx.log(f"TLC {j[0]}: {res.get('distinct')} states, {res['wall_s']} s")
    ctx.coverage["tlc_model_violations"] = [f"{a}: {b}" for a, b in model_bad]

    # ---------------------------------------------------------------- (2) binding C: recorded automata
    auto_cases = []
    na = ctx.pick(4, 5)
    for ns in range(2, na + 1):
        for bits in range(2 ** len(pairs(ns))):
            for kind in ("rydberg", "xy"):
                for dim in (2, 3):
                    auto_cases.append((kind, dim, ns, bits, seed))
    rs = np.random.default_rng([seed, 505])
    for ns, cnt in ((5, ctx.pick(40, 0)), (6, ctx.pick(40, 600)), (7, ctx.pick(20, 300))):
        for _ in range(cnt):
            auto_cases.append((str(rs.choice(["rydberg", "xy"])), int(rs.choice([2, 3])) if ns < 6 else 2, ns,
                               int(rs.integers(0, 2 ** len(pairs(ns)))) & int(rs.integers(0, 2 ** len(pairs(ns)))), seed))
    csz = max(1, min(64, len(auto_cases) // (4 * procs) + 1))
    chunks = [auto_cases[a:a + csz] for a in range(0, len(auto_cases), csz)]
    recs, rec_meta = [], {}
    fails: dict[str, dict] = {}

    def note_fail(key, what, case, count=1):
        cur = fails.get(key)
        if cur is None:
            fails[key] = {"count": count, "what": what, "case": case}
        else:
            cur["count"] += count
            if (case["n"], len(case["E"])) < (cur["case"]["n"], len(cur["case"]["E"])):
                cur["what"], cur["case"] = what, case

    worst = 0.0
    n_drift_cmp = n_drift_diff = 0
    drift_first = None
    for part in pmap(auto_worker, chunks, procs=procs):
        for item in part:
            case = item["case"]
            worst = max(worst, item["margin"])
            for key, what in item["fail"]:
                note_fail(key, what, case)
            for rec in item["auto"]:
                rid = len(recs) + 1
                rec_meta[rid] = (case, rec["stage"], rec["dense_ok"])
                recs.append({"id": rid, "ns": rec["ns"], "kind": rec["kind"], "gen": rec["gen"], "E": rec["E"], "F": rec["F"]})
                # mechanism conformance (index level), on the make_H stage
                mf = model.get((case["kind"], case["n"]))
                if rec["gen"] == 0 and mf is not None:
                    n_drift_cmp += 1
                    if real_factors(rec) != mf[frozenset(tuple(p) for p in case["E"])]:
                        n_drift_diff += 1
                        drift_first = drift_first or {"kind": case["kind"], "n": case["n"], "E": case["E"], "dim": case["dim"]}
            nontriv = len(case["E"]) > 0
            ctx.case(("auto", case["kind"], case["dim"], case["n"], case["bits"]), nontrivial=nontriv,
                     sample={"kind": case["kind"], "dim": case["dim"], "n": case["n"], "interacting_pairs": case["E"],
                             "factor_of_site_1_after_update_H#2": item["auto"][-1]["F"][1] if item["auto"] else None} if (nontriv and case["n"] == 3) else None)
    ctx.log(f"recorded {len(recs)} automata from {len(auto_cases)} real make_H/update_H runs; index-level comparison with the model: {n_drift_cmp} compared, {n_drift_diff} differ")
    if n_drift_diff:
        ctx.model_drift(f"real make_H factors differ from MPOAutomaton's index construction on {n_drift_diff}/{n_drift_cmp} patterns, first: {drift_first}")
    ctx.coverage["mechanism_conformance"] = {"patterns_compared": n_drift_cmp, "differ": n_drift_diff}

    # TLC evaluates the requirement on the recorded automata (several JVMs, one worker each)
    per = max(200, len(recs) // max(1, procs // 2) + 1)
    files = []
    for a in range(0, len(recs), per):
        f = ctx.work / f"recorded_{a}.json"
        f.write_text(json.dumps(recs[a:a + per]))
        files.append((a, f))

    def rec_job(af):
        return run_tlc("MPORecorded", "MPORecorded.cfg", workdir=ctx.work, name=f"recorded_{af[0]}", workers=1,
                       env={"TRACE_FILE": str(af[1])}, timeout=3000)

    verdict = {}
    with ThreadPoolExecutor(max_workers=max(1, procs // 2)) as ex:
        for res in ex.map(rec_job, files):
            if not res["ok"]:
                raise MachineryError(f"MPORecorded did not complete: see {res['outfile']}")
            res["coverage_zero"] = final_coverage_zero(res)
            ctx.add_tlc(res)
            for t in printed_tuples(res["out"]):
                if t[0] == "OK":
                    verdict[t[1]] = ("OK",)
                elif t[0] == "BAD":
                    verdict[t[1]] = ("BAD", t[2], t[3])
    n_ok = n_bad_both = 0
    for rid, (case, stage, dense_ok) in rec_meta.items():
        v = verdict.get(rid)
        if v is None:
            raise MachineryError(f"no TLC verdict for recorded automaton {rid}")
        if v[0] == "OK" and dense_ok:
            n_ok += 1
        elif v[0] == "BAD" and not dense_ok:
            n_bad_both += 1
            key = f"mpo:{case['kind']}:dim{case['dim']}:{stage}:dense-mismatch"
            if key in fails and "path bag" not in fails[key]["what"] and fails[key]["case"] is case:
                fails[key]["what"] += f"; path bag of the recorded automaton: {v[1]} {json.dumps(v[2])[:300]}"
            elif key in fails and "path bag" not in fails[key]["what"]:
                fails[key]["what"] += f"; path bag of a recorded automaton: {v[1]}"
        elif v[0] == "BAD":
            ctx.model_drift(f"recorded automaton ({case['kind']}, dim {case['dim']}, N={case['n']}, E={case['E']}, {stage}) is outside the spec's alphabet / layout "
                            f"({v[1]}: {json.dumps(v[2])[:200]}) although its dense contraction equals the Hamiltonian")
        else:
            ctx.notes.append(f"recorded automaton accepted by TLC but dense comparison failed: {case['kind']} dim {case['dim']} N={case['n']} E={case['E']} {stage}")
    ctx.traces_validated += n_ok
    ctx.coverage["recorded_automata"] = {"evaluated_by_TLC": len(recs), "accepted_and_dense_equal": n_ok, "rejected_and_dense_differs": n_bad_both}
    ctx.log(f"MPORecorded: {n_ok} accepted (and dense-equal), {n_bad_both} rejected with dense mismatch")

    # ---------------------------------------------------------------- (3) dense sweep on the real code
    sweep = []
    strata = ["generic", "special", "wide", "cancel"]

    def add(kind, dim, ns, bits_list, stratum, size):
        for a in range(0, len(bits_list), size):
            sweep.append((kind, dim, ns, bits_list[a:a + size], seed, stratum))

    # exhaustive ranges (per local dimension) and samples above them
    nd = ctx.pick(5, 6)
    ex_max = {2: ctx.pick(5, 6), 3: ctx.pick(4, 5)}
    for dim in (2, 3):
        for ns in range(2, ex_max[dim] + 1):
            allb = list(range(2 ** len(pairs(ns))))
            for kind in ("rydberg", "xy"):
                for si, stratum in enumerate(strata):
                    if stratum == "cancel":
                        bl = allb if ns <= 4 else [b for b in allb if (b * 2654435761 + si) % 4 == 0]
                    else:
                        bl = allb if si == 0 else [b for b in allb if (b * 2654435761 + si) % (4 if ns <= 5 else 16) == 0]
                    add(kind, dim, ns, bl, stratum, 64 if (dim == 2 or ns <= 4) else 16)
    samples = {2: {6: ctx.pick(300, 0), 7: ctx.pick(100, 4000), 8: ctx.pick(20, 400)},
               3: {5: ctx.pick(128, 0), 6: ctx.pick(8, 400), 7: ctx.pick(0, 24)}}
    for dim in (2, 3):
        for ns, cnt in samples[dim].items():
            for kind in ("rydberg", "xy"):
                if cnt:
                    npair = len(pairs(ns))
                    bl = []
                    for q in range(cnt):
                        b = int(rs.integers(0, 2 ** npair))
                        dens = q % 3
                        if dens == 1:
                            b &= int(rs.integers(0, 2 ** npair))
                        elif dens == 2:
                            b |= int(rs.integers(0, 2 ** npair))
                        bl.append(b)
                    add(kind, dim, ns, bl, "generic", 64 if dim == 2 else (8 if ns <= 6 else 2))
    chk = ham_sparse.self_check(seed)
    if chk > 1e-13:
        raise MachineryError(f"ham_sparse disagrees with dense.hamiltonian by {chk}")
    sweep.sort(key=lambda a: -(a[1] ** a[2]) * len(a[3]))
    tot = {"cases": 0, "stages": 0, "sens_left": 0, "sens_right": 0}
    per_n: dict[str, int] = {}
    for arg, res in zip(sweep, pmap(chunk_worker, sweep, procs=procs)):
        kind, dim, ns, bl, _, stratum = arg
        tot["cases"] += res["n_cases"]
        tot["stages"] += res["stages"]
        tot["sens_left"] += res["sens"][0]
        tot["sens_right"] += res["sens"][1]
        per_n[f"N={ns}"] = per_n.get(f"N={ns}", 0) + res["n_cases"]
        worst = max(worst, res["margin"])
        for key, f in res["fails"].items():
            note_fail(key, f["what"], f["case"], f["count"])
        for b in bl:
            ctx.case(("dense", kind, dim, ns, b, stratum), nontrivial=b != 0)
    ctx.sample({"dense_case": {k: v for k, v in draw("xy", 3, 3, 5, seed).items() if k != "drives"}})
    ctx.log(f"dense sweep: {tot['cases']} cases / {tot['stages']} dense comparisons, worst err/budget {worst:.3g}; per N {per_n}")

    # ---------------------------------------------------------------- verdicts
    for key in sorted(fails):
        f = fails[key]
        c = f["case"]
        ctx.violation(key, f"{f['what']} [{f['count']} cases; smallest: {c['kind']} dim {c['dim']} N={c['n']} interacting pairs {c['E']}]",
                      {"case": c, "how": "harness.drivers.C05.run_case(case) / ./check C05 --replay <this file>"})
    if model_bad and not fails:
        ctx.model_drift(f"the mechanism model violates its requirement ({model_bad[:3]}) but the real code does not: the model no longer describes the code")
    ctx.coverage["worst_margin_err_over_budget"] = worst
    ctx.coverage["dense_sweep"] = {**tot, "per_N": per_n}
    ctx.coverage["rule"] = ("one case per (construction kind, local dimension, N, interaction pattern, value stratum) run through the REAL make_H + 2x update_H; "
                            "non-trivial = at least one interacting pair; patterns enumerated exhaustively up to N=%d, sampled above; "
                            "sens_left/right count patterns in which a keep-loop meets a closed channel before a kept one" % nd)
    ctx.coverage["exhaustive"] = True
