"""C31 - every pulser-core version the package accepts can run the emulators.

The declared specifier is read from pyproject.toml / ci/*/pyproject.toml of the tree under check; every
pulser-core distribution available offline (site-packages of the interpreter, wheels in
/opt/veriftools/wheels) is enumerated; each ADMITTED one is smoke-run in a subprocess
(harness/drivers/_c31_smoke.py: imports, construction of every Observable subclass the packages
define or re-export, emu-sv unitary / Lindblad / multi-trajectory, emu-mps TDVP / DMRG / noisy
trajectories, user interaction matrix on both, emu-mps XY).  The recorded table
[version, admitted, canrun] is handed to TLC (EmuPipeline.tla Part V, binding C), which evaluates
Admitted(v) => CanRun(v) and the non-vacuity condition (some admitted version was available).
"""
from __future__ import annotations

import glob
import importlib.metadata as md
import json
import os
import re
import subprocess
import sys
import tomllib
from pathlib import Path

from harness.core import REPO, ROOT, Ctx, MachineryError
from harness.tlc import run_tlc

WHEELHOUSE = Path("/opt/veriftools/wheels")
EXPECTED_RUN_EVENTS = 12   # sv: 1 + 1 + 3 + 1 completed runs, mps: 1 + 1 + 2 + 1 + 1


def specifiers() -> dict[str, str]:
    out = {}
    files = [REPO / "pyproject.toml"] + sorted(Path(p) for p in glob.glob(str(REPO / "ci" / "*" / "pyproject.toml")))
    for f in files:
        if not f.exists():
            continue
        data = tomllib.loads(f.read_text())
        deps = list(data.get("project", {}).get("dependencies", []))
        for extra in data.get("project", {}).get("optional-dependencies", {}).values():
            deps += list(extra)
        for d in deps:
            m = re.match(r"\s*pulser-core(\[[^\]]*\])?\s*(.*)$", d)
            if m:
                out[str(f.relative_to(REPO))] = m.group(2).split(";")[0].strip()
    return out


def available() -> list[dict]:
    res = []
    try:
        res.append({"v": md.version("pulser-core"), "source": "site-packages", "path": None})
    except md.PackageNotFoundError:
        pass
    for w in sorted(glob.glob(str(WHEELHOUSE / "pulser_core-*.whl"))):
        v = Path(w).name.split("-")[1]
        if all(r["v"] != v for r in res):
            res.append({"v": v, "source": "wheel", "path": w})
    return res


def smoke(ctx: Ctx, ver: dict) -> dict:
    env = dict(os.environ)
    paths = [str(ROOT)]
    if str(REPO) != "/repo":
        paths.insert(0, str(REPO))
    if ver["source"] == "wheel":
        target = ctx.work / f"pulser_core_{ver['v']}"
        p = subprocess.run([sys.executable, "-m", "pip", "install", "--no-index", "--no-deps", "--quiet", "--target", str(target), ver["path"]],
                           capture_output=True, text=True)
        if p.returncode != 0:
            raise MachineryError(f"cannot unpack wheel {ver['path']}: {p.stderr[-400:]}")
        paths.insert(0, str(target))
    env["PYTHONPATH"] = os.pathsep.join(paths + [env.get("PYTHONPATH", "")])
    trace = ctx.work / f"smoke_{ver['v']}.ndjson"
    env["PASQAL_IO_EMULATORS_VERIF"] = "1"
    env["PASQAL_IO_EMULATORS_VERIF_TRACE"] = str(trace)
    env["OMP_NUM_THREADS"] = "1"
    p = subprocess.run([sys.executable, str(ROOT / "harness" / "drivers" / "_c31_smoke.py")], cwd=str(ctx.work), env=env, capture_output=True, text=True, timeout=1500)
    last = [ln for ln in p.stdout.splitlines() if ln.startswith("{")]
    if not last:
        # the interpreter died before reporting: that is the package failing to run, not the harness
        return {"pulser_core": ver["v"], "steps": [{"name": "subprocess", "ok": False, "error": (p.stderr or p.stdout)[-600:]}], "events": 0}
    out = json.loads(last[-1])
    n = 0
    if trace.exists():
        for ln in trace.read_text().splitlines():
            try:
                if json.loads(ln).get("ev") in ("sv_ret", "run_done"):
                    n += 1
            except Exception:
                pass
    out["events"] = n
    return out


def run(ctx: Ctx) -> None:
    ctx.level = "exploration"
    ctx.assumptions += [
        "only the pulser-core distributions present offline can be tried (site-packages of /venv and /opt/veriftools/wheels): here 1.9.1 only; other admitted releases (1.8.x, later ones) are NOT exercised",
        "CanRun = the smoke script completes every step: all Observable subclasses defined or re-exported by emu_base/emu_sv/emu_mps construct, and 9 end-to-end runs return Results holding the requested tags; numerical correctness is the business of other properties",
        "emu-mps on XY under pulser-core 1.9.1 only has to run: the second (C6) slice of the XY interaction matrix is ignored by emu-mps and its operator form is defined in pulser-simulation (absent)",
        "packaging.specifiers decides admission; TLC evaluates the implication on the recorded table",
    ]
    from packaging.specifiers import SpecifierSet
    from packaging.version import Version

    specs = specifiers()
    if not specs:
        raise MachineryError("no pulser-core requirement found in the pyproject files")
    vers = available()
    if not vers:
        raise MachineryError("no pulser-core distribution available offline")
    ctx.log(f"declared: {specs}; available offline: {[v['v'] for v in vers]}")
    table = []
    for ver in vers:
        adm = {f: SpecifierSet(s).contains(Version(ver["v"]), prereleases=True) for f, s in specs.items()}
        admitted = any(adm.values())
        rec = {"v": ver["v"], "admitted": bool(admitted), "canrun": True, "admitted_by": adm}
        if admitted:
            res = smoke(ctx, ver)
            if res.get("pulser_core") != ver["v"]:
                raise MachineryError(f"smoke run used pulser-core {res.get('pulser_core')} instead of {ver['v']}")
            bad = [s for s in res["steps"] if not s["ok"]]
            rec["canrun"] = not bad
            rec["steps"] = len(res["steps"])
            rec["observables"] = res.get("observables")
            for s in res["steps"]:
                ctx.case(("step", ver["v"], s["name"]), nontrivial=True, sample={"version": ver["v"], "step": s["name"], "ok": s["ok"], "detail": s.get("detail")} if s["name"].startswith("run:") else None)
            for s in bad:
                ctx.violation(f"pulser-core=={ver['v']}:{s['name']}", f"under pulser-core {ver['v']} (admitted by {specs}) step {s['name']} fails: {s['error']} {s.get('where', '')}",
                              {"version": ver, "step": s, "how": "PYTHONPATH=/verif /venv/bin/python /verif/harness/drivers/_c31_smoke.py"})
            if not bad and res["events"] != EXPECTED_RUN_EVENTS:
                raise MachineryError(f"expected {EXPECTED_RUN_EVENTS} run-completion hook events (sv_ret / run_done), saw {res['events']}: hooks missing or smoke script changed")
            ctx.traces_validated += 1
            ctx.log(f"pulser-core {ver['v']}: {len(res['steps'])} steps, {len(bad)} failed, {res['events']} completed runs seen by the hooks")
        table.append(rec)
    # ---- TLC on the recorded structure
    f = ctx.work / "versions.json"
    f.write_text(json.dumps([{"v": r["v"], "admitted": r["admitted"], "canrun": r["canrun"]} for r in table]))
    cfg = """SPECIFICATION Spec
CONSTANTS
  Part = "V"
  SVBasisCheck = FALSE
  DMRGFirst = FALSE
  MaxTraj = 1
  MaxReps = 1
  Vals <- cVals2
  Shots = 1
  LoopKind = "reps"
  Versions <- cVersions
INVARIANT AdmittedCanRun
INVARIANT SomeAdmitted
"""
    res = run_tlc("MCEmuPipelineV", None, workdir=ctx.work, name="versions", cfg_text=cfg, workers=1, env={"VERSIONS_FILE": str(f)})
    ctx.add_tlc(res)
    viol = [v[1] for v in res["violated"]]
    any_bad = any(r["admitted"] and not r["canrun"] for r in table)
    if ("AdmittedCanRun" in viol) != any_bad:
        raise MachineryError(f"TLC verdict {viol} inconsistent with the recorded table {table}")
    if "SomeAdmitted" in viol:
        raise MachineryError("no admitted pulser-core version available offline: the check would be vacuous")
    ctx.coverage["versions"] = table
    ctx.coverage["declared"] = specs
    ctx.coverage["rule"] = "one case per (available admitted pulser-core version, smoke step); every step is a distinct construction / end-to-end run"
    ctx.coverage["exhaustive"] = False
    ctx.coverage["distinct_violation_keys"] = sorted(set(ctx.violation_keys))
