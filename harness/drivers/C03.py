"""C03 - results are independent of atom labelling and internal qubit reordering.

(1) TLC, spec/QubitOrder.tla (mechanism QubitOrderFn.tla + helpers Perm.tla): atoms are labels; every
    per-atom datum carries the label it belongs to; one action per index-space change of the code.
    The requirement (LabelCoherent, ResultsInRegisterOrder, RelabelEquivariance as an explicit two-run
    property) is model-checked exhaustively for the revision of the mechanism in which every per-atom
    datum follows the atoms into site order, and for the revision the tree under test is OBSERVED to
    follow (three probes of hook values / outcomes): if that one violates the requirement in the model,
    the replay below decides whether the real code does too.
(2) Binding A: every TLC-enumerated scenario (register order, optimiser output, reordering, dark mask,
    initial state) is replayed into real MPSBackend / SVBackend runs with the optimiser forced to
    return the scenario's permutation, on label-tagged sequences.  Oracles: (tight) the run that must
    be the SAME computation -- the register inserted directly in the required site order, reordering
    off; (loose) the dense per-label reference.  What each run did is projected to index |-> label
    maps (hook values at the point of use + results) and TLC evaluates the requirement on it (C).
(3) Binding B: the real reverse-Cuthill-McKee optimiser on 6..16 atoms; site-level label coherence
    from the h_update / h_make hook values; reorder on vs the same-site-order run, emu-sv / dense.
(4) Non-permutable observables switch the reordering off.
"""
from __future__ import annotations

import json
import os
import random

import numpy as np

from harness.core import Ctx, MachineryError
from harness.tlc import run_tlc
from harness.drivers import _qorder as Q

C03_INVS = ["InvLabelCoherent", "InvCoherentAtUpdateH", "InvResultsInRegisterOrder", "InvRelabelEquivariance"]


def _pool(rng: random.Random, n: int, k: int) -> dict[str, list[dict]]:
    pool: dict[str, list[dict]] = {"plain": [], "slm": [], "given": []}
    for i in range(k):
        for fl in pool:
            ph = Q.gen_phys(rng, n, slm=(fl == "slm"), given=(fl == "given"), local2=(i % 2 == 1))
            ph["id"] = f"n{n}-{fl}-{i}"
            pool[fl].append(ph)
    return pool


def _case_of(sc: dict, pools: dict, idx: int, rng: random.Random) -> dict:
    n = sc["n"]
    fl = "given" if sc["given"] else ("slm" if idx % 3 == 1 else "plain")
    ph = pools[n][fl][idx % len(pools[n][fl])]
    return {
        "id": f"s{idx}", "phys": ph, "backend": sc["backend"], "rho": sc["rho"], "optp": sc["optp"], "reorder": sc["reorder"],
        "spe": sc["spe"], "dark": sc["dark"], "given": sc["given"], "dim": sc["dim"], "tagmode": sc.get("tagmode", "base"),
        "mode": "handset" if sc["spe"] else "run", "shots": 1000, "seed": idx + 1,
    }


def _sample_scenarios(rng: random.Random, n: int, thorough: bool) -> list[dict]:
    """Replay sample for a size whose full cross product is too large to run: every optimiser output,
    every register order, every dark mask appear; pairs (rho, optp) are all taken (n = 4) or sampled."""
    perms = Q.all_perms(n)
    ident = list(range(n))
    out = []

    def sc(backend, rho, optp, reorder, spe, dark, given):
        return {"backend": backend, "n": n, "rho": rho, "optp": optp if reorder else ident, "reorder": reorder, "spe": spe,
                "dark": dark if spe else [False] * n, "given": given, "dim": 2,
                "tagmode": rng.choice(["base", "suffix", "both"]) if reorder and backend == "mps" else "base"}

    masks = [[bool((m >> a) & 1) for a in range(n)] for m in range(2**n)]
    masks = [m for m in masks if sum(not x for x in m) >= 2]       # fewer than two good atoms: C25
    for p in perms:                                                 # every optimiser output x every mask
        for m in masks:
            out.append(sc("mps", rng.choice(perms), p, True, True, m, False))
    pairs = [(r, p) for r in perms for p in perms]
    if len(pairs) > 600:
        pairs = rng.sample(pairs, 2500 if thorough else 240)
    for r, p in pairs:                                              # (register order, optimiser output)
        out.append(sc("mps", r, p, True, False, None, False))
    for r in perms:
        out.append(sc("mps", r, rng.choice(perms), True, False, None, True))
        out.append(sc("mps", r, ident, False, False, None, rng.random() < 0.5))
        out.append(sc("sv", r, ident, False, False, None, rng.random() < 0.5))
        out.append(sc("sv", r, ident, False, True, rng.choice(masks), False))
    return out


def _key_for(x: dict) -> str:
    c, rec = x["case"], x["rec"]
    b = c["backend"]
    vr, vf = x["verdict_res"], x["verdict_full"]
    if vr.startswith("raise:"):
        return f"{b}:raises:{vr.split(':')[1]}" + (":reorder" if c["reorder"] else "")
    if vr.startswith("suffixed-") and b == "mps" and c["reorder"]:
        return "mps:reorder:suffixed-tag-results-left-in-site-order"
    sd = rec.get("site_drive")
    dark = c["dark"] if c["spe"] else [False] * c["phys"]["n"]
    required = [a for a in Q.site_order(c) if not dark[a]]          # the requirement's site order, not the code's belief
    si = rec.get("site_imat")
    if b == "mps" and c["reorder"] and sd is not None and (sd != required or (si is not None and len(si) >= 2 and si != required)):
        return "mps:reorder:per-atom-drives-not-in-site-order"
    return f"{b}:{vr}" + (":reorder" if c["reorder"] else "") + (":dark-atoms" if c["spe"] else "") + (":initial-state" if c["given"] else "")


def _judge(ctx: Ctx, results: list[dict], preds: dict[str, dict] | None, stratum: str) -> dict:
    stats = {"runs": 0, "violations": 0, "worst_margin_tight": 0.0, "worst_margin_loose": 0.0, "min_bits_p": 1.0, "drift": 0, "ref_runs": 0}
    for x in results:
        c, rec, o = x["case"], x["rec"], x["obs"]
        n = c["phys"]["n"]
        stats["runs"] += 1
        if c.get("is_ref"):
            stats["ref_runs"] += 1
        mk = "worst_margin_tight" if x["ref_kind"] != "dense" or c["backend"] == "sv" else "worst_margin_loose"
        if x["verdict_res"] == "ok":
            stats[mk] = max(stats[mk], rec.get("margin", 0.0))
            stats["min_bits_p"] = min(stats["min_bits_p"], rec.get("bits_pmin", 1.0))
        ident = list(range(n))
        nontrivial = (c["rho"] != ident or (c["reorder"] and c["optp"] != ident) or c["spe"]) and len(c["rho"]) == n
        ctx.case((stratum, c["phys"]["id"], c["backend"], c["rho"], c["optp"], c["reorder"], c["dark"] if c["spe"] else 0, c["given"], c.get("tagmode", "base")), nontrivial=nontrivial,
                 sample={"stratum": stratum, "backend": c["backend"], "register_order": c["rho"], "optimiser_returns": c["optp"], "reorder": c["reorder"],
                         "dark": c["dark"] if c["spe"] else None, "tags": c.get("tagmode", "base"), "oracle": x["ref_kind"], "margin": rec.get("margin"), "verdict": x["verdict_res"]} if stats["runs"] % 97 == 1 else None)
        if o.get("forced_calls") is not None and c.get("force", True) and c["reorder"] and c["backend"] == "mps" and o["outcome"] == "ok":
            if o.get("cfg_reorder") and o["forced_calls"] == 0:
                raise MachineryError(f"the optimiser wrapper was never called in {c['id']} (interposition point moved?)")
            if o.get("cfg_reorder") and o["hooks"].get("perm") != c["optp"]:
                raise MachineryError(f"forced permutation {c['optp']} not taken: mps_new.perm = {o['hooks'].get('perm')}")
        if x["verdict_res"] != "ok":
            stats["violations"] += 1
            ctx.violation(
                _key_for(x),
                f"{c['backend']} run reports {x['verdict_res']} (site level: {x['verdict_full']}; drive labels at sites {rec.get('site_drive')}, "
                f"interaction labels at sites {rec.get('site_imat')}; register order {c['rho']}, optimiser output {c['optp']}, reorder={c['reorder']}, "
                f"dark={c['dark'] if c['spe'] else None}, observable tags={c.get('tagmode', 'base')}; worst error / budget = {rec.get('margin'):.3g} against the {x['ref_kind']} oracle)",
                {"case": c, "observed": {k: o.get(k) for k in ("outcome", "atom_order", "occupation", "energy", "hooks")}, "projected": {k: rec[k] for k in ("atomOrder", "ham", "occ", "bits", "numeric")},
                 "how": "harness.drivers._qorder.run_case(case) on the real code; compare with run_case of tight_ref_case(case, 'same-site-order') and reference(phys, dark)"},
            )
        elif x["verdict_full"] != "ok":
            ctx.model_drift(f"{c['id']}: site-level labels incoherent ({x['verdict_full']}, drive {rec.get('site_drive')}, interaction {rec.get('site_imat')}) but every reported value is right")
        # mechanism model vs real code (R2): what was used at the sites, outcome class, verdict class
        if preds is not None and not c.get("is_ref") and len(c["rho"]) == n:
            p = preds.get(Q.scen_key(Q.scen_of(c)))
            if p is None:
                raise MachineryError(f"no TLC prediction for scenario {Q.scen_of(c)}")
            diffs = []
            if (p["outcome"] == "ok") != (o["outcome"] == "ok"):
                diffs.append(f"outcome model={p['outcome']} real={o['outcome'][:60]}")
            if c["backend"] == "mps" and rec.get("site_drive") is not None and p["outcome"] == "ok" and o["outcome"] == "ok":
                pd_, pi_ = [h[0] for h in p["ham"]], [h[1] for h in p["ham"]]
                if pd_ != rec["site_drive"]:
                    diffs.append(f"drive labels at sites model={pd_} real={rec['site_drive']}")
                if len(pi_) > 2 and pi_ != rec["site_imat"]:
                    diffs.append(f"interaction labels at sites model={pi_} real={rec['site_imat']}")
                if o["hooks"].get("perm") != p["qperm"]:
                    diffs.append(f"qubit_permutation model={p['qperm']} real={o['hooks'].get('perm')}")
            if (p["verdict"] == "ok") != (x["verdict_full"] == "ok") and not diffs:
                diffs.append(f"verdict model={p['verdict']} real={x['verdict_full']}")
            if diffs:
                stats["drift"] += 1
                if stats["drift"] <= 3:
                    ctx.model_drift(f"{c['id']} {Q.scen_of(c)}: " + "; ".join(diffs))
    return stats


# ------------------------------------------------------------------------------------ binding B
def _natural_cases(rng: random.Random, sizes: list[int], per_size: int) -> list[dict]:
    cases = []
    k = 0
    for n in sizes:
        for i in range(per_size):
            fl = ["plain", "given", "plain"][i % 3]
            ph = Q.gen_phys(rng, n, slm=False, given=(fl == "given"), local2=(i % 3 == 2 or i % 4 == 1))
            ph["id"] = f"nat{n}-{i}"
            rho = list(range(n))
            rng.shuffle(rho)
            for r in (rho, rng.sample(rho, n)):                     # two insertion orders of the same atoms
                k += 1
                base = {"phys": ph, "rho": r, "optp": list(range(n)), "spe": False, "dark": [False] * n, "given": fl == "given", "dim": 2,
                        "mode": "run", "shots": 1000, "seed": k, "precision": 1e-7}
                cases.append({**base, "id": f"nat{k}-on", "backend": "mps", "reorder": True, "force": False, "tagmode": "both"})
                if n <= 12:
                    cases.append({**base, "id": f"nat{k}-sv", "backend": "sv", "reorder": False})
    return cases


def _run_natural(ctx: Ctx, alpha: float) -> dict:
    """The real optimiser.  The required site order is only known after the run (mps_new.perm), so the
    same-site-order reference runs are a second wave.  Oracles: reorder-on run vs its same-site-order
    run (tight); same-site-order run vs dense (n <= 8) or emu-sv (n <= 12) (loose: TDVP vs exact);
    emu-sv vs dense (tight, n <= 8); beyond: atom order and site-level labels only."""
    pmap = Q.pool_map

    rng = random.Random(ctx.seed * 7919 + 3)
    sizes = ctx.pick([6, 8, 10], [6, 8, 10, 12, 14, 16])
    cases = _natural_cases(rng, sizes, ctx.pick(2, 4))
    outs = {o["id"]: o for o in pmap(Q.run_case, cases)}
    for c in cases:
        o = outs[c["id"]]
        if c["backend"] == "mps" and o["outcome"] == "ok" and o["hooks"].get("perm") is not None:
            c["optp"] = [int(v) for v in o["hooks"]["perm"]]        # what the real optimiser answered
    refc: dict[str, dict] = {}
    link = {}
    for c in cases:
        r = Q.tight_ref_case(c, "same-site-order") if c["backend"] == "mps" and outs[c["id"]]["outcome"] == "ok" else None
        if r is not None:
            refc.setdefault(r[0], r[1])
            link[c["id"]] = r[0]
    wave2 = list(refc.values())
    outs.update({o["id"]: o for o in pmap(Q.run_case, wave2)})
    tables: dict[str, dict] = {}
    svref: dict[str, dict] = {}
    for c in cases:
        pid = c["phys"]["id"]
        n = c["phys"]["n"]
        if pid not in tables:
            tables[pid] = Q.reference(c["phys"], [False] * n, 2) if n <= 8 else Q.ident_tables(c["phys"])
        if c["backend"] == "sv" and pid not in svref:
            r = Q.ref_from_run(c, outs[c["id"]], tables[pid])
            if r is not None:
                svref[pid] = r
    results, records = [], []
    nontrivial_perms = 0
    for c in cases + wave2:
        o = outs[c["id"]]
        n = c["phys"]["n"]
        pid = c["phys"]["id"]
        tb = tables[pid]
        nsteps = len(tb["target_times"]) - 1
        joint = False
        if c["backend"] == "sv":
            if tb["occ"] is not None:
                ref, tol, kind, joint = tb, Q.tol_for(c, nsteps), "dense", True
            else:
                ref, tol, kind = Q.self_ref(c, o, tb), Q.tol_for(c, nsteps), "self (labels only)"
        else:
            rr = Q.ref_from_run(refc[link[c["id"]]], outs[refc[link[c["id"]]]["id"]], tb) if c["id"] in link else None
            if rr is not None:
                ref, tol, kind = rr, Q.tol_for(c, nsteps), "same-computation-run"
            elif tb["occ"] is not None:
                ref, tol, kind = tb, Q.loose_tol(c, nsteps), "dense"
            elif pid in svref:
                ref, tol, kind = svref[pid], Q.loose_tol(c, nsteps), "emu-sv"
            else:
                ref, tol, kind = Q.self_ref(c, o, tb), Q.loose_tol(c, nsteps), "self (labels only)"
        rec = Q.project(c, o, ref, alpha, tol=tol, joint=joint)
        results.append({"case": c, "obs": o, "rec": rec, "ref_kind": kind})
        records.append({"id": len(records) + 1, "sc": Q.scen_of(c), "obs": {k2: rec[k2] for k2 in Q.OBS_FIELDS}})
        if c["backend"] == "mps" and c["reorder"] and c["optp"] != list(range(n)):
            nontrivial_perms += 1
    verd = Q.tlc_observed(ctx, "natural", records)
    ctx.traces_validated += len(records)
    for r, x in zip(records, results):
        x["verdict_full"], x["verdict_res"] = verd[r["id"]]
    st = {"runs": len(results), "sizes": sizes, "non_identity_permutations_from_the_real_optimiser": nontrivial_perms, "violations": 0,
          "worst_margin_tight": 0.0, "worst_margin_loose": 0.0, "oracles": {}}
    for x in results:
        c, rec, o = x["case"], x["rec"], x["obs"]
        st["oracles"][x["ref_kind"]] = st["oracles"].get(x["ref_kind"], 0) + 1
        ctx.case(("natural", c["id"]), nontrivial=c["backend"] == "mps" and c["reorder"] and c["optp"] != list(range(c["phys"]["n"])),
                 sample={"stratum": "natural", "n": c["phys"]["n"], "optimiser_returned": c["optp"], "oracle": x["ref_kind"], "verdict": x["verdict_res"]} if c["id"] == "nat1-on" else None)
        if x["verdict_res"] == "ok":
            mk = "worst_margin_loose" if (c["backend"] == "mps" and x["ref_kind"] in ("dense", "emu-sv")) else "worst_margin_tight"
            st[mk] = max(st[mk], rec.get("margin", 0.0))
        bad = x["verdict_res"] != "ok"
        # where values cannot be checked independently, incoherent site data with DISTINCT per-atom drives is
        # itself an observable error: the Hamiltonian that was simulated is not the sequence's
        if not bad and x["verdict_full"] == "site-data-of-different-atoms" and x["ref_kind"].startswith("self"):
            bad = True
        if bad:
            st["violations"] += 1
            ctx.violation(_key_for(x) if x["verdict_res"] != "ok" else "mps:reorder:per-atom-drives-not-in-site-order",
                          f"natural permutation {c['optp']} on {c['phys']['n']} atoms: {x['verdict_res']} / site level {x['verdict_full']} "
                          f"(drive labels {rec.get('site_drive')}, interaction labels {rec.get('site_imat')}; oracle {x['ref_kind']}, error/budget {rec.get('margin'):.3g})",
                          {"case": c, "observed": {k: o.get(k) for k in ("outcome", "atom_order", "occupation", "energy", "hooks")}})
        elif x["verdict_full"] != "ok":
            ctx.model_drift(f"{c['id']}: site-level labels incoherent ({x['verdict_full']}) but every reported value is right")
    return st


# ------------------------------------------------------------------------------------ non-permutable observables
def _run_nonpermutable(ctx: Ctx) -> dict:
    pmap = Q.pool_map

    rng = random.Random(ctx.seed + 77)
    cases = []
    for i in range(ctx.pick(4, 16)):
        n = rng.choice([3, 4, 5])
        ph = Q.gen_phys(rng, n, slm=False, given=False)
        ph["id"] = f"np{i}"
        ph["fid_pattern"] = "".join(rng.choice("rg") for _ in range(n))
        rho = list(range(n))
        rng.shuffle(rho)
        optp = list(range(n))
        while optp == list(range(n)):
            rng.shuffle(optp)
        for b in ("mps", "sv"):
            cases.append({"id": f"np{i}-{b}", "phys": ph, "backend": b, "rho": rho, "optp": optp, "reorder": b == "mps", "spe": False, "dark": [False] * n,
                          "given": False, "dim": 2, "mode": "run", "shots": 200, "seed": i, "obs": "nonpermutable"})
    outs = pmap(Q.run_case, cases)
    st = {"runs": len(cases), "violations": 0, "worst": 0.0}
    from harness.ref import dense as D

    for c, o in zip(cases, outs):
        n = c["phys"]["n"]
        ctx.case(("nonpermutable", c["id"]), sample={"stratum": "non-permutable observable", "backend": c["backend"], "outcome": o["outcome"][:40]} if c["id"] == "np0-mps" else None)
        if o["outcome"] != "ok":
            st["violations"] += 1
            ctx.violation(f"{c['backend']}:nonpermutable-observable:raises", f"run with a Fidelity observable failed: {o['outcome']}", {"case": c})
            continue
        if c["backend"] == "mps" and (o.get("cfg_reorder") or o["hooks"].get("perm") != list(range(n))):
            st["violations"] += 1
            ctx.violation("mps:nonpermutable-observable:reordering-stays-on",
                          f"a Fidelity observable was configured but the run reordered the qubits (config flag {o.get('cfg_reorder')}, permutation {o['hooks'].get('perm')})", {"case": c})
            continue
        # fidelity with the label-defined product state, from the dense reference state
        ref = Q.reference(c["phys"], [False] * n)
        bits = "".join("1" if ch == "r" else "0" for ch in c["phys"]["fid_pattern"])
        want = ref["probs"].get(bits, 0.0)
        err = abs((o["fidelity"] or 0.0) - want)
        tol = Q.loose_tol(c, len(ref["target_times"]) - 1) if c["backend"] == "mps" else 1e-5
        st["worst"] = max(st["worst"], err / tol)
        if err > tol or o["atom_order"] != c["rho"]:
            st["violations"] += 1
            ctx.violation(f"{c['backend']}:nonpermutable-observable:value-depends-on-order",
                          f"fidelity with the product state {c['phys']['fid_pattern']} (by label) is {o['fidelity']}, reference {want}; atom_order {o['atom_order']}", {"case": c})
    return st


def run(ctx: Ctx) -> None:
    ctx.level = "model_checking"
    workers = int(os.environ.get("VERIF_TLC_WORKERS", "16"))
    rng = random.Random(ctx.seed * 1000003 + 303)
    if ctx.replay:                                   # ./check C03 --replay <file>: re-run that one scenario
        case = json.loads(open(ctx.replay).read())["replay"]["case"]
        ctx.coverage["rule"] = "replay of one recorded scenario"
        ctx.log(f"replay: {_judge(ctx, Q.replay_cases(ctx, [case], policy='same-site-order', name='replayfile', alpha=1e-15), None, 'replay-file')}")
        return
    ctx.assumptions += [
        "QubitOrderFn.tla transcribes the index-space changes of MPSBackendImpl / SVBackendImpl; which revision (Variant) the tree follows is observed from hook values, and every replayed run is compared with the model's prediction (differences => model_drift, not a violation)",
        "tight oracle: a run with the register inserted directly in the required site order and reordering off is the same computation (same chain, same Hamiltonian); loose oracle: dense numpy/scipy reference on Pulser's own samples; TDVP's projection error is not controlled by `precision`, hence the loose budget",
        "the optimiser is interposed at emu_mps.optimatrix.minimize_bandwidth (as looked up by mps_backend_impl.optimat); state-preparation errors enter through SequenceData.bad_atoms of a SequenceData obtained from the real PulserData",
        "per-atom identification needs distinct DMM weights and distinct pair distances (generated so); bitstring claims are exact binomial tests at a family-wise error rate of 1e-9 per invocation",
        "TLC; Pulser's Sequence / sampler API; numpy / scipy",
    ]
    variant, info = Q.detect_variant(ctx)
    ctx.coverage["mechanism_variant_observed"] = {"variant": variant, "probes": info}
    ctx.log(f"mechanism revision observed on the tree: {variant} {info}")

    # ---------------------------------------------------------------- (1) TLC
    maxn = 4
    # quick: all n <= 4 with base tags + all n <= 3 with every tag mode (the tag dimension is orthogonal to the
    # size); thorough: all n <= 4 with every tag mode
    for nm, mx, tg in ([("mc_repaired", 4, "cTagsBase"), ("mc_repaired_tags", 3, "cTagsAll")] if ctx.quick else [("mc_repaired", 4, "cTagsAll")]):
        res = run_tlc("MCQubitOrder", None, workdir=ctx.work, name=nm, workers=workers,
                      cfg_text=Q.qo_cfg(Q.REPAIRED, mx, 0, 3, "cBoth", "all", False, False, C03_INVS, tg))
        ctx.add_tlc(res)
        if res["violated"]:
            raise MachineryError(f"the repaired revision of the mechanism violates the requirement in the model: {res['violated']} (spec bug) see {res['outfile']}")
        ctx.log(f"TLC: repaired mechanism |= C03 requirement for all n <= {mx} (all dark masks, tags {tg}): {res['distinct']} states")
    if not ctx.quick:
        res5 = run_tlc("MCQubitOrder", None, workdir=ctx.work, name="mc_repaired_n5", workers=workers, timeout=3000,
                       cfg_text=Q.qo_cfg(Q.REPAIRED, 5, 0, 3, "cBoth", "nospe", False, False, C03_INVS, "cTagsAll"))
        ctx.add_tlc(res5)
        if res5["violated"]:
            raise MachineryError(f"n = 5: the site-order revision violates {res5['violated']} (spec bug) see {res5['outfile']}")
        ctx.log(f"TLC: ... and for n <= 5 without dark atoms (C25 covers them): {res5['distinct']} states")
    cov = run_tlc("MCQubitOrder", None, workdir=ctx.work, name="mc_coverage", workers=4, coverage=True,
                  cfg_text=Q.qo_cfg(variant, 2, 0, 2, "cBoth", "all", False, False, [], "cTagsAll"))
    ctx.add_tlc(cov)
    if cov.get("coverage_zero"):
        ctx.notes.append(f"spec actions never taken: {cov['coverage_zero']}")
    model_violates = []
    if variant != Q.REPAIRED:
        r2 = run_tlc("MCQubitOrder", None, workdir=ctx.work, name="mc_observed", workers=workers,
                     cfg_text=Q.qo_cfg(variant, 3, 0, 0, "cBoth", "nospe", False, False, C03_INVS, "cTagsAll"))
        ctx.add_tlc(r2)
        model_violates = [v[1] for v in r2["violated"]]
        ctx.log(f"TLC: the mechanism revision the tree follows ({variant}) violates {model_violates} in the model")
    ctx.coverage["model_of_tree_violates"] = model_violates

    # ---------------------------------------------------------------- (2) binding A
    alpha = 1e-9 / 4e6
    n_enum = ctx.pick(3, 4)
    preds = Q.tlc_predictions(ctx, "enum", variant, maxn=n_enum, backends="cBoth", focus="all", dim3=0, pair=0, workers=workers, tagmodes="cTagsAll")
    scen = [json.loads(k) for k in preds]
    scen = [dict(zip(Q.SCEN_FIELDS, s)) for s in scen]
    scen = [s for s in scen if sum(1 for d in s["dark"] if not d) >= 2 or not s["spe"]]     # < 2 good atoms: C25's subject
    n_big = n_enum + 1
    big = _sample_scenarios(rng, n_big, not ctx.quick)
    f = ctx.work / "sample_scenarios.json"
    f.write_text(json.dumps(big))
    preds.update(Q.tlc_predictions(ctx, "sample", variant, scen_file=f, workers=workers))
    pools = {n: _pool(rng, n, 3) for n in range(2, n_big + 1)}
    cases = [_case_of(s, pools, i, rng) for i, s in enumerate(scen + big)]
    results = Q.replay_cases(ctx, cases, policy="same-site-order", name="replay", alpha=alpha)
    st = _judge(ctx, results, preds, "replay")
    ctx.coverage["binding_A"] = {**st, "enumerated_by_TLC_up_to_n": n_enum, "sampled_at_n": n_big, "scenarios": len(cases)}
    ctx.log(f"binding A: {st}")
    if model_violates and st["violations"] == 0 and not ctx.known_seen:
        ctx.model_drift(f"the model of the tree ({variant}) violates {model_violates} but no replayed run does")

    # ---------------------------------------------------------------- (3) binding B, (4) non-permutable observables
    stb = _run_natural(ctx, alpha)
    ctx.coverage["binding_B_natural_permutations"] = stb
    ctx.log(f"binding B: {stb}")
    stn = _run_nonpermutable(ctx)
    ctx.coverage["non_permutable_observables"] = stn
    ctx.log(f"non-permutable observables: {stn}")
    ctx.coverage["worst_margin"] = {"tight (same-computation run / emu-sv vs dense)": st["worst_margin_tight"], "loose (TDVP vs dense)": st["worst_margin_loose"],
                                    "natural tight": stb["worst_margin_tight"], "natural loose": stb["worst_margin_loose"], "min bitstring p-value among passes": st["min_bits_p"], "alpha per test": alpha}
    ctx.coverage["rule"] = ("one case per real run: (physical system, backend, register order rho, optimiser output, reordering, dark mask, initial state); "
                            "non-trivial when rho or the permutation is not the identity or atoms are dark; scenarios are TLC's enumeration for n <= "
                            f"{n_enum} (complete) and a covering sample at n = {n_big}; natural-permutation runs at 6..16 atoms")
    ctx.coverage["exhaustive"] = False
