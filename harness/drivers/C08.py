"""C08 - Lanczos ground-state search is variational and meets its residual.

(1) TLC: Krylov.tla with Fn="min" (mechanism KrylovFn = transcription of _lowest_eigenvector_krylov_method /
    krylov_energy_minimization_impl / krylov_energy_minimization; the environment decides happy breakdown
    and the ORDER of the Ritz residuals at every iteration) |= MinSound / MinPublic / MinShape / Terminates for
    max_krylov_dim <= 6, max_restarts <= 3; seeded mutants of the mechanism must be refuted.
(2) Binding A: the model's control paths (cycle of the exit, kind of exit, iteration) are realised on the real
    krylov_energy_minimization_impl by sweeping the two tolerances over their whole range on fixed operators,
    by start vectors inside invariant subspaces, and by hard clustered operators; real paths must be model paths.
(3) Binding B: all real executions (path realisations, stratified random exploration over dimension 1..128,
    degenerate / clustered / gapped / wide spectra and Rydberg Hamiltonians, start vectors, tolerances, Krylov
    dimensions, restart counts, both entry points; in-situ kmin_exit events of real DMRG runs) are traces
    validated by KrylovTrace.tla with the atoms unit / rayleigh / variational / residOK from the dense reference.
"""
from __future__ import annotations

import json

import numpy as np

from harness.core import Ctx, MachineryError
from harness.drivers import krylov_common as kc
from harness.pool import pmap


def insitu_tasks(ctx: Ctx) -> list[dict]:
    amp = {"k": "const", "d": 200, "v": 6.0}
    det = {"k": "ramp", "d": 200, "v0": -5.0, "v1": 5.0}
    tasks = [
        {"backend": "dmrg", "n": 3, "dt": 10, "amp": amp, "det": det, "cfg": {}},
        {"backend": "dmrg", "n": 4, "dt": 20, "amp": amp, "det": det, "cfg": {"max_krylov_dim": 1}},   # a 1-dimensional Krylov space cannot improve: must raise
    ]
    if not ctx.quick:
        tasks += [
            {"backend": "dmrg", "n": 5, "dt": 10, "amp": amp, "det": det, "layout": "ring", "cfg": {}},
            {"backend": "dmrg", "n": 4, "dt": 10, "amp": amp, "det": det, "cfg": {"max_krylov_dim": 4}},
            {"backend": "dmrg", "n": 6, "dt": 25, "amp": amp, "det": det, "layout": "ladder", "cfg": {"precision": 1e-7}},
        ]
    return tasks


def run(ctx: Ctx) -> None:
    ctx.level = "model_checking"
    ctx.assumptions += [
        "KrylovFn.tla transcribes the CONTROL flow of the restarted Lanczos search; residual norms enter by their order (4 levels); "
        "the link to the numeric atoms is assumption A-ORTH (orthonormal Lanczos basis), which is what is checked on the real code against the reference",
        "exhaustive only for max_krylov_dim <= 6 and max_restarts <= 3; beyond that: trace validation of real executions",
        "reference: numpy eigvalsh / dense matrix-vector products; slack 256*eps*|H| on the Rayleigh quotient, the variational bound and the residual, 64*eps on the norm",
        "claimed region: residual_tolerance >= 16*eps*|H| (tolerances below the rounding floor of the operator are clamped by the generator), "
        "start vectors with |v| >= 1e-3 > norm_tolerance (the code treats vectors shorter than norm_tolerance as zero)",
        "TLC, the in-process hook event kmin_exit (public entry point's view of the result record)",
    ]
    if ctx.replay:
        rp = json.loads(open(ctx.replay).read())
        spec = rp["replay"]["spec"]
        res = [kc.insitu_run(spec)] if "backend" in spec else [kc.run_min(spec)]
        out = kc.judge(ctx, "kmin", res, "replay")
        ctx.case(("replay", json.dumps(spec, sort_keys=True)), sample={"spec": spec, "record": res[0].get("rec"), "atom": res[0].get("atom")})
        ctx.case(("replay-verdict", out["violations"]))
        ctx.coverage["rule"] = "replay of one recorded instance"
        return

    # (1) model checking
    model_paths = kc.model_check(ctx, "min")
    kc.model_mutants(ctx, "min")
    model_core = {p[:7] for p in model_paths}

    # (2) realise model control paths on the real function
    tasks = [{"m": m, "R": R, "seed": ctx.seed * 7919 + 10 * m + R, "ngrid": ctx.pick(20, 40)}
             for m in range(1, kc.MAXDIM_BOUND + 1) for R in range(0, kc.MAXR_BOUND + 1)]
    real_results = [r for rs in pmap(kc.sweep_min, tasks) for r in rs]
    seen_paths = {r["path"] for r in real_results if r["path"] is not None}
    outside = seen_paths - model_core
    realised = model_core & seen_paths
    by_kind = {}
    for p in model_core:
        k = (p[2], "first-cycle" if p[3] == 0 else "after-restart")
        a, b = by_kind.get(k, (0, 0))
        by_kind[k] = (a + (p in realised), b + 1)
    ctx.coverage["binding_A"] = {
        "model_paths": len(model_core), "realised_on_real_code": len(realised), "real_paths_outside_model": len(outside),
        "realised_by_kind": {f"{k[0]}/{k[1]}": f"{a}/{b}" for k, (a, b) in sorted(by_kind.items())},
        "real_executions": len(real_results),
    }
    ctx.log(f"binding A: {len(realised)}/{len(model_core)} model paths realised on the real code "
            f"({ctx.coverage['binding_A']['realised_by_kind']}); {len(outside)} real paths outside the model")
    if outside:
        ctx.model_drift(f"real control paths that Krylov.tla does not have: {sorted(outside)[:4]}")
    if not {"breakdown", "converged", "exhausted"} <= {p[2] for p in realised}:
        ctx.model_drift(f"exit kinds realised on the real code: {sorted({p[2] for p in realised})}")
    missing = sorted(model_core - seen_paths)
    if missing:
        ctx.notes.append(f"{len(missing)} model paths not realised by the sweeps (the environment of the model is unconstrained; e.g. {missing[:3]})")

    # (3a) stratified random exploration
    n = ctx.pick(1200, 18000)
    rng = np.random.default_rng([ctx.seed, 8])
    specs = [kc.gen_min_spec(rng, ctx.seed * 1_000_003 + i) for i in range(n)]
    order = sorted(range(n), key=lambda i: -(specs[i]["dim"] * specs[i]["maxdim"] * (specs[i]["maxr"] + 1)))
    nchunk = max(16, n // 40)
    chunked = [[specs[i] for i in order[c::nchunk]] for c in range(nchunk)]
    rand_results = [r for ch in pmap(kc.run_min_chunk, chunked) for r in ch]

    # (3b) in-situ DMRG
    situ = pmap(kc.insitu_run, insitu_tasks(ctx))
    ctx.coverage["in_situ"] = [{"backend": s["spec"]["backend"], "cfg": s["spec"].get("cfg"), "outcome": s["exc"] or "returned", **s["stats"]} for s in situ]

    j1 = kc.judge(ctx, "kmin", real_results, "paths")
    j2 = kc.judge(ctx, "kmin", rand_results, "random")
    for s in situ:
        broken = s["exc"] not in (None, "RecursionError") or s["stats"]["n_exit"] == 0
        if broken and ctx.n_violations + ctx.n_known > 0:
            # the kernel already violates the property on direct calls: an in-situ run that dies is a consequence
            ctx.notes.append(f"in-situ run {s['spec']['backend']} {s['spec'].get('cfg')} ended with {s['exc']} after {s['stats']['n_exit']} Krylov exits")
        elif broken:
            raise MachineryError(f"in-situ run unusable (exception {s['exc']}, {s['stats']['n_exit']} kmin_exit events): {s['spec']}")
    situ = [s for s in situ if s["exc"] in (None, "RecursionError") and s["stats"]["n_exit"] > 0]
    j3 = kc.judge(ctx, "kmin", situ, "insitu")
    ctx.coverage["trace_verdicts"] = {"paths": j1, "random": j2, "insitu": j3}

    worst = {"unit": (0.0, None), "rayleigh": (0.0, None), "variational": (0.0, None), "residual": (0.0, None)}
    strata: dict[str, int] = {}
    n_resid_claims = 0
    for r in real_results + rand_results:
        sp = r["spec"]
        nontrivial = r["dim"] >= 2 and r["rec"] is not None
        key = (sp.get("spectrum"), sp["dim"], sp["seed"], sp["maxdim"], sp["maxr"], sp["api"], repr(sp["tol"]), repr(sp["ntol"]), sp.get("vkind"))
        ctx.case(key, nontrivial=nontrivial)
        st = f"{sp.get('spectrum')}/{r['kind']}/{sp['api']}"
        strata[st] = strata.get(st, 0) + 1
        a = r.get("atom")
        if not a or a.get("m_unit") is None:
            continue
        for nm, k in (("unit", "m_unit"), ("rayleigh", "m_ray"), ("variational", "m_var")):
            if a[k] is not None and a[k] > worst[nm][0] and not sp.get("raw_tol"):
                worst[nm] = (a[k], {"spec": sp, "record": r["rec"]})
        if r["rec"] and r["rec"]["converged"] and not r["rec"]["breakdown"]:
            n_resid_claims += 1
            if a["m_res"] > worst["residual"][0] and not sp.get("raw_tol"):
                worst["residual"] = (a["m_res"], {"spec": sp, "record": r["rec"], "resid": a["resid"], "tol": r["tol_used"]})
    for s in situ:
        ctx.case(("insitu", json.dumps(s["spec"], sort_keys=True)), nontrivial=True)
    ctx.coverage["strata"] = dict(sorted(strata.items()))
    ctx.coverage["worst_margins_fraction_of_rounding_slack"] = {k: {"margin": v[0], "where": v[1]} for k, v in worst.items()}
    ctx.coverage["residual_claims_checked"] = n_resid_claims
    ex = next((r for r in rand_results if r["kind"] == "converged" and r["dim"] >= 16 and r["rec"]["restarts"] >= 1), rand_results[0])
    ctx.sample({"spec": ex["spec"], "record": ex["rec"], "op_calls": ex["nops"], "atom": ex["atom"], "events_head": ex["events"][:3], "events_tail": ex["events"][-2:]})
    ex = next((r for r in real_results if r["kind"] == "breakdown" and r["rec"]["restarts"] >= 1), real_results[0])
    ctx.sample({"realised_path": ex["path"], "spec": ex["spec"], "record": ex["rec"], "atom": ex["atom"]})
    ex = next((r for r in rand_results if r["outcome"] == "raised"), None)
    if ex:
        ctx.sample({"spec": ex["spec"], "record": ex["rec"], "outcome": ex["outcome"], "exception": ex["exc"]})
    if situ:
        ctx.sample({"in_situ": situ[0]["spec"], "stats": situ[0]["stats"], "events_head": situ[0]["events"][:3]})
    ctx.coverage["rule"] = (
        "TLC: all control paths and residual order patterns for max_krylov_dim <= 6, max_restarts <= 3 (exhaustive); real code: one case per "
        "instance (spectrum class, dimension, seed, tolerances, max_krylov_dim, max_restarts, entry point, start vector kind); non-trivial = "
        "dimension >= 2 and a result record was produced; every case is one KrylovTrace-validated execution"
    )
    ctx.coverage["exhaustive"] = False
