"""C11 - MPS / MPO operations are faithful to their dense counterparts and pure unless documented in-place.

(1) TLC: MPSOps.tla (shared with C10) -- requirement Frame: only Truncate / Apply / evolution change the
    represented state of an existing object, every other operation may only create its result; the
    mechanism tracks which torch tensors two objects share (scale_factors) and which methods rebind list
    entries vs destroy tensors in place (evolve_pair / evolve_single).  Mutants `scale_inplace`,
    `evolve_unguarded` must be refuted.
(2) Binding A: every transition of the exhaustive graph + simulated long histories on REAL objects with
    a dense numpy shadow: result of every operation vs the dense operation on the operands' contraction
    taken just before the call (one `precision` per truncated bond; observed residual where the cap
    binds), returned scalars / matrices vs dense values, and the contraction of EVERY object that existed
    before the call compared after it (operands and bystanders, also after the name was rebound).
(3) MPO algebra (+, scalar *, @, expect, apply_to) on random MPOs (2-8 sites, bond 1-16, qubits / qutrits)
    and the abstract-representation constructors: every basis string (all three bases, n <= 3) and every
    elementary operator |i><j| on every target set, then random amplitude dictionaries / FullOps.
"""
from __future__ import annotations

import itertools
import logging
import math
import os

import numpy as np

from harness.core import Ctx, MachineryError
from harness.drivers import C10 as base
from harness.drivers import _mpsops as M
from harness.pool import pmap
from harness.ref import dense, tn

PROP = "C11"
BASES = [("r", "g"), ("0", "1"), ("r", "g", "x")]


def _quiet():
    lg = logging.getLogger("emulators")
    lg.setLevel(logging.ERROR)
    lg.propagate = False


# ------------------------------------------------------------------------------------------ constructors
def constructors_task(task: dict) -> dict:
    """Exhaustive small cases + random cases of MPS.from_state_amplitudes / MPO.from_operator_repr."""
    import torch
    from emu_mps.mpo import MPO
    from emu_mps.mps import MPS

    torch.set_num_threads(1)
    _quiet()
    acc = M.new_acc()
    rng = np.random.default_rng(task["seed"])

    def viol(key, what, rep):
        if len(acc["violations"]) < 60:
            acc["violations"].append({"prop": PROP, "key": key, "what": what, "n": rep.get("n", 0), "params": rep, "path": []})

    def margin(k, err, bud):
        acc["margins"][k] = max(acc["margins"].get(k, 0.0), err / bud)
        acc["checks"][k] = acc["checks"].get(k, 0) + 1

    def check_state(eig, amps, tag):
        n = len(next(iter(amps)))
        rep = {"kind": "from_state_amplitudes", "eigenstates": list(eig), "n": n, "amplitudes": {k: [complex(v).real, complex(v).imag] for k, v in amps.items()}}
        try:
            m = MPS.from_state_amplitudes(eigenstates=eig, amplitudes=amps)
            got = M.mps_vec(m)
        except Exception as ex:
            viol(f"mps:from_state_amplitudes:raises:{tag}", f"from_state_amplitudes({eig}) raised {type(ex).__name__}: {ex}", rep)
            return
        ref = tn.vec_from_amplitudes(eig, amps)
        raw = math.sqrt(sum(abs(v) ** 2 for v in amps.values()))
        bud = 2.0 * len(amps) * (n - 1) * 1e-5 / raw + 1e-10
        err = float(np.linalg.norm(got - ref))
        margin("C11:from_state_amplitudes", err, bud)
        acc["transitions"] += 1
        if not err <= bud:
            viol(f"mps:from_state_amplitudes:differs-from-dense:{tag}", f"from_state_amplitudes({list(eig)}, {len(amps)} strings, n={n}) differs from the normalised dense vector by {err:.3e} > {bud:.3e}", rep)

    def check_op(eig, n, operations, tag):
        rep = {"kind": "from_operator_repr", "eigenstates": list(eig), "n": n,
               "operations": [[[complex(c).real, complex(c).imag], [[{k: [complex(v).real, complex(v).imag] for k, v in q.items()}, sorted(t)] for q, t in to]] for c, to in operations]}
        try:
            o = MPO.from_operator_repr(eigenstates=eig, n_qudits=n, operations=operations)
            got = dense.mpo_to_mat([M.tnp(f) for f in o.factors])
        except Exception as ex:
            viol(f"mpo:from_operator_repr:raises:{tag}", f"from_operator_repr({eig}) raised {type(ex).__name__}: {ex}", rep)
            return
        ref = tn.mat_from_operations(eig, n, operations)
        err = float(np.abs(got - ref).max())
        bud = 1e-10 * max(1.0, float(np.abs(ref).max()))
        margin("C11:from_operator_repr", err, bud)
        acc["transitions"] += 1
        if not err <= bud:
            viol(f"mpo:from_operator_repr:differs-from-dense:{tag}", f"from_operator_repr({list(eig)}, n={n}) differs from the dense kron sum by {err:.3e}", rep)

    if task["part"] == "exhaustive":
        for eig in BASES:
            letters = sorted(set(eig))
            for n in (2, 3):
                for s in itertools.product(letters, repeat=n):
                    check_state(eig, {"".join(s): 1.0}, "basis-string")
                for i, j in itertools.product(letters, repeat=2):
                    for r in range(1, n + 1):
                        for tg in itertools.combinations(range(n), r):
                            check_op(eig, n, [(1.0, [({i + j: 1.0}, set(tg))])], "elementary")
                # two different elementary operators on disjoint target sets
                for (i, j), (k, l) in itertools.islice(itertools.product(itertools.product(letters, repeat=2), repeat=2), 0, None, 3):
                    check_op(eig, n, [(1.0, [({i + j: 1.0}, {0}), ({k + l: 1.0}, {n - 1})])], "two-factors")
                check_op(eig, n, [(2.5, [])], "identity")
    else:
        for _ in range(task["count"]):
            eig = BASES[int(rng.integers(0, 3))]
            letters = sorted(set(eig))
            n = int(rng.integers(2, 9 if len(eig) == 2 else 6))
            k = min(int(rng.integers(1, 7)), len(letters) ** n)
            amps = {}
            while len(amps) < k:
                amps["".join(rng.choice(letters, size=n))] = complex(rng.normal(), rng.normal()) * float(rng.choice([1.0, 1.0, 0.05]))
            sc = float(rng.choice([1.0, 0.3, 4.0])) / math.sqrt(sum(abs(v) ** 2 for v in amps.values()))
            check_state(eig, {s: v * sc for s, v in amps.items()}, "random")
            n = int(rng.integers(2, 7 if len(eig) == 2 else 5))
            ops = []
            for _t in range(int(rng.integers(1, 5))):
                sites = list(rng.permutation(n))
                to = []
                for _q in range(int(rng.integers(0, 4))):
                    if not sites:
                        break
                    tg = {int(sites.pop()) for _ in range(int(rng.integers(1, 3))) if sites}
                    q = {a + b: complex(rng.normal(), rng.normal()) for a, b in {tuple(rng.choice(letters, size=2)) for _ in range(int(rng.integers(1, 4)))}}
                    to.append((q, tg))
                ops.append((complex(rng.normal(), rng.normal()), to))
            check_op(eig, n, ops, "random")
    acc["states"] = 1
    return acc


# ------------------------------------------------------------------------------------------ MPO algebra
def mpo_task(task: dict) -> dict:
    import torch
    from emu_mps.mpo import MPO
    from emu_mps.mps import MPS

    torch.set_num_threads(1)
    _quiet()
    acc = M.new_acc()
    rng = np.random.default_rng(task["seed"])

    def viol(key, what, rep):
        if len(acc["violations"]) < 60:
            acc["violations"].append({"prop": PROP, "key": key, "what": what, "n": rep["n"], "params": rep, "path": []})

    def margin(k, err, bud):
        acc["margins"][k] = max(acc["margins"].get(k, 0.0), err / bud)
        acc["checks"][k] = acc["checks"].get(k, 0) + 1
        return err <= bud

    for it in range(task["count"]):
        d = int(rng.choice([2, 2, 3]))
        n = int(rng.integers(2, 9 if d == 2 else 6))
        D = int(rng.integers(1, 17 if d**n <= 256 else 5))
        rep = {"kind": "mpo-algebra", "seed": task["seed"], "iteration": it, "n": n, "dim": d, "bond": D}
        A = [torch.tensor(f) for f in M.rand_mpo(rng, n, d, hermitian=False, D=D)]
        B = [torch.tensor(f) for f in M.rand_mpo(rng, n, d, hermitian=bool(rng.integers(0, 2)), D=min(D, 4))]
        An, Bn = [M.tnp(f) for f in A], [M.tnp(f) for f in B]
        Am, Bm = dense.mpo_to_mat(An), dense.mpo_to_mat(Bn)
        chi = int(rng.integers(1, 17 if d**n <= 256 else 7))
        fs = M.rand_factors(rng, n, d, chi, float(rng.choice([1.0, 0.5, 0.1])))
        prec = float(10 ** rng.uniform(-10, -3))
        psi = MPS([torch.tensor(f) for f in fs], precision=prec, max_bond_dim=1024, eigenstates=M.EIG[d], num_gpus_to_use=0)
        v = dense.mps_to_vec(fs)
        a, b = MPO(list(A)), MPO(list(B))
        z = complex(rng.normal(), rng.normal())
        keepA, keepB = [f.clone() for f in A], [f.clone() for f in B]
        try:
            fa, fb = float(np.linalg.norm(Am)), float(np.linalg.norm(Bm))
            got = dense.mpo_to_mat([M.tnp(f) for f in (a + b).factors])
            if not margin("C11:mpo-add", float(np.linalg.norm(got - (Am + Bm))), 1e-10 * max(1.0, fa + fb)):
                viol("mpo:add:differs-from-dense", "MPO + MPO differs from the dense sum", rep)
            got = dense.mpo_to_mat([M.tnp(f) for f in (z * a).factors])
            if not margin("C11:mpo-scale", float(np.linalg.norm(got - z * Am)), 1e-10 * max(1.0, abs(z) * fa)):
                viol("mpo:rmul:differs-from-dense", "scalar * MPO differs from the dense product", rep)
            got = dense.mpo_to_mat([M.tnp(f) for f in (a @ b).factors])
            ref = Am @ Bm
            # zip_right truncates n-1 bonds at DEFAULT_PRECISION (Frobenius, absolute)
            if not margin("C11:mpo-matmul", float(np.linalg.norm(got - ref)), (n - 1) * (1e-5 + 1e-6 * float(np.linalg.norm(ref))) + 1e-10):
                viol("mpo:matmul:differs-from-dense", f"MPO @ MPO differs from the dense product by {np.linalg.norm(got - ref):.3e} (budget {(n-1)*1e-5:.1e})", rep)
            e = complex(a.expect(psi))
            ref = complex(np.vdot(v, Am @ v))
            if not margin("C11:mpo-expect", abs(e - ref), 1e-10 * max(1.0, fa * float(np.vdot(v, v).real))):
                viol("mpo:expect:differs-from-dense", f"MPO.expect differs from <v|A|v> by {abs(e-ref):.3e}", rep)
            with M.SplitSpy() as spy:
                r = a.apply_to(psi)
                sp = [x for x in spy.take() if "error" not in x]
            got = M.mps_vec(r)
            ref = Am @ v
            bud = sum(math.sqrt(prec**2 + M.ROUND_W * x["frob2"]) if x["kept"] < 1024 else math.sqrt(x["w_act"]) for x in sp) + 1e-10 * max(1.0, float(np.linalg.norm(ref)))
            if not margin("C11:mpo-apply_to", float(np.linalg.norm(got - ref)), bud):
                viol("mpo:apply_to:differs-from-dense", f"MPO.apply_to differs from A v by {np.linalg.norm(got - ref):.3e} (budget {bud:.3e})", rep)
            if r.orthogonality_center != 0:
                acc["drift"].append({"key": "apply_to:centre", "what": f"apply_to declares centre {r.orthogonality_center}", "n": n, "path": []})
            # purity of every operand
            same = all(torch.equal(x, y) for x, y in zip(a.factors, keepA)) and all(torch.equal(x, y) for x, y in zip(b.factors, keepB))
            if not same or not all(x is y for x, y in zip(a.factors, A)):
                viol("mpo:algebra:changes-operand", "an MPO operand was modified by +, *, @, expect or apply_to", rep)
            pv = M.mps_vec(psi)
            if not margin("C11:purity", float(np.linalg.norm(pv - v)), M.PURE_TOL * max(1.0, float(np.linalg.norm(v)))):
                viol("mpo:apply_to:changes-operand", "MPO.expect / apply_to changed the state they were applied to", rep)
        except Exception as ex:
            viol("mpo:algebra:raises", f"MPO algebra raised {type(ex).__name__}: {ex}", rep)
        # correlation matrix with projector operators, expect_batch, entropy on the same random state
        try:
            lvl = int(rng.integers(0, d))
            pr = dense.proj(d, lvl, lvl)
            got = M.tnp(psi.get_correlation_matrix(operator=torch.tensor(pr)))
            ref = tn.correlation_diag_op(v, n, d, pr)
            if not margin("C11:correlation-projector", float(np.abs(got - ref).max()), 1e-10 * max(1.0, float(np.vdot(v, v).real))):
                viol("mps:correlation:differs-from-dense", f"get_correlation_matrix(|{lvl}><{lvl}|) differs from the dense value", rep)
            if not margin("C11:purity", float(np.linalg.norm(M.mps_vec(psi) - v)), M.PURE_TOL * max(1.0, float(np.linalg.norm(v)))):
                viol("mps:correlation:changes-operand", "get_correlation_matrix changed the represented state", rep)
        except Exception as ex:
            viol("mps:correlation:raises", f"{type(ex).__name__}: {ex}", rep)
        acc["transitions"] += 1
    acc["states"] = 1
    return acc


def extras(ctx: Ctx) -> None:
    rng = np.random.default_rng([ctx.seed, 40])
    procs = int(os.environ.get("VERIF_PROCS", "16"))
    tasks = [("c", {"part": "exhaustive", "seed": 0})]
    nrand = ctx.pick(8, 32)
    tasks += [("c", {"part": "random", "seed": int(rng.integers(0, 2**31)), "count": ctx.pick(12, 60)}) for _ in range(nrand)]
    tasks += [("m", {"seed": int(rng.integers(0, 2**31)), "count": ctx.pick(6, 40)}) for _ in range(nrand)]
    accs = pmap(_dispatch, tasks)
    accC = M.merge([a for (k, _), a in zip(tasks, accs) if k == "c"])
    accM = M.merge([a for (k, _), a in zip(tasks, accs) if k == "m"])
    base.report(ctx, accC, PROP, "constructors")
    base.report(ctx, accM, PROP, "mpo-algebra")
    for k, t in tasks:
        ctx.case((k, t.get("part", ""), t["seed"]))
    ctx.evaluations += accC["transitions"] + accM["transitions"] - len(tasks)
    ctx.sample({"stage": "constructors", "exhaustive": "all basis strings and all |i><j| on all target sets, 3 bases, n in {2,3}", "cases": accC["transitions"]})
    ctx.sample({"stage": "mpo-algebra", "cases": accM["transitions"]})


def _dispatch(kt):
    k, t = kt
    return constructors_task(t) if k == "c" else mpo_task(t)


def run(ctx: Ctx) -> None:
    ctx.level = "exploration"
    ctx.assumptions += [
        "MPSOps.tla (shared with C10) decides the frame rule on the abstraction (represented-state versions, tensor sharing); "
        "its faithfulness is checked by replaying every transition on real objects",
        "dense counterparts: numpy contraction / kron sums in harness/ref (dense.py, tn.py); truncation budget = one configured `precision` per "
        "split that was not cap-bound (+1e-10 relative rounding); MPO @ MPO uses DEFAULT_PRECISION 1e-5 per bond in Frobenius norm as the code documents",
        "get_correlation_matrix is only fed projector-like diagonal operators (its diagonal is <O_i>, not <O_i^2>, which coincides for projectors); "
        "entanglement_entropy is compared with the formula it documents (-sum s^2 log s^2 of the unnormalised singular values)",
        "numeric faithfulness is explored on seeded random inputs, not proved",
    ]
    if ctx.replay:
        return base.replay_file(ctx, PROP)
    depth = ctx.pick(3, 4)
    futs = base.start_side_tlc(ctx, ctx.pick(48, 400))
    rows, res = base.model_check(ctx, 2, 4, depth, f"mc_2names_d{depth}")
    base.mutants_refuted(ctx, futs)
    acc = base.graph_replay(ctx, rows, 2, ctx.pick(2, 3), "graph")
    base.report(ctx, acc, PROP, "graph")
    if res["violated"] and not ctx.n_violations and not ctx.known_seen and not ctx.drift:
        raise MachineryError(f"TLC refutes {res['violated']} for the code model, the real replay shows neither a violation nor drift: MPSOps.tla is out of date")
    accs = base.simulate_replay(ctx, futs, "simulated")
    base.report(ctx, accs, PROP, "simulated")
    extras(ctx)
    ctx.coverage["rule"] = ("one case per distinct (sites, abstract pre-state, action) transition of the exhaustive TLC graph executed on a real witness with dense shadows; "
                            "one per simulated behaviour; one per constructor / MPO-algebra batch (seeded); constructors exhaustive over basis strings and |i><j| x target sets for n <= 3")
    ctx.coverage["exhaustive"] = True
