"""C17 - emu-mps quantum-jump trajectories reproduce Lindblad dynamics on average.

Real trajectories of the jump solver (2-4 atoms; relaxation, dephasing, depolarizing, effective 2x2 noise,
leakage with 3x3 effective operators for N <= 3) are run in a 16-process pool with fixed seeds; per-trajectory
atoms (finished, values in physical range, observables on a normalised state) and the aggregate atom (mean
within z*s/sqrt(n) + systematic(dt) of the dense Lindblad master-equation reference, z from a family-wise
error rate of 1e-9) are decided by TrajTrace.tla.  The stepping structure of every trajectory is C18's subject.
"""
from __future__ import annotations

import math

import numpy as np

from harness.core import Ctx, MachineryError
from harness.pool import pmap
from harness.traces import validate_batch


def cases(ctx: Ctx) -> list[dict]:
    rng = ctx.rng
    cs = []
    base = [
        (2, {"relaxation_rate": 6.0}, 2),
        (2, {"depolarizing_rate": 5.0}, 2),
        (2, "eff2", 2),
        (2, "leak", 3),
    ]
    if not ctx.quick:
        base += [(3, {"dephasing_rate": 6.0}, 2), (3, {"relaxation_rate": 3.0, "dephasing_rate": 2.0}, 2), (4, {"relaxation_rate": 4.0, "depolarizing_rate": 1.0}, 2),
                 (3, "leak", 3), (3, "eff2", 2), (4, {"dephasing_rate": 8.0}, 2)]
    base.append((3, "spam", 2))
    for i, (n, noise, dim) in enumerate(base):
        if noise == "eff2":
            m = [[[0.0, 0.0], [rng.uniform(0.3, 1.0), 0.0]], [[rng.uniform(0.2, 0.8), 0.0], [0.0, 0.0]]]
            noise = {"eff_noise_rates": [rng.uniform(3.0, 6.0)], "eff_noise_opers": [m]}
        elif noise == "leak":
            # pulser basis (r, g, x): |x><r| and |x><g| with different rates, plus |g><x|
            def unit(a, b):
                z = [[[0.0, 0.0] for _ in range(3)] for _ in range(3)]
                z[a][b] = [1.0, 0.0]
                return z
            noise = {"eff_noise_rates": [6.0, 1.0, 2.0], "eff_noise_opers": [unit(2, 0), unit(2, 1), unit(1, 2)], "with_leakage": True}
        spam = noise == "spam"
        if spam:
            noise = {"relaxation_rate": 3.0, "state_prep_error": 0.3}
        cs.append({"id": i + 1, "n": n, "noise": noise, "dim": dim, "spam": spam, "duration": 100, "dt": 10.0, "amp": rng.uniform(5.0, 9.0), "det": rng.uniform(-2.0, 2.0)})
    return cs


def _setup(case: dict, n_traj: int = 1):
    import pulser
    from emu_base import PulserData
    from emu_mps import MPSConfig
    from harness.gen import seqs
    from harness.smallruns import small_spec
    from harness.svrun import make_observables, noise_model

    spec = small_spec(case["n"], case["duration"], spacing=7.0, amp=case["amp"], det=case["det"])
    seq = seqs.build_sequence(spec)
    nm = noise_model(case["noise"])
    times = [0.25, 0.5, 0.75, 1.0]
    cfg = MPSConfig(dt=case["dt"], log_level=100, noise_model=nm, observables=make_observables([{"k": "occupation", "times": times}, {"k": "correlation_matrix", "times": times}, {"k": "state", "times": times},
                                                  {"k": "energy", "times": times}, {"k": "energy_variance", "times": times}]),
                    optimize_qubit_ordering=False, precision=1e-6, n_trajectories=n_traj)
    pd = PulserData(sequence=seq, config=cfg, dt=case["dt"])
    if n_traj > 1:
        return seq, cfg, list(pd.get_sequences()), times
    data = next(iter(pd.get_sequences()))
    return seq, cfg, data, times


def traj_worker(job: dict) -> dict:
    import random
    import torch
    from emu_mps import MPSBackend

    out = {"case": job["case"]["id"], "seeds": job["seeds"], "error": None, "occ": [], "ok_range": [], "finished": []}
    try:
        spam = bool(job["case"].get("spam"))
        if spam:
            import numpy as _np
            _np.random.seed(job["seeds"][0] % (2**31))
            seq, cfg, datas, times = _setup(job["case"], len(job["seeds"]))
        else:
            seq, cfg, data, times = _setup(job["case"])
            datas = [data] * len(job["seeds"])
        out["norm_ok"], out["ref"], out["skipped"] = [], [], 0
        for s, data in zip(job["seeds"], datas):
            random.seed(s)
            torch.manual_seed(s)
            if spam and sum(1 for b in data.bad_atoms if not b) < 2:
                out["skipped"] += 1     # fewer than two well-prepared atoms: emu-mps refuses (known finding of C25)
                continue
            try:
                res = MPSBackend._run_from_sequence_data(data, cfg)
                occ = np.array([np.asarray(v.detach().numpy() if hasattr(v, "detach") else v, float) for v in res.occupation])
                cor = np.array([np.real(np.asarray(v.detach().numpy() if hasattr(v, "detach") else v)) for v in res.correlation_matrix])
                rng_ok = bool((occ >= -1e-9).all() and (occ <= 1 + 1e-9).all() and (cor >= -1e-9).all() and (cor <= 1 + 1e-9).all())
                norms = [float(st.norm()) for st in res.state]
                # energy-type observables of a trajectory are those of a Hermitian Hamiltonian on a normalised state: real variance >= 0
                ev_ = [float(np.real(x)) for x in res.energy_variance]
                en_ = [float(np.real(x)) for x in res.energy]
                escale = 1.0 + max(abs(x) for x in en_) ** 2
                rng_ok = rng_ok and all(v_ >= -1e-7 * escale for v_ in ev_) and all(np.isfinite(en_)) and all(np.isfinite(ev_))
                out["norm_ok"].append(bool(all(abs(x - 1.0) <= 1e-8 for x in norms)))
                out["occ"].append(occ.tolist())
                out["ok_range"].append(rng_ok)
                out["finished"].append(len(res.get_result_times("occupation")) == len(times))
                if spam:
                    out["ref"].append(_ref_for(job["case"], seq, data, times).tolist())
            except BaseException as e:  # noqa
                out["occ"].append(None)
                out["ok_range"].append(True)
                out["norm_ok"].append(True)
                out["finished"].append(False)
                out["error"] = f"{type(e).__name__}: {e}"
    except BaseException as e:  # noqa
        import traceback
        out["error"] = "setup: " + f"{type(e).__name__}: {e}" + traceback.format_exc()[-800:]
    return out


def _ref_for(case: dict, seq, data, times) -> "np.ndarray":
    """Master-equation occupations for ONE state-preparation draw: badly prepared atoms are absent (no drive, no interaction)."""
    from harness.gen import seqs
    from harness.ref import dense

    n, dim = case["n"], case["dim"]
    T = [float(t) for t in data.target_times]
    om, de, ph = (np.real(x.detach().numpy()).copy() for x in (data.omega, data.delta, data.phi))
    U = np.asarray(data.interaction_matrix(1e18).detach().numpy(), float).copy()
    bad = [i for i, b in enumerate(data.bad_atoms) if b]
    for i in bad:
        om[:, i] = 0.0
        de[:, i] = 0.0
        ph[:, i] = 0.0
        U[i, :] = 0.0
        U[:, i] = 0.0
    ops = [np.asarray(L.detach().numpy()) for L in data.lindblad_ops]
    good = [i for i in range(n) if i not in bad]
    Ls = [dense.embed(L, j, n, dim) for j in good for L in ops]
    v = dense.basis_state([0] * n, dim)
    rho = np.outer(v, v.conj())
    out = {0.0: dense.occupation(rho, n, dim)}
    for k in range(om.shape[0]):
        H = dense.hamiltonian(om[k], de[k], ph[k], U, kind="rydberg", dim=dim)
        rho = dense.evolve_lindblad(rho, H, Ls, T[k + 1] - T[k])
        out[round(T[k + 1] / T[-1], 9)] = dense.occupation(rho, n, dim)
    return np.array([out[round(t, 9)] for t in times])


def reference(case: dict) -> tuple[np.ndarray, np.ndarray]:
    """Master-equation occupations at the evaluation times, and the dt-halving systematic term."""
    from harness.gen import seqs
    from harness.ref import dense

    seq, cfg, data, times = _setup(case)
    n, dim = case["n"], case["dim"]
    T = [float(t) for t in data.target_times]
    om, de, ph = (np.real(x.detach().numpy()) for x in (data.omega, data.delta, data.phi))
    U = np.asarray(data.interaction_matrix(1e18).detach().numpy(), float)
    ops = [np.asarray(L.detach().numpy()) for L in data.lindblad_ops]

    def run(grid, rows):
        o, d_, p = rows
        states, _ = seqs.ref_lindblad_run(o, d_, p, grid, lambda k: U, ops, dim=dim)
        return {round(g / grid[-1], 9): dense.occupation(s, n, dim) for g, s in zip(grid, states)}

    r1 = run(T, (om, de, ph))
    # dt/2: rebuild rows on the finer grid with the reference interpolation of Pulser's samples
    local, _, duration = seqs.pulser_local_samples(seq, False)
    local = {str(k): v for k, v in local.items()}
    fine = sorted(set(T) | {0.5 * (a + b) for a, b in zip(T[:-1], T[1:])})
    r2 = run(fine, seqs.ref_rows(local, [str(q) for q in seq.register.qubit_ids], fine, int(T[-1])))
    ref = np.array([r2[round(t, 9)] for t in times])
    sysd = np.array([np.abs(r1[round(t, 9)] - r2[round(t, 9)]) for t in times])
    rate = 0.0
    for L in ops:
        rate += float(np.linalg.norm(L, 2) ** 2)
    return ref, 3.0 * sysd + rate * 1e-3 * 1.0 + 2e-3


def run(ctx: Ctx) -> None:
    from scipy.stats import norm

    ctx.level = "exploration"
    ctx.assumptions += [
        "reference: dense Lindblad propagator with the emulator's jump-operator list (C24 decides that list); stands in for Pulser's master-equation solver",
        "acceptance |mean - ref| <= z*sqrt(ref(1-ref)/n) + z^2/(3n) + systematic (variance bound of a [0,1] variable, Bernstein range term), z from family-wise error 1e-9 (Bonferroni over all compared numbers of the run); systematic = 3*|ref(dt)-ref(dt/2)| + (sum of jump rates)*1 ns + 2e-3",
        "fixed seeds (VERIF_SEED); trajectories are independent runs of MPSBackend._run_from_sequence_data on the same SequenceData",
    ]
    cs = cases(ctx)
    ntraj = ctx.pick(128, 1000)
    per = 8
    jobs = []
    for c in cs:
        for k in range(0, ntraj, per):
            jobs.append({"case": c, "seeds": [ctx.seed * 100000 + c["id"] * 1000 + k + j for j in range(min(per, ntraj - k))]})
    res = pmap(traj_worker, jobs)
    ncmp = sum(4 * c["n"] for c in cs)
    z = float(norm.isf(1e-9 / (2 * ncmp)))
    traces = []
    meta = {}
    for c in cs:
        mine = [r for r in res if r["case"] == c["id"]]
        errs = [r["error"] for r in mine if r["error"]]
        if any(e.startswith("setup") for e in errs):
            raise MachineryError(f"case {c['id']} setup failed: {errs[0]}")
        occs, events = [], [{"ev": "case", "n": ntraj}]
        refs_all: list = []
        skipped = 0
        i = 0
        for r in mine:
            refs_all.extend(r.get("ref", []))
            skipped += r.get("skipped", 0)
            for occ, okr, fin, nok in zip(r["occ"], r["ok_range"], r["finished"], r.get("norm_ok", [True] * len(r["occ"]))):
                i += 1
                events.append({"ev": "traj", "i": i, "finished": bool(fin and occ is not None), "inRange": bool(okr), "normalised": bool(nok)})
                if occ is not None:
                    occs.append(np.array(occ))
        ctx.case(("case", c["id"], c["n"], str(sorted(c["noise"].keys())), c["dim"]), sample={"atoms": c["n"], "noise": sorted(c["noise"].keys()), "dim": c["dim"], "trajectories": len(occs)})
        if errs:
            ctx.violation(f"traj:raised:dim{c['dim']}:{errs[0].split(':')[0]}", f"a noisy emu-mps trajectory raised: {errs[0][:300]}", {"case": c})
            continue
        events[0]["n"] = ntraj - skipped
        arr = np.array(occs)            # (traj, times, atoms)
        if c.get("spam"):
            # every trajectory has its own state-preparation draw: compare with the average of the per-draw references
            ref = np.array(refs_all).mean(axis=0)
            sysd = np.full(ref.shape, 2e-3 + 1e-2)
        else:
            ref, sysd = reference(c)
        mean = arr.mean(axis=0)
        sd = arr.std(axis=0, ddof=1)
        worst = 0.0
        for k in range(mean.shape[0]):
            # variance of a [0,1]-valued occupation is at most mu(1-mu) (Bhatia-Davis): valid however skewed the trajectory
            # distribution is (rare jumps make the SAMPLE variance unreliable); plus Bernstein's range term
            nn = arr.shape[0]
            vmax = np.clip(ref[k] * (1.0 - ref[k]), 1e-4, 0.25)
            bud = z * np.sqrt(vmax / nn) + 2.0 * (z * z / 2.0) / (3.0 * nn) + sysd[k]
            dev = np.abs(mean[k] - ref[k])
            worst = max(worst, float((dev / bud).max()))
            events.append({"ev": "agg", "count": int(arr.shape[0]), "k": k, "meanOK": bool((dev <= bud).all())})
        ctx.coverage.setdefault("worst_margin", {})[str(c["id"])] = round(worst, 3)
        tr = {"id": len(traces) + 1, "events": events}
        traces.append(tr)
        meta[tr["id"]] = (c, mean.tolist(), ref.tolist())
    if traces:
        verdicts = validate_batch(ctx, "TrajTrace", traces, "traj")
        for tr in traces:
            v = verdicts[tr["id"]]
            if v[0] == "REJECT":
                c, mean, ref = meta[tr["id"]]
                ctx.violation(f"traj:dim{c['dim']}:{'+'.join(sorted(c['noise'].keys()))}:{v[2]}", f"{c['n']} atoms, noise {sorted(c['noise'].keys())}: {v[2]} (mean {np.round(mean[-1], 4).tolist()} vs master equation {np.round(ref[-1], 4).tolist()} at t=1)",
                              {"case": c, "mean": mean, "reference": ref})
    ctx.coverage["trajectories"] = ntraj * len(cs)
    ctx.coverage["z"] = round(z, 3)
    ctx.coverage["rule"] = "one case per (atoms, noise channel set, level count); each case = ntraj independent trajectories compared with the master equation at 4 evaluation times"
