"""C20 - PCHIP interpolation is exact at knots, C1 and shape-preserving, and equals the standard PCHIP.

(1) TLC: Pchip.tla over PchipFn.tla (exact rationals).  Two named mechanisms: Variant "code" (the
    end-slope limiter as emu_base/math/pchip_torch.py writes it) and Variant "standard" (Moler / SciPy).
    Requirement: KnotsExact, C1, Monotone (exact, via the quadratic P'), Bounded, EqualsStandard
    (Hermite-basis reference incl. extrapolation); lemma FCRegion.  Every data set over the constants.
(2) Binding A: every TLC-enumerated data set is replayed into the real `_pchip_derivatives` / `PCHIP1D`;
    the REQUIREMENT is evaluated on the real values against an exact Fraction reference
    (harness/ref/pchip_exact.py, itself cross-checked against the slopes TLC printed for Variant
    "standard" and against scipy.interpolate.PchipInterpolator); the real slopes tell which of the two
    mechanisms the code implements (neither => model drift, reported not alarmed).
(3) Exploration: random data, 2..500 knots, uniform / non-uniform / clustered grids, flat runs, sign
    changes, huge ratios, tiny magnitudes, queries inside and outside, same requirement evaluation.
"""
from __future__ import annotations

import json
import math
import random
from fractions import Fraction as F

from harness.core import Ctx, MachineryError
from harness.pool import pmap
from harness.tlc import printed_tuples, run_tlc

CONFIGS = {
    # name: (Hs, Ys, Y1s, Ns)
    "n234_h12_y5": ("cH12", "cY5", "cY0", "cN234"),
    "n5_h1_y3": ("cH1", "cY3", "cY0", "cN5"),
    "n3_h1_wide": ("cH1", "cY4w", "cY4w", "cN3"),
    "n5_h12_y5": ("cH12", "cY5", "cY0", "cN5"),
    "ratio_h13": ("cH13", "cYratio", "cYratio", "cN34"),
    "frac_hhalf": ("cHhalf", "cYfrac", "cYfrac", "cN34"),
    "n6_h1_y3": ("cH1", "cY3", "cY0", "cN6"),
}
QUICK = ["n3_h1_wide", "n234_h12_y5", "n5_h1_y3"]
QUICK_STD = ["n3_h1_wide", "n234_h12_y5"]
INVS = ["KnotsExact", "C1", "Monotone", "Bounded", "EqualsStandard", "FCRegion"]


def cfg_text(c, variant: str, inv: bool, log: bool) -> str:
    hs, ys, y1s, ns = c
    t = f"""SPECIFICATION Spec
CONSTANTS
  Hs <- {hs}
  Ys <- {ys}
  Y1s <- {y1s}
  Ns <- {ns}
  Variant = "{variant}"
  LogCases = {"TRUE" if log else "FALSE"}
"""
    if inv:
        t += "".join(f"INVARIANT {i}\n" for i in INVS)
    if log:
        t += "ACTION_CONSTRAINT LogStep\n"
    return t


def fr(v) -> F:
    return F(v[0], v[1])


def parse_cases(out: str) -> dict:
    cases = {}
    for t in printed_tuples(out, "D"):
        h = tuple(fr(v) for v in t[1])
        y = tuple(fr(v) for v in t[2])
        d = tuple(fr(v) for v in t[3])
        cases[(h, y)] = d
    return cases


# ----------------------------------------------------------------------------------- workers
def replay_chunk(chunk: list) -> list:
    """chunk: list of (tag, x floats, y floats, outside queries, max_intervals, seed).  Returns per case
    {'tag', 'failures', 'margin', 'n_eval', 'slopes' (real), 'classes', 'mag'}."""
    from harness.drivers import _pchip_bind as pb

    res = []
    for tag, x, y, outside, max_iv, seed in chunk:
        rng = random.Random(seed)
        r = pb.check_dataset(x, y, outside=outside, max_intervals=max_iv, rng=rng)
        ref = r.pop("ref")
        try:
            sl = pb.real_slopes(x, y)
        except Exception as ex:  # noqa
            sl = None
        r.update(tag=tag, slopes=sl, classes=sorted(pb.dataset_classes(ref)), mag=pb.magnitude_class(ref),
                 std=[str(v) for v in ref.d] if len(x) <= 6 else None)
        res.append(r)
    return res


def chunks(lst, k):
    return [lst[i:i + k] for i in range(0, len(lst), k)]


# ----------------------------------------------------------------------------------- random data
def gen_random(rng: random.Random, n_cases: int) -> list:
    out = []
    grids = ["uniform", "nonuniform", "clustered", "decades"]
    vals = ["random", "flat-runs", "steps", "sign-changes", "huge-ratios", "smooth", "monotone", "flat-ends", "symmetric-peak", "tiny"]
    sizes = [2, 3, 4, 5, 6, 8, 13, 3, 5, 50, 4, 7, 200, 3, 9, 500]
    for c in range(n_cases):
        g, v = grids[c % len(grids)], vals[(c // len(grids)) % len(vals)]
        n = sizes[(c // (len(grids) * len(vals))) % len(sizes)] if c >= len(sizes) else sizes[c]
        if v in ("flat-ends", "symmetric-peak") and n < 3:
            n = 3
        if g == "uniform":
            hs = [rng.choice([1.0, 0.25, 3.0])] * (n - 1)
        elif g == "nonuniform":
            hs = [rng.uniform(0.05, 5.0) for _ in range(n - 1)]
        elif g == "clustered":
            hs = [rng.choice([1e-6, 1e-3, 1.0, 50.0]) * rng.uniform(0.5, 2) for _ in range(n - 1)]
        else:
            hs = [10 ** rng.uniform(-4, 4) for _ in range(n - 1)]
        x0 = rng.choice([0.0, -37.5, 1e3])
        x = [x0]
        for hv in hs:
            x.append(x[-1] + hv)
        if any(x[i + 1] <= x[i] for i in range(n - 1)):
            continue
        if v == "random":
            y = [rng.uniform(-5, 5) for _ in range(n)]
        elif v == "flat-runs":
            y = []
            while len(y) < n:
                y += [rng.choice([0.0, 1.0, -2.0, rng.uniform(-3, 3)])] * rng.randint(1, 4)
            y = y[:n]
        elif v == "steps":
            y = [float(rng.choice([0, 0, 0, 1, 1, 5])) for _ in range(n)]
        elif v == "sign-changes":
            y = [(-1) ** i * rng.uniform(0.1, 3) for i in range(n)]
        elif v == "huge-ratios":
            y = [rng.choice([-1, 1]) * 10 ** rng.uniform(-9, 9) for _ in range(n)]
        elif v == "smooth":
            w = rng.uniform(0.1, 3)
            y = [math.sin(w * (xi - x0) / max(1e-9, (x[-1] - x0)) * 6) * 10 for xi in x]
        elif v == "monotone":
            y = [0.0]
            for _ in range(n - 1):
                y.append(y[-1] + rng.choice([0.0, rng.uniform(0, 1), 10 ** rng.uniform(-6, 3)]))
        elif v == "flat-ends":
            y = [rng.uniform(-5, 5) for _ in range(n)]
            if rng.random() < 0.7:
                y[1] = y[0]
            if rng.random() < 0.7:
                y[-2] = y[-1]
        elif v == "symmetric-peak":
            y = [rng.uniform(-2, 2) for _ in range(n)]
            j = rng.randrange(1, n - 1)
            y[j + 1] = y[j - 1]
        else:  # tiny: magnitudes whose secant products underflow
            s = 10 ** rng.uniform(-250, -160)
            y = [rng.choice([0.0, 1.0, 2.0, -1.0, rng.uniform(-3, 3)]) * s for _ in range(n)]
        span = x[-1] - x[0]
        outside = [x[0] - rng.uniform(0, 1) * min(span, hs[0] * 3), x[-1] + rng.uniform(0, 1) * min(span, hs[-1] * 3),
                   x[0] - 1e-9 * abs(hs[0]), x[-1] + 0.5 * hs[-1]]
        out.append((("rand", g, v, n, c), x, y, outside, 10, rng.randrange(1 << 30)))
    return out


def scipy_crosscheck(ctx: Ctx, cases: list) -> None:
    """The exact reference against SciPy on moderate data (trusted-base check of the oracle itself)."""
    import numpy as np
    from scipy.interpolate import PchipInterpolator

    from harness.ref.pchip_exact import ExactPchip

    worst = 0.0
    n = 0
    for tag, x, y, outside, _, _ in cases:
        if tag[2] in ("tiny", "huge-ratios") or len(x) > 60:
            continue
        ref = ExactPchip(x, y)
        qs = list(outside) + [x[i] + (x[i + 1] - x[i]) * 0.37 for i in range(0, len(x) - 1, max(1, len(x) // 7))]
        sp = PchipInterpolator(np.array(x), np.array(y), extrapolate=True)(np.array(qs))
        for q, v in zip(qs, sp):
            e = abs(float(ref(F(q))) - float(v))
            sc = float(ref.term_scale(F(q)))
            worst = max(worst, e / (1e-9 * sc + 1e-280))
            n += 1
    ctx.coverage["scipy_vs_exact_reference"] = {"points": n, "worst_err_over_1e-9_scale": worst}
    if worst > 1.0:
        raise MachineryError(f"exact PCHIP reference disagrees with scipy.PchipInterpolator (ratio {worst:.3g}); oracle not trustworthy")


# ----------------------------------------------------------------------------------- main
FOUND: dict = {}
RANK = {"raises": 0, "non-finite": 1, "not-monotone": 2, "out-of-range": 3, "knot-mismatch": 4, "c1-jump": 5, "differs-from-standard": 6}


def key_of(clause: str, site: str, mag: str) -> str:
    """Canonical key = WHERE the statement fails (the clauses that fail there are listed in the text):
    flat-end-interval (end secant zero, neighbour not; incl. the extrapolation from it), end-interval,
    interior-interval, extrapolation, knot, two-point; tiny-magnitudes = data whose secant products underflow."""
    if clause == "raises":
        return "pchip:raises"
    if mag == "extreme":
        return "pchip:tiny-magnitudes-underflow"
    grp = {"extrapolation-flat-end": "flat-end-interval", "first-knot": "knot", "last-knot": "knot", "interior-knot": "knot",
           "two-point-extrapolation": "two-point"}.get(site, site)
    if clause == "c1-jump":
        grp = "c1"
    return f"pchip:{grp}"


def report(ctx: Ctx, r: dict, x, y, origin: str) -> None:
    """Collect: one violation per canonical key (count + smallest example), emitted by flush()."""
    for clause, site, det in r["failures"]:
        key = key_of(clause, site, r["mag"])
        e = FOUND.setdefault(key, {"count": 0, "example": None, "clauses": {}})
        e["count"] += 1
        e["clauses"][clause] = e["clauses"].get(clause, 0) + 1
        if e["example"] is None or (len(x), RANK[clause]) < (len(e["example"][0]), RANK[e["example"][2]]):
            e["example"] = (list(x), list(y), clause, site, det, origin)


def flush(ctx: Ctx) -> None:
    for key in sorted(FOUND):
        e = FOUND[key]
        x, y, clause, site, det, origin = e["example"]
        _emit(ctx, key, clause, site, det, x, y, f"{origin}; {e['count']} failing evaluations in this run, clauses {e['clauses']}")
    FOUND.clear()


WHAT = {
    "differs-from-standard": "PCHIP1D differs from the standard PCHIP interpolant",
    "not-monotone": "PCHIP1D is not monotone on an interval",
    "out-of-range": "PCHIP1D leaves the range of the two end values of an interval",
    "knot-mismatch": "PCHIP1D does not reproduce the data at a knot",
    "c1-jump": "PCHIP1D has a derivative jump at a knot",
    "non-finite": "PCHIP1D returns a non-finite value for finite data",
    "raises": "PCHIP1D raises on valid data",
}


def _emit(ctx: Ctx, key: str, clause: str, site: str, det: dict, x, y, origin: str) -> None:
    ctx.violation(key, f"{WHAT[clause]} ({site}; {origin}); e.g. x={list(x)[:6]}, y={list(y)[:6]}: {json.dumps(det)[:300]}",
                  {"x": list(x), "y": list(y), "clause": clause, "site": site, "detail": det, "origin": origin,
                   "how": "from emu_base.math.pchip_torch import PCHIP1D; PCHIP1D(torch.tensor(x), torch.tensor(y))(torch.tensor(q)) vs harness.ref.pchip_exact.ExactPchip(x, y)(q)"})


def run(ctx: Ctx) -> None:
    ctx.level = "model_checking"
    ctx.assumptions += [
        "PchipFn.tla transcribes pchip_torch.py operator by operator; which variant the code implements is CHECKED every run by comparing the real _pchip_derivatives with the slopes TLC printed (exact small rationals)",
        "exhaustive only for the listed small alphabets (<= 6 knots); larger / irrational-like data are covered by random exploration against an exact Fraction reference",
        "equality with the standard interpolant is judged up to float64 rounding: 256 eps x (sum of term magnitudes) (+1e-290)",
        "monotonicity / range of the real interpolant are sampled on 17 points per interval; C1 by one-sided difference quotients",
        "TLC, Python fractions; scipy.interpolate.PchipInterpolator only cross-checks the reference",
    ]
    if ctx.replay:
        rp = json.loads(open(ctx.replay).read())["replay"]
        r = replay_chunk([(("replay",), rp["x"], rp["y"], [rp["x"][0] - 0.5, rp["x"][-1] + 0.5], None, 0)])[0]
        ctx.case(("replay",), sample={"x": rp["x"], "y": rp["y"]})
        ctx.case(("replay2",))
        report(ctx, r, rp["x"], rp["y"], "replay")
        flush(ctx)
        return
    names = QUICK if ctx.quick else list(CONFIGS)
    # a probe of the real code only decides WHICH model runs are worth their time (verdicts come from the replay)
    try:
        from harness.drivers._pchip_bind import real_slopes

        guess = "code" if abs(real_slopes([0.0, 1.0, 2.0], [1.0, 1.0, 2.0])[0]) > 1e-12 else "standard"
    except Exception:
        guess = "code"
    ctx.log(f"probe of the real limiter suggests mechanism variant '{guess}'")
    all_cases: dict = {}
    model_verdict: dict = {}
    # ---------------- (1) TLC
    for cname in names:
        c = CONFIGS[cname]
        for variant in ("standard", "code"):
            if variant == "standard" and guess == "code" and ctx.quick and cname not in QUICK_STD:
                continue
            if variant == "code" and guess == "standard":
                continue  # the code no longer follows the product-sign limiter: that model run would be idle
            res = run_tlc("MCPchip", None, workdir=ctx.work, name=f"mc_{cname}_{variant}", cfg_text=cfg_text(c, variant, True, True),
                          coverage=(cname == names[0] and variant == ("standard" if guess == "standard" or cname in QUICK_STD or not ctx.quick else "code")))
            ctx.add_tlc(res)
            if res.get("coverage_zero") and not res["violated"]:  # a run stopped by a counter-example is not a coverage statement
                ctx.notes.append(f"{cname}/{variant}: spec actions never taken: {res['coverage_zero']}")
            model_verdict[(cname, variant)] = [v[1] for v in res["violated"]]
            if variant == "standard" and res["violated"]:
                raise MachineryError(f"the STANDARD PCHIP model violates {res['violated']} on {cname}: the requirement side of Pchip.tla is wrong")
            out = res["out"]
            if res["violated"]:
                ctx.log(f"TLC: mechanism '{variant}' violates {res['violated']} on {cname} (to be reproduced on the real code)")
                out = run_tlc("MCPchip", None, workdir=ctx.work, name=f"log_{cname}_{variant}", cfg_text=cfg_text(c, variant, False, True))["out"]
            cs = parse_cases(out)
            if not cs:
                raise MachineryError("TLC printed no data sets")
            for k, d in cs.items():
                all_cases.setdefault(k, {})[variant] = d
            ctx.log(f"{cname}/{variant}: {res.get('distinct')} states, {len(cs)} data sets, violated={model_verdict[(cname, variant)]}")
    # ---------------- (2) binding A: replay every enumerated data set into the real code
    items = []
    keys = sorted(all_cases, key=lambda k: (len(k[1]), [float(v) for v in k[0]], [float(v) for v in k[1]]))
    for idx, (h, y) in enumerate(keys):
        x = [F(0)]
        for hv in h:
            x.append(x[-1] + hv)
        xf, yf = [float(v) for v in x], [float(v) for v in y]
        items.append((("tlc", idx), xf, yf, [xf[0] - 0.5, xf[0] - 2.0, xf[-1] + 0.5, xf[-1] + 2.0], None, idx))
    results = [r for ch in pmap(replay_chunk, chunks(items, 250)) for r in ch]
    follows = {"standard": 0, "code": 0}
    have = {"standard": 0, "code": 0}
    differs = {"standard": None, "code": None}
    classes_seen: dict[str, int] = {}
    real_viol_sets = 0
    worst_margin = 0.0
    from harness.ref.pchip_exact import std_slopes

    for (h, y), it, r in zip(keys, items, results):
        mv = all_cases[(h, y)]
        # reference self-check: python exact reference == TLC's standard slopes (only for exactly representable data)
        exact_inputs = all(F(v) == w for v, w in zip(it[2], y)) and all(F(a) == b for a, b in zip([it[1][i + 1] - it[1][i] for i in range(len(h))], h))
        if exact_inputs and "standard" in mv:
            if tuple(std_slopes(list(h), list(y))) != mv["standard"]:
                raise MachineryError(f"python reference slopes differ from Pchip.tla standard slopes on h={h}, y={y}")
        for cl in r["classes"]:
            classes_seen[cl] = classes_seen.get(cl, 0) + 1
        nontrivial = len(y) >= 3
        ctx.case(("tlc", [str(v) for v in h], [str(v) for v in y]), nontrivial=nontrivial,
                 sample={"h": [str(v) for v in h], "y": [str(v) for v in y], "model_code_slopes": [str(v) for v in mv.get("code", ())], "real_slopes": r["slopes"]})
        ctx.traces_validated += 1
        if not r["failures"]:
            worst_margin = max(worst_margin, r["margin"])
        if r["slopes"] is not None:
            for variant in ("standard", "code"):
                if variant in mv:
                    have[variant] += 1
                    md = [float(v) for v in mv[variant]]
                    ok = all(abs(a - b) <= 1e-12 * (1 + abs(b)) for a, b in zip(r["slopes"], md))
                    if ok:
                        follows[variant] += 1
                    elif differs[variant] is None:
                        differs[variant] = {"h": [str(v) for v in h], "y": [str(v) for v in y], "model": [str(v) for v in mv[variant]], "real": r["slopes"]}
        if r["failures"]:
            real_viol_sets += 1
            report(ctx, r, it[1], it[2], "TLC-enumerated data set")
    ntot = len(keys)
    mech = "code" if follows["code"] == have["code"] == ntot else "standard" if follows["standard"] == have["standard"] == ntot else None
    ctx.coverage["binding_A"] = {"data_sets": ntot, "real_matches_code_variant": f"{follows['code']}/{have['code']}", "real_matches_standard_variant": f"{follows['standard']}/{have['standard']}",
                                 "mechanism_identified": mech, "data_sets_violating_requirement_on_real_code": real_viol_sets}
    ctx.log(f"binding A: {ntot} data sets; real slopes match code-variant on {follows['code']}, standard-variant on {follows['standard']}; "
            f"{real_viol_sets} data sets violate the requirement on the real code")
    if mech is None:
        ctx.model_drift(f"real _pchip_derivatives follows neither mechanism variant of PchipFn.tla, e.g. {differs['code'] or differs['standard']}")
    else:
        tlc_viol = any(model_verdict.get((c, mech)) for c in names)
        if tlc_viol and real_viol_sets == 0:
            raise MachineryError(f"TLC reports the '{mech}' mechanism violates the requirement but the replay of the same data sets on the real code found nothing")
        if not tlc_viol and real_viol_sets:
            ctx.notes.append("real code violates the requirement on TLC-enumerated data although the matching mechanism model does not (float effects?)")
    # vacuity: every end-point / interior case of the method must have been exercised
    need = ["first:plain", "first:zeroed", "first:capped", "first:flat-end", "first:flat-flat", "first:turn-uncapped",
            "last:plain", "last:zeroed", "last:capped", "last:flat-end",
            "interior:same-sign", "interior:opposite", "interior:one-flat", "interior:flat-flat", "interior:opposite-equal"]
    missing = [c for c in need if not classes_seen.get(c)]
    ctx.coverage["strata_exhaustive"] = classes_seen
    if missing:
        raise MachineryError(f"vacuity: the enumerated data sets never exercise {missing}")
    # ---------------- (3) random exploration
    n_rand = ctx.pick(480, 8000)
    rcases = gen_random(ctx.rng, n_rand)
    scipy_crosscheck(ctx, rcases[: ctx.pick(200, 1500)])
    rres = [r for ch in pmap(replay_chunk, chunks(rcases, 100)) for r in ch]
    strata: dict[str, int] = {}
    for it, r in zip(rcases, rres):
        tag = it[0]
        strata[f"{tag[1]}/{tag[2]}"] = strata.get(f"{tag[1]}/{tag[2]}", 0) + 1
        ctx.case(("rand", tag[1], tag[2], tag[3], tag[4]), nontrivial=len(it[1]) >= 3)
        if r["failures"]:
            report(ctx, r, it[1], it[2], f"random data {tag[1]}/{tag[2]} n={tag[3]}")
        else:
            worst_margin = max(worst_margin, r["margin"])
    ctx.sample({"random_case": {"grid": rcases[0][0][1], "values": rcases[0][0][2], "n": rcases[0][0][3], "x": rcases[0][1][:5], "y": rcases[0][2][:5]}})
    ctx.coverage["strata_random"] = strata
    ctx.coverage["worst_margin_err_over_budget_on_clean_data_sets"] = worst_margin
    ctx.coverage["rule"] = ("exhaustive: one case per TLC-enumerated data set (h, y) (non-trivial: >= 3 knots), each replayed into the real PCHIP1D; "
                            "random: one case per (grid kind, value kind, n, index)")
    ctx.coverage["exhaustive"] = True
    ctx.coverage["failing_evaluations_per_key"] = {k: {"count": v["count"], "clauses": v["clauses"]} for k, v in FOUND.items()}
    flush(ctx)
