"""Shared engine of C10 / C11: TLC runs of MPSOps.tla, parsing of the logged transitions / simulated
behaviours, and the replay of every model transition on REAL emu_mps objects carrying dense shadows.

A replay evaluates, on the real objects only (rule R1):
  C10  canonical form around the DECLARED centre, norm() = dense norm, bonds <= cap after truncating
       operations, discarded weight of every split (observed by a harness-level wrapper around
       emu_mps.utils.split_matrix, measured with an independent numpy SVD / residual) <= precision^2
       unless the cap was binding, and  |psi_before - psi_after|^2 <= sum of granted discarded weights;
  C11  result of every operation vs the dense operation on the operands' dense contraction taken just
       before the call (budget: one `precision` per truncated bond, observed residual where the cap
       binds), and purity: every object that exists before the call still contracts to the same vector
       afterwards unless the operation is documented in-place on it.
Differences between measured flags / centres / tensor sharing and the model's are DRIFT (rule R2).
"""
from __future__ import annotations

import copy
import logging
import math
import re
import zlib
from typing import Any

import numpy as np

from harness.ref import dense, tn

ISO_TOL = 1e-9
PURE_TOL = 1e-10
ROUND_W = 1e-12  # rounding slack on a discarded weight, relative to |m|_F^2 (eigh of the Gram matrix: ~64*eps*dim)
INPLACE = {"Truncate", "Apply", "EvolvePair", "EvolveSingle"}
CREATES = {"New", "Make", "FromAmplitudes", "Add", "Scale", "MPOApply"}
TRUNCATING = {"Truncate", "Add", "FromAmplitudes", "MPOApply"}
ALL_OPS = ["New", "Make", "FromAmplitudes", "Orthogonalize", "Truncate", "Add", "Scale", "Apply", "Norm", "ExpectBatch",
           "Sample", "Entropy", "Correlation", "Inner", "MPOExpect", "MPOApply", "EvolvePair", "EvolveSingle"]
INVARIANTS = ["Canonical", "NormIsCentreNorm", "CapRespected", "SplitAtCentre", "Frame", "GaugeFrame", "ShareSane"]
EIG = {2: ("r", "g"), 3: ("r", "g", "x")}


# ------------------------------------------------------------------------------------------ TLC side
def cfg_text(minn: int, maxn: int, nslots: int, depth: int, variant: str = "code", log: bool = False, invariants=INVARIANTS) -> str:
    t = f"""SPECIFICATION Spec
CONSTANTS
  MinN = {minn}
  MaxN = {maxn}
  NSlots = {nslots}
  MaxDepth = {depth}
  Variant = "{variant}"
  LogTransitions = {"TRUE" if log else "FALSE"}
"""
    for i in invariants:
        t += f"INVARIANT {i}\n"
    if log:
        t += "ACTION_CONSTRAINT LogStep\n"
    return t


_RE_T = re.compile(r'^"<<\\"T\\", (.*)>>"$', re.M)


def parse_log(out: str, nslots: int) -> list[dict]:
    """Rows printed by LogStep: op, n, depth, a, b, res, k, touched, regauged, splitOK, pre, post."""
    L = 5 * nslots + nslots * nslots
    rows = []
    for m in _RE_T.finditer(out):
        p = m.group(1).replace('\\"', "").split(", ")
        ints = [int(x) for x in p[:2] + p[3:]]
        if len(ints) != 9 + 2 * L:
            raise ValueError(f"unexpected transition row of length {len(ints)}")
        rows.append({"n": ints[0], "depth": ints[1], "op": p[2], "a": ints[2], "b": ints[3], "res": ints[4], "k": ints[5],
                     "touched": ints[6], "regauged": ints[7], "splitOK": ints[8],
                     "pre": tuple(ints[9:9 + L]), "post": tuple(ints[9 + L:9 + 2 * L])})
    return rows


def decode_state(enc: tuple, nslots: int, n: int) -> dict:
    """-> {slot: {live,c,l:set,r:set,bd:set}}, share {(x,y): set}"""
    objs = {}
    bits = lambda v, m: {i for i in range(1, m + 1) if v >> (i - 1) & 1}
    for s in range(nslots):
        live, c, lb, rb, bb = enc[5 * s:5 * s + 5]
        objs[s + 1] = {"live": bool(live), "c": c, "l": bits(lb, n), "r": bits(rb, n), "bd": bits(bb, n - 1)}
    sh = {}
    base = 5 * nslots
    for x in range(nslots):
        for y in range(nslots):
            if x < y:
                sh[(x + 1, y + 1)] = bits(enc[base + x * nslots + y], n)
    return {"obj": objs, "share": sh}


def encode_last_from_sim(state_vars: dict) -> dict:
    """`last` record of a behaviour file state -> op dict."""
    l = state_vars["last"]
    return {"op": l["op"], "a": l["a"], "b": l["b"], "res": l["res"], "k": l["k"]}


# ------------------------------------------------------------------------------------------ real side
class SplitSpy:
    """Harness-level wrapper around emu_mps.utils.split_matrix, installed in every module that looks the
    name up (emu_mps.utils for truncate_impl, emu_mps.solver_utils for evolve_pair)."""

    def __init__(self) -> None:
        import emu_mps.solver_utils as su
        import emu_mps.utils as ut

        self.mods = [m for m in (ut, su) if hasattr(m, "split_matrix")]
        self.orig = {m: m.split_matrix for m in self.mods}
        self.records: list[dict] = []
        self.missing = len(self.mods) < 2

    def __enter__(self) -> "SplitSpy":
        spy = self

        def make(orig):
            def wrapped(m, max_error=1e-5, max_rank=1024, orth_center_right=True, preserve_norm=False):
                left, right = orig(m, max_error=max_error, max_rank=max_rank, orth_center_right=orth_center_right, preserve_norm=preserve_norm)
                try:
                    mm = m.detach().resolve_conj().cpu().numpy()
                    ln = left.detach().resolve_conj().cpu().numpy()
                    rn = right.detach().resolve_conj().cpu().numpy()
                    s = np.linalg.svd(mm, compute_uv=False)
                    k = ln.shape[1]
                    spy.records.append({
                        "shape": tuple(mm.shape), "kept": int(k), "max_rank": int(max_rank), "max_error": float(max_error),
                        "ocr": bool(orth_center_right), "preserve_norm": bool(preserve_norm),
                        "frob2": float((s**2).sum()),
                        "w_opt": float((s[k:] ** 2).sum()),
                        "w_act": float(np.linalg.norm(mm - ln @ rn) ** 2),
                        "iso_defect": float(np.abs(ln.conj().T @ ln - np.eye(k)).max()) if orth_center_right
                        else float(np.abs(rn @ rn.conj().T - np.eye(k)).max()),
                        "rank_eps": int((s > s[0] * 1e-13).sum()) if s.size and s[0] > 0 else 0,
                    })
                except Exception as ex:  # never let the observer disturb the code under test
                    spy.records.append({"error": repr(ex)})
                return left, right

            return wrapped

        for m in self.mods:
            m.split_matrix = make(self.orig[m])
        return self

    def __exit__(self, *a: Any) -> None:
        for m in self.mods:
            m.split_matrix = self.orig[m]

    def take(self) -> list[dict]:
        r, self.records = self.records, []
        return r


def tnp(t) -> np.ndarray:
    return t.detach().resolve_conj().cpu().numpy()


def mps_vec(m) -> np.ndarray:
    return dense.mps_to_vec([tnp(f) for f in m.factors])


def rand_factors(rng: np.random.Generator, n: int, d: int, chi: int, decay: float) -> list[np.ndarray]:
    dims = [1] + [int(rng.integers(1, chi + 1)) if chi > 1 else 1 for _ in range(n - 1)] + [1]
    fs = []
    for i in range(n):
        a = rng.normal(size=(dims[i], d, dims[i + 1])) + 1j * rng.normal(size=(dims[i], d, dims[i + 1]))
        a *= (decay ** np.arange(dims[i]))[:, None, None] * (decay ** np.arange(dims[i + 1]))[None, None, :]
        fs.append(a / max(np.linalg.norm(a), 1e-300) * math.sqrt(d))
    return fs


def rand_mpo(rng: np.random.Generator, n: int, d: int, hermitian: bool, D: int = 3) -> list[np.ndarray]:
    """hermitian: sum_i A_i + sum_i B_i B_{i+1} as a 3-channel automaton; else a random MPO of bond <= D."""
    if hermitian:
        fs = []
        for i in range(n):
            a = rng.normal(size=(d, d)) + 1j * rng.normal(size=(d, d))
            a = (a + a.conj().T) / 2
            b = rng.normal(size=(d, d)) + 1j * rng.normal(size=(d, d))
            b = (b + b.conj().T) / 2
            w = np.zeros((3, d, d, 3), dtype=complex)
            w[0, :, :, 0] = np.eye(d)
            w[2, :, :, 2] = np.eye(d)
            w[0, :, :, 1] = b
            w[1, :, :, 2] = b
            w[0, :, :, 2] = a
            if i == 0:
                w = w[0:1]
            if i == n - 1:
                w = w[..., 2:3]
            fs.append(w)
        return fs
    dims = [1] + [int(rng.integers(1, D + 1)) for _ in range(n - 1)] + [1]
    return [(rng.normal(size=(dims[i], d, d, dims[i + 1])) + 1j * rng.normal(size=(dims[i], d, d, dims[i + 1]))) / math.sqrt(d * max(dims[i], 1))
            for i in range(n)]


class World:
    """Real objects of one behaviour: slots -> MPS, two fixed MPOs, the numeric configuration."""

    def __init__(self, n: int, params: dict):
        import torch
        from emu_mps.mpo import MPO

        self.n = n
        self.p = params
        self.dim = params["dim"]
        self.slots: dict[int, Any] = {}
        rng = np.random.default_rng([params["seed"], n, 77])
        self.G = [torch.tensor(f) for f in rand_mpo(rng, n, self.dim, hermitian=False)]
        self.Hh = [torch.tensor(f) for f in rand_mpo(rng, n, self.dim, hermitian=True)]
        self.mpo_G = MPO(list(self.G))
        self.mpo_H = MPO(list(self.Hh))
        self.path: list[tuple] = []

    def fork(self) -> "World":
        w = copy.copy(self)
        w.slots = copy.deepcopy(self.slots)  # keeps the tensor sharing between slots
        w.path = list(self.path)
        return w


_CFG_CACHE: dict = {}


def mps_config(precision: float, cap: int):
    key = (precision, cap)
    if key not in _CFG_CACHE:
        import warnings

        from emu_mps import MPSConfig

        with warnings.catch_warnings():
            warnings.simplefilter("ignore")
            _CFG_CACHE[key] = MPSConfig(precision=precision, max_bond_dim=cap, log_level=logging.ERROR, optimize_qubit_ordering=False)
    return _CFG_CACHE[key]


def measure(m) -> dict:
    fs = [tnp(f) for f in m.factors]
    return {
        "c": m.orthogonality_center,
        "ldef": [tn.left_defect(f) for f in fs],
        "rdef": [tn.right_defect(f) for f in fs],
        "bonds": [f.shape[2] for f in fs[:-1]],
        "cap": m.max_bond_dim,
        "precision": m.precision,
    }


def step_seed(world: World, op: dict) -> int:
    return zlib.crc32(repr((world.p["seed"], world.n, world.path, op["op"], op["a"], op["b"], op["res"], op["k"])).encode())


def real_step(world: World, op: dict, spy: SplitSpy) -> dict:
    """Execute one model action on the real objects.  Returns everything the requirement needs.
    Exceptions of the code under test are returned as {'raised': ...}."""
    import torch
    from emu_mps.mps import MPS

    n, d = world.n, world.dim
    name, a, b, res, k = op["op"], op["a"], op["b"], op["res"], op["k"]
    seed = step_seed(world, op)
    rng = np.random.default_rng(seed)
    torch.manual_seed(seed % (2**31))
    S = world.slots
    before = {s: (m, mps_vec(m)) for s, m in S.items()}
    out: dict[str, Any] = {"before": before, "expected": None, "value_checks": [], "trunc_cap": None, "trunc_prec": None}
    spy.take()
    p = world.p
    try:
        if name == "New":
            fs = rand_factors(rng, n, d, p["chi"], p["decay"])
            S[res] = MPS([torch.tensor(f) for f in fs], precision=p["precision"], max_bond_dim=p["cap"], eigenstates=EIG[d], num_gpus_to_use=0)
            out["expected"] = (res, dense.mps_to_vec(fs), 0.0)
        elif name == "Make":
            S[res] = MPS.make(n, precision=p["precision"], max_bond_dim=p["cap"], num_gpus_to_use=0, eigenstates=EIG[d])
            out["expected"] = (res, dense.basis_state([0] * n, d), 0.0)
        elif name == "FromAmplitudes":
            letters = "gr" if d == 2 else "grx"
            nterms = int(rng.integers(1, 5))
            amps: dict[str, complex] = {}
            while len(amps) < nterms:
                s = "".join(letters[int(x)] for x in rng.integers(0, d, size=n))
                amps[s] = complex(rng.normal(), rng.normal())
            scale = float(rng.choice([1.0, 1.0, 0.5, 2.0]))
            raw = math.sqrt(sum(abs(v) ** 2 for v in amps.values()))
            amps = {s_: v / raw * scale for s_, v in amps.items()}
            lg = logging.getLogger("emulators")
            lvl = lg.level
            lg.setLevel(logging.ERROR)
            try:
                S[res] = MPS.from_state_amplitudes(eigenstates=EIG[d], amplitudes=amps)
            finally:
                lg.setLevel(lvl)
            # every `accum += amp * basis` truncates n-1 bonds at DEFAULT_PRECISION on a vector of norm <= scale
            out["expected"] = (res, tn.vec_from_amplitudes(EIG[d], amps), 2.0 * nterms * (n - 1) * 1e-5 / scale)
            out["trunc_cap"], out["trunc_prec"] = 1024, 1e-5
            out["amps"] = {s_: [v.real, v.imag] for s_, v in amps.items()}
        elif name == "Orthogonalize":
            S[a].orthogonalize(k - 1)
        elif name == "Truncate":
            out["trunc_cap"], out["trunc_prec"] = S[a].max_bond_dim, S[a].precision
            S[a].truncate()
            out["expected"] = (a, before[a][1], None)
        elif name == "Add":
            out["trunc_cap"], out["trunc_prec"] = S[a].max_bond_dim, S[a].precision
            r = S[a] + S[b]
            S[res] = r
            out["expected"] = (res, before[a][1] + before[b][1], None)
        elif name == "Scale":
            z = complex(rng.normal(), rng.normal())
            z = z / abs(z) * float(rng.uniform(0.3, 3.0))
            if res == a:
                x = S[a]
                x *= z  # rebinding: MPS has no in-place scaling
                S[a] = x
            else:
                S[res] = z * S[a]
            out["expected"] = (res, z * before[a][1], 0.0)
        elif name == "Apply":
            o = rng.normal(size=(d, d)) + 1j * rng.normal(size=(d, d))
            S[a].apply(k - 1, torch.tensor(o))
            out["expected"] = (a, dense.embed(o, k - 1, n, d) @ before[a][1] if d**n <= 4096 else
                               np.einsum("ts,asb->atb", o, before[a][1].reshape(d ** (k - 1), d, -1)).reshape(-1), 0.0)
        elif name == "Norm":
            v = S[a].norm()
            nv = float(np.linalg.norm(before[a][1]))
            out["value_checks"].append(("norm", abs(float(v) - nv), 1e-10 * max(1.0, nv)))
            out["norm_pair"] = (float(v), nv)
        elif name == "ExpectBatch":
            ops = rng.normal(size=(3, d, d)) + 1j * rng.normal(size=(3, d, d))
            v = tnp(S[a].expect_batch(torch.tensor(ops)))
            ref = tn.expect_batch(before[a][1], ops, n, d)
            out["value_checks"].append(("expect_batch", float(np.abs(v - ref).max()), 1e-10 * max(1.0, float(np.vdot(before[a][1], before[a][1]).real) * 4)))
        elif name == "Sample":
            c = S[a].sample(num_shots=7)
            ok = sum(c.values()) == 7 and all(len(s_) == n and set(s_) <= {"0", "1"} for s_ in c)
            out["value_checks"].append(("sample-shape", 0.0 if ok else 1.0, 0.5))
        elif name == "Entropy":
            v = float(S[a].entanglement_entropy(k - 1))
            ref = tn.entropy_of_singular_values(tn.schmidt(before[a][1], k, d))
            nn2 = float(np.vdot(before[a][1], before[a][1]).real)
            out["value_checks"].append(("entropy", abs(v - ref), 1e-8 * max(1.0, nn2 * (1 + abs(math.log(max(nn2, 1e-300)))))))
        elif name == "Correlation":
            v = tnp(S[a].get_correlation_matrix())
            ref = tn.correlation_diag_op(before[a][1], n, d, dense.op_n(d))
            out["value_checks"].append(("correlation", float(np.abs(v - ref).max()), 1e-10 * max(1.0, float(np.vdot(before[a][1], before[a][1]).real))))
        elif name == "Inner":
            v = complex(S[a].inner(S[b]))
            ref = complex(np.vdot(before[a][1], before[b][1]))
            sc = max(1.0, float(np.linalg.norm(before[a][1]) * np.linalg.norm(before[b][1])))
            out["value_checks"].append(("inner", abs(v - ref), 1e-10 * sc))
            v2 = float(S[a].overlap(S[b]))
            out["value_checks"].append(("overlap", abs(v2 - abs(ref) ** 2), 1e-10 * sc * sc))
        elif name == "MPOExpect":
            v = complex(world.mpo_G.expect(S[a]))
            Gn = [tnp(f) for f in world.G]
            ref = tn.mpo_expect_vec(Gn, before[a][1])
            sc = max(1.0, tn.mpo_frob(Gn) * float(np.vdot(before[a][1], before[a][1]).real))
            out["value_checks"].append(("mpo-expect", abs(v - ref), 1e-10 * sc))
        elif name == "MPOApply":
            out["trunc_cap"], out["trunc_prec"] = S[a].max_bond_dim, S[a].precision
            r = world.mpo_G.apply_to(S[a])
            S[res] = r
            out["expected"] = (res, tn.mpo_apply_vec([tnp(f) for f in world.G], before[a][1]), None)
        elif name in ("EvolvePair", "EvolveSingle"):
            from emu_mps.mps_backend_impl import MPSBackendImpl
            from emu_mps.solver_utils import new_right_bath
            from emu_mps.utils import new_left_bath

            x = S[a]
            cfg = mps_config(p["precision"], p["cap"])
            impl = object.__new__(MPSBackendImpl)
            impl.state, impl.hamiltonian, impl.config, impl.has_lindblad_noise, impl.dim = x, world.mpo_H, cfg, False, d
            lo = (k - 1) if name == "EvolvePair" else x.orthogonality_center
            hi = lo + 1 if name == "EvolvePair" else lo
            if name == "EvolvePair" and x.orthogonality_center not in (lo, hi):
                # the model enabled this step at ITS centre; the real object's centre is elsewhere (mechanism drift, reported by
                # the centre comparison).  _evolve is an internal step with the precondition "centre on the pair": establish it
                # with the public gauge move, which leaves the represented state unchanged
                x.orthogonalize(lo)
            lb = torch.ones(1, 1, 1, dtype=torch.complex128)
            for i in range(lo):
                lb = new_left_bath(lb, x.factors[i], world.mpo_H.factors[i])
            rb_ = torch.ones(1, 1, 1, dtype=torch.complex128)
            for i in range(n - 1, hi, -1):
                rb_ = new_right_bath(rb_, x.factors[i], world.mpo_H.factors[i])
            impl.left_baths, impl.right_baths = [lb], [rb_]
            out["trunc_cap"], out["trunc_prec"] = p["cap"], p["precision"]
            if name == "EvolvePair":
                impl._evolve(lo, hi, dt=float(rng.uniform(5, 60)), orth_center_right=bool(b))
            else:
                impl._evolve(lo, dt=float(rng.uniform(5, 60)))
            out["evolved"] = (lo, hi)
        else:
            raise ValueError(name)
    except (AssertionError, RuntimeError, ValueError, NotImplementedError, IndexError, TypeError, ZeroDivisionError) as ex:
        out["raised"] = f"{type(ex).__name__}: {ex}"
    out["splits"] = spy.take()
    world.path.append((name, a, b, res, k))
    return out


def real_sharing(world: World) -> dict:
    sh = {}
    ks = sorted(world.slots)
    for i, x in enumerate(ks):
        for y in ks[i + 1:]:
            fx, fy = world.slots[x].factors, world.slots[y].factors
            sh[(x, y)] = {j + 1 for j in range(world.n) if fx[j] is fy[j] or (fx[j].numel() and fx[j].data_ptr() == fy[j].data_ptr())}
    return sh


def evaluate(world: World, op: dict, out: dict, model_post: dict | None) -> list[dict]:
    """-> findings [{'prop': 'C10'|'C11'|'drift', 'key':..., 'what':..., 'margin': err/budget}]"""
    F: list[dict] = []
    n, d = world.n, world.dim
    name, a, b, res, k = op["op"], op["a"], op["b"], op["res"], op["k"]
    S = world.slots

    def add(prop, key, what, margin=None):
        F.append({"prop": prop, "key": key, "what": what, "margin": margin})

    if "raised" in out:
        # every model action is enabled only where the public contract allows the call
        add("C11", f"mps:{name}:raises", f"{name} raised {out['raised']} on valid operands")
        return F
    for r in out["splits"]:
        if "error" in r:
            add("drift", "split-spy-failed", r["error"])
    # ---------------------------------------------------------------- C11: values, results, purity
    for (what, err, budget) in out["value_checks"]:
        F.append({"prop": "C11", "key": None, "what": what, "margin": err / budget})
        if not err <= budget:
            add("C11", f"mps:{what}:differs-from-dense", f"{name}: {what} differs from the dense value by {err:.3e} (budget {budget:.3e})", err / budget)
    splits = [r for r in out["splits"] if "error" not in r]
    # the budget is the CONFIGURED precision / cap of the object the operation truncates for, not
    # whatever the code happened to pass to split_matrix
    P = out["trunc_prec"]
    C = out["trunc_cap"]
    for r in splits:
        r["P"] = P if P is not None else r["max_error"]
        r["C"] = C if C is not None else r["max_rank"]
    cap_bound = [r for r in splits if r["kept"] >= r["C"] and r["w_act"] > r["P"] ** 2]
    tgt = None
    if out["expected"] is not None:
        tgt, ref, bud = out["expected"]
        got = mps_vec(S[tgt])
        nref = float(np.linalg.norm(ref))
        err = float(np.linalg.norm(got - ref))
        if bud is None:  # truncating operation: one `precision` per bond split, observed residual where the cap binds
            # (the split diagonalises the Gram matrix m^+ m, so singular values below ~1e-6 |m| are not resolved:
            #  rounding slack 1e-12 |m|^2 on a discarded weight, the same slack C10 grants)
            bud = sum(math.sqrt(r["w_act"]) * 1.000001 if r in cap_bound else math.sqrt(r["P"] ** 2 + ROUND_W * r["frob2"]) for r in splits)
        budget = bud + 1e-10 * max(1.0, nref)
        F.append({"prop": "C11", "key": None, "what": name, "margin": err / budget})
        if not err <= budget:
            add("C11", f"mps:{name}:result-differs-from-dense", f"{name}: result differs from the dense operation by {err:.3e} > {budget:.3e} (|ref|={nref:.3e}, {len(splits)} splits, {len(cap_bound)} cap-bound)", err / budget)
        if name in TRUNCATING and name != "FromAmplitudes" and not cap_bound and splits:
            # C10 in aggregate: the truncation errors of a canonical sweep are mutually orthogonal
            granted = sum(r["P"] ** 2 + ROUND_W * r["frob2"] for r in splits) + 1e-12 * max(1.0, nref * nref)
            s_act = sum(r["w_act"] for r in splits)
            if err * err > s_act * (1 + 1e-6) + 1e-12 * max(1.0, nref * nref):
                add("drift", f"{name}:split-not-at-centre", f"{name}: |psi_before-psi_after|^2 = {err*err:.3e} exceeds the sum of the locally discarded weights {s_act:.3e}: "
                    "the splits were not performed at the orthogonality centre of a canonical object (requirement SplitAtCentre of the model)")
            F.append({"prop": "C10", "key": None, "what": "aggregate-discarded", "margin": err * err / granted})
            if not err * err <= granted:
                add("C10", f"mps:{name}:discarded-weight-exceeds-precision^2", f"{name}: |psi_before-psi_after|^2 = {err*err:.3e} > {granted:.3e} = #bonds*precision^2 although no cap was binding", err * err / granted)
    allowed = ({a} if name in INPLACE else set()) | ({res} if name in CREATES else set())
    for s, (m_old, v_old) in out["before"].items():
        if s == a and name in INPLACE:
            continue
        v_new = mps_vec(m_old)  # the OBJECT that existed before the call (the name may have been rebound)
        err = float(np.linalg.norm(v_new - v_old)) if v_new.shape == v_old.shape else float("inf")
        budget = PURE_TOL * max(1.0, float(np.linalg.norm(v_old)))
        F.append({"prop": "C11", "key": None, "what": "purity", "margin": err / budget})
        if not err <= budget:
            role = "operand" if s in (a, b) else "bystander"
            add("C11", f"mps:{name}:changes-{role}", f"{name} changed the state represented by an existing object ({role}, slot {s}) by {err:.3e}; the operation is not documented in-place on it", err / budget)
    # ---------------------------------------------------------------- C10: canonical form, norm, cap, discarded weight
    for s, m in S.items():
        ms = measure(m)
        c = ms["c"]
        if c is not None:
            bad = [i for i in range(n) if (i < c and ms["ldef"][i] > ISO_TOL) or (i > c and ms["rdef"][i] > ISO_TOL)]
            worst = max([ms["ldef"][i] for i in range(c)] + [ms["rdef"][i] for i in range(c + 1, n)] + [0.0])
            F.append({"prop": "C10", "key": None, "what": "canonical", "margin": worst / ISO_TOL})
            if bad:
                add("C10", f"mps:{name}:declared-centre-not-canonical", f"after {name}: object in slot {s} declares centre {c} but factors {bad} are not isometric towards it (defect {worst:.2e})", worst / ISO_TOL)
                add("C11", f"mps:{name}:returns-object-with-false-centre", f"after {name}: object in slot {s} declares centre {c} but factors {bad} are not isometric towards it "
                    f"(defect {worst:.2e}): norm(), expect_batch, sample of this object no longer agree with the dense state", worst / ISO_TOL)
            else:
                cn = float(np.linalg.norm(tnp(m.factors[c])))
                dn = float(np.linalg.norm(mps_vec(m)))
                if abs(cn - dn) > 1e-9 * max(1.0, dn):
                    add("C10", f"mps:{name}:centre-norm-differs-from-norm", f"after {name}: centre tensor norm {cn} vs state norm {dn}")
    # requirement-level oracles on EVERY live object after EVERY action (on a deep copy, so that the
    # replay itself is not re-gauged): what the public read-only API answers vs the dense contraction
    import torch as _torch

    ops_b = np.stack([dense.op_n(d), np.arange(1, d * d + 1, dtype=float).reshape(d, d) * (0.3 + 0.1j)])
    for s, m in S.items():
        try:
            vec = mps_vec(m)
            mc = copy.deepcopy(m)
            nv_, dn_ = float(mc.norm()), float(np.linalg.norm(vec))
            eb = tnp(copy.deepcopy(m).expect_batch(_torch.tensor(ops_b)))
        except Exception as ex:
            add("C11", f"mps:{name}:object-unusable-afterwards", f"after {name}: norm() / expect_batch of the object in slot {s} raised {type(ex).__name__}: {ex}")
            continue
        bud = 1e-9 * max(1.0, dn_)
        F.append({"prop": "C10", "key": None, "what": "norm()-vs-dense", "margin": abs(nv_ - dn_) / bud})
        if not abs(nv_ - dn_) <= bud:
            add("C10", f"mps:{name}:norm-differs-from-dense-norm", f"after {name}: norm() of the object in slot {s} = {nv_:.12g} but the represented vector has norm {dn_:.12g} "
                f"(declared centre {m.orthogonality_center})", abs(nv_ - dn_) / bud)
            add("C11", f"mps:{name}:norm-of-object-differs-from-dense", f"after {name}: norm() of the object in slot {s} = {nv_:.12g}, dense norm {dn_:.12g}", abs(nv_ - dn_) / bud)
        ref_eb = tn.expect_batch(vec, ops_b, n, d)
        e_err = float(np.abs(eb - ref_eb).max())
        e_bud = 1e-9 * max(1.0, dn_ * dn_ * float(np.abs(ops_b).max()) * d)
        F.append({"prop": "C11", "key": None, "what": "expect_batch-after-action", "margin": e_err / e_bud})
        if not e_err <= e_bud:
            add("C11", f"mps:{name}:expect_batch-of-object-differs-from-dense", f"after {name}: expect_batch of the object in slot {s} differs from the dense per-site expectations by {e_err:.3e} "
                f"(declared centre {m.orthogonality_center})", e_err / e_bud)
    if "norm_pair" in out:
        v, nv = out["norm_pair"]
        if abs(v - nv) > 1e-9 * max(1.0, nv):
            add("C10", "mps:norm:differs-from-dense-norm", f"norm() = {v} but the represented vector has norm {nv}")
    for r in splits:
        slack = ROUND_W * max(r["frob2"], 1e-300)
        if r["frob2"] > 0 and not (r["kept"] >= r["C"]):
            F.append({"prop": "C10", "key": None, "what": "rounding:discarded/|m|^2 (slack 1e-12)", "margin": max(r["w_act"] - r["P"] ** 2, 0.0) / r["frob2"] / ROUND_W})
        if r["kept"] > r["C"]:
            add("C10", f"mps:{name}:split-exceeds-max-bond-dim", f"{name}: a split kept {r['kept']} > max_bond_dim {r['C']}")
        if r["kept"] >= r["C"] and r["w_act"] > r["P"] ** 2:
            F.append({"prop": "C10", "key": None, "what": "n-cap-bound-splits", "margin": 0.0})
        if r["w_act"] > 0.01 * r["P"] ** 2:
            F.append({"prop": "C10", "key": None, "what": "n-splits-discarding>1%-of-budget", "margin": 0.0})
        if r["kept"] < r["C"] and not r["preserve_norm"]:
            g = r["P"] ** 2 + slack
            F.append({"prop": "C10", "key": None, "what": "split-discarded", "margin": r["w_act"] / g})
            if not r["w_act"] <= g:
                add("C10", f"mps:{name}:split-discards-more-than-precision^2", f"{name}: split of a {r['shape']} matrix kept {r['kept']} < cap {r['C']} but discarded {r['w_act']:.3e} > precision^2 = {r['P']**2:.3e}", r["w_act"] / g)
        if r["iso_defect"] > ISO_TOL:
            add("C10", f"mps:{name}:split-factor-not-isometric", f"{name}: isometric side of a split has defect {r['iso_defect']:.2e}")
    if out["trunc_cap"] is not None:
        who = res if name in CREATES else a
        ms = measure(S[who])
        if name in TRUNCATING:
            over = [bd for bd in ms["bonds"] if bd > out["trunc_cap"]]
        else:
            lo, hi = out["evolved"]
            over = [ms["bonds"][lo]] if hi > lo and ms["bonds"][lo] > out["trunc_cap"] else []
        F.append({"prop": "C10", "key": None, "what": "cap", "margin": (max(ms["bonds"]) / out["trunc_cap"]) if name in TRUNCATING else 0.0})
        if over:
            add("C10", f"mps:{name}:bond-exceeds-max-bond-dim", f"after {name}: bonds {ms['bonds']} exceed max_bond_dim {out['trunc_cap']}")
        if name in TRUNCATING and name != "FromAmplitudes" and not splits:
            add("drift", "no-split-observed", f"{name} performed no split_matrix call the harness could see")
    # ---------------------------------------------------------------- drift: model vs measured abstraction
    if model_post is not None:
        for s, mo in model_post["obj"].items():
            if not mo["live"]:
                if s in S:
                    add("drift", "slot-live-mismatch", f"{name}: slot {s} live in the replay but not in the model")
                continue
            if s not in S:
                add("drift", "slot-live-mismatch", f"{name}: slot {s} live in the model but not in the replay")
                continue
            ms = measure(S[s])
            rc = 0 if ms["c"] is None else ms["c"] + 1
            if rc != mo["c"]:
                add("drift", f"{name}:centre", f"{name}: real declared centre {rc} vs model {mo['c']} (1-based, 0 = None)")
            weak = [i for i in mo["l"] if ms["ldef"][i - 1] > ISO_TOL] + [-i for i in mo["r"] if ms["rdef"][i - 1] > ISO_TOL]
            if weak:
                add("drift", f"{name}:flags-weaker-than-model", f"{name}: model knows isometries the real tensors do not have (sites {weak}, + left / - right)")
            wb = [bb for bb in mo["bd"] if ms["bonds"][bb - 1] > ms["cap"]]
            if wb:
                add("drift", f"{name}:bond-flag", f"{name}: model says bonds {wb} <= cap, real bonds {ms['bonds']} cap {ms['cap']}")
        rs = real_sharing(world)
        for pair, sites in rs.items():
            extra = sites - model_post["share"].get(pair, set())
            if extra:
                add("drift", f"{name}:more-sharing-than-model", f"{name}: slots {pair} share tensors at sites {sorted(extra)} the model does not know")
    return F


# ------------------------------------------------------------------------------------------ replays
def draw_params(rng, n: int, small: bool) -> dict:
    """numeric configuration of one world (continuous part of the scenario; TLC supplies the discrete part)"""
    d = int(rng.choice([2, 2, 3]))
    chi_max = 6 if small else (32 if d**n <= 70000 and n <= 8 else 12)
    return {
        "seed": int(rng.integers(0, 2**31)),
        "dim": d,
        "chi": int(rng.integers(1, chi_max + 1)),
        "decay": float(rng.choice([1.0, 0.7, 0.3, 0.1, 0.03])),
        # most draws in the range where truncation actually discards something on O(1)-norm states
        "precision": float(10 ** (rng.uniform(-5, -1) if rng.random() < 0.65 else rng.uniform(-12, -5))),
        "cap": int(rng.choice([1, 2, 3, 4, 6, 8, 16, 32, 64])),
    }


def summarise(findings: list[dict], acc: dict, path: list, params: dict, n: int) -> None:
    for f in findings:
        if f["key"] is None:
            k = f"{f['prop']}:{f['what']}"
            acc["margins"][k] = max(acc["margins"].get(k, 0.0), float(f["margin"]))
            acc["checks"][k] = acc["checks"].get(k, 0) + 1
        elif f["prop"] == "drift":
            if len(acc["drift"]) < 50:
                acc["drift"].append({"key": f["key"], "what": f["what"], "n": n, "path": list(path)})
        else:
            if len(acc["violations"]) < 200:
                acc["violations"].append({"prop": f["prop"], "key": f["key"], "what": f["what"], "n": n, "params": params, "path": list(path)})


def new_acc() -> dict:
    return {"margins": {}, "checks": {}, "drift": [], "violations": [], "transitions": 0, "ops": {}, "states": 0, "unreached": 0}


def replay_graph_task(task: dict) -> dict:
    """Replay every distinct (pre-state, action) transition of the TLC graph for one n on real objects
    (one witness per abstract state, found breadth first)."""
    import torch

    torch.set_num_threads(1)
    nslots, n, params = task["nslots"], task["n"], task["params"]
    trans: dict[tuple, dict] = {}
    for r in task["rows"]:
        trans.setdefault(tuple(r["pre"]), {})[(r["op"], r["a"], r["b"], r["res"], r["k"])] = tuple(r["post"])
    acc = new_acc()
    L = 5 * nslots + nslots * nslots
    init = tuple([0] * L)
    w0 = World(n, params)
    witness = {init: w0}
    frontier = [init]
    with SplitSpy() as spy:
        if spy.missing:
            acc["drift"].append({"key": "split_matrix-lookup", "what": "split_matrix is not a module attribute of emu_mps.utils and emu_mps.solver_utils any more", "n": n, "path": []})
        while frontier:
            nxt = []
            for key in frontier:
                for act, post in sorted(trans.get(key, {}).items()):
                    w = witness[key].fork()
                    op = dict(zip(("op", "a", "b", "res", "k"), act))
                    out = real_step(w, op, spy)
                    fs = evaluate(w, op, out, decode_state(post, nslots, n))
                    summarise(fs, acc, w.path, params, n)
                    acc["transitions"] += 1
                    acc["ops"][op["op"]] = acc["ops"].get(op["op"], 0) + 1
                    if post not in witness and "raised" not in out:
                        witness[post] = w
                        nxt.append(post)
            frontier = nxt
    acc["states"] = len(witness)
    acc["unreached"] = len(set(trans) - set(witness))
    return acc


def replay_paths_task(task: dict) -> dict:
    """Replay whole behaviours (lists of actions) from TLC's simulator on bigger real objects."""
    import torch

    torch.set_num_threads(1)
    acc = new_acc()
    with SplitSpy() as spy:
        for beh in task["behaviours"]:
            w = World(beh["n"], beh["params"])
            for op in beh["ops"]:
                out = real_step(w, op, spy)
                fs = evaluate(w, op, out, op.get("post"))
                summarise(fs, acc, w.path, beh["params"], beh["n"])
                acc["transitions"] += 1
                acc["ops"][op["op"]] = acc["ops"].get(op["op"], 0) + 1
                if "raised" in out:
                    break
            acc["states"] += 1
    return acc


def merge(accs: list[dict]) -> dict:
    tot = new_acc()
    for a in accs:
        for k, v in a["margins"].items():
            tot["margins"][k] = max(tot["margins"].get(k, 0.0), v)
        for k, v in a["checks"].items():
            tot["checks"][k] = tot["checks"].get(k, 0) + v
        for k, v in a["ops"].items():
            tot["ops"][k] = tot["ops"].get(k, 0) + v
        tot["drift"] += a["drift"]
        tot["violations"] += a["violations"]
        for k in ("transitions", "states", "unreached"):
            tot[k] += a[k]
    return tot


def sim_behaviours(sim_dir, nslots: int) -> list[dict]:
    """Parse the behaviour files written by `-simulate file=...` into op lists with model post-states."""
    from pathlib import Path

    from harness.tlc import parse_sim_file

    behs = []
    for f in sorted(Path(sim_dir).glob("beh*")):
        states = parse_sim_file(f)
        if len(states) < 2:
            continue
        n = states[0]["vars"]["n"]
        ops = []
        for st in states[1:]:
            v = st["vars"]
            l = v["last"]
            post = {"obj": {}, "share": {}}
            for s in range(nslots):
                o = v["obj"][s]
                tb = lambda seq: {i + 1 for i, x in enumerate(seq) if x}
                post["obj"][s + 1] = {"live": o["live"], "c": o["c"], "l": tb(o["l"]), "r": tb(o["r"]), "bd": tb(o["bd"])}
            for x in range(nslots):
                for y in range(x + 1, nslots):
                    sh = v["share"][x][y]
                    post["share"][(x + 1, y + 1)] = set(sh["__set__"]) if isinstance(sh, dict) else set(sh)
            ops.append({"op": l["op"], "a": l["a"], "b": l["b"], "res": l["res"], "k": l["k"], "post": post})
        behs.append({"n": n, "ops": ops, "file": f.name})
    return behs


# ------------------------------------------------------------------------------------------ in-situ TDVP sweeps
def make_sequence_data(rng: np.random.Generator, n: int, steps: int, dt: float, dim: int = 2, bad=None, kind: str = "rydberg",
                       lindblad=None, scale: float = 1.0):
    """A SequenceData built directly (arbitrary Hamiltonian parameters); returns (data, numpy parameter dict)."""
    import torch
    from emu_base import HamiltonianType, SequenceData

    om = rng.uniform(0.0, 12.0, (steps, n)) * scale
    de = rng.uniform(-15.0, 15.0, (steps, n)) * scale
    ph = rng.uniform(0.0, 2 * math.pi, (steps, n)) * float(rng.choice([0.0, 1.0]))
    U = np.triu(rng.uniform(0.0, 8.0, (n, n)) * (rng.random((n, n)) < 0.8), 1) * scale
    U = U + U.T
    Ut = torch.tensor(U)
    eig = ["r", "g"] if dim == 2 else ["r", "g", "x"]
    if kind == "xy":
        eig = ["u", "d"] if dim == 2 else ["u", "d", "x"]
    data = SequenceData(
        torch.tensor(om, dtype=torch.complex128), torch.tensor(de, dtype=torch.complex128), torch.tensor(ph, dtype=torch.complex128), (lambda t: Ut), tuple(f"q{i}" for i in range(n)),
        tuple(bool(x) for x in (bad if bad is not None else [False] * n)), list(lindblad or []), 0.1 if bad is not None else 0.0,
        [float(i * dt) for i in range(steps + 1)], eig, HamiltonianType.Rydberg if kind == "rydberg" else HamiltonianType.XY,
    )
    return data, {"omega": om, "delta": de, "phi": ph, "U": U}


def insitu_task(task: dict) -> dict:
    """Real TDVP sweeps (MPSBackendImpl.progress) with the split spy on: after every unit of work the
    state must be canonical around its declared centre, within the cap, and every split must have
    discarded <= precision^2 unless the cap was binding."""
    import torch
    from emu_mps import MPSConfig
    from emu_mps.mps_backend_impl import create_impl
    from pulser.backend import Occupation

    torch.set_num_threads(1)
    acc = new_acc()
    rng = np.random.default_rng(task["seed"])
    n, steps, dt = task["n"], task["steps"], task["dt"]
    P, C = task["precision"], task["cap"]
    data, _ = make_sequence_data(rng, n, steps, dt)
    cfg = MPSConfig(dt=dt, precision=P, max_bond_dim=C, observables=[Occupation(evaluation_times=[1.0])], log_level=logging.ERROR,
                    optimize_qubit_ordering=False)
    desc = {"insitu": True, **{k: task[k] for k in ("seed", "n", "steps", "dt", "precision", "cap")}}

    def viol(key, what):
        if len(acc["violations"]) < 50:
            acc["violations"].append({"prop": "C10", "key": key, "what": what, "n": n, "params": desc, "path": [("progress", acc["transitions"])]})

    with SplitSpy() as spy:
        try:
            impl = create_impl(data, cfg)
            impl.init()
            spy.take()
            guard = 0
            while not impl.is_finished() and guard < 10000:
                guard += 1
                impl.progress()
                acc["transitions"] += 1
                ms = measure(impl.state)
                c = ms["c"]
                if c is None:
                    acc["drift"].append({"key": "insitu:centre-none", "what": "TDVP state has no declared centre after progress()", "n": n, "path": []})
                else:
                    worst = max([ms["ldef"][i] for i in range(c)] + [ms["rdef"][i] for i in range(c + 1, len(ms["ldef"]))] + [0.0])
                    acc["margins"]["C10:insitu-canonical"] = max(acc["margins"].get("C10:insitu-canonical", 0.0), worst / ISO_TOL)
                    acc["checks"]["C10:insitu-canonical"] = acc["checks"].get("C10:insitu-canonical", 0) + 1
                    if worst > ISO_TOL:
                        viol("tdvp:declared-centre-not-canonical", f"after progress() #{guard}: declared centre {c}, isometry defect {worst:.2e}")
                if ms["bonds"] and max(ms["bonds"]) > C:
                    viol("tdvp:bond-exceeds-max-bond-dim", f"after progress() #{guard}: bonds {ms['bonds']} > max_bond_dim {C}")
                for r in spy.take():
                    if "error" in r or r["preserve_norm"]:
                        continue
                    acc["ops"]["EvolvePair"] = acc["ops"].get("EvolvePair", 0) + 1
                    if r["kept"] > C:
                        viol("tdvp:split-exceeds-max-bond-dim", f"split kept {r['kept']} > {C}")
                    if r["kept"] < C:
                        g = P * P + ROUND_W * max(r["frob2"], 1e-300)
                        acc["margins"]["C10:insitu-split-discarded"] = max(acc["margins"].get("C10:insitu-split-discarded", 0.0), r["w_act"] / g)
                        acc["checks"]["C10:insitu-split-discarded"] = acc["checks"].get("C10:insitu-split-discarded", 0) + 1
                        if not r["w_act"] <= g:
                            viol("tdvp:split-discards-more-than-precision^2", f"split of {r['shape']} kept {r['kept']} < cap {C}, discarded {r['w_act']:.3e} > {P*P:.3e}")
                    else:
                        acc["checks"]["C10:insitu-cap-bound-splits"] = acc["checks"].get("C10:insitu-cap-bound-splits", 0) + 1
        except Exception as ex:  # a run that cannot be carried out is not evidence about C10
            acc["drift"].append({"key": "insitu:raised", "what": f"{type(ex).__name__}: {ex}", "n": n, "path": []})
    acc["states"] = 1
    return acc
